/-
  Lemmas/KingMoves.lean — the king-move part of the generator is exact (a first exactness result for C01):
  the targets the generator emits for the king are exactly the squares one king step away that hold no own piece and are
  not attacked once the king is lifted off the board — which is the rules' legality condition for a king step.
-/
import ChessVerif.Lemmas.Forbidden
import ChessVerif.Lemmas.LegalShape
namespace Chess

theorem bnot_testBit (x : BB) (t : Nat) (ht : t < 64) : (bnot x).testBit t = !x.testBit t := by
  unfold bnot
  rw [Nat.testBit_xor]
  have : (18446744073709551615 : Nat).testBit t = true := by
    have e : (18446744073709551615 : Nat) = 2 ^ 64 - 1 := by decide
    rw [e, Nat.testBit_two_pow_sub_one]; simp [ht]
  rw [this]; simp

/-- model side: the generator's king targets -/
theorem kingTarget_model (p : Position) (side t k kq : Nat) (hside : side ≤ 1) (ht : t < 64) (ok : BoardOK p.board)
    (hk : KingAt p.board side k) (hkq : KingAt p.board (1 - side) kq) :
    (mkMove k t ∈ genKingMoves k (forbiddenSquares (BBs.of p) p.board side ||| (BBs.of p).color side)) ↔
      ((kingMask k).testBit t = true ∧ ¬ (p.board.getD t 0 ≠ 0 ∧ colorOf (p.board.getD t 0) = side) ∧
       Spec.attacked (p.board.set k 0) t (1 - side) = false) := by
  unfold genKingMoves
  simp only [List.mem_map]
  have hinj : ∀ a, a < 64 → mkMove k a = mkMove k t → a = t := by
    intro a ha he
    have h1 := (Props.C16_encoding_move k a hk.lt ha).2.1
    have h2 := (Props.C16_encoding_move k t hk.lt ht).2.1
    rw [he] at h1; rw [h1] at h2; exact h2
  have hbit : (kingMask k &&& bnot (forbiddenSquares (BBs.of p) p.board side ||| (BBs.of p).color side)).testBit t = true ↔
      ((kingMask k).testBit t = true ∧ ¬ (p.board.getD t 0 ≠ 0 ∧ colorOf (p.board.getD t 0) = side) ∧
       Spec.attacked (p.board.set k 0) t (1 - side) = false) := by
    rw [Nat.testBit_and, bnot_testBit _ t ht, Nat.testBit_or, forbidden_eq_attacked p side t k kq hside ht ok hk hkq,
      color_testBit p side t hside ok]
    simp only [Bool.and_eq_true, Bool.not_eq_true', Bool.or_eq_false_iff, decide_eq_false_iff_not, Bool.and_eq_false_iff, decide_eq_true_eq]
    constructor
    · rintro ⟨a, b, c⟩
      refine ⟨a, ?_, b⟩
      rcases c with c | c
      · exact absurd ht c
      · exact c
    · rintro ⟨a, b, c⟩
      exact ⟨a, c, Or.inr b⟩
  rw [← hbit]
  constructor
  · rintro ⟨a, ha, he⟩
    have := (mem_bitsOf _ a).1 ha
    have hat := hinj a this.1 he
    rw [← hat]; exact this.2
  · intro h
    exact ⟨t, (mem_bitsOf _ t).2 ⟨ht, h⟩, rfl⟩

end Chess

namespace Chess

theorem pcAt_set_ne (b : List Nat) (s x sq : Nat) (h : sq ≠ s) : Spec.pcAt (b.set s x) sq = Spec.pcAt b sq := by
  show (b.set s x).getD sq 0 = b.getD sq 0
  have e1 : (b.set s x).getD sq 0 = gd (b.set s x) sq := rfl
  rw [e1, gd_set, if_neg (fun hh => h hh.1.symm)]; rfl

/-- the ray walk from (f, r) never looks at the starting square: changing its content changes nothing -/
theorem firstPiece_indep (b : List Nat) (s x : Nat) (d : Int × Int) (hd : d ∈ allDirs) (f r : Int)
    (hs : (s : Int) = r * 8 + f) (hf : 0 ≤ f ∧ f < 8) :
    ∀ (n : Nat) (j : Nat), Spec.firstPiece (b.set s x) d n (f + j * d.1) (r + j * d.2) = Spec.firstPiece b d n (f + j * d.1) (r + j * d.2) := by
  intro n
  induction n with
  | zero => intro j; rfl
  | succ n ih =>
    intro j
    unfold Spec.firstPiece
    simp only []
    have e1 : f + ↑j * d.1 + d.1 = f + ((j + 1 : Nat) : Int) * d.1 := by rw [Int.natCast_succ, Int.add_mul]; omega
    have e2 : r + ↑j * d.2 + d.2 = r + ((j + 1 : Nat) : Int) * d.2 := by rw [Int.natCast_succ, Int.add_mul]; omega
    rw [e1, e2]
    by_cases hon : Spec.onBoard (f + ((j + 1 : Nat) : Int) * d.1) (r + ((j + 1 : Nat) : Int) * d.2) = true
    · rw [if_pos hon, if_pos hon]
      have hne : Spec.sqOf (f + ((j + 1 : Nat) : Int) * d.1) (r + ((j + 1 : Nat) : Int) * d.2) ≠ s := by
        intro he
        rw [onBoard_iff'] at hon
        have hv : ((Spec.sqOf (f + ((j + 1 : Nat) : Int) * d.1) (r + ((j + 1 : Nat) : Int) * d.2) : Nat) : Int) =
            (r + ((j + 1 : Nat) : Int) * d.2) * 8 + (f + ((j + 1 : Nat) : Int) * d.1) := by
          unfold Spec.sqOf; omega
        rw [he, hs] at hv
        simp [allDirs] at hd
        rcases hd with rfl | rfl | rfl | rfl | rfl | rfl | rfl | rfl <;> simp at hv hon <;> omega
      rw [pcAt_set_ne b s x _ hne]
      split
      · rfl
      · exact ih (j + 1)
    · rw [if_neg hon, if_neg hon]
where
  onBoard_iff' : ∀ (f r : Int), Spec.onBoard f r = true ↔ (0 ≤ f ∧ f < 8 ∧ 0 ≤ r ∧ r < 8) := by
    intro f r
    unfold Spec.onBoard
    simp only [Bool.and_eq_true, decide_eq_true_eq]
    constructor
    · rintro ⟨⟨⟨a, b⟩, c⟩, d⟩; exact ⟨a, b, c, d⟩
    · rintro ⟨a, b, c, d⟩; exact ⟨⟨⟨a, b⟩, c⟩, d⟩

end Chess

namespace Chess

theorem any_congr_mem {α : Type} (l : List α) (f g : α → Bool) (h : ∀ x, x ∈ l → f x = g x) : l.any f = l.any g := by
  induction l with
  | nil => rfl
  | cons a as ih =>
    simp only [List.any_cons]
    rw [h a (by simp), ih (fun x hx => h x (by simp [hx]))]

/-- whether a square is attacked does not depend on what stands on it -/
theorem attacked_indep (b : List Nat) (s x by_ : Nat) (hs : s < 64) : Spec.attacked (b.set s x) s by_ = Spec.attacked b s by_ := by
  obtain ⟨c1, c2, c3, c4, c5⟩ := coords' s hs
  have hfp : ∀ d, d ∈ allDirs → Spec.firstPiece (b.set s x) d 7 (Spec.fileI s) (Spec.rankI s) = Spec.firstPiece b d 7 (Spec.fileI s) (Spec.rankI s) := by
    intro d hd
    have := firstPiece_indep b s x d hd (Spec.fileI s) (Spec.rankI s) c5 ⟨c1, c2⟩ 7 0
    simpa using this
  have hoff : ∀ (df dr : Int), (df, dr) ≠ (0, 0) → -2 ≤ df → df ≤ 2 → -2 ≤ dr → dr ≤ 2 → Spec.onBoard (Spec.fileI s + df) (Spec.rankI s + dr) = true →
      Spec.pcAt (b.set s x) (Spec.sqOf (Spec.fileI s + df) (Spec.rankI s + dr)) = Spec.pcAt b (Spec.sqOf (Spec.fileI s + df) (Spec.rankI s + dr)) := by
    intro df dr hne h1 h2 h3 h4 hon
    apply pcAt_set_ne
    intro he
    rw [firstPiece_indep.onBoard_iff'] at hon
    have hv : ((Spec.sqOf (Spec.fileI s + df) (Spec.rankI s + dr) : Nat) : Int) = (Spec.rankI s + dr) * 8 + (Spec.fileI s + df) := by
      unfold Spec.sqOf; omega
    rw [he, c5] at hv
    have : df = 0 ∧ dr = 0 := by omega
    exact hne (by rw [this.1, this.2])
  unfold Spec.attacked
  simp only []
  -- pawn
  have e1 : Spec.fileI s - 1 = Spec.fileI s + -1 := by omega
  have hp : ∀ pr : Int, (pr = Spec.rankI s - 1 ∨ pr = Spec.rankI s + 1) → ∀ pf : Int, (pf = Spec.fileI s - 1 ∨ pf = Spec.fileI s + 1) →
      (Spec.onBoard pf pr && decide (Spec.pcAt (b.set s x) (Spec.sqOf pf pr) = Spec.mkPc by_ 1)) =
      (Spec.onBoard pf pr && decide (Spec.pcAt b (Spec.sqOf pf pr) = Spec.mkPc by_ 1)) := by
    intro pr hpr pf hpf
    by_cases hon : Spec.onBoard pf pr = true
    · have : Spec.pcAt (b.set s x) (Spec.sqOf pf pr) = Spec.pcAt b (Spec.sqOf pf pr) := by
        have hh := hoff (pf - Spec.fileI s) (pr - Spec.rankI s) (by intro h; simp at h; rcases hpr with h1 | h1 <;> omega) (by rcases hpf with h | h <;> omega)
          (by rcases hpf with h | h <;> omega) (by rcases hpr with h | h <;> omega) (by rcases hpr with h | h <;> omega)
          (by have e : Spec.fileI s + (pf - Spec.fileI s) = pf := by omega
              have e' : Spec.rankI s + (pr - Spec.rankI s) = pr := by omega
              rw [e, e']; exact hon)
        have e : Spec.fileI s + (pf - Spec.fileI s) = pf := by omega
        have e' : Spec.rankI s + (pr - Spec.rankI s) = pr := by omega
        rw [e, e'] at hh; exact hh
      rw [this]
    · have : Spec.onBoard pf pr = false := by simpa using hon
      rw [this]; rfl
  have hpr : (if by_ = 0 then Spec.rankI s - 1 else Spec.rankI s + 1) = Spec.rankI s - 1 ∨ (if by_ = 0 then Spec.rankI s - 1 else Spec.rankI s + 1) = Spec.rankI s + 1 := by
    split
    · exact Or.inl rfl
    · exact Or.inr rfl
  have hpawn : ([Spec.fileI s - 1, Spec.fileI s + 1].any fun pf =>
        Spec.onBoard pf (if by_ = 0 then Spec.rankI s - 1 else Spec.rankI s + 1) &&
          decide (Spec.pcAt (b.set s x) (Spec.sqOf pf (if by_ = 0 then Spec.rankI s - 1 else Spec.rankI s + 1)) = Spec.mkPc by_ 1)) =
      ([Spec.fileI s - 1, Spec.fileI s + 1].any fun pf =>
        Spec.onBoard pf (if by_ = 0 then Spec.rankI s - 1 else Spec.rankI s + 1) &&
          decide (Spec.pcAt b (Spec.sqOf pf (if by_ = 0 then Spec.rankI s - 1 else Spec.rankI s + 1)) = Spec.mkPc by_ 1)) := by
    simp only [List.any_cons, List.any_nil, Bool.or_false]
    rw [hp _ hpr _ (Or.inl rfl), hp _ hpr _ (Or.inr rfl)]
  have hstep : ∀ (offs : List (Int × Int)) (pc : Nat), (∀ d, d ∈ offs → d ≠ (0, 0) ∧ -2 ≤ d.1 ∧ d.1 ≤ 2 ∧ -2 ≤ d.2 ∧ d.2 ≤ 2) →
      (offs.any fun d => Spec.onBoard (Spec.fileI s + d.1) (Spec.rankI s + d.2) &&
          decide (Spec.pcAt (b.set s x) (Spec.sqOf (Spec.fileI s + d.1) (Spec.rankI s + d.2)) = pc)) =
      (offs.any fun d => Spec.onBoard (Spec.fileI s + d.1) (Spec.rankI s + d.2) &&
          decide (Spec.pcAt b (Spec.sqOf (Spec.fileI s + d.1) (Spec.rankI s + d.2)) = pc)) := by
    intro offs pc hall
    apply any_congr_mem
    intro d hd
    obtain ⟨h0, h1, h2, h3, h4⟩ := hall d hd
    by_cases hon : Spec.onBoard (Spec.fileI s + d.1) (Spec.rankI s + d.2) = true
    · rw [hoff d.1 d.2 (by intro h; exact h0 (by rw [← h])) h1 h2 h3 h4 hon]
    · have : Spec.onBoard (Spec.fileI s + d.1) (Spec.rankI s + d.2) = false := by simpa using hon
      rw [this]; rfl
  rw [hpawn, hstep Spec.knightOffs _ (by intro d hd; simp [Spec.knightOffs] at hd; rcases hd with rfl | rfl | rfl | rfl | rfl | rfl | rfl | rfl <;> simp),
    hstep Spec.kingOffs _ (by intro d hd; simp [Spec.kingOffs] at hd; rcases hd with rfl | rfl | rfl | rfl | rfl | rfl | rfl | rfl <;> simp)]
  simp only [Spec.diagDirs, Spec.orthoDirs, List.any_cons, List.any_nil, Bool.or_false]
  rw [hfp (1, 1) (by decide), hfp (-1, 1) (by decide), hfp (1, -1) (by decide), hfp (-1, -1) (by decide),
    hfp (0, 1) (by decide), hfp (0, -1) (by decide), hfp (1, 0) (by decide), hfp (-1, 0) (by decide)]
where
  coords' : ∀ (sq : Nat), sq < 64 → 0 ≤ Spec.fileI sq ∧ Spec.fileI sq < 8 ∧ 0 ≤ Spec.rankI sq ∧ Spec.rankI sq < 8 ∧
      (sq : Int) = Spec.rankI sq * 8 + Spec.fileI sq := by
    intro sq h; unfold Spec.fileI Spec.rankI; omega

end Chess

namespace Chess

/-- a king step never spans two files: the king mask of k contains neither k+2 nor k-2 -/
def kingNoTwoOK : Bool := (List.range 64).all fun k => (List.range 64).all fun t =>
  !(kingMask k).testBit t || (decide (t ≠ k + 2) && decide (t + 2 ≠ k) && decide (t ≠ k))
theorem kingNoTwoOK_true : kingNoTwoOK = true := by decide +kernel

theorem king_step_shape (k t : Nat) (hk : k < 64) (ht : t < 64) (h : (kingMask k).testBit t = true) : t ≠ k + 2 ∧ t + 2 ≠ k ∧ t ≠ k := by
  have hh := kingNoTwoOK_true
  simp only [kingNoTwoOK, List.all_eq_true, List.mem_range, Bool.or_eq_true, Bool.not_eq_true', Bool.and_eq_true, decide_eq_true_eq] at hh
  rcases hh k hk t ht with h1 | h1
  · rw [h] at h1; cases h1
  · exact ⟨h1.1.1, h1.1.2, h1.2⟩

theorem kingMask_iff (k t : Nat) (hk : k < 64) :
    (kingMask k).testBit t = true ↔ ∃ d, d ∈ Spec.kingOffs ∧ Spec.onBoard (Spec.fileI k + d.1) (Spec.rankI k + d.2) = true ∧
      t = Spec.sqOf (Spec.fileI k + d.1) (Spec.rankI k + d.2) := by
  rw [(Props.C11_leapers k hk).2]
  unfold Spec.kingSet
  have hmeet := leaperSet_meets Spec.kingSteps k (sqBB t)
  rw [Nat.and_comm, sqBB_and_ne_zero] at hmeet
  rw [hmeet]
  have : Spec.kingSteps = Spec.kingOffs := rfl
  rw [this]
  simp only [List.any_eq_true, Bool.and_eq_true, sqBB_testBit, decide_eq_true_eq]

theorem stepMoves_king_iff (s : Spec.SPos) (k t : Nat) :
    (⟨k, t, 0⟩ : Spec.SMove) ∈ Spec.stepMoves s k Spec.kingOffs ↔
      ∃ d, d ∈ Spec.kingOffs ∧ Spec.onBoard (Spec.fileI k + d.1) (Spec.rankI k + d.2) = true ∧
        t = Spec.sqOf (Spec.fileI k + d.1) (Spec.rankI k + d.2) ∧ Spec.isOwn (Spec.pcAt s.board t) s.side = false := by
  constructor
  · intro h
    obtain ⟨d, hd, hon, hm, hnot⟩ := mem_stepMoves s k Spec.kingOffs _ h
    have ht : t = Spec.sqOf (Spec.fileI k + d.1) (Spec.rankI k + d.2) := by
      have := congrArg Spec.SMove.dst hm; exact this
    exact ⟨d, hd, hon, ht, by rw [ht]; exact hnot⟩
  · rintro ⟨d, hd, hon, ht, hnot⟩
    unfold Spec.stepMoves
    simp only [List.mem_filterMap]
    refine ⟨d, hd, ?_⟩
    rw [ht] at hnot
    rw [if_pos (by simp [hon, hnot]), ht]

end Chess

namespace Chess

theorem isOwn_iff (pc c : Nat) : Spec.isOwn pc c = true ↔ (pc ≠ 0 ∧ colorOf pc = c) := by
  unfold Spec.isOwn Spec.colorOfPc colorOf
  simp only [Bool.and_eq_true, decide_eq_true_eq]

theorem king_isOwn (b : List Nat) (c k : Nat) (hc : c ≤ 1) (hk : KingAt b c k) : Spec.isOwn (Spec.pcAt b k) c = true := by
  rw [isOwn_iff, pcAt_eq', hk.here]
  have : c = 0 ∨ c = 1 := by omega
  rcases this with rfl | rfl <;> decide

theorem king_kind (b : List Nat) (c k : Nat) (hc : c ≤ 1) (hk : KingAt b c k) : kindOf (gd b k) = KING := by
  show kindOf (b.getD k 0) = KING
  rw [hk.here]
  have : c = 0 ∨ c = 1 := by omega
  rcases this with rfl | rfl <;> decide

/-- a pseudo-legal move that starts on the king's square and lands one king step away is a king step -/
theorem pseudo_king_iff (s : Spec.SPos) (hwf : Spec.wf s = true) (k t : Nat) (hk : KingAt s.board s.side k) (ht : t < 64)
    (hmask : (kingMask k).testBit t = true) :
    (⟨k, t, 0⟩ : Spec.SMove) ∈ Spec.pseudoMoves s ↔ Spec.isOwn (Spec.pcAt s.board t) s.side = false := by
  have ok := posOK_of_wf s hwf
  have hkk := king_kind s.board s.side k ok.side hk
  have hown := king_isOwn s.board s.side k ok.side hk
  obtain ⟨sh1, sh2, sh3⟩ := king_step_shape k t hk.lt ht hmask
  obtain ⟨d, hd, hon, htd⟩ := (kingMask_iff k t hk.lt).1 hmask
  constructor
  · intro hm
    unfold Spec.pseudoMoves at hm
    simp only [List.mem_append, List.mem_flatMap, List.mem_range] at hm
    rcases hm with ⟨sq, hsq, hmm⟩ | hc
    · by_cases ho : Spec.isOwn (Spec.pcAt s.board sq) s.side = true
      · rw [if_pos ho] at hmm
        have hkq : Spec.kindOfPc (Spec.pcAt s.board sq) = kindOf (gd s.board sq) := rfl
        rw [hkq] at hmm
        have hsrc : sq = k := by
          have hk6 : kindOf (gd s.board sq) ≤ 6 := kindOf_le6 _
          have hcases : kindOf (gd s.board sq) = 0 ∨ kindOf (gd s.board sq) = 1 ∨ kindOf (gd s.board sq) = 2 ∨ kindOf (gd s.board sq) = 3 ∨
              kindOf (gd s.board sq) = 4 ∨ kindOf (gd s.board sq) = 5 ∨ kindOf (gd s.board sq) = 6 := by omega
          rcases hcases with h | h | h | h | h | h | h <;> rw [h] at hmm <;> simp only [] at hmm
          · simp at hmm
          · exact ((mem_pawnMoves s sq _ hmm).1).symm
          · obtain ⟨_, _, _, e, _⟩ := mem_stepMoves s sq _ _ hmm; exact (congrArg Spec.SMove.src e).symm
          · obtain ⟨_, _, _, _, e⟩ := mem_slideMoves s sq _ _ hmm; exact (congrArg Spec.SMove.src e).symm
          · obtain ⟨_, _, _, _, e⟩ := mem_slideMoves s sq _ _ hmm; exact (congrArg Spec.SMove.src e).symm
          · obtain ⟨_, _, _, _, e⟩ := mem_slideMoves s sq _ _ hmm; exact (congrArg Spec.SMove.src e).symm
          · obtain ⟨_, _, _, e, _⟩ := mem_stepMoves s sq _ _ hmm; exact (congrArg Spec.SMove.src e).symm
        subst hsrc
        rw [hkk] at hmm
        have hmm' : (⟨sq, t, 0⟩ : Spec.SMove) ∈ Spec.stepMoves s sq Spec.kingOffs := hmm
        obtain ⟨d', _, _, e, hnot⟩ := (stepMoves_king_iff s sq t).1 hmm'
        exact hnot
      · rw [if_neg ho] at hmm; simp at hmm
    · exfalso
      obtain ⟨_, hcc⟩ := mem_castleMoves s _ hc
      rcases hcc with ⟨e, _⟩ | ⟨e, _⟩
      · have e1 := congrArg Spec.SMove.src e
        have e2 := congrArg Spec.SMove.dst e
        simp only [] at e1 e2
        omega
      · have e1 := congrArg Spec.SMove.src e
        have e2 := congrArg Spec.SMove.dst e
        simp only [] at e1 e2
        omega
  · intro hnot
    unfold Spec.pseudoMoves
    simp only [List.mem_append, List.mem_flatMap, List.mem_range]
    left
    refine ⟨k, hk.lt, ?_⟩
    rw [if_pos hown]
    have hkq : Spec.kindOfPc (Spec.pcAt s.board k) = 6 := hkk
    rw [hkq]
    exact (stepMoves_king_iff s k t).2 ⟨d, hd, hon, htd, hnot⟩

end Chess

namespace Chess

/-- the board after a king step (not castling): king lifted from k and put on t -/
theorem apply_king_step (s : Spec.SPos) (k t : Nat) (hkind : kindOf (gd s.board k) = KING) (h1 : t ≠ k + 2) (h2 : t + 2 ≠ k) :
    (Spec.apply s ⟨k, t, 0⟩).board = (s.board.set k 0).set t (gd s.board k) := by
  rw [apply_board]
  simp only []
  have hnc : Spec.isCastle s.board ⟨k, t, 0⟩ = false := by
    apply Bool.eq_false_iff.2
    intro h
    have := (isCastle_iff _ _).1 h
    rcases this.2 with h | h
    · exact h1 h
    · exact h2 h
  have hne : Spec.isEpCapture s ⟨k, t, 0⟩ = false := by
    apply Bool.eq_false_iff.2
    intro h
    have := ((isEp_iff _ _).1 h).1
    have e : kindOf (gd s.board k) = PAWN := this
    rw [hkind] at e; exact absurd e (by decide)
  rw [hnc, hne]
  simp

/-- after a king step to t, "the mover is in check" = "t is attacked once the king is lifted from k" -/
theorem inCheck_after_king_step (s : Spec.SPos) (k t : Nat) (hside : s.side ≤ 1) (hlen : s.board.length = 64) (hk : KingAt s.board s.side k)
    (ht : t < 64) (h1 : t ≠ k + 2) (h2 : t + 2 ≠ k) (htk : t ≠ k) :
    Spec.inCheck (Spec.apply s ⟨k, t, 0⟩).board s.side = Spec.attacked (s.board.set k 0) t (1 - s.side) := by
  have hkind := king_kind s.board s.side k hside hk
  rw [apply_king_step s k t hkind h1 h2]
  have hK : gd s.board k = mkPiece s.side KING := hk.here
  rw [hK]
  have hnew : KingAt ((s.board.set k 0).set t (mkPiece s.side KING)) s.side t := by
    refine ⟨ht, ?_, ?_⟩
    · show gd ((s.board.set k 0).set t _) t = _
      rw [gd_set]; simp [hlen, ht]
    · intro q hq hpc
      have hpc' : gd ((s.board.set k 0).set t (mkPiece s.side KING)) q = mkPiece s.side KING := hpc
      rw [gd_set] at hpc'
      by_cases hc : t = q ∧ t < (s.board.set k 0).length
      · exact hc.1.symm
      · rw [if_neg hc, gd_set] at hpc'
        by_cases hc2 : k = q ∧ k < s.board.length
        · rw [if_pos hc2] at hpc'
          exact absurd hpc'.symm (mkPiece_ne_zero _ _ (by decide))
        · rw [if_neg hc2] at hpc'
          have := hk.only q hq hpc'
          exfalso
          apply hc2
          exact ⟨this.symm, by rw [hlen]; exact hk.lt⟩
  unfold Spec.inCheck
  rw [findKing_eq _ _ t hnew]
  exact attacked_indep (s.board.set k 0) t _ _ ht

/-- KING MOVES ARE EXACT (C01, first exactness result): on a well-formed position, for every square t, the generator emits the
    king move k→t exactly when that move is legal under the rules and is not a castling move -/
theorem king_moves_exact (p : Position) (hwf : Spec.wf (absPos p) = true) (k kq t : Nat) (ht : t < 64)
    (hk : KingAt p.board p.side k) (hkq : KingAt p.board (1 - p.side) kq) :
    (mkMove k t ∈ genKingMoves k (forbiddenSquares (BBs.of p) p.board p.side ||| (BBs.of p).color p.side)) ↔
      ((⟨k, t, 0⟩ : Spec.SMove) ∈ Spec.legalMoves (absPos p) ∧ t ≠ k + 2 ∧ t + 2 ≠ k) := by
  have ok := posOK_of_wf _ hwf
  have hside : p.side ≤ 1 := ok.side
  have hbo : BoardOK p.board := ⟨ok.len, ok.codes⟩
  rw [kingTarget_model p p.side t k kq hside ht hbo hk hkq]
  constructor
  · rintro ⟨hmask, hnown, hatt⟩
    obtain ⟨sh1, sh2, sh3⟩ := king_step_shape k t hk.lt ht hmask
    refine ⟨?_, sh1, sh2⟩
    unfold Spec.legalMoves
    apply List.mem_filter.2
    refine ⟨(pseudo_king_iff (absPos p) hwf k t hk ht hmask).2 ?_, ?_⟩
    · apply Bool.eq_false_iff.2
      intro ho
      exact hnown ((isOwn_iff _ _).1 ho)
    · have := inCheck_after_king_step (absPos p) k t hside ok.len hk ht sh1 sh2 sh3
      show (!Spec.inCheck (Spec.apply (absPos p) ⟨k, t, 0⟩).board (absPos p).side) = true
      rw [this]
      show (!Spec.attacked (p.board.set k 0) t (1 - p.side)) = true
      rw [hatt]; rfl
  · rintro ⟨hleg, sh1, sh2⟩
    unfold Spec.legalMoves at hleg
    obtain ⟨hps, hchk⟩ := List.mem_filter.1 hleg
    -- a legal non-castling move from the king's square is a king step
    have hmask : (kingMask k).testBit t = true := by
      have hkk := king_kind p.board p.side k hside hk
      unfold Spec.pseudoMoves at hps
      simp only [List.mem_append, List.mem_flatMap, List.mem_range] at hps
      rcases hps with ⟨sq, hsq, hmm⟩ | hc
      · by_cases ho : Spec.isOwn (Spec.pcAt (absPos p).board sq) (absPos p).side = true
        · rw [if_pos ho] at hmm
          have hkq' : Spec.kindOfPc (Spec.pcAt (absPos p).board sq) = kindOf (gd p.board sq) := rfl
          rw [hkq'] at hmm
          have hsrc : sq = k := by
            have hk6 : kindOf (gd p.board sq) ≤ 6 := kindOf_le6 _
            have hcases : kindOf (gd p.board sq) = 0 ∨ kindOf (gd p.board sq) = 1 ∨ kindOf (gd p.board sq) = 2 ∨ kindOf (gd p.board sq) = 3 ∨
                kindOf (gd p.board sq) = 4 ∨ kindOf (gd p.board sq) = 5 ∨ kindOf (gd p.board sq) = 6 := by omega
            rcases hcases with h | h | h | h | h | h | h <;> rw [h] at hmm <;> simp only [] at hmm
            · simp at hmm
            · exact ((mem_pawnMoves _ sq _ hmm).1).symm
            · obtain ⟨_, _, _, e, _⟩ := mem_stepMoves _ sq _ _ hmm; exact (congrArg Spec.SMove.src e).symm
            · obtain ⟨_, _, _, _, e⟩ := mem_slideMoves _ sq _ _ hmm; exact (congrArg Spec.SMove.src e).symm
            · obtain ⟨_, _, _, _, e⟩ := mem_slideMoves _ sq _ _ hmm; exact (congrArg Spec.SMove.src e).symm
            · obtain ⟨_, _, _, _, e⟩ := mem_slideMoves _ sq _ _ hmm; exact (congrArg Spec.SMove.src e).symm
            · obtain ⟨_, _, _, e, _⟩ := mem_stepMoves _ sq _ _ hmm; exact (congrArg Spec.SMove.src e).symm
          subst hsrc
          rw [hkk] at hmm
          have hmm' : (⟨sq, t, 0⟩ : Spec.SMove) ∈ Spec.stepMoves (absPos p) sq Spec.kingOffs := hmm
          obtain ⟨d, hd, hon, htd, _⟩ := (stepMoves_king_iff _ sq t).1 hmm'
          exact (kingMask_iff sq t hk.lt).2 ⟨d, hd, hon, htd⟩
        · rw [if_neg ho] at hmm; simp at hmm
      · exfalso
        obtain ⟨_, hcc⟩ := mem_castleMoves _ _ hc
        rcases hcc with ⟨e, _⟩ | ⟨e, _⟩
        · have e1 := congrArg Spec.SMove.src e
          have e2 := congrArg Spec.SMove.dst e
          simp only [] at e1 e2
          omega
        · have e1 := congrArg Spec.SMove.src e
          have e2 := congrArg Spec.SMove.dst e
          simp only [] at e1 e2
          omega
    obtain ⟨_, _, sh3⟩ := king_step_shape k t hk.lt ht hmask
    have hnot := (pseudo_king_iff (absPos p) hwf k t hk ht hmask).1 hps
    have hin := inCheck_after_king_step (absPos p) k t hside ok.len hk ht sh1 sh2 sh3
    refine ⟨hmask, ?_, ?_⟩
    · intro ho
      have : Spec.isOwn (Spec.pcAt p.board t) p.side = true := (isOwn_iff _ _).2 ho
      rw [show Spec.isOwn (Spec.pcAt p.board t) p.side = Spec.isOwn (Spec.pcAt (absPos p).board t) (absPos p).side from rfl, hnot] at this
      cases this
    · have hchk' : (!Spec.inCheck (Spec.apply (absPos p) ⟨k, t, 0⟩).board (absPos p).side) = true := hchk
      rw [hin] at hchk'
      have : Spec.attacked (p.board.set k 0) t (1 - p.side) = Spec.attacked ((absPos p).board.set k 0) t (1 - (absPos p).side) := rfl
      rw [this]
      simpa using hchk'

end Chess

namespace Chess

theorem or_ne_zero_iff (a b : Nat) : (a ||| b ≠ 0) ↔ (a ≠ 0 ∨ b ≠ 0) := by
  constructor
  · intro h
    by_cases ha : a = 0
    · right; intro hb; rw [ha, hb] at h; exact h rfl
    · left; exact ha
  · intro h hz
    have := Nat.or_eq_zero_iff.1 hz
    rcases h with h | h
    · exact h this.1
    · exact h this.2

/-- the generator's "are we in check" test (a non-empty checkers set) is the engine's is_in_check -/
theorem checkers_ne_zero_iff (p : Position) (side : Nat) :
    (checkersBB (BBs.of p) p.board side ≠ 0) ↔ isInCheck p side = true := by
  unfold checkersBB isInCheck isInCheckBB
  simp only []
  have hup : (if side = 0 then shift .NW (sqBB (kingSq p.board side)) ||| shift .NE (sqBB (kingSq p.board side))
              else shift .SE (sqBB (kingSq p.board side)) ||| shift .SW (sqBB (kingSq p.board side))) =
      pawnAttacks side (sqBB (kingSq p.board side)) := by
    unfold pawnAttacks
    split
    · rfl
    · rw [Nat.or_comm]
  rw [hup, or_ne_zero_iff, or_ne_zero_iff, or_ne_zero_iff]
  simp only [Bool.or_eq_true, decide_eq_true_eq]

end Chess
