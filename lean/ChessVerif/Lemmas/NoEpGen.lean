/-
  Lemmas/NoEpGen.lean — what the en-passant square adds to the generated list: `genMoves p` is `genMoves` of the same position without
  its en-passant square, plus the `generate_enpassant` list and the en-passant capture of a diagonally pinned pawn.
-/
import ChessVerif.Lemmas.EpGenBasic
namespace Chess

/-- the same position with the en-passant square cleared -/
def noEp (p : Position) : Position := { p with ep := 64 }

/-- the generator with its two en-passant dependent sub-lists as parameters -/
def genWith (p : Position) (E : BB → BB → BB → List Nat) (P : BB → List Nat) : List Nat :=
  let side := p.side
  let board := p.board
  let b := BBs.of p
  let opp := 1 - side
  let checkers := checkersBB b board side
  let attacked := forbiddenSquares b board side
  let k := kingSq board side
  let own := b.color side
  if checkers ≠ 0 ∧ moreThanOne checkers then genKingMoves k (attacked ||| own)
  else
    let (pushMask, captureMask) :=
      if checkers ≠ 0 then
        let cs := lsb checkers
        (if isSlider (board.getD cs 0) then lines k cs ^^^ sqBB k ^^^ sqBB cs else 0, checkers)
      else (bnot b.all, b.color opp)
    let pins := genPins b board side
    let pinned := pins.foldl (fun acc pin => acc ||| sqBB (pinSquare pin)) 0
    let notPinnedPawns := b.ck side PAWN &&& bnot pinned
    let target := captureMask ||| pushMask
    let l := genPawnMoves side notPinnedPawns (bnot b.all) pushMask captureMask
    let l := l ++ (bitsOf (b.ck side KNIGHT &&& bnot pinned)).flatMap (fun s => genPieceMoves b KNIGHT s target)
    let l := l ++ (bitsOf (b.ck side BISHOP &&& bnot pinned)).flatMap (fun s => genPieceMoves b BISHOP s target)
    let l := l ++ (bitsOf (b.ck side ROOK &&& bnot pinned)).flatMap (fun s => genPieceMoves b ROOK s target)
    let l := l ++ (bitsOf (b.ck side QUEEN &&& bnot pinned)).flatMap (fun s => genPieceMoves b QUEEN s target)
    let l := l ++ E notPinnedPawns pushMask captureMask
    let l := l ++ genKingMoves k (attacked ||| own)
    if checkers ≠ 0 then l
    else
      let l := l ++ P (pushMask ||| captureMask)
      let taken := attacked ||| b.all
      let l := l ++ (if side = 0 then
                       (if p.castling &&& W_OO ≠ 0 ∧ (taken &&& castlingPath W_OO) = 0 then [mkCastling KING_CASTLING] else [])
                     else
                       (if p.castling &&& B_OO ≠ 0 ∧ (taken &&& castlingPath B_OO) = 0 then [mkCastling KING_CASTLING] else []))
      let l := l ++ (if side = 0 then
                       (if p.castling &&& W_OOO ≠ 0 ∧ (taken &&& castlingPath W_OOO) = 0 ∧ (queenCastlingBlock 0 &&& b.all) = 0
                        then [mkCastling QUEEN_CASTLING] else [])
                     else
                       (if p.castling &&& B_OOO ≠ 0 ∧ (taken &&& castlingPath B_OOO) = 0 ∧ (queenCastlingBlock 1 &&& b.all) = 0
                        then [mkCastling QUEEN_CASTLING] else []))
      l

def epListOf (p : Position) (e : Nat) : BB → BB → BB → List Nat :=
  fun np pm cm => if e ≠ 64 then genEnpassant (BBs.of p) p.board p.side np pm cm e else []
def pinnedListOf (p : Position) (e : Nat) : BB → List Nat :=
  fun T => (genPins (BBs.of p) p.board p.side).flatMap (fun pin => genPinnedPieceMoves (BBs.of p) p.side pin T e)

theorem genMoves_with (p : Position) : genMoves p = genWith p (epListOf p p.ep) (pinnedListOf p p.ep) := rfl
theorem genMoves_noEp_with (p : Position) : genMoves (noEp p) = genWith p (epListOf p 64) (pinnedListOf p 64) := rfl

end Chess

namespace Chess

/-- changing the two en-passant dependent sub-lists changes membership only through them -/
theorem genWith_split (p : Position) (E E' : BB → BB → BB → List Nat) (P P' : BB → List Nat) (c : Nat) (Q : Prop)
    (hE : ∀ pm cm, c ∈ E' ((BBs.of p).ck p.side PAWN &&& bnot (pinnedBB p)) pm cm → c ∈ E ((BBs.of p).ck p.side PAWN &&& bnot (pinnedBB p)) pm cm ∨ Q) (hP : ∀ T, c ∈ P' T → c ∈ P T ∨ Q)
    (h : c ∈ genWith p E' P') : c ∈ genWith p E P ∨ Q := by
  by_cases hd : checkersBB (BBs.of p) p.board p.side ≠ 0 ∧ moreThanOne (checkersBB (BBs.of p) p.board p.side) = true
  · simp only [genWith, if_pos hd] at h ⊢
    exact Or.inl h
  · by_cases hc : checkersBB (BBs.of p) p.board p.side ≠ 0
    · simp only [genWith, if_neg hd, if_pos hc, List.mem_append] at h ⊢
      rcases h with ((((((h | h) | h) | h) | h) | h) | h)
      · exact Or.inl (Or.inl (Or.inl (Or.inl (Or.inl (Or.inl (Or.inl h))))))
      · exact Or.inl (Or.inl (Or.inl (Or.inl (Or.inl (Or.inl (Or.inr h))))))
      · exact Or.inl (Or.inl (Or.inl (Or.inl (Or.inl (Or.inr h)))))
      · exact Or.inl (Or.inl (Or.inl (Or.inl (Or.inr h))))
      · exact Or.inl (Or.inl (Or.inl (Or.inr h)))
      · rcases hE _ _ h with h' | q
        · exact Or.inl (Or.inl (Or.inr h'))
        · exact Or.inr q
      · exact Or.inl (Or.inr h)
    · simp only [genWith, if_neg hd, if_neg hc, List.mem_append] at h ⊢
      rcases h with (((((((((h | h) | h) | h) | h) | h) | h) | h) | h) | h)
      · exact Or.inl (Or.inl (Or.inl (Or.inl (Or.inl (Or.inl (Or.inl (Or.inl (Or.inl (Or.inl h)))))))))
      · exact Or.inl (Or.inl (Or.inl (Or.inl (Or.inl (Or.inl (Or.inl (Or.inl (Or.inl (Or.inr h)))))))))
      · exact Or.inl (Or.inl (Or.inl (Or.inl (Or.inl (Or.inl (Or.inl (Or.inl (Or.inr h))))))))
      · exact Or.inl (Or.inl (Or.inl (Or.inl (Or.inl (Or.inl (Or.inl (Or.inr h)))))))
      · exact Or.inl (Or.inl (Or.inl (Or.inl (Or.inl (Or.inl (Or.inr h))))))
      · rcases hE _ _ h with h' | q
        · exact Or.inl (Or.inl (Or.inl (Or.inl (Or.inl (Or.inr h')))))
        · exact Or.inr q
      · exact Or.inl (Or.inl (Or.inl (Or.inl (Or.inr h))))
      · rcases hP _ h with h' | q
        · exact Or.inl (Or.inl (Or.inl (Or.inr h')))
        · exact Or.inr q
      · exact Or.inl (Or.inl (Or.inr h))
      · exact Or.inl (Or.inr h)

end Chess

namespace Chess

/-- a pinned pawn with an en-passant square set: the moves without it, plus possibly the capture onto it -/
theorem pinnedPawn_ep_split (b : BBs) (side a r e : Nat) (hs : side ≤ 1) (ha : a < 64) (code : Nat) :
    (code ∈ genPinnedPawnMoves b side a r 64 → code ∈ genPinnedPawnMoves b side a r e) ∧
    (code ∈ genPinnedPawnMoves b side a r e → code ∈ genPinnedPawnMoves b side a r 64 ∨ (e ≠ 64 ∧ code = mkMove a e ∧
      (if side = 0 then ((r % 4 = 0 ∧ e = a + 7 ∧ a % 8 ≠ 0) ∨ (r % 4 = 2 ∧ e = a + 9 ∧ a % 8 ≠ 7)) else ((r % 4 = 0 ∧ a = e + 7 ∧ a % 8 ≠ 7) ∨ (r % 4 = 2 ∧ a = e + 9 ∧ a % 8 ≠ 0))))) := by
  have h64 : ¬ ((64 : Nat) ≠ 64) := by simp
  have hr4 : r % 4 = 0 ∨ r % 4 = 1 ∨ r % 4 = 2 ∨ r % 4 = 3 := by omega
  have hs01 : side = 0 ∨ side = 1 := by omega
  have h10 : ¬ ((1 : Nat) = 0) := by decide
  unfold genPinnedPawnMoves
  simp only [h64, if_false, Nat.or_zero]
  by_cases he : e ≠ 64
  · simp only [if_pos he]
    by_cases h7 : rankOf a = (if side = 0 then 6 else 1)
    · simp only [if_pos h7]
      exact ⟨fun h => h, fun h => Or.inl h⟩
    · simp only [if_neg h7]
      rcases hr4 with q | q | q | q <;> rw [q] <;> simp only []
      · constructor
        · intro h
          by_cases c : (shift (if side = 0 then Dir.NW else Dir.SE) (sqBB a) &&& b.color (1 - side)) ≠ 0
          · rw [if_pos c] at h; rw [if_pos ((and_or_ne_zero _ _ _).2 (Or.inl c))]; exact h
          · rw [if_neg c] at h; cases h
        · intro h
          by_cases cf : (shift (if side = 0 then Dir.NW else Dir.SE) (sqBB a) &&& (b.color (1 - side) ||| sqBB e)) ≠ 0
          · rw [if_pos cf] at h
            rcases (and_or_ne_zero _ _ _).1 cf with c | c2
            · left; rw [if_pos c]; exact h
            · right
              refine ⟨he, ?_⟩
              have hc := List.mem_singleton.1 h
              rcases hs01 with s0 | s1
              · rw [if_pos s0]; rw [s0] at c2 hc; simp only [if_true] at c2 hc
                obtain ⟨g1, g2, g3, this⟩ := (sq_up_iff .NW 7 (Or.inr (Or.inr ⟨rfl, rfl⟩)) a ha (sqBB e)).1 c2
                rw [sqBB_testBit] at this
                have e' : e = a + 7 := by simpa using this
                refine ⟨by rw [hc, e'], ?_⟩
                have := g2; have := g3
                have := g1
                exact Or.inl ⟨trivial, by omega, by omega⟩
              · rw [if_neg (by omega : ¬ side = 0)]; rw [s1] at c2 hc; simp only [h10, if_false] at c2 hc
                obtain ⟨g1, g2, g3, this⟩ := (sq_down_iff .SE 7 (Or.inr (Or.inr ⟨rfl, rfl⟩)) a ha (sqBB e)).1 c2
                rw [sqBB_testBit] at this
                have e' : e = a - 7 := by simpa using this
                refine ⟨by rw [hc, e'], ?_⟩
                have := g2; have := g3
                have := g1
                exact Or.inl ⟨trivial, by omega, by omega⟩
          · rw [if_neg cf] at h; cases h
      · exact ⟨fun h => h, fun h => Or.inl h⟩
      · constructor
        · intro h
          by_cases c : (shift (if side = 0 then Dir.NE else Dir.SW) (sqBB a) &&& b.color (1 - side)) ≠ 0
          · rw [if_pos c] at h; rw [if_pos ((and_or_ne_zero _ _ _).2 (Or.inl c))]; exact h
          · rw [if_neg c] at h; cases h
        · intro h
          by_cases cf : (shift (if side = 0 then Dir.NE else Dir.SW) (sqBB a) &&& (b.color (1 - side) ||| sqBB e)) ≠ 0
          · rw [if_pos cf] at h
            rcases (and_or_ne_zero _ _ _).1 cf with c | c2
            · left; rw [if_pos c]; exact h
            · right
              refine ⟨he, ?_⟩
              have hc := List.mem_singleton.1 h
              rcases hs01 with s0 | s1
              · rw [if_pos s0]; rw [s0] at c2 hc; simp only [if_true] at c2 hc
                obtain ⟨g1, g2, g3, this⟩ := (sq_up_iff .NE 9 (Or.inr (Or.inl ⟨rfl, rfl⟩)) a ha (sqBB e)).1 c2
                rw [sqBB_testBit] at this
                have e' : e = a + 9 := by simpa using this
                refine ⟨by rw [hc, e'], ?_⟩
                have := g2; have := g3
                have := g1
                exact Or.inr ⟨trivial, by omega, by omega⟩
              · rw [if_neg (by omega : ¬ side = 0)]; rw [s1] at c2 hc; simp only [h10, if_false] at c2 hc
                obtain ⟨g1, g2, g3, this⟩ := (sq_down_iff .SW 9 (Or.inr (Or.inl ⟨rfl, rfl⟩)) a ha (sqBB e)).1 c2
                rw [sqBB_testBit] at this
                have e' : e = a - 9 := by simpa using this
                refine ⟨by rw [hc, e'], ?_⟩
                have := g2; have := g3
                have := g1
                exact Or.inr ⟨trivial, by omega, by omega⟩
          · rw [if_neg cf] at h; cases h
      · exact ⟨fun h => h, fun h => Or.inl h⟩
  · have : e = 64 := by simpa using he
    subst this
    simp only [h64, if_false, Nat.or_zero]
    exact ⟨fun h => h, fun h => Or.inl h⟩

end Chess

namespace Chess

/-- the evasion / free masks of the generator -/
def pmOf (p : Position) : BB :=
  if checkersBB (BBs.of p) p.board p.side ≠ 0 then
    (if isSlider (p.board.getD (lsb (checkersBB (BBs.of p) p.board p.side)) 0) then
      lines (kingSq p.board p.side) (lsb (checkersBB (BBs.of p) p.board p.side)) ^^^ sqBB (kingSq p.board p.side) ^^^ sqBB (lsb (checkersBB (BBs.of p) p.board p.side)) else 0)
  else bnot (BBs.of p).all
def cmOf (p : Position) : BB :=
  if checkersBB (BBs.of p) p.board p.side ≠ 0 then checkersBB (BBs.of p) p.board p.side else (BBs.of p).color (1 - p.side)

/-- membership in the generated list, split into the part that does not depend on the en-passant square and the two sub-lists that do -/
theorem mem_genWith (p : Position) (E : BB → BB → BB → List Nat) (P : BB → List Nat) (c : Nat) :
    c ∈ genWith p E P ↔
      (c ∈ genWith p (fun _ _ _ => []) (fun _ => []) ∨
       (¬ (checkersBB (BBs.of p) p.board p.side ≠ 0 ∧ moreThanOne (checkersBB (BBs.of p) p.board p.side) = true) ∧
          c ∈ E ((BBs.of p).ck p.side PAWN &&& bnot (pinnedBB p)) (pmOf p) (cmOf p)) ∨
       (checkersBB (BBs.of p) p.board p.side = 0 ∧ c ∈ P (pmOf p ||| cmOf p))) := by
  unfold pmOf cmOf
  by_cases hd : checkersBB (BBs.of p) p.board p.side ≠ 0 ∧ moreThanOne (checkersBB (BBs.of p) p.board p.side) = true
  · have hc : checkersBB (BBs.of p) p.board p.side ≠ 0 := hd.1
    simp only [genWith, if_pos hd, if_pos hc]
    constructor
    · intro h; exact Or.inl h
    · rintro (h | ⟨h, _⟩ | ⟨h, _⟩)
      · exact h
      · exact absurd hd h
      · exact absurd h hc
  · by_cases hc : checkersBB (BBs.of p) p.board p.side ≠ 0
    · simp only [genWith, if_neg hd, if_pos hc, List.mem_append, List.not_mem_nil, or_false]
      constructor
      · rintro ((((((h | h) | h) | h) | h) | h) | h)
        · exact Or.inl (Or.inl (Or.inl (Or.inl (Or.inl (Or.inl h)))))
        · exact Or.inl (Or.inl (Or.inl (Or.inl (Or.inl (Or.inr h)))))
        · exact Or.inl (Or.inl (Or.inl (Or.inl (Or.inr h))))
        · exact Or.inl (Or.inl (Or.inl (Or.inr h)))
        · exact Or.inl (Or.inl (Or.inr h))
        · exact Or.inr (Or.inl ⟨hd, h⟩)
        · exact Or.inl (Or.inr h)
      · rintro ((((((h | h) | h) | h) | h) | h) | ⟨_, h⟩ | ⟨h, _⟩)
        · exact Or.inl (Or.inl (Or.inl (Or.inl (Or.inl (Or.inl h)))))
        · exact Or.inl (Or.inl (Or.inl (Or.inl (Or.inl (Or.inr h)))))
        · exact Or.inl (Or.inl (Or.inl (Or.inl (Or.inr h))))
        · exact Or.inl (Or.inl (Or.inl (Or.inr h)))
        · exact Or.inl (Or.inl (Or.inr h))
        · exact Or.inr h
        · exact Or.inl (Or.inr h)
        · exact absurd h hc
    · have hc0 : checkersBB (BBs.of p) p.board p.side = 0 := by simpa using hc
      simp only [genWith, if_neg hd, if_neg hc, List.mem_append, List.not_mem_nil, or_false]
      constructor
      · intro h
        simp only [or_assoc] at h ⊢
        rcases h with h | h | h | h | h | h | h | h | h | h
        · exact Or.inl h
        · exact Or.inr (Or.inl h)
        · exact Or.inr (Or.inr (Or.inl h))
        · exact Or.inr (Or.inr (Or.inr (Or.inl h)))
        · exact Or.inr (Or.inr (Or.inr (Or.inr (Or.inl h))))
        · exact Or.inr (Or.inr (Or.inr (Or.inr (Or.inr (Or.inr (Or.inr (Or.inr (Or.inl ⟨hd, h⟩))))))))
        · exact Or.inr (Or.inr (Or.inr (Or.inr (Or.inr (Or.inl h)))))
        · exact Or.inr (Or.inr (Or.inr (Or.inr (Or.inr (Or.inr (Or.inr (Or.inr (Or.inr ⟨hc0, h⟩))))))))
        · exact Or.inr (Or.inr (Or.inr (Or.inr (Or.inr (Or.inr (Or.inl h))))))
        · exact Or.inr (Or.inr (Or.inr (Or.inr (Or.inr (Or.inr (Or.inr (Or.inl h)))))))
      · intro h
        simp only [or_assoc] at h ⊢
        rcases h with h | h | h | h | h | h | h | h | ⟨_, h⟩ | ⟨_, h⟩
        · exact Or.inl h
        · exact Or.inr (Or.inl h)
        · exact Or.inr (Or.inr (Or.inl h))
        · exact Or.inr (Or.inr (Or.inr (Or.inl h)))
        · exact Or.inr (Or.inr (Or.inr (Or.inr (Or.inl h))))
        · exact Or.inr (Or.inr (Or.inr (Or.inr (Or.inr (Or.inr (Or.inl h))))))
        · exact Or.inr (Or.inr (Or.inr (Or.inr (Or.inr (Or.inr (Or.inr (Or.inr (Or.inl h))))))))
        · exact Or.inr (Or.inr (Or.inr (Or.inr (Or.inr (Or.inr (Or.inr (Or.inr (Or.inr h))))))))
        · exact Or.inr (Or.inr (Or.inr (Or.inr (Or.inr (Or.inl h)))))
        · exact Or.inr (Or.inr (Or.inr (Or.inr (Or.inr (Or.inr (Or.inr (Or.inl h)))))))

end Chess

namespace Chess

/-- the en-passant capture of a pawn pinned along the capture diagonal is emitted -/
theorem pinnedPawn_ep_mem (b : BBs) (side a r e : Nat) (hs : side ≤ 1) (ha : a < 64) (he : e ≠ 64) (he64 : e < 64)
    (hrk : rankOf a ≠ (if side = 0 then 6 else 1))
    (hgeo : if side = 0 then ((r % 4 = 0 ∧ e = a + 7 ∧ a % 8 ≠ 0) ∨ (r % 4 = 2 ∧ e = a + 9 ∧ a % 8 ≠ 7))
            else ((r % 4 = 0 ∧ a = e + 7 ∧ a % 8 ≠ 7) ∨ (r % 4 = 2 ∧ a = e + 9 ∧ a % 8 ≠ 0))) :
    mkMove a e ∈ genPinnedPawnMoves b side a r e := by
  have hs01 : side = 0 ∨ side = 1 := by omega
  have h10 : ¬ ((1 : Nat) = 0) := by decide
  have hbit : (sqBB e).testBit e = true := by rw [sqBB_testBit]; simp
  unfold genPinnedPawnMoves
  simp only [if_pos he, if_neg hrk]
  rcases hs01 with s0 | s1
  · rw [if_pos s0] at hgeo
    subst s0
    simp only [if_true]
    rcases hgeo with ⟨q, e7, hf⟩ | ⟨q, e9, hf⟩
    · rw [q]; simp only []
      have c2 : (shift Dir.NW (sqBB a) &&& sqBB e) ≠ 0 :=
        (sq_up_iff .NW 7 (Or.inr (Or.inr ⟨rfl, rfl⟩)) a ha (sqBB e)).2 ⟨by omega, (fun h => absurd h (by decide)), (fun _ => hf), by rw [← e7]; exact hbit⟩
      rw [if_pos ((and_or_ne_zero _ _ _).2 (Or.inr c2)), e7]; exact List.mem_singleton.2 rfl
    · rw [q]; simp only []
      have c2 : (shift Dir.NE (sqBB a) &&& sqBB e) ≠ 0 :=
        (sq_up_iff .NE 9 (Or.inr (Or.inl ⟨rfl, rfl⟩)) a ha (sqBB e)).2 ⟨by omega, (fun _ => hf), (fun h => absurd h (by decide)), by rw [← e9]; exact hbit⟩
      rw [if_pos ((and_or_ne_zero _ _ _).2 (Or.inr c2)), e9]; exact List.mem_singleton.2 rfl
  · rw [if_neg (by omega : ¬ side = 0)] at hgeo
    subst s1
    simp only [h10, if_false]
    rcases hgeo with ⟨q, e7, hf⟩ | ⟨q, e9, hf⟩
    · rw [q]; simp only []
      have ea : e = a - 7 := by omega
      have c2 : (shift Dir.SE (sqBB a) &&& sqBB e) ≠ 0 :=
        (sq_down_iff .SE 7 (Or.inr (Or.inr ⟨rfl, rfl⟩)) a ha (sqBB e)).2 ⟨by omega, (fun h => absurd h (by decide)), (fun _ => hf), by rw [← ea]; exact hbit⟩
      rw [if_pos ((and_or_ne_zero _ _ _).2 (Or.inr c2)), ea]; exact List.mem_singleton.2 rfl
    · rw [q]; simp only []
      have ea : e = a - 9 := by omega
      have c2 : (shift Dir.SW (sqBB a) &&& sqBB e) ≠ 0 :=
        (sq_down_iff .SW 9 (Or.inr (Or.inl ⟨rfl, rfl⟩)) a ha (sqBB e)).2 ⟨by omega, (fun _ => hf), (fun h => absurd h (by decide)), by rw [← ea]; exact hbit⟩
      rw [if_pos ((and_or_ne_zero _ _ _).2 (Or.inr c2)), ea]; exact List.mem_singleton.2 rfl

end Chess
