/-
  Lemmas/ExactUpToEp.lean — with an en-passant square set the generated list is still exact up to the en-passant captures themselves:
  every legal move that is not an en-passant capture is generated, and every generated code is the code of such a legal move or has
  the shape of an en-passant capture (an own pawn moving onto the en-passant square).
-/
import ChessVerif.Lemmas.NoEpSpec
namespace Chess

/-- the shape of an en-passant capture code: an own pawn moving onto the en-passant square -/
def EpShaped (p : Position) (c : Nat) : Prop := ∃ f cap, EpMove p f p.ep cap ∧ c = mkMove f p.ep

/-- an own pawn one capture step away from the en-passant square of a well-formed position makes an `EpMove` -/
theorem epMove_of_step (p : Position) (hwf : Spec.wf (absPos p) = true) (he : p.ep ≠ 64) (f : Nat) (hf : f < 64)
    (hown : p.board.getD f 0 = mkPiece p.side PAWN)
    (hstep : if p.side = 0 then ((p.ep = f + 7 ∧ f % 8 ≠ 0) ∨ (p.ep = f + 9 ∧ f % 8 ≠ 7)) else ((f = p.ep + 7 ∧ f % 8 ≠ 7) ∨ (f = p.ep + 9 ∧ f % 8 ≠ 0))) :
    EpMove p f p.ep (if p.side = 0 then p.ep - 8 else p.ep + 8) := by
  obtain ⟨hrank, hempty, hvictim⟩ := ep_facts (absPos p) hwf he
  have hrank' : if p.side = 0 then p.ep / 8 = 5 else p.ep / 8 = 2 := hrank
  have hvictim' : p.board.getD (if p.side = 0 then p.ep - 8 else p.ep + 8) 0 = mkPiece (1 - p.side) PAWN := by
    have : p.board.getD (if p.side = 0 then p.ep - 8 else p.ep + 8) 0 = Spec.mkPc (1 - p.side) 1 := hvictim
    rw [this, mkPc_eq' _ 1 (by decide)]; rfl
  refine ⟨he, rfl, rfl, hf, ?_, ?_, hown, hempty, hvictim', ?_⟩
  · split at hrank' <;> omega
  · split at hrank' <;> omega
  · by_cases h0 : p.side = 0
    · rw [if_pos h0] at hstep hrank' ⊢; omega
    · rw [if_neg h0] at hstep hrank' ⊢; omega

theorem pinnedList_mono (p : Position) (hwf : Spec.wf (absPos p) = true) (ok : BoardOK p.board) (hs : p.side ≤ 1) (k : Nat) (hking : KingAt p.board p.side k) (T : BB) (c : Nat) :
    (c ∈ pinnedListOf p 64 T → c ∈ pinnedListOf p p.ep T) ∧ (c ∈ pinnedListOf p p.ep T → c ∈ pinnedListOf p 64 T ∨ EpShaped p c) := by
  unfold pinnedListOf
  simp only [List.mem_flatMap]
  have key : ∀ pin, pin ∈ genPins (BBs.of p) p.board p.side →
      (c ∈ genPinnedPieceMoves (BBs.of p) p.side pin T 64 → c ∈ genPinnedPieceMoves (BBs.of p) p.side pin T p.ep) ∧
      (c ∈ genPinnedPieceMoves (BBs.of p) p.side pin T p.ep → c ∈ genPinnedPieceMoves (BBs.of p) p.side pin T 64 ∨ EpShaped p c) := by
    intro pin hpin
    obtain ⟨r, s, rest, hpa, _, ha64, hkind⟩ := pin_scan_of_mem p ok hs k hking pin hpin
    obtain ⟨_, hbf, _, _⟩ := own_piece p ok hs _ hpa.own
    unfold genPinnedPieceMoves
    simp only []
    by_cases hN : pinKind pin = KNIGHT
    · rw [if_pos hN, if_pos hN]; exact ⟨fun h => h, fun h => Or.inl h⟩
    · rw [if_neg hN, if_neg hN]
      by_cases hP : pinKind pin = PAWN
      · rw [if_pos hP, if_pos hP]
        obtain ⟨a, b⟩ := pinnedPawn_ep_split (BBs.of p) p.side (pinSquare pin) (pinRay pin) p.ep hs ha64 c
        refine ⟨a, fun h => ?_⟩
        rcases b h with h' | ⟨he, hc, hg⟩
        · exact Or.inl h'
        · refine Or.inr ⟨pinSquare pin, _, epMove_of_step p hwf he (pinSquare pin) ha64 (by rw [hbf, ← hkind, hP]) ?_, hc⟩
          by_cases h0 : p.side = 0
          · rw [if_pos h0] at hg ⊢; omega
          · rw [if_neg h0] at hg ⊢; omega
      · rw [if_neg hP, if_neg hP]; exact ⟨fun h => h, fun h => Or.inl h⟩
  constructor
  · rintro ⟨pin, hp, h⟩; exact ⟨pin, hp, (key pin hp).1 h⟩
  · rintro ⟨pin, hp, h⟩
    rcases (key pin hp).2 h with h' | q
    · exact Or.inl ⟨pin, hp, h'⟩
    · exact Or.inr q

theorem wf_noEp (p : Position) (hwf : Spec.wf (absPos p) = true) : Spec.wf (absPos (noEp p)) = true := by
  rw [absPos_noEp]; exact wf_clearEp _ hwf
theorem legal_noEp (p : Position) (hwf : Spec.wf (absPos p) = true) (m : Spec.SMove) :
    m ∈ Spec.legalMoves (absPos (noEp p)) ↔ (m ∈ Spec.legalMoves (absPos p) ∧ Spec.isEpCapture (absPos p) m = false) := by
  rw [absPos_noEp]; exact legal_clearEp (absPos p) hwf m
theorem codeOf_noEp (p : Position) (m : Spec.SMove) : codeOf (absPos (noEp p)) m = codeOf (absPos p) m := rfl

/-- **every legal move that is not an en-passant capture is generated** (any well-formed position) -/
theorem legal_nonep_generated (p : Position) (hwf : Spec.wf (absPos p) = true) (m : Spec.SMove)
    (hm : m ∈ Spec.legalMoves (absPos p)) (hne : Spec.isEpCapture (absPos p) m = false) : codeOf (absPos p) m ∈ genMoves p := by
  obtain ⟨hbo, hside, hkk, _, _⟩ := wf_board_hyps _ hwf
  have ok : BoardOK p.board := hbo
  have hs : p.side ≤ 1 := hside
  obtain ⟨k, hk, _⟩ := hkk p.side hs
  have hking : KingAt p.board p.side k := hk
  have hwf' := wf_noEp p hwf
  have hm' := (legal_noEp p hwf m).2 ⟨hm, hne⟩
  have hg := (exact_noep (noEp p) hwf' rfl (codeOf (absPos (noEp p)) m)).2 ⟨m, hm', rfl⟩
  rw [codeOf_noEp] at hg
  rw [genMoves_noEp_with] at hg
  rw [genMoves_with]
  have := genWith_split p (epListOf p p.ep) (epListOf p 64) (pinnedListOf p p.ep) (pinnedListOf p 64) _ False
    (fun pm cm h => by unfold epListOf at h; simp at h)
    (fun T h => Or.inl ((pinnedList_mono p hwf ok hs k hking T _).1 h)) hg
  rcases this with h | h
  · exact h
  · exact h.elim

/-- **every generated code is the code of a legal move that is not an en-passant capture, or has the shape of an en-passant
    capture** (any well-formed position) -/
theorem generated_legal_or_ep (p : Position) (hwf : Spec.wf (absPos p) = true) (c : Nat) (h : c ∈ genMoves p) :
    (∃ m, m ∈ Spec.legalMoves (absPos p) ∧ Spec.isEpCapture (absPos p) m = false ∧ codeOf (absPos p) m = c) ∨ EpShaped p c := by
  obtain ⟨hbo, hside, hkk, _, _⟩ := wf_board_hyps _ hwf
  have ok : BoardOK p.board := hbo
  have hs : p.side ≤ 1 := hside
  obtain ⟨k, hk, _⟩ := hkk p.side hs
  have hking : KingAt p.board p.side k := hk
  have hwf' := wf_noEp p hwf
  rw [genMoves_with] at h
  have := genWith_split p (epListOf p 64) (epListOf p p.ep) (pinnedListOf p 64) (pinnedListOf p p.ep) c (EpShaped p c)
    (fun pm cm hc => by
      right
      unfold epListOf at hc
      by_cases he : p.ep ≠ 64
      · rw [if_pos he, mem_genEnpassant_iff] at hc
        obtain ⟨hrank, _, _⟩ := ep_facts (absPos p) hwf he
        have hrank' : if p.side = 0 then p.ep / 8 = 5 else p.ep / 8 = 2 := hrank
        have he16 : 16 ≤ p.ep ∧ p.ep < 48 := by split at hrank' <;> omega
        have hnp : ∀ j, ((BBs.of p).ck p.side PAWN &&& bnot (pinnedBB p)).testBit j = true → j < 64 := fun j hj => (pawnSrc p ok hs (pinnedBB p) j hj).1
        rcases hc.2 with ⟨hR, hcode, _⟩ | ⟨hL, hcode, _⟩
        · obtain ⟨hb, hfile⟩ := (ep_right_iff p.side hs _ hnp p.ep he16).1 hR
          obtain ⟨f64, fown, _⟩ := pawnSrc p ok hs (pinnedBB p) _ hb
          refine ⟨epR p.side p.ep, _, epMove_of_step p hwf he _ f64 fown ?_, hcode⟩
          unfold epR
          by_cases h0 : p.side = 0
          · rw [if_pos h0] at hfile ⊢; rw [if_pos h0]; omega
          · rw [if_neg h0] at hfile ⊢; rw [if_neg h0]; omega
        · obtain ⟨hb, hfile⟩ := (ep_left_iff p.side hs _ hnp p.ep he16).1 hL
          obtain ⟨f64, fown, _⟩ := pawnSrc p ok hs (pinnedBB p) _ hb
          refine ⟨epL p.side p.ep, _, epMove_of_step p hwf he _ f64 fown ?_, hcode⟩
          unfold epL
          by_cases h0 : p.side = 0
          · rw [if_pos h0] at hfile ⊢; rw [if_pos h0]; omega
          · rw [if_neg h0] at hfile ⊢; rw [if_neg h0]; omega
      · rw [if_neg he] at hc; cases hc)
    (fun T hc => (pinnedList_mono p hwf ok hs k hking T c).2 hc) h
  rcases this with hg | q
  · left
    rw [← genMoves_noEp_with] at hg
    obtain ⟨m, hm, hc⟩ := (exact_noep (noEp p) hwf' rfl c).1 hg
    obtain ⟨hm', hne⟩ := (legal_noEp p hwf m).1 hm
    rw [codeOf_noEp] at hc
    exact ⟨m, hm', hne, hc⟩
  · exact Or.inr q

end Chess
