/-
  Lemmas/MirrorOutposts.lean — `get_outposts<side>` (position_bitboards.h) under the colour mirror, from the tables of
  Lemmas/MirrorOutpostsTab.lean.
-/
import ChessVerif.Lemmas.MirrorOutpostsTab
import ChessVerif.Lemmas.MirrorGeneral
namespace Chess
open Chess.Props

theorem mirror_unique {X Y1 Y2 : BB} (b1 : Y1 < 2 ^ 64) (b2 : Y2 < 2 ^ 64) (h1 : MirrorBB X Y1) (h2 : MirrorBB X Y2) (hX : X < 2 ^ 64) : Y1 = Y2 :=
  (MirrorBB.eq_iff hX hX b1 b2 h1 h2).2 rfl

/-- on one file: the flipped set is empty iff the set is, and its first / last bit is the flip of the set's last / first bit -/
theorem file_scan_mirror (X Y : BB) (hX : X < 2 ^ 64) (hY : Y < 2 ^ 64) (h : MirrorBB X Y) (f : Nat) (hf : f < 8) :
    popcount (Y &&& fileBB f) = popcount (X &&& fileBB f) ∧
    (popcount (X &&& fileBB f) ≠ 0 →
      lsb (Y &&& fileBB f) = flipV (msb (X &&& fileBB f)) ∧ msb (Y &&& fileBB f) = flipV (lsb (X &&& fileBB f)) ∧
      msb (X &&& fileBB f) < 64 ∧ lsb (X &&& fileBB f) < 64) := by
  have ht := fileScanOK_true
  simp only [fileScanOK, List.all_eq_true, List.mem_range, Bool.and_eq_true, decide_eq_true_eq] at ht
  obtain ⟨⟨hsub, hfm⟩, hfl⟩ := ht f hf
  have mf := mirB_sound hfm
  have mon := h.and mf
  refine ⟨mon.popcount, fun hne => ?_⟩
  have hP := forallSubsets_sound fileScanP (bitsOf (fileBB f)) 0 hsub X
  rw [restrict_bitsOf (fileBB f) X hfl, Nat.zero_or] at hP
  simp only [fileScanP, Bool.and_eq_true, Bool.or_eq_true, beq_iff_eq, decide_eq_true_eq] at hP
  obtain ⟨⟨hm, hb⟩, hscan⟩ := hP
  have hne0 : X &&& fileBB f ≠ 0 := by
    intro e0; apply hne; rw [e0]; rfl
  have huniq : Y &&& fileBB f = flipBBc (X &&& fileBB f) :=
    mirror_unique (and_lt hY) hb mon (mirB_sound hm) (and_lt hX)
  rcases hscan with h0 | h1
  · exact absurd h0 hne0
  · rw [huniq]
    exact ⟨h1.1.1.1, h1.1.1.2, h1.1.2, h1.2⟩

theorem slb_mirror (c s : Nat) (hc : c ≤ 1) (hs : s < 64) : MirrorBB (squaresLeftBehind c s) (squaresLeftBehind (1 - c) (flipV s)) := by
  have h := slbOK_true
  simp only [slbOK, List.all_eq_true, List.mem_range] at h
  have hcm : c ∈ [0, 1] := by
    have : c = 0 ∨ c = 1 := by omega
    rcases this with rfl | rfl <;> simp
  exact mirB_sound (h c hcm s hs)

/-- `pick(f)` of `get_outposts<side>`: the most advanced enemy pawn on file f, or the far home square of the file -/
def pickSq (opp : BB) (side f : Nat) : Nat :=
  if popcount (opp &&& fileBB f) ≠ 0 then (if side = 0 then msb (opp &&& fileBB f) else lsb (opp &&& fileBB f))
  else mkSquare (if side = 0 then 0 else 7) f

theorem pick_mirror (X Y : BB) (hX : X < 2 ^ 64) (hY : Y < 2 ^ 64) (h : MirrorBB X Y) (c : Nat) (hc : c ≤ 1) (f : Nat) (hf : f < 8) :
    pickSq Y (1 - c) f = flipV (pickSq X c f) ∧ pickSq X c f < 64 := by
  obtain ⟨hpc, hscan⟩ := file_scan_mirror X Y hX hY h f hf
  have hh := homeOK_true
  simp only [homeOK, List.all_eq_true, List.mem_range, Bool.and_eq_true, beq_iff_eq] at hh
  obtain ⟨⟨h07, h70⟩, _⟩ := hh f hf
  unfold pickSq
  rw [hpc]
  have hc' : c = 0 ∨ c = 1 := by omega
  by_cases hne : popcount (X &&& fileBB f) ≠ 0
  · obtain ⟨a, b, c1, c2⟩ := hscan hne
    rw [if_pos hne, if_pos hne]
    rcases hc' with rfl | rfl
    · simp only [show (1 - 0 : Nat) = 1 from rfl, if_neg (show ¬ (1 : Nat) = 0 by decide), ↓reduceIte]
      exact ⟨a, c1⟩
    · simp only [show (1 - 1 : Nat) = 0 from rfl, if_neg (show ¬ (1 : Nat) = 0 by decide), ↓reduceIte]
      exact ⟨b, c2⟩
  · rw [if_neg hne, if_neg hne]
    rcases hc' with rfl | rfl
    · simp only [show (1 - 0 : Nat) = 1 from rfl, if_neg (show ¬ (1 : Nat) = 0 by decide), ↓reduceIte]
      exact ⟨h07.symm, by unfold mkSquare; omega⟩
    · simp only [show (1 - 1 : Nat) = 0 from rfl, if_neg (show ¬ (1 : Nat) = 0 by decide), ↓reduceIte]
      exact ⟨h70.symm, by unfold mkSquare; omega⟩

theorem getOutposts_eq (b : BBs) (side : Nat) :
    getOutposts b side =
      ((List.range 6).foldl (fun acc k =>
          acc ||| (squaresLeftBehind (1 - side) (pickSq (b.ck (1 - side) PAWN) side (k + 1 - 1)) &&&
                   squaresLeftBehind (1 - side) (pickSq (b.ck (1 - side) PAWN) side (k + 1 + 1))))
        (squaresLeftBehind (1 - side) (pickSq (b.ck (1 - side) PAWN) side 1) &&& fileBB 0 |||
         squaresLeftBehind (1 - side) (pickSq (b.ck (1 - side) PAWN) side 6) &&& fileBB 7)) &&&
      (if side = 0 then shift .NW (b.ck side PAWN) ||| shift .NE (b.ck side PAWN) else shift .SE (b.ck side PAWN) ||| shift .SW (b.ck side PAWN)) &&&
      Chess.bnot (b.kind PAWN) := rfl

theorem foldl_or_mirror (l : List Nat) (f g : Nat → BB) (hfg : ∀ k, k ∈ l → MirrorBB (g k) (f k)) (a a' : BB) (ha : MirrorBB a a') :
    MirrorBB (l.foldl (fun acc k => acc ||| g k) a) (l.foldl (fun acc k => acc ||| f k) a') := by
  induction l generalizing a a' with
  | nil => exact ha
  | cons x l ih =>
    simp only [List.foldl_cons]
    exact ih (fun k hk => hfg k (List.mem_cons_of_mem _ hk)) _ _ (ha.or (hfg x (List.mem_cons_self ..)))

/-- **`get_outposts<side>` under the mirror** -/
theorem outposts_mirror {p q : Position} (m : MirrorPos p q) (c : Nat) (hc : c ≤ 1) :
    MirrorBB (getOutposts (BBs.of p) c) (getOutposts (BBs.of q) (1 - c)) := by
  have hc1 : 1 - c ≤ 1 := by omega
  have e : 1 - (1 - c) = c := by omega
  have hqlen : q.board.length = 64 := by rw [m.hq]; exact mirrorBoard_length _
  have mown := m.ck c PAWN hc (by decide) (by decide)
  have mopp : MirrorBB ((BBs.of p).ck (1 - c) PAWN) ((BBs.of q).ck c PAWN) := by
    have := m.ck (1 - c) PAWN hc1 (by decide) (by decide); rw [e] at this; exact this
  have bo : (BBs.of p).ck (1 - c) PAWN < 2 ^ 64 := MirrorPos.ck_lt _ _ hc1 (by decide) m.len
  have bo' : (BBs.of q).ck c PAWN < 2 ^ 64 := MirrorPos.ck_lt _ _ hc (by decide) hqlen
  have pk : ∀ f, f < 8 → MirrorBB (squaresLeftBehind (1 - c) (pickSq ((BBs.of p).ck (1 - c) PAWN) c f))
      (squaresLeftBehind c (pickSq ((BBs.of q).ck c PAWN) (1 - c) f)) := by
    intro f hf
    obtain ⟨a, b⟩ := pick_mirror _ _ bo bo' mopp c hc f hf
    rw [a]
    have := slb_mirror (1 - c) _ hc1 b
    rw [e] at this; exact this
  have hh := homeOK_true
  simp only [homeOK, List.all_eq_true, List.mem_range, Bool.and_eq_true, beq_iff_eq] at hh
  have mf0 := mirB_sound (hh 0 (by omega)).2
  have mf7 := mirB_sound (hh 7 (by omega)).2
  have mkind : MirrorBB ((BBs.of p).kind PAWN) ((BBs.of q).kind PAWN) := by
    unfold BBs.kind
    have h0 := m.ck 0 PAWN (by decide) (by decide) (by decide)
    have h1 := m.ck 1 PAWN (by decide) (by decide) (by decide)
    simp only [show (1 - 0 : Nat) = 1 from rfl, show (1 - 1 : Nat) = 0 from rfl] at h0 h1
    rw [Nat.or_comm ((BBs.of q).ck 0 PAWN)]
    exact h0.or h1
  have matt : MirrorBB (if c = 0 then shift .NW ((BBs.of p).ck c PAWN) ||| shift .NE ((BBs.of p).ck c PAWN)
                          else shift .SE ((BBs.of p).ck c PAWN) ||| shift .SW ((BBs.of p).ck c PAWN))
                        (if 1 - c = 0 then shift .NW ((BBs.of q).ck (1 - c) PAWN) ||| shift .NE ((BBs.of q).ck (1 - c) PAWN)
                          else shift .SE ((BBs.of q).ck (1 - c) PAWN) ||| shift .SW ((BBs.of q).ck (1 - c) PAWN)) := by
    have hp := mown.pawnAttacks (MirrorPos.ck_lt _ _ hc (by decide) m.len) (MirrorPos.ck_lt _ _ hc1 (by decide) hqlen) c hc
    have hc' : c = 0 ∨ c = 1 := by omega
    unfold pawnAttacks at hp
    rcases hc' with rfl | rfl
    · simp only [show (1 - 0 : Nat) = 1 from rfl, if_neg (show ¬ (1 : Nat) = 0 by decide), ↓reduceIte] at hp ⊢
      rw [Nat.or_comm (shift .SE _) (shift .SW _)]
      exact hp
    · simp only [show (1 - 1 : Nat) = 0 from rfl, if_neg (show ¬ (1 : Nat) = 0 by decide), ↓reduceIte] at hp ⊢
      rw [Nat.or_comm (shift .SE _) (shift .SW _)]
      exact hp
  rw [getOutposts_eq, getOutposts_eq]
  simp only [e]
  refine MirrorBB.and (MirrorBB.and ?_ matt) mkind.bnot
  refine foldl_or_mirror _ _ _ (fun k hk => ?_) _ _ (((pk 1 (by omega)).and mf0).or ((pk 6 (by omega)).and mf7))
  have hk6 : k < 6 := List.mem_range.1 hk
  exact (pk _ (by omega)).and (pk _ (by omega))

end Chess
