/-
  Lemmas/Bits.lean — bit-level facts about the Nat-encoded bitboards: membership in `bitsOf`,
  restriction of an occupancy to a list of squares, subset enumeration.
-/
import ChessVerif.Model.Basic
namespace Chess

theorem sqBB_testBit (b j : Nat) : (sqBB b).testBit j = decide (b = j) := by
  simp [sqBB, Nat.one_shiftLeft, Nat.testBit_two_pow]

/-- `restrict bits occ`: the occupancy `occ` seen only on the squares in `bits` -/
def restrict : List Nat → BB → BB
  | [], _ => 0
  | b :: bs, occ => (if occ.testBit b then sqBB b else 0) ||| restrict bs occ

theorem restrict_testBit (bits : List Nat) (occ : BB) (j : Nat) :
    (restrict bits occ).testBit j = (decide (j ∈ bits) && occ.testBit j) := by
  induction bits with
  | nil => simp [restrict]
  | cons b bs ih =>
    simp only [restrict, Nat.testBit_or, ih, List.mem_cons]
    by_cases hb : occ.testBit b = true
    · by_cases hj : b = j
      · subst hj; simp [hb, sqBB_testBit]
      · have : ¬ j = b := fun h => hj h.symm
        simp [hb, sqBB_testBit, hj, this]
    · by_cases hj : b = j
      · subst hj; simp [hb]
      · have : ¬ j = b := fun h => hj h.symm
        simp [hb, hj, this]

theorem bitsAux_mem (b : BB) (n : Nat) (acc : List Nat) (j : Nat) :
    j ∈ bitsAux b n acc ↔ (j < n ∧ b.testBit j = true) ∨ j ∈ acc := by
  induction n generalizing acc with
  | zero => simp [bitsAux]
  | succ n ih =>
    simp only [bitsAux]
    rw [ih]
    by_cases h : b.testBit n = true
    · simp only [h, if_true, List.mem_cons]
      constructor
      · rintro (⟨h1, h2⟩ | h1 | h1)
        · exact Or.inl ⟨by omega, h2⟩
        · subst h1; exact Or.inl ⟨by omega, h⟩
        · exact Or.inr h1
      · rintro (⟨h1, h2⟩ | h1)
        · by_cases e : j = n
          · exact Or.inr (Or.inl e)
          · exact Or.inl ⟨by omega, h2⟩
        · exact Or.inr (Or.inr h1)
    · simp only [h]
      constructor
      · rintro (⟨h1, h2⟩ | h1)
        · exact Or.inl ⟨by omega, h2⟩
        · exact Or.inr (by simpa using h1)
      · rintro (⟨h1, h2⟩ | h1)
        · by_cases e : j = n
          · subst e; exact absurd h2 h
          · exact Or.inl ⟨by omega, h2⟩
        · exact Or.inr (by simpa using h1)

theorem mem_bitsOf (b : BB) (j : Nat) : j ∈ bitsOf b ↔ j < 64 ∧ b.testBit j = true := by
  simp [bitsOf, bitsAux_mem]

/-- restricting to the squares of a 64-bit mask is `&&&` with the mask -/
theorem restrict_bitsOf (mask occ : BB) (hm : mask < two64) : restrict (bitsOf mask) occ = occ &&& mask := by
  apply Nat.eq_of_testBit_eq
  intro j
  rw [restrict_testBit, Nat.testBit_and]
  by_cases hj : j < 64
  · by_cases hb : mask.testBit j = true
    · have : j ∈ bitsOf mask := (mem_bitsOf mask j).2 ⟨hj, hb⟩
      simp [this, hb]
    · have : ¬ j ∈ bitsOf mask := fun h => hb ((mem_bitsOf mask j).1 h).2
      simp [this, hb]
  · have hlt : mask < 2 ^ j := by
      have h1 : (2:Nat) ^ 64 ≤ 2 ^ j := Nat.pow_le_pow_right (by decide) (by omega)
      have h64 : two64 = 2 ^ 64 := by decide
      rw [h64] at hm
      exact Nat.lt_of_lt_of_le hm h1
    have hb : mask.testBit j = false := Nat.testBit_lt_two_pow hlt
    have : ¬ j ∈ bitsOf mask := fun h => hj ((mem_bitsOf mask j).1 h).1
    simp [this, hb]

/-- enumerate all subsets of `bits` (as bitboards OR-ed onto `acc`) -/
def forallSubsets (P : BB → Bool) : List Nat → BB → Bool
  | [], acc => P acc
  | b :: bs, acc => forallSubsets P bs acc && forallSubsets P bs (acc ||| sqBB b)

theorem forallSubsets_sound (P : BB → Bool) (bits : List Nat) (acc : BB)
    (h : forallSubsets P bits acc = true) (occ : BB) : P (acc ||| restrict bits occ) = true := by
  induction bits generalizing acc with
  | nil => simpa [forallSubsets, restrict] using h
  | cons b bs ih =>
    simp only [forallSubsets, Bool.and_eq_true] at h
    simp only [restrict]
    by_cases hb : occ.testBit b = true
    · have := ih (acc ||| sqBB b) h.2
      simpa [hb, Nat.or_assoc] using this
    · have := ih acc h.1
      simpa [hb] using this

end Chess
