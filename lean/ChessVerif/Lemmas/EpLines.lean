/-
  Lemmas/EpLines.lean — the lines that an en-passant capture opens or closes: an enemy slider sees the king over the new occupancy
  exactly in one of four situations (it saw it before and the capturing pawn does not interpose; the capturer was pinned and leaves
  the line; the captured pawn alone shielded the king; capturer and captured pawn together shielded it along the rank).
-/
import ChessVerif.Lemmas.EpAttack
namespace Chess

theorem thru_cons_ne (y : Nat) (ys : List Nat) (a s : Nat) (hys : y ≠ s) (hya : y ≠ a) : thru (y :: ys) a s = thru ys a s := by
  rw [thru]; rw [if_neg hys, if_neg hya]

theorem filter_head_before (L : List Nat) (occ : BB) (s : Nat) (rest : List Nat) (hnd : L.Nodup)
    (h : L.filter (fun x => occ.testBit x) = s :: rest) :
    s ∈ L ∧ occ.testBit s = true ∧ ∀ x, thru L x s = true → occ.testBit x = false := by
  induction L with
  | nil => simp at h
  | cons y ys ih =>
    have hnd' : List.Pairwise (· ≠ ·) (y :: ys) := hnd
    rw [List.pairwise_cons] at hnd'
    by_cases hy : occ.testBit y = true
    · rw [List.filter_cons, if_pos hy] at h
      have e : y = s := by injection h
      subst e
      refine ⟨List.mem_cons_self, hy, ?_⟩
      intro x hx
      rw [thru, if_pos rfl] at hx; cases hx
    · rw [List.filter_cons, if_neg hy] at h
      obtain ⟨a, b, c⟩ := ih hnd'.2 h
      refine ⟨List.mem_cons_of_mem _ a, b, ?_⟩
      intro x hx
      have hys : y ≠ s := fun e => hnd'.1 s a e
      by_cases hyx : y = x
      · rw [← hyx]; simpa using hy
      · rw [thru_cons_ne y ys x s hys hyx] at hx; exact c x hx

theorem filter_two_before (L : List Nat) (occ : BB) (a s : Nat) (rest : List Nat) (hnd : L.Nodup)
    (h : L.filter (fun x => occ.testBit x) = a :: s :: rest) :
    a ∈ L ∧ s ∈ L ∧ occ.testBit a = true ∧ occ.testBit s = true ∧ a ≠ s ∧ thru L a s = true ∧
      ∀ x, thru L x s = true → occ.testBit x = true → x = a := by
  induction L with
  | nil => simp at h
  | cons y ys ih =>
    have hnd' : List.Pairwise (· ≠ ·) (y :: ys) := hnd
    rw [List.pairwise_cons] at hnd'
    by_cases hy : occ.testBit y = true
    · rw [List.filter_cons, if_pos hy] at h
      have e : y = a := by injection h
      have h2 : ys.filter (fun x => occ.testBit x) = s :: rest := by injection h
      subst e
      obtain ⟨sm, so, sb⟩ := filter_head_before ys occ s rest hnd'.2 h2
      have hys : y ≠ s := fun e => hnd'.1 s sm e
      refine ⟨List.mem_cons_self, List.mem_cons_of_mem _ sm, hy, so, hys, ?_, ?_⟩
      · rw [thru, if_neg hys, if_pos rfl]; simpa using sm
      · intro x hx ho
        by_cases hyx : y = x
        · exact hyx.symm
        · rw [thru_cons_ne y ys x s hys hyx] at hx
          rw [sb x hx] at ho; cases ho
    · rw [List.filter_cons, if_neg hy] at h
      obtain ⟨am, sm, ao, so, has, hth, hb⟩ := ih hnd'.2 h
      have hys : y ≠ s := fun e => hnd'.1 s sm e
      have hya : y ≠ a := fun e => hnd'.1 a am e
      refine ⟨List.mem_cons_of_mem _ am, List.mem_cons_of_mem _ sm, ao, so, has, ?_, ?_⟩
      · rw [thru_cons_ne y ys a s hys hya]; exact hth
      · intro x hx ho
        by_cases hyx : y = x
        · rw [← hyx] at ho; exact absurd ho hy
        · rw [thru_cons_ne y ys x s hys hyx] at hx; exact hb x hx ho

theorem thru_irrefl (L : List Nat) (y : Nat) : thru L y y = false := by
  induction L with
  | nil => rfl
  | cons z zs ih =>
    unfold thru
    by_cases hz : z = y
    · rw [if_pos hz]
    · rw [if_neg hz, if_neg hz]; exact ih

/-- the reverse: one occupied square a before c, c occupied ⇒ the occupied squares of the list start a, c -/
theorem filter_of_one_before (L : List Nat) (occ : BB) (a c : Nat) (hnd : L.Nodup) (hc : c ∈ L) (hoc : occ.testBit c = true) (hoa : occ.testBit a = true)
    (hac : thru L a c = true) (hb : ∀ x, thru L x c = true → occ.testBit x = true → x = a) :
    ∃ rest, L.filter (fun x => occ.testBit x) = a :: c :: rest := by
  induction L with
  | nil => cases hc
  | cons y ys ih =>
    have hnd' : List.Pairwise (· ≠ ·) (y :: ys) := hnd
    rw [List.pairwise_cons] at hnd'
    have hyc : y ≠ c := by
      intro e; rw [thru, if_pos e] at hac; cases hac
    have hcys : c ∈ ys := by
      rcases List.mem_cons.1 hc with e | e
      · exact absurd e.symm hyc
      · exact e
    by_cases hya : y = a
    · subst hya
      -- the rest: c is the first occupied square of ys
      have hfirst : ∀ (zs : List Nat), zs.Nodup → c ∈ zs → (∀ x, thru zs x c = true → occ.testBit x = false) →
          ∃ rest, zs.filter (fun x => occ.testBit x) = c :: rest := by
        intro zs
        induction zs with
        | nil => intro _ h _; cases h
        | cons z zs ih2 =>
          intro hz hcz hbz
          have hz' : List.Pairwise (· ≠ ·) (z :: zs) := hz
          rw [List.pairwise_cons] at hz'
          by_cases hzc : z = c
          · subst hzc; exact ⟨zs.filter (fun x => occ.testBit x), by rw [List.filter_cons, if_pos hoc]⟩
          · have hczs : c ∈ zs := by
              rcases List.mem_cons.1 hcz with e | e
              · exact absurd e.symm hzc
              · exact e
            have hoz : occ.testBit z = false := by
              apply hbz; rw [thru, if_neg hzc, if_pos rfl]; simpa using hczs
            obtain ⟨rest, hr⟩ := ih2 hz'.2 hczs (fun x hx => by
              apply hbz
              by_cases hzx : z = x
              · rw [thru, if_neg hzc, if_pos hzx]; simpa using hczs
              · rw [thru_cons_ne z zs x c hzc hzx]; exact hx)
            exact ⟨rest, by rw [List.filter_cons, if_neg (by simp [hoz]), hr]⟩
      obtain ⟨rest, hr⟩ := hfirst ys hnd'.2 hcys (fun x hx => by
        apply Bool.eq_false_iff.2
        intro ho
        have hyx : y ≠ x := fun e => hnd'.1 x (thru_mem ys x c hx).1 e
        have := hb x (by rw [thru_cons_ne y ys x c hyc hyx]; exact hx) ho
        exact hyx this.symm)
      exact ⟨rest, by rw [List.filter_cons, if_pos hoa, hr]⟩
    · rw [thru_cons_ne y ys a c hyc hya] at hac
      have hoy : occ.testBit y = false := by
        apply Bool.eq_false_iff.2
        intro ho
        have : y = a := hb y (by rw [thru, if_neg hyc, if_pos rfl]; simpa using hcys) ho
        exact hya this
      obtain ⟨rest, hr⟩ := ih hnd'.2 hcys hac (fun x hx ho => by
        by_cases hyx : y = x
        · rw [← hyx, hoy] at ho; cases ho
        · exact hb x (by rw [thru_cons_ne y ys x c hyc hyx]; exact hx) ho)
      exact ⟨rest, by rw [List.filter_cons, if_neg (by simp [hoy]), hr]⟩

end Chess

namespace Chess

/-- a ray walk over the occupancy after an en-passant capture, in terms of the occupancy before it -/
theorem walk_occEp_iff (L : List Nat) (occ : BB) (f t cap c : Nat) (hf : occ.testBit f = true) (hcap : occ.testBit cap = true) (ht : occ.testBit t = false)
    (hcf : cap ≠ f) (hct : cap ≠ t) :
    (Spec.walk L (occEp occ f t cap)).testBit c = true ↔
      (c ∈ L ∧ thru L t c = false ∧ ∀ x, thru L x c = true → occ.testBit x = true → (x = f ∨ x = cap)) := by
  rw [walk_iff]
  constructor
  · rintro ⟨hc, hb⟩
    refine ⟨hc, ?_, ?_⟩
    · apply Bool.eq_false_iff.2
      intro hth
      have := hb t hth
      rw [occEp_testBit occ f t cap t hf hcap ht hcf hct] at this
      simp at this
    · intro x hx ho
      have := hb x hx
      rw [occEp_testBit occ f t cap x hf hcap ht hcf hct, ho] at this
      simp only [Bool.true_and, Bool.or_eq_false_iff, decide_eq_false_iff_not, Bool.and_eq_false_iff, ne_eq, Decidable.not_not] at this
      exact this.2
  · rintro ⟨hc, hth, hb⟩
    refine ⟨hc, ?_⟩
    intro x hx
    rw [occEp_testBit occ f t cap x hf hcap ht hcf hct]
    have hxt : x ≠ t := by intro e; rw [e, hth] at hx; cases hx
    by_cases ho : occ.testBit x = true
    · rcases hb x hx ho with e | e
      · subst e; simp [hxt]
      · subst e; simp [hxt]
    · simp [hxt, ho]

/-- THE FOUR SITUATIONS in which a slider square c is reached from the king over the occupancy after an en-passant capture -/
theorem ep_slider_cases (L : List Nat) (hnd : L.Nodup) (occ : BB) (f t cap c : Nat) (hf : occ.testBit f = true) (hcap : occ.testBit cap = true)
    (ht : occ.testBit t = false) (hcf : cap ≠ f) (hct : cap ≠ t) (hoc : occ.testBit c = true) (hcne : c ≠ f ∧ c ≠ cap) :
    (Spec.walk L (occEp occ f t cap)).testBit c = true ↔
      (thru L t c = false ∧
        ((Spec.walk L occ).testBit c = true ∨
         (∃ rest, L.filter (fun x => occ.testBit x) = f :: c :: rest) ∨
         (∃ rest, L.filter (fun x => occ.testBit x) = cap :: c :: rest) ∨
         (c ∈ L ∧ thru L f c = true ∧ thru L cap c = true ∧ ∀ x, thru L x c = true → occ.testBit x = true → (x = f ∨ x = cap)))) := by
  rw [walk_occEp_iff L occ f t cap c hf hcap ht hcf hct]
  constructor
  · rintro ⟨hc, hth, hb⟩
    refine ⟨hth, ?_⟩
    by_cases bf : thru L f c = true
    · by_cases bc : thru L cap c = true
      · exact Or.inr (Or.inr (Or.inr ⟨hc, bf, bc, hb⟩))
      · right; left
        apply filter_of_one_before L occ f c hnd hc hoc hf bf
        intro x hx ho
        rcases hb x hx ho with e | e
        · exact e
        · rw [e] at hx; exact absurd hx bc
    · by_cases bc : thru L cap c = true
      · right; right; left
        apply filter_of_one_before L occ cap c hnd hc hoc hcap bc
        intro x hx ho
        rcases hb x hx ho with e | e
        · rw [e] at hx; exact absurd hx bf
        · exact e
      · left
        rw [walk_iff]
        refine ⟨hc, ?_⟩
        intro x hx
        apply Bool.eq_false_iff.2
        intro ho
        rcases hb x hx ho with e | e
        · rw [e] at hx; exact bf hx
        · rw [e] at hx; exact bc hx
  · rintro ⟨hth, h | ⟨rest, h⟩ | ⟨rest, h⟩ | ⟨hc, _, _, hb⟩⟩
    · rw [walk_iff] at h
      refine ⟨h.1, hth, ?_⟩
      intro x hx ho
      rw [h.2 x hx] at ho; cases ho
    · obtain ⟨_, cm, _, _, _, _, hb⟩ := filter_two_before L occ f c rest hnd h
      exact ⟨cm, hth, fun x hx ho => Or.inl (hb x hx ho)⟩
    · obtain ⟨_, cm, _, _, _, _, hb⟩ := filter_two_before L occ cap c rest hnd h
      exact ⟨cm, hth, fun x hx ho => Or.inr (hb x hx ho)⟩
    · exact ⟨hc, hth, hb⟩

end Chess
