/-
  Lemmas/Bridge.lean — the bridge between the canonical board (list of piece codes) and the derived bitboards:
  bit s of `bbOfPiece board pc` is set iff square s holds piece pc.
-/
import ChessVerif.Lemmas.Bits
import ChessVerif.Model.Position
namespace Chess

theorem bbOfPiece_fold (pc : Nat) (l : List Nat) (acc : BB) (i : Nat) (j : Nat) :
    ((l.foldl (fun (a : BB × Nat) x => (if x = pc then a.1 ||| sqBB a.2 else a.1, a.2 + 1)) (acc, i)).1).testBit j =
      (acc.testBit j || (decide (i ≤ j) && decide (j < i + l.length) && decide (l.getD (j - i) 0 = pc))) := by
  induction l generalizing acc i with
  | nil => simp; intro h1 h2; omega
  | cons x xs ih =>
    simp only [List.foldl_cons]
    rw [ih]
    by_cases hx : x = pc
    · simp only [hx, if_true, Nat.testBit_or, sqBB_testBit]
      by_cases hij : i = j
      · subst hij
        simp
      · have : ¬ (i + 1 ≤ j) ∨ i + 1 ≤ j := by omega
        rcases this with h | h
        · have : ¬ i ≤ j := by omega
          simp [hij, h, this]
        · have h1 : i ≤ j := by omega
          have e : j - i = (j - (i + 1)) + 1 := by omega
          simp only [hij, decide_false, Bool.or_false, h, h1, decide_true, Bool.true_and, List.length_cons]
          rw [e, List.getD_cons_succ]
          have e2 : i + 1 + xs.length = i + (xs.length + 1) := by omega
          rw [e2]
    · simp only [hx, if_false]
      by_cases hij : i = j
      · subst hij
        have : ¬ (i + 1 ≤ i) := by omega
        simp [this, hx]
      · have : ¬ (i + 1 ≤ j) ∨ i + 1 ≤ j := by omega
        rcases this with h | h
        · have : ¬ i ≤ j := by omega
          simp [h, this]
        · have h1 : i ≤ j := by omega
          have e : j - i = (j - (i + 1)) + 1 := by omega
          simp only [h, h1, decide_true, Bool.true_and, List.length_cons]
          rw [e, List.getD_cons_succ]
          have e2 : i + 1 + xs.length = i + (xs.length + 1) := by omega
          rw [e2]

/-- the bridge: square s is in the bitboard of piece pc iff the board holds pc there -/
theorem bbOfPiece_testBit (board : List Nat) (pc s : Nat) :
    (bbOfPiece board pc).testBit s = (decide (s < board.length) && decide (board.getD s 0 = pc)) := by
  unfold bbOfPiece
  rw [bbOfPiece_fold]
  simp

theorem and_ne_zero_of_testBit (a b : Nat) (s : Nat) (ha : a.testBit s = true) (hb : b.testBit s = true) : a &&& b ≠ 0 := by
  intro h
  have : (a &&& b).testBit s = true := by rw [Nat.testBit_and, ha, hb]; rfl
  rw [h] at this
  simp at this

theorem sqBB_and_ne_zero (s : Nat) (b : BB) : (sqBB s &&& b ≠ 0) ↔ b.testBit s = true := by
  constructor
  · intro h
    obtain ⟨i, hi⟩ := Nat.exists_testBit_of_ne_zero h
    rw [Nat.testBit_and, sqBB_testBit] at hi
    simp only [Bool.and_eq_true, decide_eq_true_eq] at hi
    rw [hi.1]; exact hi.2
  · intro h
    exact and_ne_zero_of_testBit _ _ s (by rw [sqBB_testBit]; simp) h

theorem or_and_ne_zero (x y b : Nat) : ((x ||| y) &&& b ≠ 0) ↔ (x &&& b ≠ 0 ∨ y &&& b ≠ 0) := by
  rw [Nat.and_or_distrib_right]
  constructor
  · intro h
    by_cases hx : x &&& b = 0
    · right; intro hy; rw [hx, hy] at h; exact h rfl
    · left; exact hx
  · intro h hz
    have := Nat.or_eq_zero_iff.1 hz
    rcases h with h | h
    · exact h this.1
    · exact h this.2

end Chess
