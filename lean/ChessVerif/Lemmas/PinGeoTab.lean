/-
  Lemmas/PinGeoTab.lean — geometry of a square `a` on a ray from the king: the ray continued from `a` is the rest of the king's ray, the
  opposite ray from `a` leads back to the king over the squares before `a`, every other ray (and every knight jump) from `a` leaves the
  king's ray, and the generator's `attack_in_ray` is the walk over the ray list.  Finite tables evaluated in the kernel.
-/
import ChessVerif.Lemmas.Pinned
namespace Chess

/-- the part of a list after the first occurrence of `a` -/
def afterOf : List Nat → Nat → List Nat
  | [], _ => []
  | x :: xs, a => if x = a then xs else afterOf xs a

/-- the part before the first occurrence of `a` -/
def beforeOf : List Nat → Nat → List Nat
  | [], _ => []
  | x :: xs, a => if x = a then [] else x :: beforeOf xs a

def knightTargets (a : Nat) : List Nat :=
  Spec.knightOffs.filterMap (fun d => if Spec.onBoard (Spec.fileI a + d.1) (Spec.rankI a + d.2) then some (Spec.sqOf (Spec.fileI a + d.1) (Spec.rankI a + d.2)) else none)

def pinGeoOK : Bool :=
  (List.range 64).all fun k => (List.range 8).all fun r => (rayList k r).all fun a =>
    (rayList a r == afterOf (rayList k r) a) &&
    (rayList a (oppositeRay r) == (beforeOf (rayList k r) a).reverse ++ k :: rayList k (oppositeRay r)) &&
    ((List.range 8).all fun r' => r' == r || r' == oppositeRay r || (rayList a r').all fun t => !(rayList k r).contains t) &&
    ((knightTargets a).all fun t => !(rayList k r).contains t) &&
    !(rayList k (oppositeRay r)).contains a && !(rayList k r).contains k
theorem pinGeoOK_true : pinGeoOK = true := by decide +kernel

def attackInRayOK : Bool :=
  (List.range 64).all fun a => (List.range 8).all fun r =>
    forallSubsets (fun sub => attackInRay a r sub == Spec.walk (rayList a r) sub) (bitsOf (rays r a)) 0
theorem attackInRayOK_true : attackInRayOK = true := by decide +kernel

end Chess
