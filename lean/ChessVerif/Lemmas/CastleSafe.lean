/-
  Lemmas/CastleSafe.lean — after castling the king is not attacked on its arrival square if that square was not attacked
  before: a general "changed squares" lemma for Spec.attacked, and its four instances (g1, c1, g8, c8).
-/
import ChessVerif.Lemmas.Castling
namespace Chess

/-- the squares a ray walk looks at -/
def raySqs (d : Int × Int) : Nat → Int → Int → List Nat
  | 0, _, _ => []
  | n+1, f, r => if Spec.onBoard (f + d.1) (r + d.2) then Spec.sqOf (f + d.1) (r + d.2) :: raySqs d n (f + d.1) (r + d.2) else []

theorem firstPiece_congr (b b' : List Nat) (d : Int × Int) (n : Nat) (f r : Int)
    (h : ∀ x, x ∈ raySqs d n f r → Spec.pcAt b' x = Spec.pcAt b x) : Spec.firstPiece b' d n f r = Spec.firstPiece b d n f r := by
  induction n generalizing f r with
  | zero => rfl
  | succ n ih =>
    rw [firstPiece_succ b, firstPiece_succ b']
    unfold raySqs at h
    by_cases hon : Spec.onBoard (f + d.1) (r + d.2) = true
    · rw [if_pos hon] at h
      rw [if_pos hon, if_pos hon, h _ (List.mem_cons_self)]
      by_cases hp : Spec.pcAt b (Spec.sqOf (f + d.1) (r + d.2)) ≠ 0
      · rw [if_pos hp, if_pos hp]
      · rw [if_neg hp, if_neg hp]
        exact ih _ _ (fun x hx => h x (List.mem_cons_of_mem _ hx))
    · rw [if_neg hon, if_neg hon]

theorem any_false_of_imp {α : Type} (l : List α) (f g : α → Bool) (h : ∀ x, x ∈ l → f x = true → g x = true) (hg : l.any g = false) :
    l.any f = false := by
  rw [List.any_eq_false] at hg ⊢
  intro x hx hf
  exact hg x hx (h x hx hf)

/-- what a direction may show after the change without being an attack: nothing, or a piece that is not an enemy piece -/
def harmless (o : Option (Nat × Nat)) (by_ : Nat) : Prop :=
  match o with
  | some (pc, _) => ∀ j, 1 ≤ j → j ≤ 6 → pc ≠ Spec.mkPc by_ j
  | none => True

theorem hits_false_of_harmless (o : Option (Nat × Nat)) (by_ ja jb : Nat) (h : harmless o by_)
    (ha : 1 ≤ ja ∧ ja ≤ 6) (hb : 1 ≤ jb ∧ jb ≤ 6) : hits o (Spec.mkPc by_ ja) (Spec.mkPc by_ jb) = false := by
  cases o with
  | none => rfl
  | some x =>
    obtain ⟨pc, sq⟩ := x
    unfold hits
    simp only [Bool.or_eq_false_iff, decide_eq_false_iff_not]
    exact ⟨h ja ha.1 ha.2, h jb hb.1 hb.2⟩

/-- CHANGED SQUARES: let b' differ from b only on the squares X, carry no enemy piece on X, and let every direction from t
    either avoid X or be harmless on b'.  If t was not attacked on b it is not attacked on b'. -/
theorem attacked_changed (b b' : List Nat) (t by_ : Nat) (X : List Nat)
    (hsame : ∀ x, x ∉ X → Spec.pcAt b' x = Spec.pcAt b x)
    (hX : ∀ x, x ∈ X → ∀ j, 1 ≤ j → j ≤ 6 → Spec.pcAt b' x ≠ Spec.mkPc by_ j)
    (hdirs : ∀ d, d ∈ allDirs → (∀ x, x ∈ raySqs d 7 (Spec.fileI t) (Spec.rankI t) → x ∉ X) ∨
        harmless (Spec.firstPiece b' d 7 (Spec.fileI t) (Spec.rankI t)) by_)
    (hsafe : Spec.attacked b t by_ = false) : Spec.attacked b' t by_ = false := by
  rw [attacked_parts] at hsafe ⊢
  simp only [Bool.or_eq_false_iff] at hsafe ⊢
  obtain ⟨⟨⟨⟨hp, hn⟩, hk⟩, hd⟩, ho⟩ := hsafe
  have hleap : ∀ x j, 1 ≤ j → j ≤ 6 → decide (Spec.pcAt b' x = Spec.mkPc by_ j) = true → decide (Spec.pcAt b x = Spec.mkPc by_ j) = true := by
    intro x j h1 h6 h
    by_cases hx : x ∈ X
    · exact absurd (of_decide_eq_true h) (hX x hx j h1 h6)
    · rw [← hsame x hx]; exact h
  have hslide : ∀ (dirs : List (Int × Int)) (ja jb : Nat), (∀ d, d ∈ dirs → d ∈ allDirs) → (1 ≤ ja ∧ ja ≤ 6) → (1 ≤ jb ∧ jb ≤ 6) →
      (dirs.any fun d => hits (Spec.firstPiece b d 7 (Spec.fileI t) (Spec.rankI t)) (Spec.mkPc by_ ja) (Spec.mkPc by_ jb)) = false →
      (dirs.any fun d => hits (Spec.firstPiece b' d 7 (Spec.fileI t) (Spec.rankI t)) (Spec.mkPc by_ ja) (Spec.mkPc by_ jb)) = false := by
    intro dirs ja jb hdd ha hb h0
    rw [List.any_eq_false] at h0 ⊢
    intro d hd
    rcases hdirs d (hdd d hd) with h | h
    · rw [firstPiece_congr b b' d 7 _ _ (fun x hx => hsame x (h x hx))]
      exact h0 d hd
    · rw [hits_false_of_harmless _ _ _ _ h ha hb]; simp
  refine ⟨⟨⟨⟨?_, ?_⟩, ?_⟩, ?_⟩, ?_⟩
  · exact any_false_of_imp _ _ _ (fun pf _ h => by
      simp only [Bool.and_eq_true] at h ⊢
      exact ⟨h.1, hleap _ 1 (by omega) (by omega) h.2⟩) hp
  · exact any_false_of_imp _ _ _ (fun d _ h => by
      simp only [Bool.and_eq_true] at h ⊢
      exact ⟨h.1, hleap _ 2 (by omega) (by omega) h.2⟩) hn
  · exact any_false_of_imp _ _ _ (fun d _ h => by
      simp only [Bool.and_eq_true] at h ⊢
      exact ⟨h.1, hleap _ 6 (by omega) (by omega) h.2⟩) hk
  · exact hslide Spec.diagDirs 3 5 (by decide) (by omega) (by omega) hd
  · exact hslide Spec.orthoDirs 4 5 (by decide) (by omega) (by omega) ho

theorem gd4 (b : List Nat) (a c e g va vc ve vg x : Nat) (ha : a < b.length) (hc : c < b.length) (he : e < b.length) (hg : g < b.length) :
    gd ((((b.set a va).set c vc).set e ve).set g vg) x =
      if g = x then vg else if e = x then ve else if c = x then vc else if a = x then va else gd b x := by
  rw [gd_set, gd_set, gd_set, gd_set]
  simp only [List.length_set, ha, hc, he, hg, and_true]

/-- the board after castling: king k → kd, rook rs → rd -/
def castled (b : List Nat) (k kd rs rd K R : Nat) : List Nat := (((b.set k 0).set kd K).set rs 0).set rd R

theorem castled_at (b : List Nat) (k kd rs rd K R x : Nat) (hl : b.length = 64) (h1 : k < 64) (h2 : kd < 64) (h3 : rs < 64) (h4 : rd < 64) :
    Spec.pcAt (castled b k kd rs rd K R) x = if rd = x then R else if rs = x then 0 else if kd = x then K else if k = x then 0 else Spec.pcAt b x := by
  show gd (castled b k kd rs rd K R) x = _
  unfold castled
  rw [gd4 b k kd rs rd 0 K 0 R x (by omega) (by omega) (by omega) (by omega)]
  rfl

theorem castled_king (b : List Nat) (c k kd rs rd : Nat) (hl : b.length = 64) (h1 : k < 64) (h2 : kd < 64) (h3 : rs < 64) (h4 : rd < 64)
    (hd : rd ≠ kd) (hs : rs ≠ kd) (hk : KingAt b c k) :
    KingAt (castled b k kd rs rd (mkPiece c KING) (mkPiece c ROOK)) c kd := by
  have hne : mkPiece c ROOK ≠ mkPiece c KING := by
    intro h
    have : mkPiece c ROOK = 4 + 6 * c := by simp [mkPiece, ROOK]
    have : mkPiece c KING = 6 + 6 * c := by simp [mkPiece, KING]
    omega
  have h0 : (0 : Nat) ≠ mkPiece c KING := fun h => (mkPiece_ne_zero c KING (by decide)) h.symm
  refine ⟨h2, ?_, ?_⟩
  · show Spec.pcAt _ kd = _
    rw [castled_at b k kd rs rd _ _ kd hl h1 h2 h3 h4, if_neg hd, if_neg hs, if_pos rfl]
  · intro q hq hpc
    have hpc' : Spec.pcAt (castled b k kd rs rd (mkPiece c KING) (mkPiece c ROOK)) q = mkPiece c KING := hpc
    rw [castled_at b k kd rs rd _ _ q hl h1 h2 h3 h4] at hpc'
    by_cases e1 : rd = q
    · rw [if_pos e1] at hpc'; exact absurd hpc' hne
    · rw [if_neg e1] at hpc'
      by_cases e2 : rs = q
      · rw [if_pos e2] at hpc'; exact absurd hpc' h0
      · rw [if_neg e2] at hpc'
        by_cases e3 : kd = q
        · exact e3.symm
        · rw [if_neg e3] at hpc'
          by_cases e4 : k = q
          · rw [if_pos e4] at hpc'; exact absurd hpc' h0
          · rw [if_neg e4] at hpc'
            exact absurd (hk.only q hq hpc') (fun h => e4 h.symm)

theorem firstPiece_step_block (b : List Nat) (d : Int × Int) (n : Nat) (f r : Int) (sq pc : Nat)
    (hon : Spec.onBoard (f + d.1) (r + d.2) = true) (hsq : Spec.sqOf (f + d.1) (r + d.2) = sq) (hpc : Spec.pcAt b sq = pc) (hne : pc ≠ 0) :
    Spec.firstPiece b d (n + 1) f r = some (pc, sq) := by
  rw [firstPiece_succ, if_pos hon, hsq, hpc, if_pos hne]

theorem firstPiece_step_empty (b : List Nat) (d : Int × Int) (n : Nat) (f r : Int) (sq : Nat)
    (hon : Spec.onBoard (f + d.1) (r + d.2) = true) (hsq : Spec.sqOf (f + d.1) (r + d.2) = sq) (hpc : Spec.pcAt b sq = 0) :
    Spec.firstPiece b d (n + 1) f r = Spec.firstPiece b d n (f + d.1) (r + d.2) := by
  rw [firstPiece_succ, if_pos hon, hsq, hpc, if_neg (by simp)]

theorem firstPiece_step_off (b : List Nat) (d : Int × Int) (n : Nat) (f r : Int)
    (hon : Spec.onBoard (f + d.1) (r + d.2) = false) : Spec.firstPiece b d (n + 1) f r = none := by
  rw [firstPiece_succ, if_neg (by rw [hon]; simp)]

/-- the board after a castling move of the rules -/
theorem apply_castle_board (s : Spec.SPos) (k kd rs rd : Nat) (hkind : gd s.board k = mkPiece s.side KING)
    (hshape : (kd = k + 2 ∧ rs = k + 3 ∧ rd = k + 1) ∨ (kd + 2 = k ∧ rs = k - 4 ∧ rd = k - 1 ∧ kd ≠ k + 2)) :
    (Spec.apply s ⟨k, kd, 0⟩).board = castled s.board k kd rs rd (mkPiece s.side KING) (mkPiece s.side ROOK) := by
  rw [apply_board]
  simp only []
  have hk6 : kindOf (gd s.board k) = KING := by
    rw [hkind]; unfold mkPiece kindOf KING; simp
  have hc : Spec.isCastle s.board ⟨k, kd, 0⟩ = true := by
    rw [isCastle_iff]
    refine ⟨hk6, ?_⟩
    rcases hshape with h | h
    · exact Or.inl h.1
    · exact Or.inr h.1
  have hne : Spec.isEpCapture s ⟨k, kd, 0⟩ = false := by
    apply Bool.eq_false_iff.2
    intro h
    have e : kindOf (gd s.board k) = PAWN := ((isEp_iff _ _).1 h).1
    rw [hk6] at e; exact absurd e (by decide)
  have hR : Spec.mkPc s.side 4 = mkPiece s.side ROOK := mkPc_eq' _ 4 (by decide)
  rw [hc, hne, hkind, hR]
  simp only [if_true, Bool.false_eq_true, if_false, ne_eq, not_true_eq_false]
  unfold castled
  rcases hshape with ⟨h1, h2, h3⟩ | ⟨h1, h2, h3, h4⟩
  · rw [if_pos h1, h2, h3]
  · rw [if_neg h4, h2, h3]

theorem castle_safe (s : Spec.SPos) (hlen : s.board.length = 64) (hside : s.side ≤ 1) (k kd rs rd : Nat)
    (h1 : k < 64) (h2 : kd < 64) (h3 : rs < 64) (h4 : rd < 64) (hd : rd ≠ kd) (hs : rs ≠ kd)
    (hk : KingAt s.board s.side k)
    (hshape : (kd = k + 2 ∧ rs = k + 3 ∧ rd = k + 1) ∨ (kd + 2 = k ∧ rs = k - 4 ∧ rd = k - 1 ∧ kd ≠ k + 2))
    (hsafe : Spec.attacked s.board kd (1 - s.side) = false)
    (hdirs : ∀ d, d ∈ allDirs → (∀ x, x ∈ raySqs d 7 (Spec.fileI kd) (Spec.rankI kd) → x ∉ [k, kd, rs, rd]) ∨
        harmless (Spec.firstPiece (castled s.board k kd rs rd (mkPiece s.side KING) (mkPiece s.side ROOK)) d 7 (Spec.fileI kd) (Spec.rankI kd)) (1 - s.side)) :
    Spec.inCheck (Spec.apply s ⟨k, kd, 0⟩).board s.side = false := by
  rw [apply_castle_board s k kd rs rd hk.here hshape]
  unfold Spec.inCheck
  rw [findKing_eq _ _ kd (castled_king s.board s.side k kd rs rd hlen h1 h2 h3 h4 hd hs hk)]
  apply attacked_changed s.board _ kd (1 - s.side) [k, kd, rs, rd] _ _ hdirs hsafe
  · intro x hx
    simp only [List.mem_cons, List.mem_nil_iff, or_false, not_or] at hx
    rw [castled_at s.board k kd rs rd _ _ x hlen h1 h2 h3 h4, if_neg (fun h => hx.2.2.2 h.symm), if_neg (fun h => hx.2.2.1 h.symm),
      if_neg (fun h => hx.2.1 h.symm), if_neg (fun h => hx.1 h.symm)]
  · intro x _ j hj1 hj6
    rw [castled_at s.board k kd rs rd _ _ x hlen h1 h2 h3 h4]
    have eK : mkPiece s.side KING = 6 + 6 * s.side := by simp [mkPiece, KING]
    have eR : mkPiece s.side ROOK = 4 + 6 * s.side := by simp [mkPiece, ROOK]
    have eJ : Spec.mkPc (1 - s.side) j = j + 6 * (1 - s.side) := rfl
    rw [eK, eR, eJ]
    -- the values on the changed squares are 0, own king, own rook
    have hb : ∀ y, y ∈ [k, kd, rs, rd] → True := fun _ _ => trivial
    split
    · omega
    · split
      · omega
      · split
        · omega
        · split
          · omega
          · -- x is one of the four squares, so one of the tests above succeeded
            rename_i n1 n2 n3 n4
            exfalso
            have hx : x ∈ [k, kd, rs, rd] := by assumption
            simp only [List.mem_cons, List.mem_nil_iff, or_false] at hx
            rcases hx with h | h | h | h
            · exact n4 h.symm
            · exact n3 h.symm
            · exact n2 h.symm
            · exact n1 h.symm

/-- what membership in Spec.castleMoves says, including the attack conditions -/
theorem castleMoves_facts (p : Spec.SPos) (m : Spec.SMove) (h : m ∈ Spec.castleMoves p) :
    let r0 : Nat := if p.side = 0 then 0 else 56
    Spec.pcAt p.board (r0 + 4) = Spec.mkPc p.side 6 ∧
    ((m = ⟨r0 + 4, r0 + 6, 0⟩ ∧ Spec.pcAt p.board (r0 + 5) = 0 ∧ Spec.pcAt p.board (r0 + 6) = 0 ∧
        Spec.attacked p.board (r0 + 6) (1 - p.side) = false) ∨
     (m = ⟨r0 + 4, r0 + 2, 0⟩ ∧ Spec.pcAt p.board (r0 + 1) = 0 ∧ Spec.pcAt p.board (r0 + 2) = 0 ∧ Spec.pcAt p.board (r0 + 3) = 0 ∧
        Spec.attacked p.board (r0 + 2) (1 - p.side) = false)) := by
  intro r0
  by_cases hs0 : p.side = 0
  · have hr : r0 = 0 := if_pos hs0
    rw [hr]
    simp [Spec.castleMoves, hs0] at h
    rcases h with ⟨⟨⟨⟨⟨⟨⟨⟨k, _⟩, _⟩, e5⟩, e6⟩, _⟩, _⟩, a6⟩, hm⟩ | ⟨⟨⟨⟨⟨⟨⟨⟨⟨k, _⟩, _⟩, e1⟩, e2⟩, e3⟩, _⟩, _⟩, a2⟩, hm⟩
    · rw [hs0]; exact ⟨k, Or.inl ⟨hm, e5, e6, a6⟩⟩
    · rw [hs0]; exact ⟨k, Or.inr ⟨hm, e1, e2, e3, a2⟩⟩
  · have hr : r0 = 56 := if_neg hs0
    rw [hr]
    simp [Spec.castleMoves, hs0] at h
    rcases h with ⟨⟨⟨⟨⟨⟨⟨⟨k, _⟩, _⟩, e5⟩, e6⟩, _⟩, _⟩, a6⟩, hm⟩ | ⟨⟨⟨⟨⟨⟨⟨⟨⟨k, _⟩, _⟩, e1⟩, e2⟩, e3⟩, _⟩, _⟩, a2⟩, hm⟩
    · exact ⟨k, Or.inl ⟨hm, e5, e6, a6⟩⟩
    · exact ⟨k, Or.inr ⟨hm, e1, e2, e3, a2⟩⟩

theorem castle_safe_WK (s : Spec.SPos) (hlen : s.board.length = 64) (hs : s.side = 0) (hk : KingAt s.board s.side 4)
    (hsafe : Spec.attacked s.board 6 (1 - s.side) = false) :
    Spec.inCheck (Spec.apply s ⟨4, 6, 0⟩).board s.side = false := by
  have hside : s.side ≤ 1 := by omega
  apply castle_safe s hlen hside 4 6 7 5 (by omega) (by omega) (by omega) (by omega) (by omega) (by omega) hk (Or.inl ⟨rfl, rfl, rfl⟩) hsafe
  intro d hd
  simp only [allDirs, List.mem_cons, List.mem_nil_iff, or_false] at hd
  rcases hd with rfl | rfl | rfl | rfl | rfl | rfl | rfl | rfl
  · exact Or.inl (by decide)
  · exact Or.inl (by decide)
  · exact Or.inl (by decide)
  · exact Or.inl (by decide)
  · exact Or.inl (by decide)
  · right
    rw [firstPiece_step_empty _ ((1 : Int), (0 : Int)) 6 (Spec.fileI 6) (Spec.rankI 6) 7 (by decide) (by decide) (by rw [castled_at s.board 4 6 7 5 _ _ 7 hlen (by omega) (by omega) (by omega) (by omega)]; simp)]
    rw [firstPiece_step_off _ ((1 : Int), (0 : Int)) 5 ((Spec.fileI 6) + ((1 : Int), (0 : Int)).1) ((Spec.rankI 6) + ((1 : Int), (0 : Int)).2) (by decide)]
    trivial
  · exact Or.inl (by decide)
  · right
    rw [firstPiece_step_block _ ((-1 : Int), (0 : Int)) 6 (Spec.fileI 6) (Spec.rankI 6) 5 (mkPiece s.side ROOK) (by decide) (by decide)
      (by rw [castled_at s.board 4 6 7 5 _ _ 5 hlen (by omega) (by omega) (by omega) (by omega)]; simp) (mkPiece_ne_zero _ _ (by decide))]
    intro j hj1 hj6
    have eR : mkPiece s.side ROOK = 4 + 6 * s.side := by simp [mkPiece, ROOK]
    have eJ : Spec.mkPc (1 - s.side) j = j + 6 * (1 - s.side) := rfl
    rw [eR, eJ]; omega

theorem castle_safe_WQ (s : Spec.SPos) (hlen : s.board.length = 64) (hs : s.side = 0) (hk : KingAt s.board s.side 4) (hE1 : Spec.pcAt s.board 1 = 0)
    (hsafe : Spec.attacked s.board 2 (1 - s.side) = false) :
    Spec.inCheck (Spec.apply s ⟨4, 2, 0⟩).board s.side = false := by
  have hside : s.side ≤ 1 := by omega
  apply castle_safe s hlen hside 4 2 0 3 (by omega) (by omega) (by omega) (by omega) (by omega) (by omega) hk (Or.inr ⟨rfl, rfl, rfl, by omega⟩) hsafe
  intro d hd
  simp only [allDirs, List.mem_cons, List.mem_nil_iff, or_false] at hd
  rcases hd with rfl | rfl | rfl | rfl | rfl | rfl | rfl | rfl
  · exact Or.inl (by decide)
  · exact Or.inl (by decide)
  · exact Or.inl (by decide)
  · exact Or.inl (by decide)
  · exact Or.inl (by decide)
  · right
    rw [firstPiece_step_block _ ((1 : Int), (0 : Int)) 6 (Spec.fileI 2) (Spec.rankI 2) 3 (mkPiece s.side ROOK) (by decide) (by decide)
      (by rw [castled_at s.board 4 2 0 3 _ _ 3 hlen (by omega) (by omega) (by omega) (by omega)]; simp) (mkPiece_ne_zero _ _ (by decide))]
    intro j hj1 hj6
    have eR : mkPiece s.side ROOK = 4 + 6 * s.side := by simp [mkPiece, ROOK]
    have eJ : Spec.mkPc (1 - s.side) j = j + 6 * (1 - s.side) := rfl
    rw [eR, eJ]; omega
  · exact Or.inl (by decide)
  · right
    rw [firstPiece_step_empty _ ((-1 : Int), (0 : Int)) 6 (Spec.fileI 2) (Spec.rankI 2) 1 (by decide) (by decide) (by rw [castled_at s.board 4 2 0 3 _ _ 1 hlen (by omega) (by omega) (by omega) (by omega)]; simpa using hE1)]
    rw [firstPiece_step_empty _ ((-1 : Int), (0 : Int)) 5 ((Spec.fileI 2) + ((-1 : Int), (0 : Int)).1) ((Spec.rankI 2) + ((-1 : Int), (0 : Int)).2) 0 (by decide) (by decide) (by rw [castled_at s.board 4 2 0 3 _ _ 0 hlen (by omega) (by omega) (by omega) (by omega)]; simp)]
    rw [firstPiece_step_off _ ((-1 : Int), (0 : Int)) 4 (((Spec.fileI 2) + ((-1 : Int), (0 : Int)).1) + ((-1 : Int), (0 : Int)).1) (((Spec.rankI 2) + ((-1 : Int), (0 : Int)).2) + ((-1 : Int), (0 : Int)).2) (by decide)]
    trivial

theorem castle_safe_BK (s : Spec.SPos) (hlen : s.board.length = 64) (hs : s.side = 1) (hk : KingAt s.board s.side 60)
    (hsafe : Spec.attacked s.board 62 (1 - s.side) = false) :
    Spec.inCheck (Spec.apply s ⟨60, 62, 0⟩).board s.side = false := by
  have hside : s.side ≤ 1 := by omega
  apply castle_safe s hlen hside 60 62 63 61 (by omega) (by omega) (by omega) (by omega) (by omega) (by omega) hk (Or.inl ⟨rfl, rfl, rfl⟩) hsafe
  intro d hd
  simp only [allDirs, List.mem_cons, List.mem_nil_iff, or_false] at hd
  rcases hd with rfl | rfl | rfl | rfl | rfl | rfl | rfl | rfl
  · exact Or.inl (by decide)
  · exact Or.inl (by decide)
  · exact Or.inl (by decide)
  · exact Or.inl (by decide)
  · exact Or.inl (by decide)
  · right
    rw [firstPiece_step_empty _ ((1 : Int), (0 : Int)) 6 (Spec.fileI 62) (Spec.rankI 62) 63 (by decide) (by decide) (by rw [castled_at s.board 60 62 63 61 _ _ 63 hlen (by omega) (by omega) (by omega) (by omega)]; simp)]
    rw [firstPiece_step_off _ ((1 : Int), (0 : Int)) 5 ((Spec.fileI 62) + ((1 : Int), (0 : Int)).1) ((Spec.rankI 62) + ((1 : Int), (0 : Int)).2) (by decide)]
    trivial
  · exact Or.inl (by decide)
  · right
    rw [firstPiece_step_block _ ((-1 : Int), (0 : Int)) 6 (Spec.fileI 62) (Spec.rankI 62) 61 (mkPiece s.side ROOK) (by decide) (by decide)
      (by rw [castled_at s.board 60 62 63 61 _ _ 61 hlen (by omega) (by omega) (by omega) (by omega)]; simp) (mkPiece_ne_zero _ _ (by decide))]
    intro j hj1 hj6
    have eR : mkPiece s.side ROOK = 4 + 6 * s.side := by simp [mkPiece, ROOK]
    have eJ : Spec.mkPc (1 - s.side) j = j + 6 * (1 - s.side) := rfl
    rw [eR, eJ]; omega

theorem castle_safe_BQ (s : Spec.SPos) (hlen : s.board.length = 64) (hs : s.side = 1) (hk : KingAt s.board s.side 60) (hE57 : Spec.pcAt s.board 57 = 0)
    (hsafe : Spec.attacked s.board 58 (1 - s.side) = false) :
    Spec.inCheck (Spec.apply s ⟨60, 58, 0⟩).board s.side = false := by
  have hside : s.side ≤ 1 := by omega
  apply castle_safe s hlen hside 60 58 56 59 (by omega) (by omega) (by omega) (by omega) (by omega) (by omega) hk (Or.inr ⟨rfl, rfl, rfl, by omega⟩) hsafe
  intro d hd
  simp only [allDirs, List.mem_cons, List.mem_nil_iff, or_false] at hd
  rcases hd with rfl | rfl | rfl | rfl | rfl | rfl | rfl | rfl
  · exact Or.inl (by decide)
  · exact Or.inl (by decide)
  · exact Or.inl (by decide)
  · exact Or.inl (by decide)
  · exact Or.inl (by decide)
  · right
    rw [firstPiece_step_block _ ((1 : Int), (0 : Int)) 6 (Spec.fileI 58) (Spec.rankI 58) 59 (mkPiece s.side ROOK) (by decide) (by decide)
      (by rw [castled_at s.board 60 58 56 59 _ _ 59 hlen (by omega) (by omega) (by omega) (by omega)]; simp) (mkPiece_ne_zero _ _ (by decide))]
    intro j hj1 hj6
    have eR : mkPiece s.side ROOK = 4 + 6 * s.side := by simp [mkPiece, ROOK]
    have eJ : Spec.mkPc (1 - s.side) j = j + 6 * (1 - s.side) := rfl
    rw [eR, eJ]; omega
  · exact Or.inl (by decide)
  · right
    rw [firstPiece_step_empty _ ((-1 : Int), (0 : Int)) 6 (Spec.fileI 58) (Spec.rankI 58) 57 (by decide) (by decide) (by rw [castled_at s.board 60 58 56 59 _ _ 57 hlen (by omega) (by omega) (by omega) (by omega)]; simpa using hE57)]
    rw [firstPiece_step_empty _ ((-1 : Int), (0 : Int)) 5 ((Spec.fileI 58) + ((-1 : Int), (0 : Int)).1) ((Spec.rankI 58) + ((-1 : Int), (0 : Int)).2) 56 (by decide) (by decide) (by rw [castled_at s.board 60 58 56 59 _ _ 56 hlen (by omega) (by omega) (by omega) (by omega)]; simp)]
    rw [firstPiece_step_off _ ((-1 : Int), (0 : Int)) 4 (((Spec.fileI 58) + ((-1 : Int), (0 : Int)).1) + ((-1 : Int), (0 : Int)).1) (((Spec.rankI 58) + ((-1 : Int), (0 : Int)).2) + ((-1 : Int), (0 : Int)).2) (by decide)]
    trivial

/-- every castling move the rules list (rights, empty path, no attacked square on the king's way) also passes the rules'
    final legality filter: after king and rook have moved, the king is not attacked -/
theorem castleMoves_legal (s : Spec.SPos) (hwf : Spec.wf s = true) (m : Spec.SMove) (hm : m ∈ Spec.castleMoves s) : m ∈ Spec.legalMoves s := by
  obtain ⟨hbo, hside, hks, _, _⟩ := wf_board_hyps _ hwf
  obtain ⟨k, hka, _⟩ := hks s.side hside
  have hfacts := castleMoves_facts s m hm
  simp only [] at hfacts
  obtain ⟨hking, hcases⟩ := hfacts
  have hpseudo : m ∈ Spec.pseudoMoves s := by
    unfold Spec.pseudoMoves
    exact List.mem_append_right _ hm
  unfold Spec.legalMoves
  rw [List.mem_filter]
  refine ⟨hpseudo, ?_⟩
  simp only [Bool.not_eq_true']
  have hs01 : s.side = 0 ∨ s.side = 1 := by omega
  have hk4 : ∀ sq, sq < 64 → Spec.pcAt s.board sq = Spec.mkPc s.side 6 → KingAt s.board s.side sq := by
    intro sq hsq hp
    have e : mkPiece s.side KING = Spec.mkPc s.side 6 := (mkPc_eq' s.side 6 (by decide)).symm
    have : sq = k := hka.only sq hsq (by show s.board.getD sq 0 = mkPiece s.side KING; rw [e]; exact hp)
    rw [this]; exact hka
  rcases hs01 with hs | hs
  · rw [hs] at hking hcases
    simp only [if_true, Nat.zero_add] at hking hcases
    have hK := hk4 4 (by omega) (by rw [hs]; exact hking)
    rcases hcases with ⟨rfl, _, _, a⟩ | ⟨rfl, e1, _, _, a⟩
    · exact castle_safe_WK s hbo.len hs hK (by rw [hs]; exact a)
    · exact castle_safe_WQ s hbo.len hs hK e1 (by rw [hs]; exact a)
  · rw [hs] at hking hcases
    have h10 : ¬ ((1 : Nat) = 0) := by decide
    simp only [h10, if_false, Nat.reduceAdd] at hking hcases
    have hK := hk4 60 (by omega) (by rw [hs]; exact hking)
    rcases hcases with ⟨rfl, _, _, a⟩ | ⟨rfl, e1, _, _, a⟩
    · exact castle_safe_BK s hbo.len hs hK (by rw [hs]; exact a)
    · exact castle_safe_BQ s hbo.len hs hK e1 (by rw [hs]; exact a)

end Chess
