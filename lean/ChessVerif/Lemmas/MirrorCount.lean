/-
  Lemmas/MirrorCount.lean — piece counts under the colour mirror of Props/C13.lean: the mirrored board is a permutation of the board
  with every piece recoloured, so the count of a piece code on the mirrored board is the count of its recoloured code on the board.
-/
import ChessVerif.Props.C13
import ChessVerif.Lemmas.Undo
namespace Chess
open Chess.Props

theorem flip_perm : ((List.range 64).map flipV).Perm (List.range 64) := by decide +kernel

theorem board_as_map (b : List Nat) (hlen : b.length = 64) : (List.range 64).map (fun s => b.getD s 0) = b := by
  apply List.ext_getElem
  · simp [hlen]
  · intro i h1 h2
    simp [List.getElem?_eq_getElem h2]

theorem mirrorBoard_perm (b : List Nat) (hlen : b.length = 64) : (mirrorBoard b).Perm (b.map mirrorPiece) := by
  have e1 : mirrorBoard b = ((List.range 64).map flipV).map (fun s => mirrorPiece (b.getD s 0)) := by
    unfold mirrorBoard; rw [List.map_map]; rfl
  have e2 : b.map mirrorPiece = (List.range 64).map (fun s => mirrorPiece (b.getD s 0)) := by
    conv => lhs; rw [← board_as_map b hlen]
    rw [List.map_map]; rfl
  rw [e1, e2]
  exact flip_perm.map _

def mirrorInjOK : Bool := (List.range 13).all fun x => (List.range 13).all fun y => (mirrorPiece x == mirrorPiece y) == (x == y)
theorem mirrorInjOK_true : mirrorInjOK = true := by decide +kernel
theorem mirrorPiece_inj (x y : Nat) (hx : x ≤ 12) (hy : y ≤ 12) : mirrorPiece x = mirrorPiece y ↔ x = y := by
  have h := mirrorInjOK_true
  simp only [mirrorInjOK, List.all_eq_true, List.mem_range, beq_iff_eq] at h
  have := h x (by omega) y (by omega)
  constructor
  · intro e
    have h1 : (mirrorPiece x == mirrorPiece y) = true := by simpa using e
    rw [h1] at this
    simpa using this.symm
  · intro e; rw [e]

/-- **counts under the mirror** -/
theorem countOf_mirror (b : List Nat) (hlen : b.length = 64) (hb : ∀ x, x ∈ b → x ≤ 12) (pc : Nat) (hpc : pc ≤ 12) :
    countOf (mirrorBoard b) (mirrorPiece pc) = countOf b pc := by
  unfold countOf
  rw [((mirrorBoard_perm b hlen).filter _).length_eq, List.filter_map, List.length_map]
  congr 1
  apply List.filter_congr
  intro x hx
  simp only [Function.comp, decide_eq_decide]
  exact mirrorPiece_inj x pc (hb x hx) hpc

end Chess
