/-
  Lemmas/GenBasics.lean — list- and bit-level facts used to show that the generated move list has no duplicates and that every
  generated move has the shape the SAN round trip assumes (Lemmas/GenShape.lean): `bitsOf` is strictly increasing, what a set bit of a
  shifted bitboard says about the unshifted one, move codes are injective in their fields.
-/
import ChessVerif.Lemmas.Bits
import ChessVerif.Props.C16
namespace Chess

-- bitsOf is strictly increasing ---------------------------------------------------------------------------------------------
theorem bitsAux_sorted (b : BB) (n : Nat) (acc : List Nat) (hs : acc.Pairwise (· < ·)) (hn : ∀ x, x ∈ acc → n ≤ x) :
    (bitsAux b n acc).Pairwise (· < ·) := by
  induction n generalizing acc with
  | zero => simpa [bitsAux] using hs
  | succ n ih =>
    simp only [bitsAux]
    apply ih
    · split
      · apply List.Pairwise.cons
        · intro x hx; have := hn x hx; omega
        · exact hs
      · exact hs
    · intro x hx
      split at hx
      · simp only [List.mem_cons] at hx
        rcases hx with rfl | hx
        · omega
        · have := hn x hx; omega
      · have := hn x hx; omega

theorem bitsOf_sorted (b : BB) : (bitsOf b).Pairwise (· < ·) :=
  bitsAux_sorted b 64 [] List.Pairwise.nil (by intro x hx; cases hx)

theorem bitsOf_nodup (b : BB) : (bitsOf b).Nodup := by
  have := bitsOf_sorted b
  exact this.imp (fun h => Nat.ne_of_lt h)

-- lists of moves ------------------------------------------------------------------------------------------------------------------
theorem nodup_append' {α : Type} (l1 l2 : List α) (h1 : l1.Nodup) (h2 : l2.Nodup) (hd : ∀ a, a ∈ l1 → ∀ b, b ∈ l2 → a ≠ b) : (l1 ++ l2).Nodup := by
  unfold List.Nodup at *
  rw [List.pairwise_append]
  exact ⟨h1, h2, hd⟩

theorem nodup_map_of_inj {α β : Type} (l : List α) (f : α → β) (h : l.Nodup) (hf : ∀ a, a ∈ l → ∀ b, b ∈ l → f a = f b → a = b) : (l.map f).Nodup := by
  induction l with
  | nil => exact List.Pairwise.nil
  | cons x xs ih =>
    unfold List.Nodup at h ⊢
    rw [List.map_cons, List.pairwise_cons]
    rw [List.pairwise_cons] at h
    constructor
    · intro y hy
      rw [List.mem_map] at hy
      obtain ⟨z, hz, rfl⟩ := hy
      intro e
      have := hf x List.mem_cons_self z (List.mem_cons_of_mem _ hz) e
      exact h.1 z hz this
    · exact ih h.2 (fun a ha b hb => hf a (List.mem_cons_of_mem _ ha) b (List.mem_cons_of_mem _ hb))

/-- a list built source by source is duplicate-free when each source's list is, and elements of different sources differ -/
theorem nodup_flatMap {α β : Type} (l : List α) (f : α → List β) (h : l.Nodup) (h1 : ∀ a, a ∈ l → (f a).Nodup)
    (h2 : ∀ a, a ∈ l → ∀ b, b ∈ l → a ≠ b → ∀ x, x ∈ f a → ∀ y, y ∈ f b → x ≠ y) : (l.flatMap f).Nodup := by
  induction l with
  | nil => exact List.Pairwise.nil
  | cons x xs ih =>
    rw [List.flatMap_cons]
    have hx : List.Pairwise (· ≠ ·) (x :: xs) := h
    rw [List.pairwise_cons] at hx
    apply nodup_append' _ _ (h1 x List.mem_cons_self) (ih hx.2 (fun a ha => h1 a (List.mem_cons_of_mem _ ha))
      (fun a ha b hb => h2 a (List.mem_cons_of_mem _ ha) b (List.mem_cons_of_mem _ hb)))
    intro a ha b hb
    rw [List.mem_flatMap] at hb
    obtain ⟨z, hz, hbz⟩ := hb
    exact h2 x List.mem_cons_self z (List.mem_cons_of_mem _ hz) (hx.1 z hz) a ha b hbz

-- move codes --------------------------------------------------------------------------------------------------------------------------
theorem mkMove_eq_promo (f t : Nat) : mkMove f t = mkPromotion f t 0 := by
  unfold mkMove mkPromotion; simp

theorem mkPromotion_lt (f t k : Nat) (hf : f < 64) (ht : t < 64) (hk : k < 8) : mkPromotion f t k < 32768 := by
  unfold mkPromotion
  have h1 : k <<< 12 < 2 ^ 15 := by rw [Nat.shiftLeft_eq]; omega
  have h2 : t <<< 6 < 2 ^ 15 := by rw [Nat.shiftLeft_eq]; omega
  have h3 : f < 2 ^ 15 := by omega
  have := Nat.or_lt_two_pow (Nat.or_lt_two_pow h1 h2) h3
  omega

theorem mkMove_lt (f t : Nat) (hf : f < 64) (ht : t < 64) : mkMove f t < 32768 := by
  rw [mkMove_eq_promo]; exact mkPromotion_lt f t 0 hf ht (by decide)

-- shifted bitboards ---------------------------------------------------------------------------------------------------------------------
theorem two64_eq : two64 = 2 ^ 64 := by decide

theorem shl_testBit (b : BB) (n j : Nat) (h : (shl b n).testBit j = true) : j < 64 ∧ n ≤ j ∧ b.testBit (j - n) = true := by
  unfold shl at h
  rw [two64_eq, Nat.testBit_mod_two_pow, Nat.testBit_shiftLeft] at h
  simp only [Bool.and_eq_true, decide_eq_true_eq, ge_iff_le] at h
  exact ⟨h.1, h.2.1, h.2.2⟩

theorem shr_testBit (b : BB) (n j : Nat) (h : (b >>> n).testBit j = true) : b.testBit (j + n) = true := by
  rw [Nat.testBit_shiftRight] at h
  rw [Nat.add_comm]; exact h

theorem and_testBit_left (a b : BB) (j : Nat) (h : (a &&& b).testBit j = true) : a.testBit j = true := by
  rw [Nat.testBit_and] at h; simp only [Bool.and_eq_true] at h; exact h.1
theorem and_testBit_right (a b : BB) (j : Nat) (h : (a &&& b).testBit j = true) : b.testBit j = true := by
  rw [Nat.testBit_and] at h; simp only [Bool.and_eq_true] at h; exact h.2

/-- a set bit of a shifted bitboard comes from the bit one step back -/
theorem shift_up_testBit (d : Dir) (n : Nat) (hd : (d = .N ∧ n = 8) ∨ (d = .NE ∧ n = 9) ∨ (d = .NW ∧ n = 7) ∨ (d = .NN ∧ n = 16)) (b : BB) (j : Nat)
    (h : (shift d b).testBit j = true) : j < 64 ∧ n ≤ j ∧ b.testBit (j - n) = true := by
  rcases hd with ⟨rfl, rfl⟩ | ⟨rfl, rfl⟩ | ⟨rfl, rfl⟩ | ⟨rfl, rfl⟩
  · exact shl_testBit b 8 j h
  · obtain ⟨a, c, e⟩ := shl_testBit _ 9 j h; exact ⟨a, c, and_testBit_left _ _ _ e⟩
  · obtain ⟨a, c, e⟩ := shl_testBit _ 7 j h; exact ⟨a, c, and_testBit_left _ _ _ e⟩
  · exact shl_testBit b 16 j h

theorem shift_down_testBit (d : Dir) (n : Nat) (hd : (d = .S ∧ n = 8) ∨ (d = .SE ∧ n = 7) ∨ (d = .SW ∧ n = 9) ∨ (d = .SS ∧ n = 16)) (b : BB) (j : Nat)
    (h : (shift d b).testBit j = true) : b.testBit (j + n) = true := by
  rcases hd with ⟨rfl, rfl⟩ | ⟨rfl, rfl⟩ | ⟨rfl, rfl⟩ | ⟨rfl, rfl⟩
  · exact shr_testBit b 8 j h
  · exact and_testBit_left _ _ _ (shr_testBit _ 7 j h)
  · exact and_testBit_left _ _ _ (shr_testBit _ 9 j h)
  · exact shr_testBit b 16 j h

end Chess

namespace Chess

def maskTabOK : Bool :=
  (List.range 64).all (fun j => (fileA.testBit j == decide (j % 8 = 0)) && (fileH.testBit j == decide (j % 8 = 7)) &&
    (List.range 8).all (fun r => (rankBB r).testBit j == decide (j / 8 = r)))
theorem maskTabOK_true : maskTabOK = true := by decide +kernel

theorem fileA_testBit (j : Nat) (hj : j < 64) : fileA.testBit j = decide (j % 8 = 0) := by
  have h := maskTabOK_true
  simp only [maskTabOK, List.all_eq_true, List.mem_range, Bool.and_eq_true, beq_iff_eq] at h
  exact (h j hj).1.1
theorem fileH_testBit (j : Nat) (hj : j < 64) : fileH.testBit j = decide (j % 8 = 7) := by
  have h := maskTabOK_true
  simp only [maskTabOK, List.all_eq_true, List.mem_range, Bool.and_eq_true, beq_iff_eq] at h
  exact (h j hj).1.2
theorem rankBB_testBit (r j : Nat) (hr : r < 8) (hj : j < 64) : (rankBB r).testBit j = decide (j / 8 = r) := by
  have h := maskTabOK_true
  simp only [maskTabOK, List.all_eq_true, List.mem_range, Bool.and_eq_true, beq_iff_eq] at h
  exact (h j hj).2 r hr

theorem bnot_testBit (b : BB) (j : Nat) (hj : j < 64) : (bnot b).testBit j = !b.testBit j := by
  unfold bnot
  have e : (18446744073709551615 : Nat) = 2 ^ 64 - 1 := by decide
  rw [Nat.testBit_xor, e, Nat.testBit_two_pow_sub_one]
  simp [hj]

/-- a set bit of a diagonally shifted bitboard also says the origin was not on the file the shift would wrap around -/
theorem shift_NE_file (b : BB) (j : Nat) (h : (shift .NE b).testBit j = true) : (j - 9) % 8 ≠ 7 := by
  obtain ⟨a, c, e⟩ := shl_testBit _ 9 j h
  have := and_testBit_right _ _ _ e
  rw [bnot_testBit _ _ (by omega), fileH_testBit _ (by omega)] at this
  simpa using this
theorem shift_NW_file (b : BB) (j : Nat) (h : (shift .NW b).testBit j = true) : (j - 7) % 8 ≠ 0 := by
  obtain ⟨a, c, e⟩ := shl_testBit _ 7 j h
  have := and_testBit_right _ _ _ e
  rw [bnot_testBit _ _ (by omega), fileA_testBit _ (by omega)] at this
  simpa using this
theorem shift_SE_file (b : BB) (j : Nat) (hlt : j + 7 < 64) (h : (shift .SE b).testBit j = true) : (j + 7) % 8 ≠ 7 := by
  have := and_testBit_right _ _ _ (shr_testBit _ 7 j h)
  rw [bnot_testBit _ _ hlt, fileH_testBit _ hlt] at this
  simpa using this
theorem shift_SW_file (b : BB) (j : Nat) (hlt : j + 9 < 64) (h : (shift .SW b).testBit j = true) : (j + 9) % 8 ≠ 0 := by
  have := and_testBit_right _ _ _ (shr_testBit _ 9 j h)
  rw [bnot_testBit _ _ hlt, fileA_testBit _ hlt] at this
  simpa using this

/-- the fields of a move code built from squares and a promotion kind -/
structure IsMv (m f t k : Nat) : Prop where
  eq : m = mkPromotion f t k
  f64 : f < 64
  t64 : t < 64
  k8 : k < 8

theorem IsMv.from_ {m f t k : Nat} (h : IsMv m f t k) : moveFrom m = f := by rw [h.eq]; exact (Props.C16_encoding f t k h.f64 h.t64 h.k8).1
theorem IsMv.to_ {m f t k : Nat} (h : IsMv m f t k) : moveTo m = t := by rw [h.eq]; exact (Props.C16_encoding f t k h.f64 h.t64 h.k8).2.1
theorem IsMv.promo_ {m f t k : Nat} (h : IsMv m f t k) : movePromo m = k := by rw [h.eq]; exact (Props.C16_encoding f t k h.f64 h.t64 h.k8).2.2.1
theorem IsMv.castling_ {m f t k : Nat} (h : IsMv m f t k) : moveCastling m = 0 := by rw [h.eq]; exact (Props.C16_encoding f t k h.f64 h.t64 h.k8).2.2.2
theorem IsMv.lt_ {m f t k : Nat} (h : IsMv m f t k) : m < 32768 := by rw [h.eq]; exact mkPromotion_lt f t k h.f64 h.t64 h.k8
theorem IsMv.ofMove (f t : Nat) (hf : f < 64) (ht : t < 64) : IsMv (mkMove f t) f t 0 := ⟨mkMove_eq_promo f t, hf, ht, by decide⟩

end Chess
