/-
  Lemmas/EpGenBasic.lean — `generate_enpassant`, unfolded: which codes it emits.
-/
import ChessVerif.Lemmas.EpMoveDef
namespace Chess

/-- f → e is a pawn capture step of `side` (no wrap around the board edge) -/
def capStep (side f e : Nat) : Prop :=
  if side = 0 then ((e = f + 7 ∧ f % 8 ≠ 0) ∨ (e = f + 9 ∧ f % 8 ≠ 7)) else ((f = e + 7 ∧ f % 8 ≠ 7) ∨ (f = e + 9 ∧ f % 8 ≠ 0))

/-- the "right" candidate of `generate_enpassant` exists -/
theorem ep_right_iff (side : Nat) (hs : side ≤ 1) (np : BB) (hnp : ∀ j, np.testBit j = true → j < 64) (e : Nat) (he : 16 ≤ e ∧ e < 48) :
    (shift (if side = 0 then Dir.NE else Dir.SW) np &&& sqBB e) ≠ 0 ↔
      (np.testBit (if side = 0 then e - 9 else e + 9) = true ∧ (if side = 0 then (e - 9) % 8 ≠ 7 else (e + 9) % 8 ≠ 0)) := by
  have hs01 : side = 0 ∨ side = 1 := by omega
  have h10 : ¬ ((1 : Nat) = 0) := by decide
  rcases hs01 with rfl | rfl
  · simp only [if_true]
    constructor
    · intro h
      have hb := meets_testBit _ _ h
      obtain ⟨_, _, hx⟩ := shift_up_testBit .NE 9 (Or.inr (Or.inl ⟨rfl, rfl⟩)) np e hb
      exact ⟨hx, shift_NE_file np e hb⟩
    · rintro ⟨hx, hf⟩
      have := shift_NE_of np (e - 9) hx (by omega) hf
      have e9 : e - 9 + 9 = e := by omega
      rw [e9] at this
      exact and_ne_zero_of_testBit _ _ e this (by rw [sqBB_testBit]; simp)
  · simp only [h10, if_false]
    constructor
    · intro h
      have hb := meets_testBit _ _ h
      have hx := shift_down_testBit .SW 9 (Or.inr (Or.inr (Or.inl ⟨rfl, rfl⟩))) np e hb
      exact ⟨hx, shift_SW_file np e (by omega) hb⟩
    · rintro ⟨hx, hf⟩
      have := shift_SW_of np (e + 9) hx (by omega) (hnp _ hx) hf
      have e9 : e + 9 - 9 = e := by omega
      rw [e9] at this
      exact and_ne_zero_of_testBit _ _ e this (by rw [sqBB_testBit]; simp)

theorem ep_left_iff (side : Nat) (hs : side ≤ 1) (np : BB) (hnp : ∀ j, np.testBit j = true → j < 64) (e : Nat) (he : 16 ≤ e ∧ e < 48) :
    (shift (if side = 0 then Dir.NW else Dir.SE) np &&& sqBB e) ≠ 0 ↔
      (np.testBit (if side = 0 then e - 7 else e + 7) = true ∧ (if side = 0 then (e - 7) % 8 ≠ 0 else (e + 7) % 8 ≠ 7)) := by
  have hs01 : side = 0 ∨ side = 1 := by omega
  have h10 : ¬ ((1 : Nat) = 0) := by decide
  rcases hs01 with rfl | rfl
  · simp only [if_true]
    constructor
    · intro h
      have hb := meets_testBit _ _ h
      obtain ⟨_, _, hx⟩ := shift_up_testBit .NW 7 (Or.inr (Or.inr (Or.inl ⟨rfl, rfl⟩))) np e hb
      exact ⟨hx, shift_NW_file np e hb⟩
    · rintro ⟨hx, hf⟩
      have := shift_NW_of np (e - 7) hx (by omega) hf
      have e7 : e - 7 + 7 = e := by omega
      rw [e7] at this
      exact and_ne_zero_of_testBit _ _ e this (by rw [sqBB_testBit]; simp)
  · simp only [h10, if_false]
    constructor
    · intro h
      have hb := meets_testBit _ _ h
      have hx := shift_down_testBit .SE 7 (Or.inr (Or.inl ⟨rfl, rfl⟩)) np e hb
      exact ⟨hx, shift_SE_file np e (by omega) hb⟩
    · rintro ⟨hx, hf⟩
      have := shift_SE_of np (e + 7) hx (by omega) (hnp _ hx) hf
      have e7 : e + 7 - 7 = e := by omega
      rw [e7] at this
      exact and_ne_zero_of_testBit _ _ e this (by rw [sqBB_testBit]; simp)

end Chess

namespace Chess

def epR (side e : Nat) : Nat := if side = 0 then e - 9 else e + 9
def epL (side e : Nat) : Nat := if side = 0 then e - 7 else e + 7
def epCap (side e : Nat) : Nat := if side = 0 then e - 8 else e + 8

/-- the rank test of `generate_enpassant` for the capturer on f -/
def epBlocked (b : BBs) (board : List Nat) (side e f : Nat) : Prop :=
  (attackInLine (kingSq board side) 3 (b.all ^^^ (sqBB (epCap side e) ||| sqBB f)) &&& (b.ck (1 - side) ROOK ||| b.ck (1 - side) QUEEN)) ≠ 0

instance (b : BBs) (board : List Nat) (side e f : Nat) : Decidable (epBlocked b board side e f) := by unfold epBlocked; exact inferInstance

/-- WHAT `generate_enpassant` EMITS -/
theorem mem_genEnpassant_iff (b : BBs) (board : List Nat) (side : Nat) (np pm cm : BB) (e c : Nat) :
    c ∈ genEnpassant b board side np pm cm e ↔
      (((sqBB (epCap side e) &&& cm) ≠ 0 ∨ (sqBB e &&& pm) ≠ 0) ∧
       (((shift (if side = 0 then Dir.NE else Dir.SW) np &&& sqBB e) ≠ 0 ∧ c = mkMove (epR side e) e ∧
          ((shift (if side = 0 then Dir.NW else Dir.SE) np &&& sqBB e) ≠ 0 ∨ ¬ epBlocked b board side e (epR side e))) ∨
        ((shift (if side = 0 then Dir.NW else Dir.SE) np &&& sqBB e) ≠ 0 ∧ c = mkMove (epL side e) e ∧
          ((shift (if side = 0 then Dir.NE else Dir.SW) np &&& sqBB e) ≠ 0 ∨ ¬ epBlocked b board side e (epL side e))))) := by
  unfold genEnpassant epBlocked epR epL epCap
  simp only []
  generalize (shift (if side = 0 then Dir.NE else Dir.SW) np &&& sqBB e) = R
  generalize (shift (if side = 0 then Dir.NW else Dir.SE) np &&& sqBB e) = L
  generalize hB9 : (attackInLine (kingSq board side) 3 (b.all ^^^ (sqBB (if side = 0 then e - 8 else e + 8) ||| sqBB (if side = 0 then e - 9 else e + 9))) &&&
            (b.ck (1 - side) ROOK ||| b.ck (1 - side) QUEEN)) = B9
  generalize hB7 : (attackInLine (kingSq board side) 3 (b.all ^^^ (sqBB (if side = 0 then e - 8 else e + 8) ||| sqBB (if side = 0 then e - 7 else e + 7))) &&&
            (b.ck (1 - side) ROOK ||| b.ck (1 - side) QUEEN)) = B7
  generalize mkMove (if side = 0 then e - 9 else e + 9) e = m9
  generalize mkMove (if side = 0 then e - 7 else e + 7) e = m7
  generalize (sqBB (if side = 0 then e - 8 else e + 8) &&& cm) = G1
  generalize (sqBB e &&& pm) = G2
  by_cases hG : G1 ≠ 0 ∨ G2 ≠ 0
  · rw [if_neg (not_not_intro hG)]
    by_cases hR : R = 0 <;> by_cases hL : L = 0 <;> by_cases h9 : B9 = 0 <;> by_cases h7 : B7 = 0 <;>
      simp [hR, hL, h9, h7, hB9, hB7, hG]
  · rw [if_pos hG]
    simp only [List.not_mem_nil, false_iff]
    rintro ⟨h, _⟩
    exact hG h

end Chess
