/-
  Lemmas/MirrorDispatch.lean — the endgame dispatch (`endgame::score`: first applicable (class, strong side) in registration order) under
  the colour mirror, for a class whose value is known to be mirror-symmetric and that claims only one strong side.
-/
import ChessVerif.Lemmas.MirrorKPK
namespace Chess
open Chess.Props

theorem find_flat_none (l : List EG) (pr : EG × Nat → Bool) (h : ∀ e, e ∈ l → pr (e, 0) = false ∧ pr (e, 1) = false) :
    (l.flatMap (fun e => [(e, 0), (e, 1)])).find? pr = none := by
  rw [List.find?_eq_none]
  intro x hx
  obtain ⟨e, he, hx⟩ := List.mem_flatMap.1 hx
  have : x = (e, 0) ∨ x = (e, 1) := by simpa using hx
  rcases this with rfl | rfl
  · rw [(h e he).1]; exact Bool.noConfusion
  · rw [(h e he).2]; exact Bool.noConfusion

/-- the first (class, side) found, when the classes of `pre` claim nothing and class `e` claims exactly the strong side `s` -/
theorem find_flat_at (pre post : List EG) (e : EG) (pr : EG × Nat → Bool) (s : Nat) (hs : s ≤ 1)
    (hpre : ∀ e0, e0 ∈ pre → pr (e0, 0) = false ∧ pr (e0, 1) = false) (hyes : pr (e, s) = true) (hno : pr (e, 1 - s) = false) :
    ((pre ++ e :: post).flatMap (fun e => [(e, 0), (e, 1)])).find? pr = some (e, s) := by
  rw [List.flatMap_append, List.find?_append, find_flat_none pre pr hpre]
  simp only [List.flatMap_cons, Option.none_or]
  have hs' : s = 0 ∨ s = 1 := by omega
  rcases hs' with rfl | rfl
  · simp [List.find?_cons, hyes]
  · simp only [show (1 - 1 : Nat) = 0 from rfl] at hno
    simp [List.find?_cons, hyes, hno]

/-- **dispatch under the mirror**: if on the position the classes before `e` claim nothing, `e` claims exactly the strong side `s`, and
    the value of `e` is mirror-symmetric there, then `endgame::score` of the mirrored position (other side to move) equals that of the
    position -/
theorem endgameScore_class_mirror {p q : Position} (m : MirrorPos p q) (hc : CountsOK p.board) (pre post : List EG) (e : EG)
    (hord : egOrder = pre ++ e :: post) (s stm : Nat) (hs : s ≤ 1) (hstm : stm ≤ 1)
    (hpre : ∀ e0, e0 ∈ pre → egApplies e0 (BBs.of p) p.board 0 = false ∧ egApplies e0 (BBs.of p) p.board 1 = false)
    (hyes : egApplies e (BBs.of p) p.board s = true) (hno : egApplies e (BBs.of p) p.board (1 - s) = false)
    (hval : egStrongScore e (BBs.of q) q.board (1 - stm) (1 - s) = egStrongScore e (BBs.of p) p.board stm s) :
    endgameScore (BBs.of q) q.board (1 - stm) = endgameScore (BBs.of p) p.board stm := by
  have hs1 : 1 - s ≤ 1 := by omega
  have e2 : 1 - (1 - s) = s := by omega
  have mir : ∀ e0 t, t ≤ 1 → egApplies e0 (BBs.of q) q.board (1 - t) = egApplies e0 (BBs.of p) p.board t := fun e0 t ht => egApplies_mirror m hc e0 t ht
  have fp := find_flat_at pre post e (fun x => egApplies x.1 (BBs.of p) p.board x.2) s hs hpre hyes hno
  have fq := find_flat_at pre post e (fun x => egApplies x.1 (BBs.of q) q.board x.2) (1 - s) hs1
    (fun e0 h0 => ⟨by have := mir e0 1 (by omega); simp only [show (1 - 1 : Nat) = 0 from rfl] at this; rw [this]; exact (hpre e0 h0).2,
                   by have := mir e0 0 (by omega); simp only [show (1 - 0 : Nat) = 1 from rfl] at this; rw [this]; exact (hpre e0 h0).1⟩)
    (by show egApplies e (BBs.of q) q.board (1 - s) = true; rw [mir e s hs]; exact hyes)
    (by show egApplies e (BBs.of q) q.board (1 - (1 - s)) = false; rw [e2]; have := mir e (1 - s) hs1; rw [e2] at this; rw [this]; exact hno)
  unfold endgameScore
  simp only []
  rw [hord]
  rw [show ((pre ++ e :: post).flatMap (fun e => [(e, 0), (e, 1)])).find? (fun (x : EG × Nat) => egApplies x.1 (BBs.of q) q.board x.2) = some (e, 1 - s) from fq,
      show ((pre ++ e :: post).flatMap (fun e => [(e, 0), (e, 1)])).find? (fun (x : EG × Nat) => egApplies x.1 (BBs.of p) p.board x.2) = some (e, s) from fp]
  simp only []
  rw [hval]
  have hs' : s = 0 ∨ s = 1 := by omega
  have hst' : stm = 0 ∨ stm = 1 := by omega
  rcases hs' with rfl | rfl <;> rcases hst' with rfl | rfl <;> simp

/-- the endgame values that read only the kings and the piece counts -/
def SimpleEG (e : EG) : Prop := e = .KRNKR ∨ e = .KRBKR ∨ e = .KQKR ∨ e = .KNNK ∨ e = .KRKB ∨ e = .KXK

theorem eg_value_simple {p q : Position} (m : MirrorPos p q) (e : EG) (he : SimpleEG e) (s stm : Nat) (hs : s ≤ 1)
    (ks kw : Nat) (hks : KingAt p.board s ks) (hkw : KingAt p.board (1 - s) kw) :
    egStrongScore e (BBs.of q) q.board (1 - stm) (1 - s) = egStrongScore e (BBs.of p) p.board stm s := by
  have hs1 : 1 - s ≤ 1 := by omega
  have e2 : 1 - (1 - s) = s := by omega
  have k1 : kingSq q.board (1 - s) = flipV (kingSq p.board s) := by rw [m.hq]; exact (C13_king_mirror p.board m.len m.codes s ks hs hks).2
  have k2 : kingSq q.board s = flipV (kingSq p.board (1 - s)) := by
    have := (C13_king_mirror p.board m.len m.codes (1 - s) kw hs1 hkw).2
    rw [e2, ← m.hq] at this; exact this
  have hk1 : kingSq p.board s < 64 := by rw [kingSq_eq p.board s ks m.len hks]; exact hks.lt
  have hk2 : kingSq p.board (1 - s) < 64 := by rw [kingSq_eq p.board (1 - s) kw m.len hkw]; exact hkw.lt
  have hpte := (C13_geometry _ _ hk2 hk2).2.2.2.1
  have hdist := (C13_geometry _ _ hk1 hk2).2.2.2.2.2
  have hnorm := C13_normSq_mirror _ s hk2 hs
  have cS : ∀ k, 1 ≤ k → k ≤ 6 → countOf q.board (mkPiece (1 - s) k) = countOf p.board (mkPiece s k) := fun k h1 h6 => cnt_mirror m s k hs h1 h6
  rcases he with rfl | rfl | rfl | rfl | rfl | rfl
  · unfold egStrongScore; simp only [e2, k2, hpte]
  · unfold egStrongScore; simp only [e2, k2, hpte]
  · unfold egStrongScore; simp only [e2, k1, k2, hpte, hdist]
  · unfold egStrongScore; simp only []
  · unfold egStrongScore; simp only [e2, k2, hnorm]
  · unfold egStrongScore
    simp only [e2, k1, k2, hpte, hdist, cS PAWN (by decide) (by decide), cS KNIGHT (by decide) (by decide), cS BISHOP (by decide) (by decide),
      cS ROOK (by decide) (by decide), cS QUEEN (by decide) (by decide)]

end Chess
