/-
  Lemmas/MirrorDispatch.lean — the endgame dispatch (`endgame::score`: first applicable (class, strong side) in registration order) under
  the colour mirror, for a class whose value is known to be mirror-symmetric and that claims only one strong side.
-/
import ChessVerif.Lemmas.MirrorKPK
namespace Chess
open Chess.Props

theorem find_flat_none (l : List EG) (pr : EG × Nat → Bool) (h : ∀ e, e ∈ l → pr (e, 0) = false ∧ pr (e, 1) = false) :
    (l.flatMap (fun e => [(e, 0), (e, 1)])).find? pr = none := by
  rw [List.find?_eq_none]
  intro x hx
  obtain ⟨e, he, hx⟩ := List.mem_flatMap.1 hx
  have : x = (e, 0) ∨ x = (e, 1) := by simpa using hx
  rcases this with rfl | rfl
  · rw [(h e he).1]; exact Bool.noConfusion
  · rw [(h e he).2]; exact Bool.noConfusion

/-- the first (class, side) found, when the classes of `pre` claim nothing and class `e` claims exactly the strong side `s` -/
theorem find_flat_at (pre post : List EG) (e : EG) (pr : EG × Nat → Bool) (s : Nat) (hs : s ≤ 1)
    (hpre : ∀ e0, e0 ∈ pre → pr (e0, 0) = false ∧ pr (e0, 1) = false) (hyes : pr (e, s) = true) (hno : pr (e, 1 - s) = false) :
    ((pre ++ e :: post).flatMap (fun e => [(e, 0), (e, 1)])).find? pr = some (e, s) := by
  rw [List.flatMap_append, List.find?_append, find_flat_none pre pr hpre]
  simp only [List.flatMap_cons, Option.none_or]
  have hs' : s = 0 ∨ s = 1 := by omega
  rcases hs' with rfl | rfl
  · simp [List.find?_cons, hyes]
  · simp only [show (1 - 1 : Nat) = 0 from rfl] at hno
    simp [List.find?_cons, hyes, hno]

/-- **dispatch under the mirror**: if on the position the classes before `e` claim nothing, `e` claims exactly the strong side `s`, and
    the value of `e` is mirror-symmetric there, then `endgame::score` of the mirrored position (other side to move) equals that of the
    position -/
theorem endgameScore_class_mirror {p q : Position} (m : MirrorPos p q) (hc : CountsOK p.board) (pre post : List EG) (e : EG)
    (hord : egOrder = pre ++ e :: post) (s stm : Nat) (hs : s ≤ 1) (hstm : stm ≤ 1)
    (hpre : ∀ e0, e0 ∈ pre → egApplies e0 (BBs.of p) p.board 0 = false ∧ egApplies e0 (BBs.of p) p.board 1 = false)
    (hyes : egApplies e (BBs.of p) p.board s = true) (hno : egApplies e (BBs.of p) p.board (1 - s) = false)
    (hval : egStrongScore e (BBs.of q) q.board (1 - stm) (1 - s) = egStrongScore e (BBs.of p) p.board stm s) :
    endgameScore (BBs.of q) q.board (1 - stm) = endgameScore (BBs.of p) p.board stm := by
  have hs1 : 1 - s ≤ 1 := by omega
  have e2 : 1 - (1 - s) = s := by omega
  have mir : ∀ e0 t, t ≤ 1 → egApplies e0 (BBs.of q) q.board (1 - t) = egApplies e0 (BBs.of p) p.board t := fun e0 t ht => egApplies_mirror m hc e0 t ht
  have fp := find_flat_at pre post e (fun x => egApplies x.1 (BBs.of p) p.board x.2) s hs hpre hyes hno
  have fq := find_flat_at pre post e (fun x => egApplies x.1 (BBs.of q) q.board x.2) (1 - s) hs1
    (fun e0 h0 => ⟨by have := mir e0 1 (by omega); simp only [show (1 - 1 : Nat) = 0 from rfl] at this; rw [this]; exact (hpre e0 h0).2,
                   by have := mir e0 0 (by omega); simp only [show (1 - 0 : Nat) = 1 from rfl] at this; rw [this]; exact (hpre e0 h0).1⟩)
    (by show egApplies e (BBs.of q) q.board (1 - s) = true; rw [mir e s hs]; exact hyes)
    (by show egApplies e (BBs.of q) q.board (1 - (1 - s)) = false; rw [e2]; have := mir e (1 - s) hs1; rw [e2] at this; rw [this]; exact hno)
  unfold endgameScore
  simp only []
  rw [hord]
  rw [show ((pre ++ e :: post).flatMap (fun e => [(e, 0), (e, 1)])).find? (fun (x : EG × Nat) => egApplies x.1 (BBs.of q) q.board x.2) = some (e, 1 - s) from fq,
      show ((pre ++ e :: post).flatMap (fun e => [(e, 0), (e, 1)])).find? (fun (x : EG × Nat) => egApplies x.1 (BBs.of p) p.board x.2) = some (e, s) from fp]
  simp only []
  rw [hval]
  have hs' : s = 0 ∨ s = 1 := by omega
  have hst' : stm = 0 ∨ stm = 1 := by omega
  rcases hs' with rfl | rfl <;> rcases hst' with rfl | rfl <;> simp

/-- the endgame values that read only the kings and the piece counts -/
def SimpleEG (e : EG) : Prop := e = .KRNKR ∨ e = .KRBKR ∨ e = .KQKR ∨ e = .KNNK ∨ e = .KRKB ∨ e = .KXK

theorem eg_value_simple {p q : Position} (m : MirrorPos p q) (e : EG) (he : SimpleEG e) (s stm : Nat) (hs : s ≤ 1)
    (ks kw : Nat) (hks : KingAt p.board s ks) (hkw : KingAt p.board (1 - s) kw) :
    egStrongScore e (BBs.of q) q.board (1 - stm) (1 - s) = egStrongScore e (BBs.of p) p.board stm s := by
  have hs1 : 1 - s ≤ 1 := by omega
  have e2 : 1 - (1 - s) = s := by omega
  have k1 : kingSq q.board (1 - s) = flipV (kingSq p.board s) := by rw [m.hq]; exact (C13_king_mirror p.board m.len m.codes s ks hs hks).2
  have k2 : kingSq q.board s = flipV (kingSq p.board (1 - s)) := by
    have := (C13_king_mirror p.board m.len m.codes (1 - s) kw hs1 hkw).2
    rw [e2, ← m.hq] at this; exact this
  have hk1 : kingSq p.board s < 64 := by rw [kingSq_eq p.board s ks m.len hks]; exact hks.lt
  have hk2 : kingSq p.board (1 - s) < 64 := by rw [kingSq_eq p.board (1 - s) kw m.len hkw]; exact hkw.lt
  have hpte := (C13_geometry _ _ hk2 hk2).2.2.2.1
  have hdist := (C13_geometry _ _ hk1 hk2).2.2.2.2.2
  have hnorm := C13_normSq_mirror _ s hk2 hs
  have cS : ∀ k, 1 ≤ k → k ≤ 6 → countOf q.board (mkPiece (1 - s) k) = countOf p.board (mkPiece s k) := fun k h1 h6 => cnt_mirror m s k hs h1 h6
  rcases he with rfl | rfl | rfl | rfl | rfl | rfl
  · unfold egStrongScore; simp only [e2, k2, hpte]
  · unfold egStrongScore; simp only [e2, k2, hpte]
  · unfold egStrongScore; simp only [e2, k1, k2, hpte, hdist]
  · unfold egStrongScore; simp only []
  · unfold egStrongScore; simp only [e2, k2, hnorm]
  · unfold egStrongScore
    simp only [e2, k1, k2, hpte, hdist, cS PAWN (by decide) (by decide), cS KNIGHT (by decide) (by decide), cS BISHOP (by decide) (by decide),
      cS ROOK (by decide) (by decide), cS QUEEN (by decide) (by decide)]

theorem mkPcv_sum (a1 a2 a3 a4 a5 d1 d2 d3 d4 d5 : Nat) (k1 : a1 < 16) (k2 : a2 < 16) (k3 : a3 < 16) (k4 : a4 < 16) (k5 : a5 < 16)
    (k6 : d1 < 16) (k7 : d2 < 16) (k8 : d3 < 16) (k9 : d4 < 16) (k10 : d5 < 16) :
    mkPcv [a1, a2, a3, a4, a5, d1, d2, d3, d4, d5] =
      (a1 * 16 + a2 * 256 + a3 * 4096 + a4 * 65536 + a5 * 1048576) + 16777216 * (d1 * 16 + d2 * 256 + d3 * 4096 + d4 * 65536 + d5 * 1048576) := by
  show (a1 <<< 4 ||| a2 <<< 8 ||| a3 <<< 12 ||| a4 <<< 16 ||| a5 <<< 20 ||| d1 <<< 28 ||| d2 <<< 32 ||| d3 <<< 36 ||| d4 <<< 40 ||| d5 <<< 44) = _
  rw [pcv_sum _ _ _ _ _ _ _ _ _ _ k1 k2 k3 k4 k5 k6 k7 k8 k9 k10]
  have e4 : (2:Nat) ^ 4 = 16 := rfl
  have e8 : (2:Nat) ^ 8 = 256 := rfl
  have e12 : (2:Nat) ^ 12 = 4096 := rfl
  have e16 : (2:Nat) ^ 16 = 65536 := rfl
  have e20 : (2:Nat) ^ 20 = 1048576 := rfl
  have e28 : (2:Nat) ^ 28 = 268435456 := rfl
  have e32 : (2:Nat) ^ 32 = 4294967296 := rfl
  have e36 : (2:Nat) ^ 36 = 68719476736 := rfl
  have e40 : (2:Nat) ^ 40 = 1099511627776 := rfl
  have e44 : (2:Nat) ^ 44 = 17592186044416 := rfl
  rw [e4, e8, e12, e16, e20, e28, e32, e36, e40, e44]; omega

/-- reading the piece counts off a material signature: strong side has (w1..w5), weak side (b1..b5) of P, N, B, R, Q -/
theorem pcv_decode (b : List Nat) (hc : CountsOK b) (w1 w2 w3 w4 w5 b1 b2 b3 b4 b5 : Nat)
    (hw : w1 < 16 ∧ w2 < 16 ∧ w3 < 16 ∧ w4 < 16 ∧ w5 < 16 ∧ b1 < 16 ∧ b2 < 16 ∧ b3 < 16 ∧ b4 < 16 ∧ b5 < 16) (s : Nat) (hs : s ≤ 1)
    (h : pcv b = sandbox s [w1, w2, w3, w4, w5, b1, b2, b3, b4, b5] [b1, b2, b3, b4, b5, w1, w2, w3, w4, w5]) :
    (countOf b (mkPiece s PAWN) = w1 ∧ countOf b (mkPiece s KNIGHT) = w2 ∧ countOf b (mkPiece s BISHOP) = w3 ∧
     countOf b (mkPiece s ROOK) = w4 ∧ countOf b (mkPiece s QUEEN) = w5) ∧
    (countOf b (mkPiece (1 - s) PAWN) = b1 ∧ countOf b (mkPiece (1 - s) KNIGHT) = b2 ∧ countOf b (mkPiece (1 - s) BISHOP) = b3 ∧
     countOf b (mkPiece (1 - s) ROOK) = b4 ∧ countOf b (mkPiece (1 - s) QUEEN) = b5) := by
  have hh := pcv_halves b hc
  obtain ⟨h1, h2, h3, h4, h5, h7, h8, h9, h10, h11⟩ := hc
  obtain ⟨g1, g2, g3, g4, g5, g6, g7, g8, g9, g10⟩ := hw
  have hs' : s = 0 ∨ s = 1 := by omega
  unfold sandbox at h
  rcases hs' with rfl | rfl
  · simp only [↓reduceIte] at h
    rw [mkPcv_sum _ _ _ _ _ _ _ _ _ _ g1 g2 g3 g4 g5 g6 g7 g8 g9 g10, hh] at h
    refine ⟨⟨?_, ?_, ?_, ?_, ?_⟩, ⟨?_, ?_, ?_, ?_, ?_⟩⟩
    · show countOf b 1 = w1; omega
    · show countOf b 2 = w2; omega
    · show countOf b 3 = w3; omega
    · show countOf b 4 = w4; omega
    · show countOf b 5 = w5; omega
    · show countOf b 7 = b1; omega
    · show countOf b 8 = b2; omega
    · show countOf b 9 = b3; omega
    · show countOf b 10 = b4; omega
    · show countOf b 11 = b5; omega
  · simp only [if_neg (show ¬ (1 : Nat) = 0 by decide)] at h
    rw [mkPcv_sum _ _ _ _ _ _ _ _ _ _ g6 g7 g8 g9 g10 g1 g2 g3 g4 g5, hh] at h
    refine ⟨⟨?_, ?_, ?_, ?_, ?_⟩, ⟨?_, ?_, ?_, ?_, ?_⟩⟩
    · show countOf b 7 = w1; omega
    · show countOf b 8 = w2; omega
    · show countOf b 9 = w3; omega
    · show countOf b 10 = w4; omega
    · show countOf b 11 = w5; omega
    · show countOf b 1 = b1; omega
    · show countOf b 2 = b2; omega
    · show countOf b 3 = b3; omega
    · show countOf b 4 = b4; omega
    · show countOf b 5 = b5; omega

/-- the square of a piece that occurs exactly once (`piece_position(piece, 0)`), under the mirror -/
theorem sq1_mirror {p q : Position} (m : MirrorPos p q) (c k : Nat) (hc : c ≤ 1) (hk1 : 1 ≤ k) (hk : k ≤ 6) (hone : countOf p.board (mkPiece c k) = 1) :
    lsb ((BBs.of q).ck (1 - c) k) = flipV (lsb ((BBs.of p).ck c k)) ∧ lsb ((BBs.of p).ck c k) < 64 := by
  have hqlen : q.board.length = 64 := by rw [m.hq]; exact mirrorBoard_length _
  have hsingle : (BBs.of p).ck c k ≠ 0 ∧ moreThanOne ((BBs.of p).ck c k) = false := by
    rw [ck_eq p c k hc hk]; exact single_of_count _ _ m.len hone
  exact lsb_mirror_single (MirrorPos.ck_lt _ _ hc hk m.len) (MirrorPos.ck_lt _ _ (by omega) hk hqlen) (m.ck c k hc hk1 hk) hsingle.1 hsingle.2

def parityFlipOK : Bool := (List.range 64).all fun x =>
  decide ((rankOf (flipV x) + fileOf (flipV x)) % 2 = 1) == !decide ((rankOf x + fileOf x) % 2 = 1)
theorem parityFlipOK_true : parityFlipOK = true := by decide +kernel
def edgeFilesOK : Bool := mirB (fileBB 0 ||| fileBB 2 ||| fileBB 5 ||| fileBB 7) (fileBB 0 ||| fileBB 2 ||| fileBB 5 ||| fileBB 7)
theorem edgeFilesOK_true : edgeFilesOK = true := by decide +kernel

/-- the endgame values that read the kings and one single piece -/
theorem eg_value_single {p q : Position} (m : MirrorPos p q) (s stm : Nat) (hs : s ≤ 1)
    (ks kw : Nat) (hks : KingAt p.board s ks) (hkw : KingAt p.board (1 - s) kw) :
    (countOf p.board (mkPiece (1 - s) KNIGHT) = 1 →
      egStrongScore .KRKN (BBs.of q) q.board (1 - stm) (1 - s) = egStrongScore .KRKN (BBs.of p) p.board stm s) ∧
    (countOf p.board (mkPiece s BISHOP) = 1 →
      egStrongScore .KNBK (BBs.of q) q.board (1 - stm) (1 - s) = egStrongScore .KNBK (BBs.of p) p.board stm s) ∧
    (countOf p.board (mkPiece (1 - s) PAWN) = 1 →
      egStrongScore .KQKP (BBs.of q) q.board (1 - stm) (1 - s) = egStrongScore .KQKP (BBs.of p) p.board stm s ∧
      egStrongScore .KRKP (BBs.of q) q.board (1 - stm) (1 - s) = egStrongScore .KRKP (BBs.of p) p.board stm s) := by
  have hs1 : 1 - s ≤ 1 := by omega
  have e2 : 1 - (1 - s) = s := by omega
  have hqlen : q.board.length = 64 := by rw [m.hq]; exact mirrorBoard_length _
  have k1 : kingSq q.board (1 - s) = flipV (kingSq p.board s) := by rw [m.hq]; exact (C13_king_mirror p.board m.len m.codes s ks hs hks).2
  have k2 : kingSq q.board s = flipV (kingSq p.board (1 - s)) := by
    have := (C13_king_mirror p.board m.len m.codes (1 - s) kw hs1 hkw).2
    rw [e2, ← m.hq] at this; exact this
  have hk1 : kingSq p.board s < 64 := by rw [kingSq_eq p.board s ks m.len hks]; exact hks.lt
  have hk2 : kingSq p.board (1 - s) < 64 := by rw [kingSq_eq p.board (1 - s) kw m.len hkw]; exact hkw.lt
  have n1 := C13_normSq_mirror _ s hk1 hs
  have n2 := C13_normSq_mirror _ s hk2 hs
  refine ⟨fun hone => ?_, fun hone => ?_, fun hone => ?_⟩
  · obtain ⟨l1, l2⟩ := sq1_mirror m (1 - s) KNIGHT hs1 (by decide) (by decide) hone
    rw [e2] at l1
    unfold egStrongScore
    simp only [e2, k2, l1, n2, C13_normSq_mirror _ s l2 hs]
  · obtain ⟨l1, l2⟩ := sq1_mirror m s BISHOP hs (by decide) (by decide) hone
    have hP := parityFlipOK_true
    simp only [parityFlipOK, List.all_eq_true, List.mem_range, beq_iff_eq] at hP
    have hpar := hP _ l2
    unfold egStrongScore
    simp only [e2, k2, l1]
    by_cases hb : (rankOf (lsb ((BBs.of p).ck s BISHOP)) + fileOf (lsb ((BBs.of p).ck s BISHOP))) % 2 = 1
    · have : ¬ ((rankOf (flipV (lsb ((BBs.of p).ck s BISHOP))) + fileOf (flipV (lsb ((BBs.of p).ck s BISHOP)))) % 2 = 1) := by
        simpa [hb] using hpar
      rw [if_pos hb, if_neg this]
    · have : (rankOf (flipV (lsb ((BBs.of p).ck s BISHOP))) + fileOf (flipV (lsb ((BBs.of p).ck s BISHOP)))) % 2 = 1 := by
        simpa [hb] using hpar
      rw [if_neg hb, if_pos this, flipV_flipV _ hk2]
  · obtain ⟨l1, l2⟩ := sq1_mirror m (1 - s) PAWN hs1 (by decide) (by decide) hone
    rw [e2] at l1
    have mwp : MirrorBB ((BBs.of p).ck (1 - s) PAWN) ((BBs.of q).ck s PAWN) := by
      have := m.ck (1 - s) PAWN hs1 (by decide) (by decide); rw [e2] at this; exact this
    have z := (mwp.and (mirB_sound edgeFilesOK_true)).eq_zero_iff (and_lt (MirrorPos.ck_lt _ _ hs1 (by decide) m.len))
      (and_lt (MirrorPos.ck_lt _ _ hs (by decide) hqlen))
    constructor
    · unfold egStrongScore
      simp only [e2, k1, k2, l1, n1, n2, C13_normSq_mirror _ s l2 hs]
      by_cases hcond : rankOf (normSq (lsb ((BBs.of p).ck (1 - s) PAWN)) s) = 1 ∧
          (BBs.of p).ck (1 - s) PAWN &&& (fileBB 0 ||| fileBB 2 ||| fileBB 5 ||| fileBB 7) ≠ 0 ∧
          distance (normSq (kingSq p.board (1 - s)) s) (mkSquare 0 (fileOf (normSq (lsb ((BBs.of p).ck (1 - s) PAWN)) s))) ≤ 1
      · rw [if_pos hcond, if_pos ⟨hcond.1, fun h0 => hcond.2.1 (z.1 h0), hcond.2.2⟩]
      · rw [if_neg hcond, if_neg (fun h' => hcond ⟨h'.1, fun h0 => h'.2.1 (z.2 h0), h'.2.2⟩)]
    · unfold egStrongScore
      simp only [e2, k1, k2, l1, n1, n2, C13_normSq_mirror _ s l2 hs]

theorem perm_pair (l : List Nat) (x y : Nat) (h : l.Perm [x, y]) : l = [x, y] ∨ l = [y, x] := by
  have hl := h.length_eq
  match l, hl with
  | [a, b], _ =>
    have ha : a ∈ [x, y] := h.mem_iff.1 (by simp)
    have hb : b ∈ [x, y] := h.mem_iff.1 (by simp)
    have hx : x ∈ [a, b] := h.mem_iff.2 (by simp)
    have hy : y ∈ [a, b] := h.mem_iff.2 (by simp)
    simp at ha hb hx hy
    rcases ha with rfl | rfl <;> rcases hb with rfl | rfl
    · left; rcases hy with rfl | rfl <;> rfl
    · left; rfl
    · right; rfl
    · right; rcases hx with rfl | rfl <;> rfl

def colourFlipOK : Bool := (List.range 64).all fun x => sqColor (flipV x) != sqColor x
theorem colourFlipOK_true : colourFlipOK = true := by decide +kernel

/-- KmmKm (two minors against one): the value reads the counts and, for two bishops, whether they stand on squares of different colours -/
theorem eg_value_kmmkm {p q : Position} (m : MirrorPos p q) (s stm : Nat) (hs : s ≤ 1) :
    egStrongScore .KmmKm (BBs.of q) q.board (1 - stm) (1 - s) = egStrongScore .KmmKm (BBs.of p) p.board stm s := by
  have hs1 : 1 - s ≤ 1 := by omega
  have e2 : 1 - (1 - s) = s := by omega
  have hqlen : q.board.length = 64 := by rw [m.hq]; exact mirrorBoard_length _
  have cB := cnt_mirror m s BISHOP hs (by decide) (by decide)
  have cN : countOf q.board (mkPiece s KNIGHT) = countOf p.board (mkPiece (1 - s) KNIGHT) := by
    have := cnt_mirror m (1 - s) KNIGHT hs1 (by decide) (by decide); rw [e2] at this; exact this
  unfold egStrongScore
  simp only [e2, cB, cN]
  by_cases hcond : ((countOf p.board (mkPiece s BISHOP) : Nat) : Int) = 2 ∧ ((countOf p.board (mkPiece (1 - s) KNIGHT) : Nat) : Int) = 1
  · simp only [hcond, and_self, decide_true, Bool.not_true, Bool.false_eq_true, ↓reduceIte]
    have h2 : countOf p.board (mkPiece s BISHOP) = 2 := by have := hcond.1; omega
    have mB := m.ck s BISHOP hs (by decide) (by decide)
    have hlen : (bitsOf ((BBs.of p).ck s BISHOP)).length = 2 := by
      rw [ck_eq p s BISHOP hs (by decide), bitsOf_bbOfPiece_length _ _ m.len]; exact h2
    match hb : bitsOf ((BBs.of p).ck s BISHOP), hlen with
    | [a, b], _ =>
      have hperm := mB.bits_perm
      rw [hb] at hperm
      simp only [List.map_cons, List.map_nil] at hperm
      have ha64 : a < 64 := ((mem_bitsOf _ a).1 (by rw [hb]; simp)).1
      have hb64 : b < 64 := ((mem_bitsOf _ b).1 (by rw [hb]; simp)).1
      have hC := colourFlipOK_true
      simp only [colourFlipOK, List.all_eq_true, List.mem_range, bne_iff_ne] at hC
      have ca := hC a ha64
      have cb := hC b hb64
      have hsc : ∀ x, sqColor x = 0 ∨ sqColor x = 1 := by
        intro x; unfold sqColor; split <;> simp
      have key : (sqColor (flipV a) ≠ sqColor (flipV b)) ↔ (sqColor a ≠ sqColor b) := by
        rcases hsc a with h1 | h1 <;> rcases hsc b with h2 | h2 <;> rcases hsc (flipV a) with h3 | h3 <;> rcases hsc (flipV b) with h4 | h4 <;>
          simp_all
      rcases perm_pair _ _ _ hperm with hy | hy
      · rw [hy]
        simp only [List.getD_cons_zero, List.getD_cons_succ]
        by_cases hk : sqColor a ≠ sqColor b
        · rw [if_pos hk, if_pos (key.2 hk)]
        · rw [if_neg hk, if_neg (fun h' => hk (key.1 h'))]
      · rw [hy]
        simp only [List.getD_cons_zero, List.getD_cons_succ]
        by_cases hk : sqColor a ≠ sqColor b
        · rw [if_pos hk, if_pos (fun h' => (key.2 hk) h'.symm)]
        · rw [if_neg hk, if_neg (fun h' => hk (key.1 (fun h'' => h' h''.symm)))]
  · have : ¬ (((countOf p.board (mkPiece s BISHOP) : Nat) : Int) = 2 ∧ ((countOf p.board (mkPiece (1 - s) KNIGHT) : Nat) : Int) = 1) := hcond
    simp only [this, decide_false, Bool.not_false, ↓reduceIte]

/-- KNNKP: kings, the weak pawn, and the two knights (in either order) -/
theorem eg_value_knnkp {p q : Position} (m : MirrorPos p q) (s stm : Nat) (hs : s ≤ 1)
    (ks kw : Nat) (hks : KingAt p.board s ks) (hkw : KingAt p.board (1 - s) kw)
    (hP : countOf p.board (mkPiece (1 - s) PAWN) = 1) (hN : countOf p.board (mkPiece s KNIGHT) = 2) :
    egStrongScore .KNNKP (BBs.of q) q.board (1 - stm) (1 - s) = egStrongScore .KNNKP (BBs.of p) p.board stm s := by
  have hs1 : 1 - s ≤ 1 := by omega
  have e2 : 1 - (1 - s) = s := by omega
  have k1 : kingSq q.board (1 - s) = flipV (kingSq p.board s) := by rw [m.hq]; exact (C13_king_mirror p.board m.len m.codes s ks hs hks).2
  have k2 : kingSq q.board s = flipV (kingSq p.board (1 - s)) := by
    have := (C13_king_mirror p.board m.len m.codes (1 - s) kw hs1 hkw).2
    rw [e2, ← m.hq] at this; exact this
  have hk1 : kingSq p.board s < 64 := by rw [kingSq_eq p.board s ks m.len hks]; exact hks.lt
  have hk2 : kingSq p.board (1 - s) < 64 := by rw [kingSq_eq p.board (1 - s) kw m.len hkw]; exact hkw.lt
  have n1 := C13_normSq_mirror _ s hk1 hs
  have n2 := C13_normSq_mirror _ s hk2 hs
  obtain ⟨l1, l2⟩ := sq1_mirror m (1 - s) PAWN hs1 (by decide) (by decide) hP
  rw [e2] at l1
  have mN := m.ck s KNIGHT hs (by decide) (by decide)
  have hlen : (bitsOf ((BBs.of p).ck s KNIGHT)).length = 2 := by
    rw [ck_eq p s KNIGHT hs (by decide), bitsOf_bbOfPiece_length _ _ m.len]; exact hN
  unfold egStrongScore
  simp only [e2, k1, k2, l1, n1, n2, C13_normSq_mirror _ s l2 hs]
  match hb : bitsOf ((BBs.of p).ck s KNIGHT), hlen with
  | [a, b], _ =>
    have hperm := mN.bits_perm
    rw [hb] at hperm
    simp only [List.map_cons, List.map_nil] at hperm
    have ha64 : a < 64 := ((mem_bitsOf _ a).1 (by rw [hb]; simp)).1
    have hb64 : b < 64 := ((mem_bitsOf _ b).1 (by rw [hb]; simp)).1
    have na := C13_normSq_mirror a s ha64 hs
    have nb := C13_normSq_mirror b s hb64 hs
    rcases perm_pair _ _ _ hperm with hy | hy
    · rw [hy]
      simp only [List.getD_cons_zero, List.getD_cons_succ, na, nb]
    · rw [hy]
      simp only [List.getD_cons_zero, List.getD_cons_succ, na, nb]
      omega

end Chess
