/-
  Lemmas/StepUndo.lean — a rules-shaped move (`StepOK`, stated on the six FEN fields) has, as the engine's packed code,
  the shape undo_move relies on (`UndoOK`): so C03/C04 hold for every rules-level legal move, not only for generated ones.
-/
import ChessVerif.Lemmas.Refine
namespace Chess

theorem stepOK_undoOK (p : Position) (sm : Spec.SMove) (ok : StepOK (absPos p) sm) : UndoOK p (codeOf (absPos p) sm) := by
  have hlen : p.board.length = 64 := ok.len
  have hside : p.side ≤ 1 := ok.side
  have hsrc : sm.src < 64 := ok.src
  have hdst : sm.dst < 64 := ok.dst
  have hne : sm.src ≠ sm.dst := ok.ne
  obtain ⟨own0, own1⟩ := ok.own
  have htarget := ok.target
  obtain ⟨hpr8, hpr⟩ := ok.promo
  have hepc := ok.ep
  have hcas := ok.castle
  simp only [absPos_board, absPos_side, absPos_ep] at own0 own1 htarget hpr hepc hcas
  by_cases hcs : kindOf (gd p.board sm.src) = KING ∧ (sm.dst = sm.src + 2 ∨ sm.dst + 2 = sm.src)
  · -- castling
    obtain ⟨hs0, hpromo, hK, hQ⟩ := hcas hcs
    have hs : sm.src = if p.side = 0 then 4 else 60 := hs0
    have hcast : Spec.isCastle (absPos p).board sm = true := (isCastle_iff _ _).2 hcs
    have hsq : ∀ k, mkSquare (if p.side = 0 then 0 else 7) k = sm.src + k - 4 := by
      intro k; rw [hs]; exact mkSquare_castle p.side k
    have srcge : 4 ≤ sm.src := by
      have : sm.src = 4 ∨ sm.src = 60 := by
        by_cases h0 : p.side = 0
        · left; rw [hs, if_pos h0]
        · right; rw [hs, if_neg h0]
      omega
    have cc := C16_castle_code_local
    rcases hcs.2 with hd | hd
    · have hcode : codeOf (absPos p) sm = mkCastling KING_CASTLING := by unfold codeOf; rw [if_pos hcast, if_pos hd]
      rw [hcode]
      obtain ⟨e1, e2, e3⟩ := hK hd
      have hr : gd p.board (sm.src + 3) ≠ 0 := by rw [e3]; exact mkPiece_ne_zero _ _ (by decide)
      refine ⟨⟨hlen, hside, ?_, ?_⟩, ?_⟩
      · intro _
        simp only []
        rw [hsq 4, hsq 6, hsq 5, hsq 7, hsq 2, hsq 3, hsq 0]
        have a1 : sm.src + 4 - 4 = sm.src := by omega
        have a2 : sm.src + 6 - 4 = sm.src + 2 := by omega
        have a3 : sm.src + 5 - 4 = sm.src + 1 := by omega
        have a4 : sm.src + 7 - 4 = sm.src + 3 := by omega
        rw [a1, a2, a3, a4]
        exact ⟨own0, fun _ => ⟨e2, e1, hr⟩, fun h => absurd cc.1 h⟩
      · intro h; rw [cc.1] at h; exact absurd h (by decide)
      · intro h; rw [cc.1] at h; exact absurd h (by decide)
    · have hd' : ¬ sm.dst = sm.src + 2 := by omega
      have hcode : codeOf (absPos p) sm = mkCastling QUEEN_CASTLING := by unfold codeOf; rw [if_pos hcast, if_neg hd']
      rw [hcode]
      obtain ⟨e1, e2, e3⟩ := hQ hd
      have hr : gd p.board (sm.src - 4) ≠ 0 := by rw [e3]; exact mkPiece_ne_zero _ _ (by decide)
      have hnk : ¬ moveCastling (mkCastling QUEEN_CASTLING) = KING_CASTLING := by rw [cc.2]; decide
      refine ⟨⟨hlen, hside, ?_, ?_⟩, ?_⟩
      · intro _
        simp only []
        rw [hsq 4, hsq 6, hsq 5, hsq 7, hsq 2, hsq 3, hsq 0]
        have a1 : sm.src + 4 - 4 = sm.src := by omega
        have a2 : sm.src + 2 - 4 = sm.src - 2 := by omega
        have a3 : sm.src + 3 - 4 = sm.src - 1 := by omega
        have a4 : sm.src + 0 - 4 = sm.src - 4 := by omega
        rw [a1, a2, a3, a4]
        exact ⟨own0, fun h => absurd h hnk, fun _ => ⟨e2, e1, hr⟩⟩
      · intro h; rw [cc.2] at h; exact absurd h (by decide)
      · intro h; rw [cc.2] at h; exact absurd h (by decide)
  · -- ordinary move
    have hcast : Spec.isCastle (absPos p).board sm = false := by
      apply Bool.eq_false_iff.2
      intro h; exact hcs ((isCastle_iff _ _).1 h)
    have hcode : codeOf (absPos p) sm = mkPromotion sm.src sm.dst sm.promo := by unfold codeOf; rw [hcast]; rfl
    rw [hcode]
    obtain ⟨c1, c2, c3, c4⟩ := Props.C16_encoding sm.src sm.dst sm.promo hsrc hdst (by omega)
    refine ⟨⟨hlen, hside, fun h => absurd c4 h, ?_⟩, ?_⟩
    · intro _
      rw [c1, c2, c3]
      refine ⟨hsrc, hdst, hne, own0, ?_, ?_⟩
      · intro _; omega
      · intro he
        obtain ⟨e1, e2, e3, e4, e5, e6, e7, e8⟩ := hepc he
        have e7' : gd p.board (if p.side = 0 then sm.dst - 8 else sm.dst + 8) = mkPiece (1 - p.side) PAWN := e7
        have hv : gd p.board (if p.side = 0 then sm.dst - 8 else sm.dst + 8) ≠ 0 := by
          rw [e7']; exact mkPiece_ne_zero _ _ (by decide)
        refine ⟨e3, ?_, e8, ?_, hv⟩
        · split <;> omega
        · split <;> omega
    · intro _
      rw [c1, c2, c3]
      refine ⟨?_, ?_, ?_⟩
      · intro h; exact htarget h
      · intro h
        obtain ⟨hk, hd⟩ := hpr h
        refine ⟨?_, hd⟩
        show gd p.board sm.src = mkPiece p.side PAWN
        rw [← hk]; exact own1
      · intro he
        obtain ⟨e1, e2, e3, e4, e5, e6, e7, e8⟩ := hepc he
        exact ⟨e7, e4⟩

end Chess
