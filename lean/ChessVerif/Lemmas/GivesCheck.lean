/-
  Lemmas/GivesCheck.lean — `move_gives_check` says what playing the move does (C15, the check-giving part), for ordinary
  moves (captures and promotions included; en passant and castling are treated separately): the direct-check test through the
  moved piece's attack set, plus the discovered-check test with the OLD slider sets on the NEW occupancy, equals the four
  bitboard tests around the enemy king on the board after the move.  Uses: attack symmetry, "a square seen through a lifted
  blocker was seen before", and that the enemy king is not attacked before the move (it is not the mover's turn otherwise).
-/
import ChessVerif.Lemmas.AttackSym
import ChessVerif.Lemmas.Forbidden
import ChessVerif.Model.Text
namespace Chess

theorem moveFrom_lt' (m : Nat) : moveFrom m < 64 := by
  unfold moveFrom
  have := Nat.and_two_pow_sub_one_eq_mod m 6
  have e : (0x3F : Nat) = 2 ^ 6 - 1 := by decide
  rw [e, this]; omega
theorem moveTo_lt' (m : Nat) : moveTo m < 64 := by
  unfold moveTo
  have := Nat.and_two_pow_sub_one_eq_mod (m >>> 6) 6
  have e : (0x3F : Nat) = 2 ^ 6 - 1 := by decide
  rw [e, this]; omega

theorem meets_iff (X Y : Nat) : (X &&& Y ≠ 0) ↔ ∃ s, X.testBit s = true ∧ Y.testBit s = true := by
  constructor
  · intro h
    obtain ⟨s, hs⟩ := Nat.exists_testBit_of_ne_zero h   -- some bit of X &&& Y is set
    rw [Nat.testBit_and] at hs
    simp only [Bool.and_eq_true] at hs
    exact ⟨s, hs.1, hs.2⟩
  · rintro ⟨s, h1, h2⟩
    exact and_ne_zero_of_testBit X Y s h1 h2

/-- a ray walk on the occupancy with f lifted and t added still reaches f only if it reached f before -/
theorem walk_lift (L : List Nat) (occ : BB) (f t : Nat) (hf : occ.testBit f = true)
    (h : (Spec.walk L ((occ ^^^ sqBB f) ||| sqBB t)).testBit f = true) : (Spec.walk L occ).testBit f = true := by
  induction L with
  | nil => simp [Spec.walk] at h
  | cons x xs ih =>
    unfold Spec.walk at h ⊢
    rw [Nat.testBit_or, sqBB_testBit] at h ⊢
    by_cases hx : x = f
    · simp [hx]
    · have hx' : decide (x = f) = false := by simp [hx]
      rw [hx', Bool.false_or] at h ⊢
      by_cases ho' : ((occ ^^^ sqBB f) ||| sqBB t).testBit x = true
      · rw [if_pos ho'] at h; simp at h
      · rw [if_neg ho'] at h
        have hocc : occ.testBit x = false := by
          rw [Nat.testBit_or, Nat.testBit_xor, sqBB_testBit, sqBB_testBit] at ho'
          have hfx : decide (f = x) = false := by simp; exact fun e => hx e.symm
          rw [hfx] at ho'
          simp only [Bool.bne_false, Bool.or_eq_true, decide_eq_true_eq, not_or] at ho'
          simpa using ho'.1
        rw [if_neg (by simp [hocc])]
        exact ih h

theorem walkDirs_lift (dirs : List (Int × Int)) (s : Nat) (occ : BB) (f t : Nat) (hf : occ.testBit f = true)
    (h : (Spec.walkDirs dirs s ((occ ^^^ sqBB f) ||| sqBB t)).testBit f = true) : (Spec.walkDirs dirs s occ).testBit f = true := by
  unfold Spec.walkDirs at h ⊢
  rw [walkDirs_testBit] at h ⊢
  rcases h with h | ⟨d, hd, h⟩
  · simp at h
  · exact Or.inr ⟨d, hd, walk_lift _ occ f t hf h⟩

theorem bishopAttack_lift (k : Nat) (hk : k < 64) (occ : BB) (f t : Nat) (hf : occ.testBit f = true)
    (h : (bishopAttack k ((occ ^^^ sqBB f) ||| sqBB t)).testBit f = true) : (bishopAttack k occ).testBit f = true := by
  have h1 := Props.C11_slider BISHOP k hk occ
  have h2 := Props.C11_slider BISHOP k hk ((occ ^^^ sqBB f) ||| sqBB t)
  simp [sliderAttack, Spec.rayWalk] at h1 h2
  rw [h2] at h; rw [h1]
  exact walkDirs_lift _ k occ f t hf h

theorem rookAttack_lift (k : Nat) (hk : k < 64) (occ : BB) (f t : Nat) (hf : occ.testBit f = true)
    (h : (rookAttack k ((occ ^^^ sqBB f) ||| sqBB t)).testBit f = true) : (rookAttack k occ).testBit f = true := by
  have h1 := Props.C11_slider ROOK k hk occ
  have h2 := Props.C11_slider ROOK k hk ((occ ^^^ sqBB f) ||| sqBB t)
  simp [sliderAttack, Spec.rayWalk, ROOK, BISHOP] at h1 h2
  rw [h2] at h; rw [h1]
  exact walkDirs_lift _ k occ f t hf h

-- the board after an ordinary move ----------------------------------------------------------------------
def afterBoard (b : List Nat) (f t pc' : Nat) : List Nat := (b.set f 0).set t pc'
def afterPos (p : Position) (f t pc' : Nat) : Position := { p with board := afterBoard p.board f t pc' }

theorem after_at (b : List Nat) (f t pc' s : Nat) (hl : b.length = 64) (hf : f < 64) (ht : t < 64) :
    (afterBoard b f t pc').getD s 0 = if t = s then pc' else if f = s then 0 else b.getD s 0 := by
  show gd ((b.set f 0).set t pc') s = _
  rw [gd_set, gd_set]
  simp only [List.length_set, hl, hf, ht, and_true]
  rfl

theorem afterOK (b : List Nat) (f t pc' : Nat) (ok : BoardOK b) (hf : f < 64) (ht : t < 64) (hpc : pc' ≤ 12) : BoardOK (afterBoard b f t pc') := by
  refine ⟨by unfold afterBoard; simp [ok.len], ?_⟩
  intro s
  rw [after_at b f t pc' s ok.len hf ht]
  split
  · exact hpc
  · split
    · omega
    · exact ok.codes s

/-- the bitboard of (c, K) after the move, bit by bit -/
theorem ck_after (p : Position) (f t pc' c K s : Nat) (ok : BoardOK p.board) (hf : f < 64) (ht : t < 64) (hpc : pc' ≤ 12) (hc : c ≤ 1) (hK : 1 ≤ K ∧ K ≤ 6) :
    ((BBs.of (afterPos p f t pc')).ck c K).testBit s =
      (decide (s < 64) && (if t = s then decide (pc' = mkPiece c K) else if f = s then false else decide (p.board.getD s 0 = mkPiece c K))) := by
  have ok' : BoardOK (afterPos p f t pc').board := afterOK p.board f t pc' ok hf ht hpc
  rw [ck_testBit _ c K s hc hK.2 ok']
  show (decide (s < 64) && decide ((afterBoard p.board f t pc').getD s 0 = mkPiece c K)) = _
  rw [after_at p.board f t pc' s ok.len hf ht]
  by_cases h1 : t = s
  · simp [h1]
  · by_cases h2 : f = s
    · have h0 : ¬ (0 = mkPiece c K) := fun h => mkPiece_ne_zero c K (by omega) h.symm
      simp [h1, h2, h0]
    · simp [h1, h2]

theorem all_after (p : Position) (f t pc' : Nat) (ok : BoardOK p.board) (hf : f < 64) (ht : t < 64) (hpc : pc' ≤ 12) (hpc0 : pc' ≠ 0)
    (hmover : p.board.getD f 0 ≠ 0) (hft : f ≠ t) :
    (BBs.of (afterPos p f t pc')).all = ((BBs.of p).all ^^^ sqBB f) ||| sqBB t := by
  have ok' : BoardOK (afterPos p f t pc').board := afterOK p.board f t pc' ok hf ht hpc
  apply Nat.eq_of_testBit_eq
  intro s
  rw [all_testBit _ s ok', Nat.testBit_or, Nat.testBit_xor, sqBB_testBit, sqBB_testBit, all_testBit p s ok]
  show (decide (s < 64) && decide ((afterBoard p.board f t pc').getD s 0 ≠ 0)) = _
  rw [after_at p.board f t pc' s ok.len hf ht]
  by_cases h1 : t = s
  · subst h1; simp [ht, hpc0]
  · by_cases h2 : f = s
    · subst h2
      have hm' : ¬ p.board[f]?.getD 0 = 0 := by rw [← List.getD_eq_getElem?_getD]; exact hmover
      simp [h1, hf, hm']
    · simp [h1, h2]

/-- one of the four tests around the enemy king on the board after the move: the moved piece on its new square, or an unmoved piece -/
theorem term_after (p : Position) (f t pc' c K : Nat) (X : BB) (ok : BoardOK p.board) (hf : f < 64) (ht : t < 64) (hpc : pc' ≤ 12)
    (hc : c ≤ 1) (hK : 1 ≤ K ∧ K ≤ 6) :
    (X &&& (BBs.of (afterPos p f t pc')).ck c K ≠ 0) ↔
      ((pc' = mkPiece c K ∧ X.testBit t = true) ∨ ∃ s, s ≠ t ∧ s ≠ f ∧ X.testBit s = true ∧ ((BBs.of p).ck c K).testBit s = true) := by
  rw [meets_iff]
  constructor
  · rintro ⟨s, hx, hck⟩
    rw [ck_after p f t pc' c K s ok hf ht hpc hc hK] at hck
    simp only [Bool.and_eq_true, decide_eq_true_eq] at hck
    obtain ⟨hs, hck⟩ := hck
    by_cases h1 : t = s
    · rw [if_pos h1] at hck
      left; exact ⟨of_decide_eq_true hck, by rw [h1]; exact hx⟩
    · rw [if_neg h1] at hck
      by_cases h2 : f = s
      · rw [if_pos h2] at hck; cases hck
      · rw [if_neg h2] at hck
        right
        refine ⟨s, fun h => h1 h.symm, fun h => h2 h.symm, hx, ?_⟩
        rw [ck_testBit p c K s hc hK.2 ok]
        simp only [Bool.and_eq_true, decide_eq_true_eq]
        exact ⟨hs, of_decide_eq_true hck⟩
  · rintro (⟨hpc', hx⟩ | ⟨s, h1, h2, hx, hck⟩)
    · refine ⟨t, hx, ?_⟩
      rw [ck_after p f t pc' c K t ok hf ht hpc hc hK]
      simp [ht, hpc']
    · refine ⟨s, hx, ?_⟩
      rw [ck_testBit p c K s hc hK.2 ok] at hck
      simp only [Bool.and_eq_true, decide_eq_true_eq] at hck
      rw [ck_after p f t pc' c K s ok hf ht hpc hc hK]
      rw [if_neg (fun h => h1 h.symm), if_neg (fun h => h2 h.symm)]
      have hck2 : p.board[s]?.getD 0 = mkPiece c K := by rw [← List.getD_eq_getElem?_getD]; exact hck.2
      simp [hck.1, hck2]

theorem and_or_ne_zero (X a b : Nat) : (X &&& (a ||| b) ≠ 0) ↔ (X &&& a ≠ 0 ∨ X &&& b ≠ 0) := by
  rw [Nat.and_comm X (a ||| b), or_and_ne_zero, Nat.and_comm a X, Nat.and_comm b X]

-- the theorem for ordinary moves ---------------------------------------------------------------------------
theorem kindOf_le (pc : Nat) : kindOf pc ≤ 6 := by unfold kindOf; split <;> omega

/-- what is assumed of an ordinary (non-castling, non-en-passant) move: the mover is an own piece, the target holds no own piece
    and not the enemy king, promotions are to N/B/R/Q, and the enemy king on kq is not attacked before the move -/
structure OrdMove (p : Position) (m kq : Nat) : Prop where
  side : p.side ≤ 1
  ok : BoardOK p.board
  c0 : moveCastling m = 0
  ne : moveFrom m ≠ moveTo m
  mover : p.board.getD (moveFrom m) 0 = mkPiece p.side (kindOf (p.at (moveFrom m)))
  kind : 1 ≤ kindOf (p.at (moveFrom m))
  promo : movePromo m ≤ 5 ∧ movePromo m ≠ 1
  target : ∀ K, 1 ≤ K → K ≤ 6 → p.board.getD (moveTo m) 0 ≠ mkPiece p.side K
  notEp : ¬ (kindOf (p.at (moveFrom m)) = PAWN ∧ moveTo m = p.ep)
  king : KingAt p.board (1 - p.side) kq
  tk : moveTo m ≠ kq
  safe : attackedBB p kq (1 - p.side) = false

theorem testBit_and_sqBB (X : BB) (k : Nat) : (X &&& sqBB k ≠ 0) ↔ X.testBit k = true := by
  rw [Nat.and_comm]; exact sqBB_and_ne_zero k X

/-- the Boolean the engine computes for an ordinary move, as a function of (from, to, kind of the piece arriving) -/
def givesCheckExpr (p : Position) (f t kind kq : Nat) : Bool :=
  let b := BBs.of p
  let side := p.side
  let kBB := sqBB kq
  let bl := (b.all ^^^ sqBB f) ||| sqBB t
  let direct :=
    if kind = PAWN then (pawnAttacks side (sqBB t) &&& kBB) ≠ 0
    else if kind = KNIGHT then (knightMask t &&& kBB) ≠ 0
    else if kind = BISHOP then (bishopAttack t bl &&& kBB) ≠ 0
    else if kind = ROOK then (rookAttack t bl &&& kBB) ≠ 0
    else if kind = QUEEN then (queenAttack t bl &&& kBB) ≠ 0
    else false
  let bq := b.ck side BISHOP ||| b.ck side QUEEN
  let rq := b.ck side ROOK ||| b.ck side QUEEN
  direct || ((bishopAttack kq bl &&& bq) ≠ 0 || (rookAttack kq bl &&& rq) ≠ 0)

theorem gives_check_core (p : Position) (f t k' kq : Nat) (hc : p.side ≤ 1) (ok : BoardOK p.board) (hf : f < 64) (ht : t < 64) (hne : f ≠ t)
    (hk' : 1 ≤ k' ∧ k' ≤ 6) (hmover0 : p.board.getD f 0 ≠ 0)
    (htarget : ∀ K, 1 ≤ K → K ≤ 6 → p.board.getD t 0 ≠ mkPiece p.side K)
    (hking : KingAt p.board (1 - p.side) kq) (htk : t ≠ kq)
    (hsafe : attackedBB p kq (1 - p.side) = false) :
    givesCheckExpr p f t k' kq = attackedBB (afterPos p f t (mkPiece p.side k')) kq (1 - p.side) := by
  have hkq := hking.lt
  have hpc : mkPiece p.side k' ≤ 12 := by unfold mkPiece; rw [if_neg (by omega)]; omega
  have hpc0 : mkPiece p.side k' ≠ 0 := mkPiece_ne_zero _ _ (by omega)
  have hall := all_after p f t _ ok hf ht hpc hpc0 hmover0 hne
  have hopp : 1 - (1 - p.side) = p.side := by omega
  -- the enemy king is not attacked before the move: the four tests are empty
  unfold attackedBB at hsafe
  simp only [hopp, Bool.or_eq_false_iff, decide_eq_false_iff_not, ne_eq, Decidable.not_not] at hsafe
  obtain ⟨⟨⟨sP, sN⟩, sB⟩, sR⟩ := hsafe
  -- no unmoved pawn or knight attacks the king afterwards either
  have noP : ¬ ∃ s, s ≠ t ∧ s ≠ f ∧ (pawnAttacks (1 - p.side) (sqBB kq)).testBit s = true ∧ ((BBs.of p).ck p.side PAWN).testBit s = true := by
    rintro ⟨s, _, _, h1, h2⟩
    exact and_ne_zero_of_testBit _ _ s h1 h2 sP
  have noN : ¬ ∃ s, s ≠ t ∧ s ≠ f ∧ (knightMask kq).testBit s = true ∧ ((BBs.of p).ck p.side KNIGHT).testBit s = true := by
    rintro ⟨s, _, _, h1, h2⟩
    exact and_ne_zero_of_testBit _ _ s h1 h2 sN
  have hallf : ((BBs.of p).all).testBit f = true := by
    rw [all_testBit p f ok]
    simp only [Bool.and_eq_true, decide_eq_true_eq]
    exact ⟨hf, hmover0⟩
  have notOwnT : ∀ K, 1 ≤ K → K ≤ 6 → ((BBs.of p).ck p.side K).testBit t = false := by
    intro K h1 h6
    rw [ck_testBit p p.side K t hc h6 ok]
    simp only [Bool.and_eq_false_iff, decide_eq_false_iff_not]
    exact Or.inr (htarget K h1 h6)
  have mk_iff : ∀ K, 1 ≤ K → K ≤ 6 → (mkPiece p.side k' = mkPiece p.side K ↔ k' = K) := by
    intro K h1 h6
    constructor
    · intro h; exact (mkPiece_inj p.side k' p.side K hc hc hk' ⟨h1, h6⟩ h).2
    · intro h; rw [h]
  -- the discovered-check tests (old slider sets on the new occupancy) see exactly the unmoved sliders
  have discB : ((bishopAttack kq (((BBs.of p).all ^^^ sqBB f) ||| sqBB t)) &&& ((BBs.of p).ck p.side BISHOP ||| (BBs.of p).ck p.side QUEEN) ≠ 0) ↔
      ((∃ s, s ≠ t ∧ s ≠ f ∧ (bishopAttack kq (((BBs.of p).all ^^^ sqBB f) ||| sqBB t)).testBit s = true ∧ ((BBs.of p).ck p.side BISHOP).testBit s = true) ∨
       (∃ s, s ≠ t ∧ s ≠ f ∧ (bishopAttack kq (((BBs.of p).all ^^^ sqBB f) ||| sqBB t)).testBit s = true ∧ ((BBs.of p).ck p.side QUEEN).testBit s = true)) := by
    rw [meets_iff]
    constructor
    · rintro ⟨s, h1, h2⟩
      rw [Nat.testBit_or] at h2
      have hst : s ≠ t := by
        intro e; subst e
        rw [notOwnT BISHOP (by decide) (by decide), notOwnT QUEEN (by decide) (by decide)] at h2; simp at h2
      have hsf : s ≠ f := by
        intro e; subst e
        have hold := bishopAttack_lift kq hkq _ s t hallf h1
        exact and_ne_zero_of_testBit _ _ s hold (by rw [Nat.testBit_or]; exact h2) sB
      simp only [Bool.or_eq_true] at h2
      rcases h2 with h2 | h2
      · exact Or.inl ⟨s, hst, hsf, h1, h2⟩
      · exact Or.inr ⟨s, hst, hsf, h1, h2⟩
    · rintro (⟨s, _, _, h1, h2⟩ | ⟨s, _, _, h1, h2⟩)
      · exact ⟨s, h1, by rw [Nat.testBit_or, h2]; rfl⟩
      · exact ⟨s, h1, by rw [Nat.testBit_or, h2]; simp⟩
  have discR : ((rookAttack kq (((BBs.of p).all ^^^ sqBB f) ||| sqBB t)) &&& ((BBs.of p).ck p.side ROOK ||| (BBs.of p).ck p.side QUEEN) ≠ 0) ↔
      ((∃ s, s ≠ t ∧ s ≠ f ∧ (rookAttack kq (((BBs.of p).all ^^^ sqBB f) ||| sqBB t)).testBit s = true ∧ ((BBs.of p).ck p.side ROOK).testBit s = true) ∨
       (∃ s, s ≠ t ∧ s ≠ f ∧ (rookAttack kq (((BBs.of p).all ^^^ sqBB f) ||| sqBB t)).testBit s = true ∧ ((BBs.of p).ck p.side QUEEN).testBit s = true)) := by
    rw [meets_iff]
    constructor
    · rintro ⟨s, h1, h2⟩
      rw [Nat.testBit_or] at h2
      have hst : s ≠ t := by
        intro e; subst e
        rw [notOwnT ROOK (by decide) (by decide), notOwnT QUEEN (by decide) (by decide)] at h2; simp at h2
      have hsf : s ≠ f := by
        intro e; subst e
        have hold := rookAttack_lift kq hkq _ s t hallf h1
        exact and_ne_zero_of_testBit _ _ s hold (by rw [Nat.testBit_or]; exact h2) sR
      simp only [Bool.or_eq_true] at h2
      rcases h2 with h2 | h2
      · exact Or.inl ⟨s, hst, hsf, h1, h2⟩
      · exact Or.inr ⟨s, hst, hsf, h1, h2⟩
    · rintro (⟨s, _, _, h1, h2⟩ | ⟨s, _, _, h1, h2⟩)
      · exact ⟨s, h1, by rw [Nat.testBit_or, h2]; rfl⟩
      · exact ⟨s, h1, by rw [Nat.testBit_or, h2]; simp⟩
  -- the four tests on the board after the move
  have tP := term_after p f t (mkPiece p.side k') p.side PAWN (pawnAttacks (1 - p.side) (sqBB kq)) ok hf ht hpc hc ⟨by decide, by decide⟩
  have tN := term_after p f t (mkPiece p.side k') p.side KNIGHT (knightMask kq) ok hf ht hpc hc ⟨by decide, by decide⟩
  have tB := term_after p f t (mkPiece p.side k') p.side BISHOP (bishopAttack kq (((BBs.of p).all ^^^ sqBB f) ||| sqBB t)) ok hf ht hpc hc ⟨by decide, by decide⟩
  have tQb := term_after p f t (mkPiece p.side k') p.side QUEEN (bishopAttack kq (((BBs.of p).all ^^^ sqBB f) ||| sqBB t)) ok hf ht hpc hc ⟨by decide, by decide⟩
  have tR := term_after p f t (mkPiece p.side k') p.side ROOK (rookAttack kq (((BBs.of p).all ^^^ sqBB f) ||| sqBB t)) ok hf ht hpc hc ⟨by decide, by decide⟩
  have tQr := term_after p f t (mkPiece p.side k') p.side QUEEN (rookAttack kq (((BBs.of p).all ^^^ sqBB f) ||| sqBB t)) ok hf ht hpc hc ⟨by decide, by decide⟩
  rw [mk_iff PAWN (by decide) (by decide)] at tP
  rw [mk_iff KNIGHT (by decide) (by decide)] at tN
  rw [mk_iff BISHOP (by decide) (by decide)] at tB
  rw [mk_iff QUEEN (by decide) (by decide)] at tQb tQr
  rw [mk_iff ROOK (by decide) (by decide)] at tR
  -- symmetry: "the arriving piece attacks the king" = "its square is in the king's attack set of that kind"
  have symP : (pawnAttacks p.side (sqBB t) &&& sqBB kq ≠ 0) ↔ (pawnAttacks (1 - p.side) (sqBB kq)).testBit t = true := by
    rw [testBit_and_sqBB]
    have hs := leaper_sym t kq ht hkq
    have : p.side = 0 ∨ p.side = 1 := by omega
    rcases this with e | e <;> rw [e]
    · rw [hs.2.2.1]
    · rw [hs.2.2.2]
  have symN : (knightMask t &&& sqBB kq ≠ 0) ↔ (knightMask kq).testBit t = true := by
    rw [testBit_and_sqBB, (leaper_sym t kq ht hkq).1]
  have symB : ∀ occ, (bishopAttack t occ &&& sqBB kq ≠ 0) ↔ (bishopAttack kq occ).testBit t = true := by
    intro occ; rw [testBit_and_sqBB, bishopAttack_sym t kq ht hkq]
  have symR : ∀ occ, (rookAttack t occ &&& sqBB kq ≠ 0) ↔ (rookAttack kq occ).testBit t = true := by
    intro occ; rw [testBit_and_sqBB, rookAttack_sym t kq ht hkq]
  have symQ : ∀ occ, (queenAttack t occ &&& sqBB kq ≠ 0) ↔ ((bishopAttack kq occ).testBit t = true ∨ (rookAttack kq occ).testBit t = true) := by
    intro occ
    unfold queenAttack
    rw [Nat.and_comm, and_or_ne_zero, Nat.and_comm, Nat.and_comm (sqBB kq), symB, symR]
  apply Bool.eq_iff_iff.2
  unfold givesCheckExpr attackedBB
  simp only [hopp, hall, Bool.or_eq_true, decide_eq_true_eq]
  rw [discB, discR, and_or_ne_zero, and_or_ne_zero, tP, tN, tB, tQb, tR, tQr, symP, symN, symB, symR, symQ]
  have hk6 : k' = 1 ∨ k' = 2 ∨ k' = 3 ∨ k' = 4 ∨ k' = 5 ∨ k' = 6 := by omega
  clear discB discR tP tN tB tQb tR tQr symP symN symB symR symQ sR sB sP sN hallf notOwnT mk_iff hall hking htarget hmover0 hpc hpc0 ok
  generalize (∃ s, s ≠ t ∧ s ≠ f ∧ (pawnAttacks (1 - p.side) (sqBB kq)).testBit s = true ∧ ((BBs.of p).ck p.side PAWN).testBit s = true) = eP at noP ⊢
  generalize (∃ s, s ≠ t ∧ s ≠ f ∧ (knightMask kq).testBit s = true ∧ ((BBs.of p).ck p.side KNIGHT).testBit s = true) = eN at noN ⊢
  generalize (∃ s, s ≠ t ∧ s ≠ f ∧ (bishopAttack kq (((BBs.of p).all ^^^ sqBB f) ||| sqBB t)).testBit s = true ∧ ((BBs.of p).ck p.side BISHOP).testBit s = true) = eBB
  generalize (∃ s, s ≠ t ∧ s ≠ f ∧ (bishopAttack kq (((BBs.of p).all ^^^ sqBB f) ||| sqBB t)).testBit s = true ∧ ((BBs.of p).ck p.side QUEEN).testBit s = true) = eBQ
  generalize (∃ s, s ≠ t ∧ s ≠ f ∧ (rookAttack kq (((BBs.of p).all ^^^ sqBB f) ||| sqBB t)).testBit s = true ∧ ((BBs.of p).ck p.side ROOK).testBit s = true) = eRR
  generalize (∃ s, s ≠ t ∧ s ≠ f ∧ (rookAttack kq (((BBs.of p).all ^^^ sqBB f) ||| sqBB t)).testBit s = true ∧ ((BBs.of p).ck p.side QUEEN).testBit s = true) = eRQ
  generalize ((pawnAttacks (1 - p.side) (sqBB kq)).testBit t = true) = aP
  generalize ((knightMask kq).testBit t = true) = aN
  generalize ((bishopAttack kq (((BBs.of p).all ^^^ sqBB f) ||| sqBB t)).testBit t = true) = aB
  generalize ((rookAttack kq (((BBs.of p).all ^^^ sqBB f) ||| sqBB t)).testBit t = true) = aR
  rcases hk6 with rfl | rfl | rfl | rfl | rfl | rfl <;>
    simp only [PAWN, KNIGHT, BISHOP, ROOK, QUEEN, if_true, if_false, Nat.reduceEqDiff, reduceCtorEq, true_and, false_and, false_or, or_false,
      Nat.succ_ne_self, decide_eq_true_eq, noP, noN] <;>
    (constructor <;> intro h <;> grind)

theorem gives_check_ordinary (p : Position) (m kq : Nat) (h : OrdMove p m kq) :
    moveGivesCheck p m =
      attackedBB (afterPos p (moveFrom m) (moveTo m) (mkPiece p.side (checkingKind p m))) kq (1 - p.side) := by
  have hc := h.side
  have hf := moveFrom_lt' m
  have ht := moveTo_lt' m
  have hkq := h.king.lt
  have hk' : 1 ≤ checkingKind p m ∧ checkingKind p m ≤ 6 := by
    unfold checkingKind
    split
    · have := h.promo; omega
    · exact ⟨h.kind, kindOf_le _⟩
  have hpc : mkPiece p.side (checkingKind p m) ≤ 12 := by
    unfold mkPiece; rw [if_neg (by omega)]; omega
  have hpc0 : mkPiece p.side (checkingKind p m) ≠ 0 := mkPiece_ne_zero _ _ (by omega)
  have hmover0 : p.board.getD (moveFrom m) 0 ≠ 0 := by
    rw [h.mover]; exact mkPiece_ne_zero _ _ (by have := h.kind; omega)
  have hks : kingSq p.board (1 - p.side) = kq := kingSq_eq p.board (1 - p.side) kq h.ok.len h.king
  have hall := all_after p (moveFrom m) (moveTo m) _ h.ok hf ht hpc hpc0 hmover0 h.ne
  have hopp : 1 - (1 - p.side) = p.side := by omega
  have hcore := gives_check_core p (moveFrom m) (moveTo m) (checkingKind p m) kq hc h.ok hf ht h.ne hk' hmover0 h.target h.king h.tk h.safe
  rw [← hcore]
  unfold moveGivesCheck givesCheckExpr
  simp only []
  rw [if_neg (by rw [h.c0]; simp), hks, if_neg h.notEp]
  simp only [Bool.or_false]

end Chess
