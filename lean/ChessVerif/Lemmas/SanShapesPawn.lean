/-
  Lemmas/SanShapesPawn.lean — the matcher on pawn-move texts that carry a disambiguating RANK as well (`e4xd5`-like
  shapes; the printer emits them when two pawn moves of one file reach one square, which no legal position allows,
  but the model's `san` is total and the round-trip theorem covers it).  Exhaustive, kernel evaluation.
-/
import ChessVerif.Lemmas.SanShapes
namespace Chess

def pawnRankShapeOK (r : Nat) : Bool :=
  (optRange 8).all fun df => [true, false].all fun cap => (List.range 64).all fun t => promoLetters.all fun pr => sanSuffixes.all fun sfx =>
    sanMatch (sanText none df (some r) cap t pr sfx) == sanExpected none df (some r) t pr

theorem shapesPawnRank : (List.range 8).all pawnRankShapeOK = true := by decide +kernel

theorem pawnRank_shape (df : Option Nat) (hdf : df ∈ optRange 8) (r : Nat) (hr : r < 8) (cap : Bool) (t : Nat) (ht : t < 64)
    (pr : Option Char) (hp : pr ∈ promoLetters) (sfx : List Char) (hs : sfx ∈ sanSuffixes) :
    sanMatch (sanText none df (some r) cap t pr sfx) = sanExpected none df (some r) t pr := by
  have hall := shapesPawnRank
  simp only [List.all_eq_true, pawnRankShapeOK, beq_iff_eq] at hall
  exact hall r (List.mem_range.2 hr) df hdf cap (by cases cap <;> simp) t (List.mem_range.2 ht) pr hp sfx hs

end Chess
