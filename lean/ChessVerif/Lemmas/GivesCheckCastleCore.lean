/-
  Lemmas/GivesCheckCastleCore.lean — castling as two steps through `gives_check_core` (see Lemmas/GivesCheckCastle.lean).
-/
import ChessVerif.Lemmas.GivesCheckCastle
import ChessVerif.Lemmas.LegalFacts
namespace Chess

/-- a step that discovers nothing gives check exactly when the arriving piece attacks the king: a king never does, a rook does
    when it sees the king -/
theorem givesCheckExpr_king (p : Position) (f t kq : Nat)
    (h : bishopAttack kq (((BBs.of p).all ^^^ sqBB f) ||| sqBB t) &&& ((BBs.of p).ck p.side BISHOP ||| (BBs.of p).ck p.side QUEEN) = 0 ∧
         rookAttack kq (((BBs.of p).all ^^^ sqBB f) ||| sqBB t) &&& ((BBs.of p).ck p.side ROOK ||| (BBs.of p).ck p.side QUEEN) = 0) :
    givesCheckExpr p f t KING kq = false := by
  unfold givesCheckExpr
  simp only [h.1, h.2]
  simp [KING, PAWN, KNIGHT, BISHOP, ROOK, QUEEN]

theorem givesCheckExpr_rook (p : Position) (f t kq : Nat)
    (h : bishopAttack kq (((BBs.of p).all ^^^ sqBB f) ||| sqBB t) &&& ((BBs.of p).ck p.side BISHOP ||| (BBs.of p).ck p.side QUEEN) = 0 ∧
         rookAttack kq (((BBs.of p).all ^^^ sqBB f) ||| sqBB t) &&& ((BBs.of p).ck p.side ROOK ||| (BBs.of p).ck p.side QUEEN) = 0) :
    givesCheckExpr p f t ROOK kq = decide ((rookAttack t (((BBs.of p).all ^^^ sqBB f) ||| sqBB t) &&& sqBB kq) ≠ 0) := by
  unfold givesCheckExpr
  simp only [h.1, h.2]
  simp [PAWN, KNIGHT, BISHOP, ROOK, QUEEN]

theorem castle_occ (occ : BB) (oldK myK myR oldR : Nat) (h1 : occ.testBit oldK = true) (h2 : occ.testBit oldR = true)
    (h3 : occ.testBit myK = false) (h4 : occ.testBit myR = false)
    (d1 : oldK ≠ myK) (d2 : oldK ≠ myR) (d3 : oldK ≠ oldR) (d4 : myK ≠ myR) (d5 : myK ≠ oldR) (d6 : myR ≠ oldR) :
    ((((occ ^^^ sqBB oldK) ||| sqBB myK) ^^^ sqBB oldR) ||| sqBB myR) = occ ^^^ sqBB oldK ^^^ sqBB oldR ^^^ sqBB myK ^^^ sqBB myR := by
  have ne : ∀ {a b : Nat}, a ≠ b → decide (a = b) = false := fun h => decide_eq_false h
  apply Nat.eq_of_testBit_eq
  intro s
  simp only [Nat.testBit_or, Nat.testBit_xor, sqBB_testBit]
  by_cases e1 : oldK = s
  · subst e1
    rw [ne d1.symm, ne d2.symm, ne d3.symm, h1]; simp
  · by_cases e2 : myK = s
    · subst e2
      rw [ne d1, ne d4.symm, ne d5.symm, h3]; simp
    · by_cases e3 : myR = s
      · subst e3
        rw [ne d2, ne d4, ne d6.symm, h4]; simp
      · by_cases e4 : oldR = s
        · subst e4
          rw [ne d3, ne d5, ne d6, h2]; simp
        · rw [ne e1, ne e2, ne e3, ne e4]; simp

theorem gives_check_castle_core (p : Position) (oldK myK myR oldR kq : Nat) (hc : p.side ≤ 1) (ok : BoardOK p.board)
    (hgeo : castleGeoB oldK myK myR oldR = true)
    (l1 : oldK < 64) (l2 : myK < 64) (l3 : myR < 64) (l4 : oldR < 64)
    (d1 : oldK ≠ myK) (d2 : oldK ≠ myR) (d3 : oldK ≠ oldR) (d4 : myK ≠ myR) (d5 : myK ≠ oldR) (d6 : myR ≠ oldR)
    (hK : p.board.getD oldK 0 = mkPiece p.side KING) (hR : p.board.getD oldR 0 = mkPiece p.side ROOK)
    (he1 : p.board.getD myK 0 = 0) (he2 : p.board.getD myR 0 = 0)
    (hking : KingAt p.board (1 - p.side) kq) (hsafe : attackedBB p kq (1 - p.side) = false) :
    decide ((rookAttack myR ((BBs.of p).all ^^^ sqBB oldK ^^^ sqBB oldR ^^^ sqBB myK ^^^ sqBB myR) &&& sqBB kq) ≠ 0) =
      attackedBB (afterPos (afterPos p oldK myK (mkPiece p.side KING)) oldR myR (mkPiece p.side ROOK)) kq (1 - p.side) := by
  have hkq := hking.lt
  have hl := ok.len
  have hz : ∀ K, 1 ≤ K → K ≤ 6 → (0 : Nat) ≠ mkPiece p.side K := fun K h1 _ h => mkPiece_ne_zero p.side K (by omega) h.symm
  have hkK : kq ≠ myK := by
    intro e; have := hking.here; rw [e, he1] at this; exact mkPiece_ne_zero _ _ (by decide) this.symm
  have hkR : kq ≠ myR := by
    intro e; have := hking.here; rw [e, he2] at this; exact mkPiece_ne_zero _ _ (by decide) this.symm
  have hkO : kq ≠ oldK := by
    intro e; have := hking.here; rw [e, hK] at this
    have := (mkPiece_inj p.side KING (1 - p.side) KING hc (by omega) (by decide) (by decide) this).1
    omega
  -- step 1: the king
  have hK0 : p.board.getD oldK 0 ≠ 0 := by rw [hK]; exact mkPiece_ne_zero _ _ (by decide)
  have ht1 : ∀ K, 1 ≤ K → K ≤ 6 → p.board.getD myK 0 ≠ mkPiece p.side K := by intro K a b; rw [he1]; exact hz K a b
  have core1 := gives_check_core p oldK myK KING kq hc ok l1 l2 d1 (by decide) hK0 ht1 hking (fun e => hkK e.symm) hsafe
  have nd1 := no_discovery p oldK myK kq ok hc hkq ht1 hsafe (by
    intro d hd s a b
    rcases (castleGeo_use oldK myK myR oldR kq hgeo hkq hkK hkR d hd s).1 a b with e | e
    · exact Or.inl e
    · right; rw [e]; exact he2)
  rw [givesCheckExpr_king p oldK myK kq nd1] at core1
  have hsafe1 : attackedBB (afterPos p oldK myK (mkPiece p.side KING)) kq (1 - p.side) = false := by
    rw [← core1]
  -- the position after the king's step
  have hpcK : mkPiece p.side KING ≤ 12 := by unfold mkPiece KING; rw [if_neg (by omega)]; omega
  have ok1 : BoardOK (afterPos p oldK myK (mkPiece p.side KING)).board := afterOK p.board _ _ _ ok l1 l2 hpcK
  have hside1 : (afterPos p oldK myK (mkPiece p.side KING)).side = p.side := rfl
  have hR1 : (afterPos p oldK myK (mkPiece p.side KING)).board.getD oldR 0 = mkPiece p.side ROOK := by
    show (afterBoard p.board oldK myK _).getD oldR 0 = _
    rw [after_at _ _ _ _ _ hl l1 l2, if_neg d5, if_neg d3]; exact hR
  have he21 : (afterPos p oldK myK (mkPiece p.side KING)).board.getD myR 0 = 0 := by
    show (afterBoard p.board oldK myK _).getD myR 0 = _
    rw [after_at _ _ _ _ _ hl l1 l2, if_neg d4, if_neg d2]; exact he2
  have hking1 : KingAt (afterPos p oldK myK (mkPiece p.side KING)).board (1 - p.side) kq :=
    kingAt_after p.board oldK myK _ (1 - p.side) kq hl l1 l2 hking hkO hkK (by
      intro h
      have := (mkPiece_inj p.side KING (1 - p.side) KING hc (by omega) (by decide) (by decide) h).1
      omega)
  -- step 2: the rook
  have hR0 : (afterPos p oldK myK (mkPiece p.side KING)).board.getD oldR 0 ≠ 0 := by rw [hR1]; exact mkPiece_ne_zero _ _ (by decide)
  have ht2 : ∀ K, 1 ≤ K → K ≤ 6 → (afterPos p oldK myK (mkPiece p.side KING)).board.getD myR 0 ≠ mkPiece (afterPos p oldK myK (mkPiece p.side KING)).side K := by
    intro K a b; rw [he21]; exact hz K a b
  have core2 := gives_check_core (afterPos p oldK myK (mkPiece p.side KING)) oldR myR ROOK kq hc ok1 l4 l3 (fun e => d6 e.symm) (by decide) hR0 ht2 hking1
    (fun e => hkR e.symm) hsafe1
  have nd2 := no_discovery (afterPos p oldK myK (mkPiece p.side KING)) oldR myR kq ok1 hc hkq ht2 hsafe1 (by
    intro d hd s a _
    have := (castleGeo_use oldK myK myR oldR kq hgeo hkq hkK hkR d hd s).2
    rw [this] at a; cases a)
  rw [givesCheckExpr_rook _ oldR myR kq nd2] at core2
  have hall1 := all_after p oldK myK (mkPiece p.side KING) ok l1 l2 hpcK (mkPiece_ne_zero _ _ (by decide)) hK0 d1
  have hocc : ((((BBs.of p).all ^^^ sqBB oldK) ||| sqBB myK) ^^^ sqBB oldR) ||| sqBB myR =
      (BBs.of p).all ^^^ sqBB oldK ^^^ sqBB oldR ^^^ sqBB myK ^^^ sqBB myR := by
    apply castle_occ _ _ _ _ _ ?_ ?_ ?_ ?_ d1 d2 d3 d4 d5 d6
    · rw [all_testBit p _ ok]; simp only [Bool.and_eq_true, decide_eq_true_eq]; exact ⟨l1, hK0⟩
    · rw [all_testBit p _ ok]; simp only [Bool.and_eq_true, decide_eq_true_eq]; exact ⟨l4, by rw [hR]; exact mkPiece_ne_zero _ _ (by decide)⟩
    · rw [all_testBit p _ ok, he1]; simp
    · rw [all_testBit p _ ok, he2]; simp
  rw [hside1] at core2
  rw [← core2, hall1, hocc]

end Chess
