/-
  Lemmas/KPKCheck.lean — the concrete certificate: T = what the engine's table answers (through normalize/index/bit of the
  table re-extracted from the build), R = the committed rank data.  `certN stm wk wp bk` is the local check written over
  plain numbers (the kernel evaluates it ~20× faster than the same check over `Pos` records); `certN_eq` shows it is the
  check of Lemmas/KPKCert.lean; `chunkOK stm wp` covers the 64×64 king placements of one (side to move, pawn square) and
  is evaluated by the kernel in Props/C12gen.
-/
import ChessVerif.Lemmas.KPKCert
import ChessVerif.Spec.KPKRankData
import ChessVerif.Model.Bitbase
namespace Chess.Spec.KPK

/-- the engine's answer for a white pawn: side to move, white king, pawn, black king -/
def tableT (q : Pos) : Bool := Chess.kpkSaysWin 0 q.stm q.wk q.wp q.bk
def rankR (q : Pos) : Nat :=
  ((rankChunks.getD (q.stm * 48 + (q.wp - 8)) 0) >>> (6 * (q.wk * 64 + q.bk))) &&& 63

-- the same over plain numbers ------------------------------------------------------------------------------------
def tN (stm wk wp bk : Nat) : Bool := Chess.kpkSaysWin 0 stm wk wp bk
def rN (stm wk wp bk : Nat) : Nat := ((rankChunks.getD (stm * 48 + (wp - 8)) 0) >>> (6 * (wk * 64 + bk))) &&& 63
def legalN (stm wk wp bk : Nat) : Bool :=
  (wk ≠ wp && bk ≠ wp && wk ≠ bk && dist wk bk > 1 && 1 ≤ rankOf wp && rankOf wp ≤ 6 &&
   !(stm = 0 && (pawnAttacks wp).contains bk)) && decide (stm ≤ 1) && decide (wk < 64) && decide (bk < 64)

def wTargets (wk wp bk : Nat) : List Nat := (kingSteps wk).filter (fun t => t ≠ wp && dist t bk > 1)
def bTargets (wk wp bk : Nat) : List Nat := (kingSteps bk).filter (fun t => dist t wk > 1 && !(pawnAttacks wp).contains t)
def promoN (wk wp bk : Nat) : Bool := rankOf wp = 6 && (wp + 8 ≠ wk && wp + 8 ≠ bk) && promotionWins wk (wp + 8) bk
def matedN (wk wp bk : Nat) : Bool :=
  ((bTargets wk wp bk).filter (· ≠ wp)).isEmpty && !(bTargets wk wp bk).contains wp && (pawnAttacks wp).contains bk

def certN (stm wk wp bk : Nat) : Bool :=
  !legalN stm wk wp bk ||
  (if tN stm wk wp bk then
     (if stm = 0 then
        promoN wk wp bk ||
        ((wTargets wk wp bk).any (fun t => legalN 1 t wp bk && tN 1 t wp bk && decide (rN 1 t wp bk < rN stm wk wp bk)) ||
         ((decide (rankOf wp < 6 ∧ (wp + 8 ≠ wk && wp + 8 ≠ bk) = true) &&
            (legalN 1 wk (wp + 8) bk && tN 1 wk (wp + 8) bk && decide (rN 1 wk (wp + 8) bk < rN stm wk wp bk))) ||
          (decide (rankOf wp = 1 ∧ (wp + 8 ≠ wk && wp + 8 ≠ bk) = true ∧ wp + 16 ≠ wk ∧ wp + 16 ≠ bk) &&
            (legalN 1 wk (wp + 16) bk && tN 1 wk (wp + 16) bk && decide (rN 1 wk (wp + 16) bk < rN stm wk wp bk)))))
      else
        matedN wk wp bk ||
        (!(bTargets wk wp bk).contains wp && !((bTargets wk wp bk).filter (· ≠ wp)).isEmpty &&
          ((bTargets wk wp bk).filter (· ≠ wp)).all (fun t => legalN 0 wk wp t && tN 0 wk wp t && decide (rN 0 wk wp t < rN stm wk wp bk))))
   else
     (if stm = 0 then
        !promoN wk wp bk &&
        ((wTargets wk wp bk).all (fun t => !(legalN 1 t wp bk && tN 1 t wp bk)) &&
         ((!decide (rankOf wp < 6 ∧ (wp + 8 ≠ wk && wp + 8 ≠ bk) = true) || !(legalN 1 wk (wp + 8) bk && tN 1 wk (wp + 8) bk)) &&
          (!decide (rankOf wp = 1 ∧ (wp + 8 ≠ wk && wp + 8 ≠ bk) = true ∧ wp + 16 ≠ wk ∧ wp + 16 ≠ bk) || !(legalN 1 wk (wp + 16) bk && tN 1 wk (wp + 16) bk))))
      else
        !matedN wk wp bk &&
        ((bTargets wk wp bk).contains wp || ((bTargets wk wp bk).filter (· ≠ wp)).isEmpty ||
          ((bTargets wk wp bk).filter (· ≠ wp)).any (fun t => !tN 0 wk wp t))))

theorem any_ite_singleton {α : Type} (c : Prop) [Decidable c] (x : α) (f : α → Bool) :
    (if c then [x] else []).any f = (decide c && f x) := by
  by_cases h : c <;> simp [h]

theorem all_ite_singleton {α : Type} (c : Prop) [Decidable c] (x : α) (f : α → Bool) :
    (if c then [x] else []).all f = (!decide c || f x) := by
  by_cases h : c <;> simp [h]

/-- the numeric check IS the certificate check of KPKCert at that position -/
theorem certN_eq (stm wk wp bk : Nat) : certOK tableT rankR { stm := stm, wk := wk, wp := wp, bk := bk } = certN stm wk wp bk := by
  unfold certOK certN condA condB legalP legal legalN mated matedN whiteMoves blackMoves tableT rankR tN rN wTargets bTargets promoN
  simp only [List.any_append, List.all_append, List.any_map, List.all_map, any_ite_singleton, all_ite_singleton, Function.comp_def,
    List.isEmpty_map, Bool.or_assoc, Bool.and_assoc]

def chunkOK (stm wp : Nat) : Bool :=
  (List.range 64).all fun wk => (List.range 64).all fun bk => certN stm wk wp bk

end Chess.Spec.KPK
