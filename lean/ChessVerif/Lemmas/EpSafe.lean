/-
  Lemmas/EpSafe.lean — when the king is attacked after an en-passant capture, on a well-formed position: another piece than the captured
  pawn gave check already, or the capturer was pinned and leaves its pin line, or capturer and captured pawn together were all that
  stood between the king and an enemy rook or queen on the king's rank.
-/
import ChessVerif.Lemmas.EpGeo
namespace Chess

/-- the sliders of the kind of ray r, as `generate_pin_in_ray` tests them -/
def slidersOf (p : Position) (r : Nat) : BB :=
  (BBs.of p).ck (1 - p.side) QUEEN ||| (if r % 2 = 1 then (BBs.of p).ck (1 - p.side) ROOK else (BBs.of p).ck (1 - p.side) BISHOP)

theorem sliders_diag (p : Position) (r c : Nat) (hev : r % 2 = 0) :
    (slidersOf p r).testBit c = ((BBs.of p).ck (1 - p.side) BISHOP ||| (BBs.of p).ck (1 - p.side) QUEEN).testBit c := by
  unfold slidersOf; rw [if_neg (by omega), Nat.testBit_or, Nat.testBit_or, Bool.or_comm]
theorem sliders_orth (p : Position) (r c : Nat) (hodd : r % 2 = 1) :
    (slidersOf p r).testBit c = ((BBs.of p).ck (1 - p.side) ROOK ||| (BBs.of p).ck (1 - p.side) QUEEN).testBit c := by
  unfold slidersOf; rw [if_pos hodd, Nat.testBit_or, Nat.testBit_or, Bool.or_comm]

/-- an enemy slider: occupied, and none of the three squares of the capture -/
theorem slider_sq (p : Position) (ok : BoardOK p.board) (hs : p.side ≤ 1) (f t cap : Nat) (h : EpMove p f t cap) (r c : Nat)
    (hsl : (slidersOf p r).testBit c = true) : (BBs.of p).all.testBit c = true ∧ c ≠ f ∧ c ≠ t ∧ c ≠ cap ∧ c < 64 := by
  have ho : 1 - p.side ≤ 1 := by omega
  have key : ∀ K, (K = BISHOP ∨ K = ROOK ∨ K = QUEEN) → ((BBs.of p).ck (1 - p.side) K).testBit c = true →
      (BBs.of p).all.testBit c = true ∧ c ≠ f ∧ c ≠ t ∧ c ≠ cap ∧ c < 64 := by
    intro K hK hb
    have hK16 : 1 ≤ K ∧ K ≤ 6 := by rcases hK with rfl | rfl | rfl <;> decide
    obtain ⟨c64, hbd, _⟩ := ck_board p ok (1 - p.side) K c ho hK16 hb
    refine ⟨?_, ?_, ?_, ?_, c64⟩
    · rw [all_testBit p c ok]; simp only [Bool.and_eq_true, decide_eq_true_eq]
      exact ⟨c64, by rw [hbd]; exact mkPiece_ne_zero _ _ (by omega)⟩
    · intro e; rw [e, h.own] at hbd
      have := (mkPiece_inj p.side PAWN (1 - p.side) K hs ho (by decide) hK16 hbd).1; omega
    · intro e; rw [e, h.empty] at hbd; exact mkPiece_ne_zero _ _ (by omega) hbd.symm
    · intro e; rw [e, h.victim] at hbd
      have := (mkPiece_inj (1 - p.side) PAWN (1 - p.side) K ho ho (by decide) hK16 hbd).2
      rcases hK with rfl | rfl | rfl <;> cases this
  unfold slidersOf at hsl
  rw [Nat.testBit_or] at hsl
  simp only [Bool.or_eq_true] at hsl
  rcases hsl with h1 | h1
  · exact key QUEEN (Or.inr (Or.inr rfl)) h1
  · by_cases hodd : r % 2 = 1
    · rw [if_pos hodd] at h1; exact key ROOK (Or.inr (Or.inl rfl)) h1
    · rw [if_neg hodd] at h1; exact key BISHOP (Or.inl rfl) h1

/-- the three ways the king can be attacked after an en-passant capture -/
inductive EpExposed (p : Position) (f t cap k : Nat) : Prop
  | checker (c : Nat) : c ≠ cap → Checks p k c → EpExposed p f t cap k
  | pin (r c : Nat) (rest : List Nat) : r < 8 → (rayList k r).filter (fun x => (BBs.of p).all.testBit x) = f :: c :: rest →
      (slidersOf p r).testBit c = true → thru (rayList k r) t c = false → EpExposed p f t cap k
  | rank (r c : Nat) : r < 8 → r % 4 = 3 → c ∈ rayList k r → (slidersOf p r).testBit c = true →
      thru (rayList k r) f c = true → thru (rayList k r) cap c = true →
      (∀ x, thru (rayList k r) x c = true → (BBs.of p).all.testBit x = true → (x = f ∨ x = cap)) → EpExposed p f t cap k

end Chess

namespace Chess

/-- an old slider checker is never shielded by the arriving pawn: that line was open before the double push -/
theorem ep_no_interpose (p : Position) (hwf : Spec.wf (absPos p) = true) (f t cap : Nat) (h : EpMove p f t cap) (k : Nat)
    (hking : KingAt p.board p.side k) (hkc : k ≠ cap) :
    ∀ r c, r < 8 → (Spec.walk (rayList k r) (BBs.of p).all).testBit c = true → (slidersOf p r).testBit c = true →
      thru (rayList k r) t c = false := by
  obtain ⟨hbo, hs', _, _, _⟩ := wf_board_hyps _ hwf
  have hs : p.side ≤ 1 := hs'
  have ok : BoardOK p.board := hbo
  have hk := hking.lt
  have he := h.ep64
  have oc : (BBs.of p).all.testBit cap = true := by
    rw [all_testBit p cap ok]; simp only [Bool.and_eq_true, decide_eq_true_eq]
    exact ⟨h.cap64, by rw [h.victim]; exact mkPiece_ne_zero _ _ (by decide)⟩
  intro r c hr hw hsl
  apply Bool.eq_false_iff.2
  intro hth
  obtain ⟨occ_c, cf, ct, cc, _⟩ := slider_sq p ok hs f t cap h r c hsl
  obtain ⟨hcL, hbef⟩ := (walk_iff _ _ _).1 hw
  have htL := (thru_mem _ _ _ hth).1
  by_cases hr1 : r % 4 = 1
  · -- the file through t: the pushed pawn is t's neighbour, hence in front of c, and it is occupied
    have hn := h.nums hs
    obtain ⟨hcapL, hsame⟩ := ray_adjacent k r t cap hk hr htL h.cap64 (fun e => hkc e.symm) (by
      unfold lineStep
      rw [if_neg (by omega), if_pos hr1]
      simp only [Bool.or_eq_true, beq_iff_eq]
      omega)
    have := hsame c hcL ct cc
    rw [hth] at this
    have := hbef cap this.symm
    rw [oc] at this; cases this
  · have horg := ep_t_no_origin h hs k r hk hr htL hr1
    apply retro_line p hwf he k hking r c hr hcL (by
      by_cases hev : r % 2 = 0
      · rw [if_pos hev, ← sliders_diag p r c hev]; exact hsl
      · rw [if_neg hev, ← sliders_orth p r c (by omega)]; exact hsl)
    intro x hx
    refine ⟨fun ho => by rw [hbef x hx] at ho; exact Bool.noConfusion ho, ?_⟩
    intro e
    rw [e] at hx
    exact horg (thru_mem _ _ _ hx).1

/-- ATTACKED AFTER AN EN-PASSANT CAPTURE ⇔ one of the three exposures (well-formed positions) -/
theorem ep_attacked_iff (p : Position) (hwf : Spec.wf (absPos p) = true) (f t cap : Nat) (h : EpMove p f t cap) (k : Nat)
    (hking : KingAt p.board p.side k) (hkf : k ≠ f) (hkt : k ≠ t) (hkc : k ≠ cap) :
    attackedBB (afterPosEp p f t cap (mkPiece p.side PAWN)) k p.side = true ↔ EpExposed p f t cap k := by
  obtain ⟨hbo, hs', _, _, _⟩ := wf_board_hyps _ hwf
  have hs : p.side ≤ 1 := hs'
  have ok : BoardOK p.board := hbo
  have hk := hking.lt
  have he := h.ep64
  have hcapd : cap = (if p.side = 0 then p.ep - 8 else p.ep + 8) := by rw [h.capdef, h.tep]
  -- occupancy facts
  have of : (BBs.of p).all.testBit f = true := by
    rw [all_testBit p f ok]; simp only [Bool.and_eq_true, decide_eq_true_eq]
    exact ⟨h.f64, by rw [h.own]; exact mkPiece_ne_zero _ _ (by decide)⟩
  have oc : (BBs.of p).all.testBit cap = true := by
    rw [all_testBit p cap ok]; simp only [Bool.and_eq_true, decide_eq_true_eq]
    exact ⟨h.cap64, by rw [h.victim]; exact mkPiece_ne_zero _ _ (by decide)⟩
  have ot : (BBs.of p).all.testBit t = false := by
    rw [all_testBit p t ok, h.empty]; simp
  have noBlock := ep_no_interpose p hwf f t cap h k hking hkc
  have hnd : ∀ r, r < 8 → (rayList k r).Nodup := fun r hr => rayList_nodup k r hk hr
  rw [attackers_afterEp p ok hs f t cap h k hk]
  constructor
  · rintro ⟨c, hcc, hc⟩
    -- a slider reached over the new occupancy
    have slider : ∀ r, r < 8 → (Spec.walk (rayList k r) (occEp (BBs.of p).all f t cap)).testBit c = true → (slidersOf p r).testBit c = true →
        EpExposed p f t cap k := by
      intro r hr hw hsl
      obtain ⟨occ_c, cf, ct, _, _⟩ := slider_sq p ok hs f t cap h r c hsl
      obtain ⟨hth, hcase⟩ := (ep_slider_cases (rayList k r) (hnd r hr) (BBs.of p).all f t cap c of oc ot h.capf h.capt occ_c ⟨cf, hcc⟩).1 hw
      rcases hcase with ha | ⟨rest, hb⟩ | ⟨rest, hcfil⟩ | ⟨hcL, bf, bc, hB⟩
      · -- it saw the king before
        by_cases hev : r % 2 = 0
        · exact EpExposed.checker c hcc (Checks.diag r hr hev ha (by rw [← sliders_diag p r c hev]; exact hsl))
        · exact EpExposed.checker c hcc (Checks.orth r hr (by omega) ha (by rw [← sliders_orth p r c (by omega)]; exact hsl))
      · exact EpExposed.pin r c rest hr hb hsl hth
      · -- only the pushed pawn in between: impossible
        exfalso
        obtain ⟨capL, cL, _, _, _, hcapc, hB⟩ := filter_two_before (rayList k r) (BBs.of p).all cap c rest (hnd r hr) hcfil
        by_cases hev : r % 2 = 0
        · have horg := ep_diag_no_origin h hs k r hk hr capL hev
          apply retro_line p hwf he k hking r c hr cL (by rw [if_pos hev, ← sliders_diag p r c hev]; exact hsl)
          intro x hx
          refine ⟨fun ho => by rw [← hcapd]; exact hB x hx ho, ?_⟩
          intro e
          rw [e] at hx
          exact horg (thru_mem _ _ _ hx).1
        · by_cases hr3 : r % 4 = 3
          · obtain ⟨fL, hsame⟩ := ep_rank_neighbour h hs k r hk hr capL hr3 (fun e => hkf e.symm)
            have := hsame c cL hcc cf
            rw [hcapc] at this
            have := hB f this.symm of
            exact h.capf this.symm
          · obtain ⟨tL, hsame⟩ := ep_file_neighbour h hs k r hk hr capL (by omega) (fun e => hkt e.symm)
            have := hsame c cL hcc ct
            rw [hcapc, hth] at this; cases this
      · have hr3 := ep_both_rank h hs k r hk hr (thru_mem _ _ _ bf).1 (thru_mem _ _ _ bc).1
        exact EpExposed.rank r c hr hr3 hcL hsl bf bc hB
    cases hc with
    | pawn a b => exact EpExposed.checker c hcc (Checks.pawn a b)
    | knight a b => exact EpExposed.checker c hcc (Checks.knight a b)
    | diag r hr hev hw hb => exact slider r hr hw (by rw [sliders_diag p r c hev]; exact hb)
    | orth r hr hodd hw hb => exact slider r hr hw (by rw [sliders_orth p r c hodd]; exact hb)
  · intro hx
    -- build the attacker
    have mk : ∀ r c, r < 8 → (slidersOf p r).testBit c = true → (Spec.walk (rayList k r) (occEp (BBs.of p).all f t cap)).testBit c = true →
        ChecksOn p (occEp (BBs.of p).all f t cap) k c := by
      intro r c hr hsl hw
      by_cases hev : r % 2 = 0
      · exact ChecksOn.diag r hr hev hw (by rw [← sliders_diag p r c hev]; exact hsl)
      · exact ChecksOn.orth r hr (by omega) hw (by rw [← sliders_orth p r c (by omega)]; exact hsl)
    cases hx with
    | checker c hcc hc =>
      refine ⟨c, hcc, ?_⟩
      cases hc with
      | pawn a b => exact ChecksOn.pawn a b
      | knight a b => exact ChecksOn.knight a b
      | diag r hr hev hw hb =>
        have hsl : (slidersOf p r).testBit c = true := by rw [sliders_diag p r c hev]; exact hb
        obtain ⟨occ_c, cf, ct, _, _⟩ := slider_sq p ok hs f t cap h r c hsl
        exact mk r c hr hsl ((ep_slider_cases (rayList k r) (hnd r hr) (BBs.of p).all f t cap c of oc ot h.capf h.capt occ_c ⟨cf, hcc⟩).2
          ⟨noBlock r c hr hw hsl, Or.inl hw⟩)
      | orth r hr hodd hw hb =>
        have hsl : (slidersOf p r).testBit c = true := by rw [sliders_orth p r c hodd]; exact hb
        obtain ⟨occ_c, cf, ct, _, _⟩ := slider_sq p ok hs f t cap h r c hsl
        exact mk r c hr hsl ((ep_slider_cases (rayList k r) (hnd r hr) (BBs.of p).all f t cap c of oc ot h.capf h.capt occ_c ⟨cf, hcc⟩).2
          ⟨noBlock r c hr hw hsl, Or.inl hw⟩)
    | pin r c rest hr hfil hsl hth =>
      obtain ⟨occ_c, cf, ct, cc, _⟩ := slider_sq p ok hs f t cap h r c hsl
      exact ⟨c, cc, mk r c hr hsl ((ep_slider_cases (rayList k r) (hnd r hr) (BBs.of p).all f t cap c of oc ot h.capf h.capt occ_c ⟨cf, cc⟩).2
        ⟨hth, Or.inr (Or.inl ⟨rest, hfil⟩)⟩)⟩
    | rank r c hr hr3 hcL hsl bf bc hB =>
      obtain ⟨occ_c, cf, ct, cc, _⟩ := slider_sq p ok hs f t cap h r c hsl
      have hth : thru (rayList k r) t c = false := by
        apply Bool.eq_false_iff.2
        intro e
        exact ep_rank_no_t h hs k r hk hr (thru_mem _ _ _ bf).1 hr3 (thru_mem _ _ _ e).1
      exact ⟨c, cc, mk r c hr hsl ((ep_slider_cases (rayList k r) (hnd r hr) (BBs.of p).all f t cap c of oc ot h.capf h.capt occ_c ⟨cf, cc⟩).2
        ⟨hth, Or.inr (Or.inr (Or.inr ⟨hcL, bf, bc, hB⟩))⟩)⟩

end Chess
