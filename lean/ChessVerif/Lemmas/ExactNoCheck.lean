/-
  Lemmas/ExactNoCheck.lean — exactness of the generated list on every well-formed position that is not a check position and has no
  en-passant square: unpinned pieces (ExactQuiet.lean) and pinned pieces (PinnedExact.lean, PinnedPawn.lean) together.
-/
import ChessVerif.Lemmas.PinnedPawn
namespace Chess

/-- one pinned piece of any kind: generated = legal -/
theorem pinned_exact (p : Position) (hwf : Spec.wf (absPos p) = true) (hnic : Spec.inCheck p.board p.side = false) (hep : p.ep = 64)
    (k : Nat) (hking : KingAt p.board p.side k) (pin : Nat) (hmem : pin ∈ genPins (BBs.of p) p.board p.side) (code : Nat) :
    code ∈ genPinnedPieceMoves (BBs.of p) p.side pin (bnot (BBs.of p).all ||| (BBs.of p).color (1 - p.side)) p.ep ↔
      ∃ m, m ∈ Spec.legalMoves (absPos p) ∧ m.src = pinSquare pin ∧ codeOf (absPos p) m = code := by
  obtain ⟨hbo, hside, _, _, _⟩ := wf_board_hyps _ hwf
  have ok : BoardOK p.board := hbo
  have hs : p.side ≤ 1 := hside
  obtain ⟨r, s, rest, hpa, _, ha64, hkind⟩ := pin_scan_of_mem p ok hs k hking pin hmem
  obtain ⟨_, hbf, k1, k6⟩ := own_piece p ok hs _ hpa.own
  -- the pinned piece is not the king: the king is not on its own rays
  have hnotK : pinKind pin ≠ KING := by
    intro e
    rw [hkind] at e
    have hb : p.board.getD (pinSquare pin) 0 = mkPiece p.side KING := by rw [hbf, e]
    have := hking.only _ ha64 hb
    have ha_mem : pinSquare pin ∈ rayList k r := by
      have : pinSquare pin ∈ (rayList k r).filter (fun y => (BBs.of p).all.testBit y) := by rw [hpa.fil]; exact List.mem_cons_self
      exact (List.mem_filter.1 this).1
    obtain ⟨_, _, _, _, g5⟩ := pinGeo k r _ hking.lt hpa.r8 ha_mem
    rw [this] at ha_mem
    exact g5 ha_mem
  rw [← hkind] at k1 k6
  have hcases : pinKind pin = PAWN ∨ pinKind pin = KNIGHT ∨ pinKind pin = BISHOP ∨ pinKind pin = ROOK ∨ pinKind pin = QUEEN := by
    have : pinKind pin ≠ 6 := hnotK
    have e1 : PAWN = 1 := rfl
    have e2 : KNIGHT = 2 := rfl
    have e3 : BISHOP = 3 := rfl
    have e4 : ROOK = 4 := rfl
    have e5 : QUEEN = 5 := rfl
    omega
  rcases hcases with h | h
  · exact pinned_pawn_exact p hwf hnic hep pin hmem h code
  · exact pinned_piece_exact p hwf hnic pin hmem h code

/-- **C01, exact out of check without an en-passant square**: on a well-formed position whose side to move is not in check and in
    which no en-passant square is set, the generated list contains exactly the codes of the rules' legal moves — pinned pieces
    included -/
theorem exact_nocheck_noep (p : Position) (hwf : Spec.wf (absPos p) = true) (hnic : Spec.inCheck p.board p.side = false)
    (hep : p.ep = 64) (code : Nat) :
    code ∈ genMoves p ↔ ∃ m, m ∈ Spec.legalMoves (absPos p) ∧ codeOf (absPos p) m = code := by
  obtain ⟨hbo, hside, hkk, _, _⟩ := wf_board_hyps _ hwf
  have ok : BoardOK p.board := hbo
  have hs : p.side ≤ 1 := hside
  obtain ⟨k, hk, _⟩ := hkk p.side hs
  have hk' : KingAt p.board p.side k := hk
  have hkq : kingSq p.board p.side = k := kingSq_eq p.board p.side k ok.len hk'
  have hchk : checkersBB (BBs.of p) p.board p.side = 0 := by
    apply Decidable.byContradiction
    intro h
    have := (in_check_test' p hwf).1 h
    rw [hnic] at this; cases this
  have hdbl : ¬ (checkersBB (BBs.of p) p.board p.side ≠ 0 ∧ moreThanOne (checkersBB (BBs.of p) p.board p.side) = true) := by
    rw [hchk]; simp
  have hne : ¬ (checkersBB (BBs.of p) p.board p.side ≠ 0) := by rw [hchk]; simp
  obtain ⟨cK, cQ⟩ := castle_exact p hwf hnic
  -- the list, written with the abbreviations of this file
  have hlist : genMoves p =
      (((((((((genP p ((BBs.of p).ck p.side PAWN &&& bnot (pinnedBB p)) ++ pieceList p KNIGHT) ++ pieceList p BISHOP) ++ pieceList p ROOK) ++
        pieceList p QUEEN) ++ ([] : List Nat)) ++ genKingMoves k (forbiddenSquares (BBs.of p) p.board p.side ||| (BBs.of p).color p.side)) ++
        (genPins (BBs.of p) p.board p.side).flatMap (fun pin => genPinnedPieceMoves (BBs.of p) p.side pin (bnot (BBs.of p).all ||| (BBs.of p).color (1 - p.side)) p.ep)) ++
        (if p.side = 0 then
          (if p.castling &&& W_OO ≠ 0 ∧ ((forbiddenSquares (BBs.of p) p.board p.side ||| (BBs.of p).all) &&& castlingPath W_OO) = 0 then [mkCastling KING_CASTLING] else [])
         else
          (if p.castling &&& B_OO ≠ 0 ∧ ((forbiddenSquares (BBs.of p) p.board p.side ||| (BBs.of p).all) &&& castlingPath B_OO) = 0 then [mkCastling KING_CASTLING] else []))) ++
        (if p.side = 0 then
          (if p.castling &&& W_OOO ≠ 0 ∧ ((forbiddenSquares (BBs.of p) p.board p.side ||| (BBs.of p).all) &&& castlingPath W_OOO) = 0 ∧
              (queenCastlingBlock 0 &&& (BBs.of p).all) = 0 then [mkCastling QUEEN_CASTLING] else [])
         else
          (if p.castling &&& B_OOO ≠ 0 ∧ ((forbiddenSquares (BBs.of p) p.board p.side ||| (BBs.of p).all) &&& castlingPath B_OOO) = 0 ∧
              (queenCastlingBlock 1 &&& (BBs.of p).all) = 0 then [mkCastling QUEEN_CASTLING] else []))) := by
    unfold genMoves
    simp only []
    rw [if_neg hdbl]
    simp only [if_neg hne]
    rw [hkq]
    have e1 : (if p.ep ≠ 64 then genEnpassant (BBs.of p) p.board p.side ((BBs.of p).ck p.side PAWN &&&
        bnot ((genPins (BBs.of p) p.board p.side).foldl (fun acc pin => acc ||| sqBB (pinSquare pin)) 0)) (bnot (BBs.of p).all) ((BBs.of p).color (1 - p.side)) p.ep else []) = [] := by
      rw [if_neg (by simp [hep])]
    rw [e1]
    rfl
  rw [hlist]
  simp only [List.append_nil, List.mem_append, or_assoc]
  constructor
  · rintro (h | h | h | h | h | h | h | h | h)
    · exact pawn_gen_legal p hwf hnic code h
    · exact piece_gen_legal p hwf hnic KNIGHT (Or.inl rfl) code h
    · exact piece_gen_legal p hwf hnic BISHOP (Or.inr (Or.inl rfl)) code h
    · exact piece_gen_legal p hwf hnic ROOK (Or.inr (Or.inr (Or.inl rfl))) code h
    · exact piece_gen_legal p hwf hnic QUEEN (Or.inr (Or.inr (Or.inr rfl))) code h
    · exact king_gen_legal p hwf k hk' code h
    · -- a pinned piece
      rw [List.mem_flatMap] at h
      obtain ⟨pin, hpm, hc⟩ := h
      obtain ⟨m, a, _, c⟩ := (pinned_exact p hwf hnic hep k hk' pin hpm code).1 hc
      exact ⟨m, a, c⟩
    · -- king-side castling code
      have hcond : (if p.side = 0 then (p.castling &&& W_OO ≠ 0 ∧ ((forbiddenSquares (BBs.of p) p.board p.side ||| (BBs.of p).all) &&& castlingPath W_OO) = 0)
          else (p.castling &&& B_OO ≠ 0 ∧ ((forbiddenSquares (BBs.of p) p.board p.side ||| (BBs.of p).all) &&& castlingPath B_OO) = 0)) ∧ code = mkCastling KING_CASTLING := by
        by_cases h0 : p.side = 0
        · rw [if_pos h0] at h ⊢
          by_cases c : p.castling &&& W_OO ≠ 0 ∧ ((forbiddenSquares (BBs.of p) p.board p.side ||| (BBs.of p).all) &&& castlingPath W_OO) = 0
          · rw [if_pos c] at h; exact ⟨c, List.mem_singleton.1 h⟩
          · rw [if_neg c] at h; simp at h
        · rw [if_neg h0] at h ⊢
          by_cases c : p.castling &&& B_OO ≠ 0 ∧ ((forbiddenSquares (BBs.of p) p.board p.side ||| (BBs.of p).all) &&& castlingPath B_OO) = 0
          · rw [if_pos c] at h; exact ⟨c, List.mem_singleton.1 h⟩
          · rw [if_neg c] at h; simp at h
      obtain ⟨m, hm, hc⟩ := cK.1 hcond.1
      exact ⟨m, (castling_exact' p hwf hnic).2.2 m hm, by rw [hc, hcond.2]⟩
    · have hcond : (if p.side = 0 then (p.castling &&& W_OOO ≠ 0 ∧ ((forbiddenSquares (BBs.of p) p.board p.side ||| (BBs.of p).all) &&& castlingPath W_OOO) = 0 ∧
            (queenCastlingBlock 0 &&& (BBs.of p).all) = 0)
          else (p.castling &&& B_OOO ≠ 0 ∧ ((forbiddenSquares (BBs.of p) p.board p.side ||| (BBs.of p).all) &&& castlingPath B_OOO) = 0 ∧
            (queenCastlingBlock 1 &&& (BBs.of p).all) = 0)) ∧ code = mkCastling QUEEN_CASTLING := by
        by_cases h0 : p.side = 0
        · rw [if_pos h0] at h ⊢
          by_cases c : p.castling &&& W_OOO ≠ 0 ∧ ((forbiddenSquares (BBs.of p) p.board p.side ||| (BBs.of p).all) &&& castlingPath W_OOO) = 0 ∧
              (queenCastlingBlock 0 &&& (BBs.of p).all) = 0
          · rw [if_pos c] at h; exact ⟨c, List.mem_singleton.1 h⟩
          · rw [if_neg c] at h; simp at h
        · rw [if_neg h0] at h ⊢
          by_cases c : p.castling &&& B_OOO ≠ 0 ∧ ((forbiddenSquares (BBs.of p) p.board p.side ||| (BBs.of p).all) &&& castlingPath B_OOO) = 0 ∧
              (queenCastlingBlock 1 &&& (BBs.of p).all) = 0
          · rw [if_pos c] at h; exact ⟨c, List.mem_singleton.1 h⟩
          · rw [if_neg c] at h; simp at h
      obtain ⟨m, hm, hc⟩ := cQ.1 hcond.1
      exact ⟨m, (castling_exact' p hwf hnic).2.2 m hm, by rw [hc, hcond.2]⟩
  · rintro ⟨m, hm, rfl⟩
    have hnep : Spec.isEpCapture (absPos p) m = false := by
      unfold Spec.isEpCapture
      have : (absPos p).ep = 64 := hep
      rw [this]; simp
    by_cases hpd : (pinnedBB p).testBit m.src = true
    · -- the mover is a pinned piece
      unfold pinnedBB at hpd
      rw [pinned_testBit] at hpd
      rcases hpd with h0 | ⟨pin, hpm, hsq⟩
      · simp at h0
      · have hc := (pinned_exact p hwf hnic hep k hk' pin hpm (codeOf (absPos p) m)).2 ⟨m, hm, hsq.symm, rfl⟩
        refine Or.inr (Or.inr (Or.inr (Or.inr (Or.inr (Or.inr (Or.inl ?_))))))
        rw [List.mem_flatMap]
        exact ⟨pin, hpm, hc⟩
    rcases legal_gen_unpinned p hwf hnic k hk' m hm (by simpa using hpd) hnep with h | h | h | h | h | h | h
    · exact Or.inl h
    · exact Or.inr (Or.inl h)
    · exact Or.inr (Or.inr (Or.inl h))
    · exact Or.inr (Or.inr (Or.inr (Or.inl h)))
    · exact Or.inr (Or.inr (Or.inr (Or.inr (Or.inl h))))
    · exact Or.inr (Or.inr (Or.inr (Or.inr (Or.inr (Or.inl h)))))
    · rcases castle_code_cases p hs m h with c | c
      · refine Or.inr (Or.inr (Or.inr (Or.inr (Or.inr (Or.inr (Or.inr (Or.inl ?_)))))))
        have hcond := cK.2 ⟨m, h, c⟩
        rw [c]
        by_cases h0 : p.side = 0
        · rw [if_pos h0] at hcond ⊢; rw [if_pos hcond]; exact List.mem_singleton.2 rfl
        · rw [if_neg h0] at hcond ⊢; rw [if_pos hcond]; exact List.mem_singleton.2 rfl
      · refine Or.inr (Or.inr (Or.inr (Or.inr (Or.inr (Or.inr (Or.inr (Or.inr ?_)))))))
        have hcond := cQ.2 ⟨m, h, c⟩
        rw [c]
        by_cases h0 : p.side = 0
        · rw [if_pos h0] at hcond ⊢; rw [if_pos hcond]; exact List.mem_singleton.2 rfl
        · rw [if_neg h0] at hcond ⊢; rw [if_pos hcond]; exact List.mem_singleton.2 rfl

end Chess
