/-
  Lemmas/EvalBound.lean — interval bounds for the evaluator model (C14 "bounded"): every term of Model/Eval.lean is a
  sum of constants (from Gen/EvalConsts.lean) scaled by a population count (≤ 64), a king distance (≤ 8) or a piece
  count; the per-piece bounds, the folds over piece sets, the tapered combination and every specialised endgame follow.
-/
import ChessVerif.Model.Eval
import ChessVerif.Lemmas.Bits
namespace Chess

-- scores within a symmetric bound ---------------------------------------------------------------
def Sc.within (s : Sc) (B : Int) : Prop := -B ≤ s.mg ∧ s.mg ≤ B ∧ -B ≤ s.eg ∧ s.eg ≤ B
def Sc.bnd (s : Sc) : Int := max (s.mg.natAbs : Int) (s.eg.natAbs : Int)

theorem Sc.add_mg (a b : Sc) : (a + b).mg = a.mg + b.mg := rfl
theorem Sc.add_eg (a b : Sc) : (a + b).eg = a.eg + b.eg := rfl
theorem Sc.sub_mg (a b : Sc) : (a - b).mg = a.mg - b.mg := rfl
theorem Sc.sub_eg (a b : Sc) : (a - b).eg = a.eg - b.eg := rfl

theorem within_bnd (s : Sc) : s.within s.bnd := by
  unfold Sc.within Sc.bnd; omega

theorem bnd_nonneg (s : Sc) : 0 ≤ s.bnd := by unfold Sc.bnd; omega

theorem within_zero : (⟨0, 0⟩ : Sc).within 0 := by unfold Sc.within; simp

theorem within_add {a b : Sc} {A B : Int} (ha : a.within A) (hb : b.within B) : (a + b).within (A + B) := by
  unfold Sc.within at *; rw [Sc.add_mg, Sc.add_eg]; omega

theorem within_sub {a b : Sc} {A B : Int} (ha : a.within A) (hb : b.within B) : (a - b).within (A + B) := by
  unfold Sc.within at *; rw [Sc.sub_mg, Sc.sub_eg]; omega

theorem within_mono {a : Sc} {A B : Int} (ha : a.within A) (h : A ≤ B) : a.within B := by
  unfold Sc.within at *; omega

theorem within_nonneg {a : Sc} {A : Int} (ha : a.within A) : 0 ≤ A := by unfold Sc.within at ha; omega

theorem mul_bound (x B v V : Int) (hx1 : -B ≤ x) (hx2 : x ≤ B) (hv0 : 0 ≤ v) (hv : v ≤ V) : -(B * V) ≤ x * v ∧ x * v ≤ B * V := by
  have hB : 0 ≤ B := by omega
  have h1 : x * v ≤ B * v := Int.mul_le_mul_of_nonneg_right hx2 hv0
  have h2 : B * v ≤ B * V := Int.mul_le_mul_of_nonneg_left hv hB
  have h3 : -B * v ≤ x * v := Int.mul_le_mul_of_nonneg_right hx1 hv0
  have h4 : -B * v = -(B * v) := Int.neg_mul B v
  omega

theorem within_scale {s : Sc} {B : Int} (hs : s.within B) (v V : Int) (hv0 : 0 ≤ v) (hv : v ≤ V) : (s.scale v).within (B * V) := by
  unfold Sc.within at *
  unfold Sc.scale
  have := mul_bound s.mg B v V hs.1 hs.2.1 hv0 hv
  have := mul_bound s.eg B v V hs.2.2.1 hs.2.2.2 hv0 hv
  simp only []
  omega

theorem within_opt (c : Prop) [Decidable c] {k : Sc} {B : Int} (hk : k.within B) : (optSc c k).within B := by
  unfold optSc
  split
  · exact hk
  · exact within_mono within_zero (within_nonneg hk)

theorem within_ite (c : Prop) [Decidable c] {a b : Sc} {A B : Int} (ha : a.within A) (hb : b.within B) :
    (if c then a else b).within (max A B) := by
  split
  · exact within_mono ha (by omega)
  · exact within_mono hb (by omega)

theorem within_ofV (v B : Int) (h1 : -B ≤ v) (h2 : v ≤ B) : (Sc.ofV v).within B := by
  unfold Sc.within Sc.ofV; simp only []; omega

-- counts, distances -----------------------------------------------------------------------------------
theorem popcountAux_le (b : BB) (n : Nat) : popcountAux b n ≤ n := by
  induction n with
  | zero => simp [popcountAux]
  | succ n ih => unfold popcountAux; split <;> omega

theorem pc_bounds (x : BB) : 0 ≤ pc x ∧ pc x ≤ 64 := by
  unfold pc popcount
  have := popcountAux_le x 64
  omega

theorem bitsAux_length (b : BB) (n : Nat) (acc : List Nat) : (bitsAux b n acc).length ≤ acc.length + n := by
  induction n generalizing acc with
  | zero => simp [bitsAux]
  | succ n ih =>
    unfold bitsAux
    by_cases h : b.testBit n = true
    · rw [if_pos h]
      have := ih (n :: acc)
      rw [List.length_cons] at this
      omega
    · rw [if_neg h]
      have := ih acc
      omega

theorem bitsOf_length (b : BB) : (bitsOf b).length ≤ 64 := by
  unfold bitsOf
  have := bitsAux_length b 64 []
  simpa using this

theorem log2_le_of_le (n k : Nat) (h : n ≤ 2 ^ k) : Nat.log2 n ≤ k := by
  by_cases h0 : n = 0
  · subst h0; simp
  · have : Nat.log2 n < k + 1 := (Nat.log2_lt h0).2 (by
      have : (2:Nat) ^ k < 2 ^ (k + 1) := by rw [Nat.pow_succ]; have := Nat.two_pow_pos k; omega
      omega)
    omega

theorem lsb_le (x : BB) : lsb x ≤ 64 := by
  unfold lsb
  apply log2_le_of_le
  have h1 : x &&& (two64 - x) ≤ two64 - x := Nat.and_le_right
  have h2 : two64 = 2 ^ 64 := by decide
  have h3 : two64 - x ≤ two64 := Nat.sub_le _ _
  rw [← h2]
  exact Nat.le_trans h1 h3

theorem kingSq_le (board : List Nat) (side : Nat) : kingSq board side ≤ 64 := lsb_le _

theorem distance_le (a b : Nat) (ha : a ≤ 64) (hb : b ≤ 64) : distance a b ≤ 8 := by
  unfold distance rankOf fileOf
  simp only []
  split <;> split <;> omega

theorem within_scale_pc {s : Sc} {B : Int} (hs : s.within B) (x : BB) : (s.scale (pc x)).within (B * 64) :=
  within_scale hs _ _ (pc_bounds x).1 (pc_bounds x).2

theorem within_scale_dist {s : Sc} {B : Int} (hs : s.within B) (a b : Nat) (ha : a ≤ 64) (hb : b ≤ 64) :
    (s.scale (distance a b)).within (B * 8) :=
  within_scale hs _ _ (by omega) (by have := distance_le a b ha hb; omega)

-- folds ---------------------------------------------------------------------------------------------------
theorem within_foldl {α : Type} (l : List α) (f : α → Sc) (B : Int) (hB : 0 ≤ B) (hf : ∀ x, x ∈ l → (f x).within B)
    (init : Sc) (I : Int) (hi : init.within I) : (l.foldl (fun acc x => acc + f x) init).within (I + l.length * B) := by
  induction l generalizing init I with
  | nil => simpa using hi
  | cons a as ih =>
    rw [List.foldl_cons]
    have h1 := within_add hi (hf a (by simp))
    have h2 := ih (fun x hx => hf x (by simp [hx])) _ _ h1
    refine within_mono h2 ?_
    rw [List.length_cons, Int.natCast_succ, Int.add_mul]
    omega

theorem within_foldl_bits (bb : BB) (f : Nat → Sc) (B : Int) (hB : 0 ≤ B) (hf : ∀ x, x < 64 → (f x).within B) :
    ((bitsOf bb).foldl (fun acc x => acc + f x) (⟨0, 0⟩ : Sc)).within (64 * B) := by
  have h := within_foldl (bitsOf bb) f B hB (fun x hx => hf x ((mem_bitsOf bb x).1 hx).1) _ _ within_zero
  refine within_mono h ?_
  have hl := bitsOf_length bb
  have : ((bitsOf bb).length : Int) * B ≤ 64 * B := Int.mul_le_mul_of_nonneg_right (by omega) hB
  omega

end Chess
