/-
  Lemmas/ExactSingleCheck.lean — exactness of the generated list in a single check (no en-passant square): evasions by capturing the
  checker, by interposing on a sliding checker's ray, or by moving the king; pinned pieces stay where they are.
-/
import ChessVerif.Lemmas.SingleCheckLegal
import ChessVerif.Lemmas.PawnMask
import ChessVerif.Lemmas.DoubleCheck
namespace Chess

theorem notCastle_of_kind (p : Position) (m : Spec.SMove) (h : kindOf (p.board.getD m.src 0) ≠ KING) : Spec.isCastle p.board m = false := by
  unfold Spec.isCastle
  have hk : Spec.kindOfPc (Spec.pcAt p.board m.src) = kindOf (p.board.getD m.src 0) := rfl
  rw [hk]
  simp only [Bool.and_eq_false_iff, decide_eq_false_iff_not]
  exact Or.inl h

theorem notEp_of_noep (p : Position) (hep : p.ep = 64) (m : Spec.SMove) : Spec.isEpCapture (absPos p) m = false := by
  unfold Spec.isEpCapture
  have : (absPos p).ep = 64 := hep
  rw [this]; simp

/-- the facts of a single-check position -/
structure SingleCheck (p : Position) (k cs : Nat) : Prop where
  king : KingAt p.board p.side k
  bit : (checkersBB (BBs.of p) p.board p.side).testBit cs = true
  one : ∀ c, (checkersBB (BBs.of p) p.board p.side).testBit c = true → c = cs
  cs64 : cs < 64
  enemy : ((BBs.of p).color (1 - p.side)).testBit cs = true

theorem color_all (p : Position) (ok : BoardOK p.board) (c t : Nat) (hc : c ≤ 1) (h : ((BBs.of p).color c).testBit t = true) :
    (BBs.of p).all.testBit t = true := by
  rw [color_testBit p c t hc ok] at h
  rw [all_testBit p t ok]
  simp only [Bool.and_eq_true, decide_eq_true_eq] at h ⊢
  exact ⟨h.1, h.2.1⟩

/-- the evasion target set is inside the free target set, bit by bit -/
theorem evasion_target_sub (p : Position) (ok : BoardOK p.board) (hs : p.side ≤ 1) (k cs : Nat) (sc : SingleCheck p k cs) (t : Nat) (ht : t < 64)
    (h : (checkersBB (BBs.of p) p.board p.side ||| pushMaskOf p k cs).testBit t = true) :
    ((BBs.of p).color (1 - p.side) ||| bnot (BBs.of p).all).testBit t = true := by
  have hks : kingSq p.board p.side = k := kingSq_eq p.board p.side k ok.len sc.king
  have hcs := checks_of_bit p k cs sc.king.lt hks sc.bit
  rw [Nat.testBit_or] at h ⊢
  simp only [Bool.or_eq_true] at h ⊢
  rcases h with h | h
  · left; rw [sc.one t h]; exact sc.enemy
  · right
    rw [bnot_testBit _ _ ht, (pushMask_iff p ok hs k cs sc.king.lt hcs t ht).2 h]; rfl

theorem singleCheck_of (p : Position) (hwf : Spec.wf (absPos p) = true)
    (h0 : checkersBB (BBs.of p) p.board p.side ≠ 0) (h1 : moreThanOne (checkersBB (BBs.of p) p.board p.side) = false) :
    ∃ k, SingleCheck p k (lsb (checkersBB (BBs.of p) p.board p.side)) := by
  obtain ⟨hbo, hside, hkk, _, _⟩ := wf_board_hyps _ hwf
  have ok : BoardOK p.board := hbo
  have hs : p.side ≤ 1 := hside
  obtain ⟨k, hk, _⟩ := hkk p.side hs
  have hking : KingAt p.board p.side k := hk
  have hks : kingSq p.board p.side = k := kingSq_eq p.board p.side k ok.len hking
  have hlt : ∀ i, (checkersBB (BBs.of p) p.board p.side).testBit i = true → i < 64 := by
    intro i hi
    exact ((checks_of_bit p k i hking.lt hks hi).enemy ok hs).1
  obtain ⟨c64, hb, hone⟩ := single_bit _ hlt h0 h1
  refine ⟨k, hking, hb, hone, c64, ?_⟩
  obtain ⟨_, K, k1, k6, hbd⟩ := (checks_of_bit p k _ hking.lt hks hb).enemy ok hs
  rw [color_testBit p (1 - p.side) _ (by omega) ok, hbd]
  simp only [Bool.and_eq_true, decide_eq_true_eq]
  refine ⟨c64, mkPiece_ne_zero _ _ (by omega), ?_⟩
  have hs01 : p.side = 0 ∨ p.side = 1 := by omega
  have hK : K = 1 ∨ K = 2 ∨ K = 3 ∨ K = 4 ∨ K = 5 ∨ K = 6 := by omega
  rcases hs01 with e | e <;> rw [e] <;> rcases hK with rfl | rfl | rfl | rfl | rfl | rfl <;> decide

end Chess

namespace Chess

def attOf (p : Position) (K s : Nat) : BB := if K = KNIGHT then knightMask s else sliderAttack K s (BBs.of p).all

theorem piece_bit_pseudo (p : Position) (hwf : Spec.wf (absPos p) = true) (K : Nat) (hK : K = KNIGHT ∨ K = BISHOP ∨ K = ROOK ∨ K = QUEEN)
    (s : Nat) (hs : s < 64) (hN : p.board.getD s 0 = mkPiece p.side K) (t : Nat) (ht : t < 64)
    (hb : (attOf p K s &&& ((BBs.of p).color (1 - p.side) ||| bnot (BBs.of p).all)).testBit t = true) :
    (⟨s, t, 0⟩ : Spec.SMove) ∈ Spec.pseudoMoves (absPos p) := by
  unfold attOf at hb
  rcases hK with rfl | hK
  · rw [if_pos rfl] at hb; exact knight_bit_pseudo p hwf s hs hN t ht hb
  · have : K ≠ KNIGHT := by rcases hK with rfl | rfl | rfl <;> decide
    rw [if_neg this] at hb; exact slider_bit_pseudo p hwf K hK s hs hN t ht hb

theorem piece_pseudo_form (p : Position) (hwf : Spec.wf (absPos p) = true) (K : Nat) (hK : K = KNIGHT ∨ K = BISHOP ∨ K = ROOK ∨ K = QUEEN)
    (s : Nat) (hs : s < 64) (hN : p.board.getD s 0 = mkPiece p.side K) (m : Spec.SMove) (hps : m ∈ Spec.pseudoMoves (absPos p)) (hsrc : m.src = s) :
    ∃ t, t < 64 ∧ m = ⟨s, t, 0⟩ ∧ (attOf p K s &&& ((BBs.of p).color (1 - p.side) ||| bnot (BBs.of p).all)).testBit t = true := by
  unfold attOf
  rcases hK with rfl | hK
  · rw [if_pos rfl]; exact knight_pseudo_form p hwf s hs hN m hps hsrc
  · have : K ≠ KNIGHT := by rcases hK with rfl | rfl | rfl <;> decide
    rw [if_neg this]; exact slider_pseudo_form p hwf K hK s hs hN m hps hsrc

theorem mem_genPieceMoves_iff (p : Position) (K s : Nat) (T : BB) (code : Nat) :
    code ∈ genPieceMoves (BBs.of p) K s T ↔ ∃ t, t < 64 ∧ (attOf p K s &&& T).testBit t = true ∧ code = mkMove s t := by
  unfold genPieceMoves attOf
  simp only [List.mem_map, mem_bitsOf]
  constructor
  · rintro ⟨t, ⟨a, b⟩, rfl⟩; exact ⟨t, a, b, rfl⟩
  · rintro ⟨t, a, b, rfl⟩; exact ⟨t, ⟨a, b⟩, rfl⟩

/-- the list of evasions of the unpinned pieces of kind K -/
abbrev evasionList (p : Position) (k cs K : Nat) : List Nat :=
  (bitsOf ((BBs.of p).ck p.side K &&& bnot (pinnedBB p))).flatMap
    (fun s => genPieceMoves (BBs.of p) K s (checkersBB (BBs.of p) p.board p.side ||| pushMaskOf p k cs))

/-- GENERATED ⇒ LEGAL, knights and sliders in a single check -/
theorem piece_evasion_legal (p : Position) (hwf : Spec.wf (absPos p) = true) (hep : p.ep = 64) (k cs : Nat) (sc : SingleCheck p k cs) (K : Nat)
    (hK : K = KNIGHT ∨ K = BISHOP ∨ K = ROOK ∨ K = QUEEN) (code : Nat) (h : code ∈ evasionList p k cs K) :
    ∃ m, m ∈ Spec.legalMoves (absPos p) ∧ codeOf (absPos p) m = code := by
  obtain ⟨hbo, hside, _, _, _⟩ := wf_board_hyps _ hwf
  have ok : BoardOK p.board := hbo
  have hs : p.side ≤ 1 := hside
  have hK16 : 1 ≤ K ∧ K ≤ 6 := by rcases hK with rfl | rfl | rfl | rfl <;> decide
  have hKk : K ≠ KING := by rcases hK with rfl | rfl | rfl | rfl <;> decide
  rw [List.mem_flatMap] at h
  obtain ⟨s, hsq, hm⟩ := h
  rw [mem_bitsOf] at hsq
  obtain ⟨s64, hsb⟩ := hsq
  have h1 := and_testBit_left _ _ _ hsb
  have h2 := and_testBit_right _ _ _ hsb
  obtain ⟨_, hN, hkind⟩ := ck_board p ok p.side K s hs hK16 h1
  rw [bnot_testBit _ _ s64] at h2
  have hunp : (pinnedBB p).testBit s = false := by simpa using h2
  obtain ⟨t, t64, hb, rfl⟩ := (mem_genPieceMoves_iff p K s _ code).1 hm
  have ha := and_testBit_left _ _ _ hb
  have hT := and_testBit_right _ _ _ hb
  have hfree := and_testBit_of _ _ t ha (evasion_target_sub p ok hs k cs sc t t64 hT)
  have hps := piece_bit_pseudo p hwf K hK s s64 hN t t64 hfree
  have hnk : kindOf (p.board.getD (⟨s, t, 0⟩ : Spec.SMove).src 0) ≠ KING := by show kindOf (p.board.getD s 0) ≠ KING; rw [hkind]; exact hKk
  refine ⟨⟨s, t, 0⟩, ?_, ?_⟩
  · exact (single_check_legal_iff p hwf k cs sc.king sc.bit sc.one _ hps (notCastle_of_kind p _ hnk) (notEp_of_noep p hep _) hnk).2 ⟨hunp, hT⟩
  · rw [codeOf_plain p _ hnk]; exact (mkMove_eq_promo s t).symm

/-- LEGAL ⇒ GENERATED, knights and sliders in a single check -/
theorem piece_legal_evasion (p : Position) (hwf : Spec.wf (absPos p) = true) (hep : p.ep = 64) (k cs : Nat) (sc : SingleCheck p k cs) (K : Nat)
    (hK : K = KNIGHT ∨ K = BISHOP ∨ K = ROOK ∨ K = QUEEN) (m : Spec.SMove) (hm : m ∈ Spec.legalMoves (absPos p))
    (hkind : kindOf (p.board.getD m.src 0) = K) : codeOf (absPos p) m ∈ evasionList p k cs K := by
  obtain ⟨hbo, hside, _, _, _⟩ := wf_board_hyps _ hwf
  have ok : BoardOK p.board := hbo
  have hs : p.side ≤ 1 := hside
  have hK16 : 1 ≤ K ∧ K ≤ 6 := by rcases hK with rfl | rfl | rfl | rfl <;> decide
  have hKk : K ≠ KING := by rcases hK with rfl | rfl | rfl | rfl <;> decide
  have hps : m ∈ Spec.pseudoMoves (absPos p) := by unfold Spec.legalMoves at hm; exact (List.mem_filter.1 hm).1
  have sok := stepOK_of_pseudo _ hwf m hps
  have hownb : p.board.getD m.src 0 = mkPiece p.side (kindOf (p.board.getD m.src 0)) := sok.own.2
  have hN : p.board.getD m.src 0 = mkPiece p.side K := by rw [hownb, hkind]
  have hnk : kindOf (p.board.getD m.src 0) ≠ KING := by rw [hkind]; exact hKk
  obtain ⟨hunp, hT⟩ := (single_check_legal_iff p hwf k cs sc.king sc.bit sc.one m hps (notCastle_of_kind p _ hnk) (notEp_of_noep p hep _) hnk).1 hm
  obtain ⟨t, t64, hmv, hb⟩ := piece_pseudo_form p hwf K hK m.src sok.src hN m hps rfl
  have hdst : m.dst = t := by rw [hmv]
  rw [hdst] at hT
  rw [List.mem_flatMap]
  refine ⟨m.src, (mem_bitsOf _ _).2 ⟨sok.src, src_in_set p ok hs K m.src hK16 sok.src hN hunp⟩, ?_⟩
  rw [mem_genPieceMoves_iff]
  refine ⟨t, t64, and_testBit_of _ _ t (and_testBit_left _ _ _ hb) hT, ?_⟩
  rw [codeOf_plain p m hnk, mkMove_eq_promo]
  rw [hmv]

end Chess

namespace Chess

abbrev pawnEvasions (p : Position) (k cs : Nat) : List Nat :=
  genPawnMoves p.side ((BBs.of p).ck p.side PAWN &&& bnot (pinnedBB p)) (bnot (BBs.of p).all) (pushMaskOf p k cs) (checkersBB (BBs.of p) p.board p.side)

theorem pawn_evasion_iff (p : Position) (ok : BoardOK p.board) (hs : p.side ≤ 1) (k cs : Nat) (sc : SingleCheck p k cs) (code : Nat) :
    code ∈ pawnEvasions p k cs ↔
      ∃ idx f t k', PawnMv p.side ((BBs.of p).ck p.side PAWN &&& bnot (pinnedBB p)) (bnot (BBs.of p).all) (bnot (BBs.of p).all)
        ((BBs.of p).color (1 - p.side)) code idx f t k' ∧ (checkersBB (BBs.of p) p.board p.side ||| pushMaskOf p k cs).testBit t = true := by
  have hks : kingSq p.board p.side = k := kingSq_eq p.board p.side k ok.len sc.king
  have hcs := checks_of_bit p k cs sc.king.lt hks sc.bit
  apply pawn_mask_iff p hs _ _ _ _ _ (fun j hj => (pawnSrc p ok hs (pinnedBB p) j hj).1)
  · intro t _ h; rw [sc.one t h]; exact sc.enemy
  · intro t ht h
    rw [bnot_testBit _ _ ht, (pushMask_iff p ok hs k cs sc.king.lt hcs t ht).2 h]; rfl
  · intro t he hem
    have ha := color_all p ok (1 - p.side) t (by omega) he
    have ht : t < 64 := by
      rw [all_testBit p t ok] at ha
      simp only [Bool.and_eq_true, decide_eq_true_eq] at ha
      exact ha.1
    rw [bnot_testBit _ _ ht, ha] at hem
    cases hem

/-- GENERATED ⇒ LEGAL, pawns in a single check -/
theorem pawn_evasion_legal (p : Position) (hwf : Spec.wf (absPos p) = true) (hep : p.ep = 64) (k cs : Nat) (sc : SingleCheck p k cs) (code : Nat)
    (h : code ∈ pawnEvasions p k cs) : ∃ m, m ∈ Spec.legalMoves (absPos p) ∧ codeOf (absPos p) m = code := by
  obtain ⟨hbo, hside, _, _, _⟩ := wf_board_hyps _ hwf
  have ok : BoardOK p.board := hbo
  have hs : p.side ≤ 1 := hside
  obtain ⟨idx, f, t, k', hP, hT⟩ := (pawn_evasion_iff p ok hs k cs sc code).1 h
  obtain ⟨hf64, hbf, hunp⟩ := pawnSrc p ok hs (pinnedBB p) f hP.pawn
  have hlisted := pawn_gen_listed p ok hs _ code idx f t k' hP
  have hkP : kindOf (p.board.getD f 0) = PAWN := by rw [hbf]; exact kindOf_mkPiece _ _ hs (by decide)
  have hown : Spec.isOwn (Spec.pcAt (absPos p).board f) (absPos p).side = true := by
    show Spec.isOwn (p.board.getD f 0) p.side = true
    rw [hbf]
    have : p.side = 0 ∨ p.side = 1 := by omega
    rcases this with e | e <;> rw [e] <;> decide
  have hps := mem_pseudo_of_piece (absPos p) f hf64 hown _ 1 hkP hlisted
  have hnk : kindOf (p.board.getD (⟨f, t, k'⟩ : Spec.SMove).src 0) ≠ KING := by show kindOf (p.board.getD f 0) ≠ KING; rw [hkP]; decide
  refine ⟨⟨f, t, k'⟩, ?_, ?_⟩
  · exact (single_check_legal_iff p hwf k cs sc.king sc.bit sc.one _ hps (notCastle_of_kind p _ hnk) (notEp_of_noep p hep _) hnk).2 ⟨hunp, hT⟩
  · rw [codeOf_plain p _ hnk]; exact hP.mv.eq.symm

/-- LEGAL ⇒ GENERATED, pawns in a single check -/
theorem pawn_legal_evasion (p : Position) (hwf : Spec.wf (absPos p) = true) (hep : p.ep = 64) (k cs : Nat) (sc : SingleCheck p k cs)
    (m : Spec.SMove) (hm : m ∈ Spec.legalMoves (absPos p)) (sq : Nat) (hkind : kindOf (p.board.getD sq 0) = 1)
    (hpm : m ∈ Spec.pawnMoves (absPos p) sq) : codeOf (absPos p) m ∈ pawnEvasions p k cs := by
  obtain ⟨hbo, hside, _, _, _⟩ := wf_board_hyps _ hwf
  have ok : BoardOK p.board := hbo
  have hs : p.side ≤ 1 := hside
  have hps : m ∈ Spec.pseudoMoves (absPos p) := by unfold Spec.legalMoves at hm; exact (List.mem_filter.1 hm).1
  have sok := stepOK_of_pseudo _ hwf m hps
  have hownb : p.board.getD m.src 0 = mkPiece p.side (kindOf (p.board.getD m.src 0)) := sok.own.2
  have hsrc := (mem_pawnMoves (absPos p) sq m hpm).1
  rw [← hsrc] at hkind hpm
  have hbP : p.board.getD m.src 0 = mkPiece p.side PAWN := by rw [hownb, hkind]; rfl
  have hnk : kindOf (p.board.getD m.src 0) ≠ KING := by rw [hkind]; decide
  obtain ⟨hunp, hT⟩ := (single_check_legal_iff p hwf k cs sc.king sc.bit sc.one m hps (notCastle_of_kind p _ hnk) (notEp_of_noep p hep _) hnk).1 hm
  have hset := src_in_set p ok hs PAWN m.src (by decide) sok.src hbP hunp
  obtain ⟨_, hgen⟩ : m.src = m.src ∧ mkPromotion m.src m.dst m.promo ∈ genP p ((BBs.of p).ck p.side PAWN &&& bnot (pinnedBB p)) := by
    have hs01 : p.side = 0 ∨ p.side = 1 := by omega
    have hne : ¬ (p.ep ≠ 64 ∧ m.dst = p.ep ∧ Spec.isEnemy (Spec.pcAt p.board m.dst) p.side = false ∧ Spec.fileI m.src ≠ Spec.fileI m.dst) := by
      rintro ⟨a, _⟩; exact a hep
    rcases hs01 with e | e
    · exact pawn_listed_gen_white p e ok _ m.src sok.src hset m hpm hne
    · exact pawn_listed_gen_black p e ok _ m.src sok.src hset m hpm hne
  rw [codeOf_plain p m hnk]
  obtain ⟨idx, f, t, k', hP⟩ := mem_genPawnMoves p.side hs _ _ _ _ (fun j hj => (pawnSrc p ok hs (pinnedBB p) j hj).1) _ hgen
  have henc := Props.C16_encoding m.src m.dst m.promo sok.src sok.dst (by have := sok.promo.1; omega)
  have ht : t = m.dst := by rw [← hP.mv.to_]; exact henc.2.1
  rw [pawn_evasion_iff p ok hs k cs sc]
  exact ⟨idx, f, t, k', hP, by rw [ht]; exact hT⟩

end Chess

namespace Chess

/-- **C01, exact in a single check (no en-passant square)**: the generated list contains exactly the codes of the rules' legal moves -/
theorem exact_singlecheck_noep (p : Position) (hwf : Spec.wf (absPos p) = true)
    (h0 : checkersBB (BBs.of p) p.board p.side ≠ 0) (h1 : moreThanOne (checkersBB (BBs.of p) p.board p.side) = false)
    (hep : p.ep = 64) (code : Nat) :
    code ∈ genMoves p ↔ ∃ m, m ∈ Spec.legalMoves (absPos p) ∧ codeOf (absPos p) m = code := by
  obtain ⟨hbo, hside, hkk, _, _⟩ := wf_board_hyps _ hwf
  have ok : BoardOK p.board := hbo
  have hs : p.side ≤ 1 := hside
  obtain ⟨k, sc⟩ := singleCheck_of p hwf h0 h1
  have hking := sc.king
  obtain ⟨kq, hkq, _⟩ := hkk (1 - p.side) (by omega)
  have hks : kingSq p.board p.side = k := kingSq_eq p.board p.side k ok.len hking
  have hin : Spec.inCheck p.board p.side = true := (in_check_test' p hwf).1 h0
  generalize hcsdef : lsb (checkersBB (BBs.of p) p.board p.side) = cs at sc
  have hdbl : ¬ (checkersBB (BBs.of p) p.board p.side ≠ 0 ∧ moreThanOne (checkersBB (BBs.of p) p.board p.side) = true) := by
    rw [h1]; simp
  have hlist : genMoves p =
      (((((pawnEvasions p k cs ++ evasionList p k cs KNIGHT) ++ evasionList p k cs BISHOP) ++ evasionList p k cs ROOK) ++
        evasionList p k cs QUEEN) ++ ([] : List Nat)) ++ genKingMoves k (forbiddenSquares (BBs.of p) p.board p.side ||| (BBs.of p).color p.side) := by
    unfold genMoves
    simp only []
    rw [if_neg hdbl]
    simp only [if_pos h0]
    rw [hks, hcsdef]
    have e1 : (if p.ep ≠ 64 then genEnpassant (BBs.of p) p.board p.side ((BBs.of p).ck p.side PAWN &&&
        bnot ((genPins (BBs.of p) p.board p.side).foldl (fun acc pin => acc ||| sqBB (pinSquare pin)) 0))
        (if isSlider (p.board.getD cs 0) then lines k cs ^^^ sqBB k ^^^ sqBB cs else 0) (checkersBB (BBs.of p) p.board p.side) p.ep else []) = [] := by
      rw [if_neg (by simp [hep])]
    rw [e1]
    rfl
  rw [hlist]
  simp only [List.append_nil, List.mem_append, or_assoc]
  constructor
  · rintro (h | h | h | h | h | h)
    · exact pawn_evasion_legal p hwf hep k cs sc code h
    · exact piece_evasion_legal p hwf hep k cs sc KNIGHT (Or.inl rfl) code h
    · exact piece_evasion_legal p hwf hep k cs sc BISHOP (Or.inr (Or.inl rfl)) code h
    · exact piece_evasion_legal p hwf hep k cs sc ROOK (Or.inr (Or.inr (Or.inl rfl))) code h
    · exact piece_evasion_legal p hwf hep k cs sc QUEEN (Or.inr (Or.inr (Or.inr rfl))) code h
    · exact king_gen_legal p hwf k hking code h
  · rintro ⟨m, hm, rfl⟩
    have hps : m ∈ Spec.pseudoMoves (absPos p) := by unfold Spec.legalMoves at hm; exact (List.mem_filter.1 hm).1
    have sok := stepOK_of_pseudo _ hwf m hps
    rcases pseudo_cases (absPos p) m hps with hc | ⟨sq, hsq, _, h | h | h | h | h | h⟩
    · exfalso
      have hfk : Spec.findKing (absPos p).board (absPos p).side = k := findKing_eq p.board p.side k hking
      have := no_castle_in_check (absPos p) k hfk (by
        intro hkp
        have hb : p.board.getD ((if p.side = 0 then 0 else 56) + 4) 0 = mkPiece p.side KING := by
          have : p.board.getD ((if p.side = 0 then 0 else 56) + 4) 0 = Spec.mkPc p.side 6 := hkp
          rw [this, mkPc_eq' _ 6 (by decide)]; rfl
        have hlt : (if p.side = 0 then 0 else 56) + 4 < 64 := by split <;> omega
        exact hking.only _ hlt hb) hin
      rw [this] at hc; simp at hc
    · left
      exact pawn_legal_evasion p hwf hep k cs sc m hm sq h.1 h.2
    · right; left
      obtain ⟨d, _, _, hmv, _⟩ := mem_stepMoves (absPos p) sq _ m h.2
      have hsrc : m.src = sq := by rw [hmv]
      exact piece_legal_evasion p hwf hep k cs sc KNIGHT (Or.inl rfl) m hm (by rw [hsrc]; exact h.1)
    · right; right; left
      obtain ⟨d, _, t, _, hmv⟩ := mem_slideMoves (absPos p) sq _ m h.2
      have hsrc : m.src = sq := by rw [hmv]
      exact piece_legal_evasion p hwf hep k cs sc BISHOP (Or.inr (Or.inl rfl)) m hm (by rw [hsrc]; exact h.1)
    · right; right; right; left
      obtain ⟨d, _, t, _, hmv⟩ := mem_slideMoves (absPos p) sq _ m h.2
      have hsrc : m.src = sq := by rw [hmv]
      exact piece_legal_evasion p hwf hep k cs sc ROOK (Or.inr (Or.inr (Or.inl rfl))) m hm (by rw [hsrc]; exact h.1)
    · right; right; right; right; left
      obtain ⟨d, _, t, _, hmv⟩ := mem_slideMoves (absPos p) sq _ m h.2
      have hsrc : m.src = sq := by rw [hmv]
      exact piece_legal_evasion p hwf hep k cs sc QUEEN (Or.inr (Or.inr (Or.inr rfl))) m hm (by rw [hsrc]; exact h.1)
    · -- a king step
      right; right; right; right; right
      obtain ⟨d, hd, hon, hmv, _⟩ := mem_stepMoves (absPos p) sq _ m h.2
      have hkind : kindOf (p.board.getD sq 0) = KING := h.1
      have hownb : p.board.getD m.src 0 = mkPiece p.side (kindOf (p.board.getD m.src 0)) := sok.own.2
      have hsrc : m.src = sq := by rw [hmv]
      have hbK : p.board.getD sq 0 = mkPiece p.side KING := by rw [← hsrc, hownb, hsrc, hkind]
      have hsqk : sq = k := hking.only sq hsq hbK
      subst hsqk
      obtain ⟨v1, v2, v3, v4, v5, v6⟩ := sqOf_val sq hsq d.1 d.2 hon
      have hstep : Spec.sqOf (Spec.fileI sq + d.1) (Spec.rankI sq + d.2) ≠ sq + 2 ∧ Spec.sqOf (Spec.fileI sq + d.1) (Spec.rankI sq + d.2) + 2 ≠ sq := by
        simp [Spec.kingOffs] at hd
        rcases hd with rfl | rfl | rfl | rfl | rfl | rfl | rfl | rfl <;> simp at v1 v3 v4 v5 v6 ⊢ <;> omega
      have hleg : (⟨sq, Spec.sqOf (Spec.fileI sq + d.1) (Spec.rankI sq + d.2), 0⟩ : Spec.SMove) ∈ Spec.legalMoves (absPos p) := by rw [← hmv]; exact hm
      have hg := (king_moves_exact p hwf sq kq _ v2 hking hkq).2 ⟨hleg, hstep.1, hstep.2⟩
      rw [hmv]
      unfold codeOf
      have : Spec.isCastle (absPos p).board ⟨sq, Spec.sqOf (Spec.fileI sq + d.1) (Spec.rankI sq + d.2), 0⟩ = false := by
        unfold Spec.isCastle
        simp only [Bool.and_eq_false_iff, Bool.or_eq_false_iff, decide_eq_false_iff_not]
        exact Or.inr ⟨hstep.1, hstep.2⟩
      rw [this]
      simp only [Bool.false_eq_true, if_false]
      rw [← mkMove_eq_promo]
      exact hg

/-- **C01, exact without an en-passant square**: on every well-formed position in which no en-passant square is set — in check or
    not, pinned pieces or not — the generated list contains exactly the codes of the rules' legal moves -/
theorem exact_noep (p : Position) (hwf : Spec.wf (absPos p) = true) (hep : p.ep = 64) (code : Nat) :
    code ∈ genMoves p ↔ ∃ m, m ∈ Spec.legalMoves (absPos p) ∧ codeOf (absPos p) m = code := by
  by_cases h0 : checkersBB (BBs.of p) p.board p.side = 0
  · have hnic : Spec.inCheck p.board p.side = false := by
      apply Bool.eq_false_iff.2
      intro h
      exact ((in_check_test' p hwf).2 h) h0
    exact exact_nocheck_noep p hwf hnic hep code
  · by_cases h1 : moreThanOne (checkersBB (BBs.of p) p.board p.side) = true
    · exact exact_doublecheck_noep p hwf ⟨h0, h1⟩ hep code
    · exact exact_singlecheck_noep p hwf h0 (by simpa using h1) hep code

end Chess
