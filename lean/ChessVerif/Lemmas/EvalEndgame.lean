/-
  Lemmas/EvalEndgame.lean — every specialised endgame evaluator stays within `egB` on well-formed positions.
-/
import ChessVerif.Lemmas.EvalTotal
namespace Chess

def absI (x : Int) : Int := (x.natAbs : Int)

def egB : Int :=
  absI VALUE_KNOWN_WIN + absI VALUE_POSITIVE_DRAW +
  (64 * absI (pvEg PAWN) + 10 * absI (pvEg KNIGHT) + 10 * absI (pvEg BISHOP) + 10 * absI (pvEg ROOK) + 9 * absI (pvEg QUEEN)) +
  (absI (pvEg QUEEN) + absI (pvEg ROOK) + absI (pvEg PAWN) + absI (pvEg BISHOP) + absI (pvEg KNIGHT) + absI (pvEg BISHOP)) +
  lbnd pushToEdge + lbnd pushToColorCorner + 20 * lbnd pushClose + 1000

theorem rank_le8 (s : Nat) (h : s ≤ 64) : rankOf s ≤ 8 := by unfold rankOf; omega
theorem rank_flipV (s : Nat) : rankOf (flipV s) ≤ 7 := by unfold flipV mkSquare rankOf fileOf; omega
theorem rank_flipH (s : Nat) : rankOf (flipH s) = rankOf s := by unfold flipH mkSquare rankOf fileOf; omega
theorem flipV_le (s : Nat) : flipV s ≤ 63 := by unfold flipV mkSquare rankOf fileOf; omega
theorem rank_normSq (s side : Nat) (h : s ≤ 64) : rankOf (normSq s side) ≤ 8 := by
  unfold normSq; split
  · exact rank_le8 s h
  · have := rank_flipV s; omega
theorem normSq_le (s side : Nat) (h : s ≤ 64) : normSq s side ≤ 64 := by
  unfold normSq; split
  · exact h
  · have := flipV_le s; omega

theorem bbOfPiece_lt_pow (board : List Nat) (pc : Nat) (h : board.length ≤ 64) : bbOfPiece board pc < 2 ^ 64 := by
  apply Nat.lt_pow_two_of_testBit
  intro i hi
  rw [bbOfPiece_testBit]
  have : ¬ i < board.length := by omega
  simp [this]

theorem msb_le (x : BB) (h : x < 2 ^ 64) : msb x ≤ 64 := by
  unfold msb
  exact log2_le_of_le _ _ (Nat.le_of_lt h)

theorem mostAdvanced_le (x : BB) (side : Nat) (h : x < 2 ^ 64) : mostAdvancedPawn x side ≤ 64 := by
  unfold mostAdvancedPawn; split
  · exact msb_le x h
  · exact lsb_le x

theorem kpkNormalize_rank (strong side sK sP wK : Nat) (h : sP ≤ 64) : rankOf (kpkNormalize strong side sK sP wK).2.2.1 ≤ 8 := by
  unfold kpkNormalize
  have h1 := rank_flipH sP
  have h2 := rank_le8 sP h
  by_cases hf : fileOf sP > 3 <;> by_cases hs : strong = 1 <;> simp only [hf, hs, if_true, if_false]
  · have := rank_flipV (flipH sP); omega
  · omega
  · have := rank_flipV sP; omega
  · omega

theorem countOf_le_length (board : List Nat) (pc : Nat) : countOf board pc ≤ board.length := by
  unfold countOf; exact List.length_filter_le _ _

theorem egStrong_bound (e : EG) (p : Position) (hwf : Spec.wf (absPos p) = true) (stm strong : Nat) (hs : strong ≤ 1) :
    -egB ≤ egStrongScore e (BBs.of p) p.board stm strong ∧ egStrongScore e (BBs.of p) p.board stm strong ≤ egB := by
  obtain ⟨hlen, w1, w2, w3, w4, w5, b1, b2, b3, b4, b5⟩ := wf_material _ hwf
  have hlen' : p.board.length = 64 := hlen
  -- piece counts of the strong side
  have hcnt : countOf p.board (mkPiece strong PAWN) ≤ 8 ∧ countOf p.board (mkPiece strong KNIGHT) ≤ 10 ∧
      countOf p.board (mkPiece strong BISHOP) ≤ 10 ∧ countOf p.board (mkPiece strong ROOK) ≤ 10 ∧ countOf p.board (mkPiece strong QUEEN) ≤ 9 := by
    have : strong = 0 ∨ strong = 1 := by omega
    rcases this with rfl | rfl
    · exact ⟨w1, w2, w3, w4, w5⟩
    · exact ⟨b1, b2, b3, b4, b5⟩
  obtain ⟨cP, cN, cB, cR, cQ⟩ := hcnt
  have hpte : ∀ x, -(lbnd pushToEdge) ≤ pte x ∧ pte x ≤ lbnd pushToEdge := fun x => getD_lbnd pushToEdge x
  have hpcl : ∀ x, -(lbnd pushClose) ≤ pcl x ∧ pcl x ≤ lbnd pushClose := fun x => getD_lbnd pushClose x
  have hcc : ∀ x, -(lbnd pushToColorCorner) ≤ pushToColorCorner.getD x 0 ∧ pushToColorCorner.getD x 0 ≤ lbnd pushToColorCorner :=
    fun x => getD_lbnd pushToColorCorner x
  have hPE := lbnd_nonneg pushToEdge
  have hCL := lbnd_nonneg pushClose
  have hCC := lbnd_nonneg pushToColorCorner
  have hcap : (0 : Int) ≤ VALUE_MATE - 1 := by decide
  have habs : ∀ x : Int, -(absI x) ≤ x ∧ x ≤ absI x ∧ 0 ≤ absI x := fun x => by unfold absI; omega
  have hKW := habs VALUE_KNOWN_WIN
  have hPD := habs VALUE_POSITIVE_DRAW
  have hP := habs (pvEg PAWN); have hN := habs (pvEg KNIGHT); have hB := habs (pvEg BISHOP)
  have hR := habs (pvEg ROOK); have hQ := habs (pvEg QUEEN)
  have mP := mul_bound_abs (pvEg PAWN) (absI (pvEg PAWN)) ((countOf p.board (mkPiece strong PAWN) : Nat) : Int) 8 hP.1 hP.2.1 (by omega) (by omega)
  have mN := mul_bound_abs (pvEg KNIGHT) (absI (pvEg KNIGHT)) ((countOf p.board (mkPiece strong KNIGHT) : Nat) : Int) 10 hN.1 hN.2.1 (by omega) (by omega)
  have mB := mul_bound_abs (pvEg BISHOP) (absI (pvEg BISHOP)) ((countOf p.board (mkPiece strong BISHOP) : Nat) : Int) 10 hB.1 hB.2.1 (by omega) (by omega)
  have mR := mul_bound_abs (pvEg ROOK) (absI (pvEg ROOK)) ((countOf p.board (mkPiece strong ROOK) : Nat) : Int) 10 hR.1 hR.2.1 (by omega) (by omega)
  have mQ := mul_bound_abs (pvEg QUEEN) (absI (pvEg QUEEN)) ((countOf p.board (mkPiece strong QUEEN) : Nat) : Int) 9 hQ.1 hQ.2.1 (by omega) (by omega)
  have hck : ∀ c k, c ≤ 1 → k ≤ 6 → (BBs.of p).ck c k < 2 ^ 64 := fun c k hc hk => by
    rw [ck_eq p c k hc hk]; exact bbOfPiece_lt_pow _ _ (by omega)
  have hweak : 1 - strong ≤ 1 := by omega
  have hksq := kingSq_le p.board strong
  have hwsq := kingSq_le p.board (1 - strong)
  unfold egB
  cases e with
  | KPK =>
    unfold egStrongScore
    simp only []
    have hr := kpkNormalize_rank strong stm (kingSq p.board strong) (lsb ((BBs.of p).ck strong PAWN)) (kingSq p.board (1 - strong)) (lsb_le _)
    generalize kpkNormalize strong stm (kingSq p.board strong) (lsb ((BBs.of p).ck strong PAWN)) (kingSq p.board (1 - strong)) = t at hr ⊢
    obtain ⟨t1, t2, t3, t4⟩ := t
    simp only [] at hr ⊢
    split <;> omega
  | KPsK =>
    unfold egStrongScore
    simp only []
    have hr := rank_normSq (mostAdvancedPawn ((BBs.of p).ck strong PAWN) strong) strong (mostAdvanced_le _ _ (hck strong PAWN hs (by decide)))
    split <;> omega
  | KRKB =>
    unfold egStrongScore
    simp only []
    have := hpte (normSq (kingSq p.board (1 - strong)) strong)
    omega
  | KRKN =>
    unfold egStrongScore
    simp only []
    have := hpte (normSq (kingSq p.board (1 - strong)) strong)
    have := distance_le (normSq (kingSq p.board (1 - strong)) strong) (normSq (lsb ((BBs.of p).ck (1 - strong) KNIGHT)) strong)
      (normSq_le _ _ hwsq) (normSq_le _ _ (lsb_le _))
    omega
  | KNNK =>
    unfold egStrongScore
    simp only []
    omega
  | KNNKP =>
    unfold egStrongScore
    simp only []
    have := hpcl (distance (normSq (kingSq p.board strong) strong) (normSq (kingSq p.board (1 - strong)) strong))
    have := hpcl (distance (normSq ((bitsOf ((BBs.of p).ck strong KNIGHT)).getD 0 0) strong) (normSq (kingSq p.board (1 - strong)) strong))
    have := hpcl (distance (normSq ((bitsOf ((BBs.of p).ck strong KNIGHT)).getD 1 0) strong) (normSq (kingSq p.board (1 - strong)) strong))
    have := hpte (normSq (kingSq p.board (1 - strong)) strong)
    have := rank_normSq (lsb ((BBs.of p).ck (1 - strong) PAWN)) strong (lsb_le _)
    omega
  | KQKR =>
    unfold egStrongScore
    simp only []
    have := hpte (kingSq p.board (1 - strong))
    have := hpcl (distance (kingSq p.board strong) (kingSq p.board (1 - strong)))
    omega
  | KNBK =>
    unfold egStrongScore
    simp only []
    have := hcc (flipV (kingSq p.board (1 - strong)))
    have := hcc (kingSq p.board (1 - strong))
    split <;> omega
  | KRNKR =>
    unfold egStrongScore
    simp only []
    have := hpte (kingSq p.board (1 - strong))
    omega
  | KRBKR =>
    unfold egStrongScore
    simp only []
    have := hpte (kingSq p.board (1 - strong))
    omega
  | KBPsK =>
    unfold egStrongScore
    simp only []
    have hr := rank_normSq (mostAdvancedPawn ((BBs.of p).ck strong PAWN) strong) strong (mostAdvanced_le _ _ (hck strong PAWN hs (by decide)))
    split <;> omega
  | KBPsKB =>
    unfold egStrongScore
    simp only []
    have hr := rank_normSq (mostAdvancedPawn ((BBs.of p).ck strong PAWN) strong) strong (mostAdvanced_le _ _ (hck strong PAWN hs (by decide)))
    have hpc := popcountAux_le ((BBs.of p).ck strong PAWN) 64
    have m := mul_bound_abs (pvEg PAWN) (absI (pvEg PAWN)) ((popcount ((BBs.of p).ck strong PAWN) : Nat) : Int) 64 hP.1 hP.2.1
      (by unfold popcount; omega) (by unfold popcount; omega)
    rw [Int.mul_comm (pvEg PAWN)] at m
    have hpc' : popcount ((BBs.of p).ck strong PAWN) ≤ 64 := hpc
    repeat' split
    all_goals omega
  | KRKP =>
    unfold egStrongScore
    simp only []
    have := hpcl (distance (normSq (kingSq p.board strong) strong) (normSq (lsb ((BBs.of p).ck (1 - strong) PAWN)) strong))
    have := hpcl (distance (normSq (lsb ((BBs.of p).ck (1 - strong) PAWN)) strong) (mkSquare 0 (fileOf (normSq (lsb ((BBs.of p).ck (1 - strong) PAWN)) strong))))
    have := rank_normSq (lsb ((BBs.of p).ck (1 - strong) PAWN)) strong (lsb_le _)
    split
    · omega
    · split <;> omega
  | KQKP =>
    unfold egStrongScore
    simp only []
    have := hpcl (distance (normSq (kingSq p.board strong) strong) (normSq (lsb ((BBs.of p).ck (1 - strong) PAWN)) strong))
    split <;> omega
  | KQKRPs =>
    unfold egStrongScore
    simp only []
    have := rank_normSq (mostAdvancedPawn ((BBs.of p).ck (1 - strong) PAWN) (1 - strong)) strong (mostAdvanced_le _ _ (hck (1 - strong) PAWN hweak (by decide)))
    have hpc := popcountAux_le ((BBs.of p).ck (1 - strong) PAWN) 64
    have m := mul_bound_abs (pvEg PAWN) (absI (pvEg PAWN)) ((popcount ((BBs.of p).ck (1 - strong) PAWN) : Nat) : Int) 64 hP.1 hP.2.1
      (by unfold popcount; omega) (by unfold popcount; omega)
    rw [Int.mul_comm (pvEg PAWN)] at m
    split <;> omega
  | KmmKm =>
    unfold egStrongScore
    simp only []
    split
    · omega
    · split <;> omega
  | KXK =>
    unfold egStrongScore
    simp only []
    have := hpte (kingSq p.board (1 - strong))
    have := hpcl (distance (kingSq p.board strong) (kingSq p.board (1 - strong)))
    omega

theorem cands_strong (e : EG) (strong : Nat) (h : (e, strong) ∈ egOrder.flatMap (fun e => [(e, 0), (e, 1)])) : strong ≤ 1 := by
  rw [List.mem_flatMap] at h
  obtain ⟨e', _, hm⟩ := h
  simp only [List.mem_cons, Prod.mk.injEq, List.mem_nil_iff, or_false] at hm
  rcases hm with ⟨_, h⟩ | ⟨_, h⟩ <;> omega

/-- the value of `endgame::score` is VALUE_NONE or ± one specialised evaluator for a side in {0, 1} -/
theorem endgameScore_cases (b : BBs) (board : List Nat) (stm : Nat) :
    endgameScore b board stm = VALUE_NONE ∨
    ∃ e strong, strong ≤ 1 ∧ (endgameScore b board stm = egStrongScore e b board stm strong ∨ endgameScore b board stm = -egStrongScore e b board stm strong) := by
  unfold endgameScore
  simp only []
  cases hf : (egOrder.flatMap (fun e => [(e, 0), (e, 1)])).find? (fun x => egApplies x.1 b board x.2) with
  | none => left; rfl
  | some es =>
    right
    obtain ⟨e, strong⟩ := es
    refine ⟨e, strong, cands_strong e strong (List.mem_of_find?_eq_some hf), ?_⟩
    simp only []
    split
    · left; rfl
    · right; rfl

theorem endgame_bound (p : Position) (hwf : Spec.wf (absPos p) = true) (h : endgameScore (BBs.of p) p.board p.side ≠ VALUE_NONE) :
    -egB ≤ endgameScore (BBs.of p) p.board p.side ∧ endgameScore (BBs.of p) p.board p.side ≤ egB := by
  rcases endgameScore_cases (BBs.of p) p.board p.side with h0 | ⟨e, strong, hs, h1 | h1⟩
  · exact absurd h0 h
  · rw [h1]; exact egStrong_bound e p hwf p.side strong hs
  · rw [h1]; have := egStrong_bound e p hwf p.side strong hs; omega

end Chess
