/-
  Lemmas/PawnExact.lean — the seven set-wise pawn groups of the generator against the rules' per-pawn move list (pushes, double pushes,
  captures, promotions; en passant is handled elsewhere).  Direction "generated ⇒ listed by the rules".
-/
import ChessVerif.Lemmas.SliderExact
namespace Chess

theorem sqOf_step (f t : Nat) (hf : f < 64) (ht : t < 64) (df dr : Int) (h : (t : Int) = f + dr * 8 + df)
    (hfile : 0 ≤ ((f % 8 : Nat) : Int) + df ∧ ((f % 8 : Nat) : Int) + df < 8) :
    Spec.onBoard (Spec.fileI f + df) (Spec.rankI f + dr) = true ∧ Spec.sqOf (Spec.fileI f + df) (Spec.rankI f + dr) = t := by
  rw [onBoard_iff]
  unfold Spec.fileI Spec.rankI Spec.sqOf
  omega

theorem mem_mk_of (s t : Nat) (last : Int) (k : Nat)
    (h : (Spec.rankI t = last ∧ (k = 5 ∨ k = 4 ∨ k = 3 ∨ k = 2)) ∨ (Spec.rankI t ≠ last ∧ k = 0)) :
    (⟨s, t, k⟩ : Spec.SMove) ∈ (if Spec.rankI t = last then Spec.promoKinds.map (fun k => (⟨s, t, k⟩ : Spec.SMove)) else [⟨s, t, 0⟩]) := by
  rcases h with ⟨hr, hk⟩ | ⟨hr, hk⟩
  · rw [if_pos hr]
    simp only [Spec.promoKinds, List.map_cons, List.map_nil, List.mem_cons, List.not_mem_nil, or_false]
    rcases hk with rfl | rfl | rfl | rfl <;> simp
  · rw [if_neg hr, hk]; simp

/-- "not an own piece and occupied by the other colour" in the rules' terms -/
theorem isEnemy_of_color (p : Position) (ok : BoardOK p.board) (hs : p.side ≤ 1) (t : Nat)
    (h : ((BBs.of p).color (1 - p.side)).testBit t = true) : Spec.isEnemy (Spec.pcAt p.board t) p.side = true := by
  rw [color_testBit p (1 - p.side) t (by omega) ok] at h
  simp only [Bool.and_eq_true, decide_eq_true_eq] at h
  obtain ⟨_, h0, hc⟩ := h
  have hcode := ok.codes t
  show Spec.isEnemy (p.board.getD t 0) p.side = true
  generalize p.board.getD t 0 = pc at *
  unfold Spec.isEnemy Spec.colorOfPc
  unfold colorOf at hc
  have hs01 : p.side = 0 ∨ p.side = 1 := by omega
  rcases hs01 with e | e <;> rw [e] at hc ⊢ <;> simp [h0] <;> (split at hc <;> omega)

theorem empty_of_bnot_all (p : Position) (ok : BoardOK p.board) (t : Nat) (ht : t < 64) (h : (bnot (BBs.of p).all).testBit t = true) :
    Spec.pcAt p.board t = 0 := by
  rw [bnot_testBit _ _ ht, all_testBit p t ok] at h
  show p.board.getD t 0 = 0
  simpa [ht] using h

/-- GENERATED ⇒ LISTED: a move of the generator's pawn groups (with the masks of the not-in-check branch) is in the rules' list of
    the pawn it moves -/
theorem pawn_gen_listed (p : Position) (ok : BoardOK p.board) (hs : p.side ≤ 1) (pawns : BB) (m idx f t k : Nat)
    (h : PawnMv p.side pawns (bnot (BBs.of p).all) (bnot (BBs.of p).all) ((BBs.of p).color (1 - p.side)) m idx f t k) :
    (⟨f, t, k⟩ : Spec.SMove) ∈ Spec.pawnMoves (absPos p) f := by
  have hf := h.mv.f64
  have ht := h.mv.t64
  have hoff := h.off
  have hpr := h.promo
  have h9 := h.file9
  have h7 := h.file7
  have hd := h.dbl
  have hcap := h.cap
  have hpush := h.push
  have hmid := h.mid
  have hi := h.idx7
  have hcases : idx = 0 ∨ idx = 1 ∨ idx = 2 ∨ idx = 3 ∨ idx = 4 ∨ idx = 5 ∨ idx = 6 := by omega
  have hs01 : p.side = 0 ∨ p.side = 1 := by omega
  unfold Spec.pawnMoves
  simp only []
  have hside : (absPos p).side = p.side := rfl
  have hboard : (absPos p).board = p.board := rfl
  rw [hside, hboard]
  -- promotion rule in the rules' terms
  have hmk : ∀ (last : Int), (last = if p.side = 0 then 7 else 0) →
      ((Spec.rankI t = last ∧ (k = 5 ∨ k = 4 ∨ k = 3 ∨ k = 2)) ∨ (Spec.rankI t ≠ last ∧ k = 0)) := by
    intro last hl
    unfold Spec.rankI
    rcases hs01 with e | e <;> rw [e] at hoff hpr h9 h7 hd hl <;>
      rcases hcases with rfl | rfl | rfl | rfl | rfl | rfl | rfl <;> simp [pawnOff] at hoff hpr h9 h7 hd hl ⊢ <;> omega
  rcases hs01 with e | e
  · -- white
    rw [e] at hoff hpr h9 h7 hd hmid ⊢
    simp only [if_true] at hoff hpr h9 h7 hd hmid ⊢
    have hmk' := hmk 7 (by rw [e]; rfl)
    rcases hcases with rfl | rfl | rfl | rfl | rfl | rfl | rfl
    all_goals simp [pawnOff] at hoff hpr h9 h7 hd hcap hpush hmid
    · -- NE promotion capture
      obtain ⟨a, b⟩ := sqOf_step f t hf ht 1 1 (by omega) (by omega)
      apply List.mem_append_right
      simp only [List.flatMap_cons, List.flatMap_nil, List.append_nil, List.mem_append]
      right
      rw [if_pos a]
      have hen := isEnemy_of_color p ok hs t hcap
      rw [e] at hen
      rw [b, if_pos hen]
      exact mem_mk_of f t 7 k hmk'
    · obtain ⟨a, b⟩ := sqOf_step f t hf ht (-1) 1 (by omega) (by omega)
      apply List.mem_append_right
      simp only [List.flatMap_cons, List.flatMap_nil, List.append_nil, List.mem_append]
      left
      have a' : Spec.onBoard (Spec.fileI f - 1) (Spec.rankI f + 1) = true := a
      have b' : Spec.sqOf (Spec.fileI f - 1) (Spec.rankI f + 1) = t := b
      rw [if_pos a']
      have hen := isEnemy_of_color p ok hs t hcap
      rw [e] at hen
      rw [b', if_pos hen]
      exact mem_mk_of f t 7 k hmk'
    · obtain ⟨a, b⟩ := sqOf_step f t hf ht 0 1 (by omega) (by omega)
      apply List.mem_append_left
      apply List.mem_append_left
      have a' : Spec.onBoard (Spec.fileI f) (Spec.rankI f + 1) = true := by simpa using a
      have b' : Spec.sqOf (Spec.fileI f) (Spec.rankI f + 1) = t := by simpa using b
      rw [a', b', empty_of_bnot_all p ok t ht hpush]
      simp only [Bool.true_and, decide_true, if_true]
      exact mem_mk_of f t 7 k hmk'
    · obtain ⟨a, b⟩ := sqOf_step f t hf ht 1 1 (by omega) (by omega)
      apply List.mem_append_right
      simp only [List.flatMap_cons, List.flatMap_nil, List.append_nil, List.mem_append]
      right
      rw [if_pos a]
      have hen := isEnemy_of_color p ok hs t hcap
      rw [e] at hen
      rw [b, if_pos hen]
      exact mem_mk_of f t 7 k hmk'
    · obtain ⟨a, b⟩ := sqOf_step f t hf ht (-1) 1 (by omega) (by omega)
      apply List.mem_append_right
      simp only [List.flatMap_cons, List.flatMap_nil, List.append_nil, List.mem_append]
      left
      have a' : Spec.onBoard (Spec.fileI f - 1) (Spec.rankI f + 1) = true := a
      have b' : Spec.sqOf (Spec.fileI f - 1) (Spec.rankI f + 1) = t := b
      rw [if_pos a']
      have hen := isEnemy_of_color p ok hs t hcap
      rw [e] at hen
      rw [b', if_pos hen]
      exact mem_mk_of f t 7 k hmk'
    · obtain ⟨a, b⟩ := sqOf_step f t hf ht 0 1 (by omega) (by omega)
      apply List.mem_append_left
      apply List.mem_append_left
      have a' : Spec.onBoard (Spec.fileI f) (Spec.rankI f + 1) = true := by simpa using a
      have b' : Spec.sqOf (Spec.fileI f) (Spec.rankI f + 1) = t := by simpa using b
      rw [a', b', empty_of_bnot_all p ok t ht hpush]
      simp only [Bool.true_and, decide_true, if_true]
      exact mem_mk_of f t 7 k hmk'
    · -- double push
      obtain ⟨a, b⟩ := sqOf_step f t hf ht 0 2 (by omega) (by omega)
      obtain ⟨a1, b1⟩ := sqOf_step f (t - 8) hf (by omega) 0 1 (by omega) (by omega)
      apply List.mem_append_left
      apply List.mem_append_right
      have b' : Spec.sqOf (Spec.fileI f) (Spec.rankI f + 2 * 1) = t := by simpa using b
      have b1' : Spec.sqOf (Spec.fileI f) (Spec.rankI f + 1) = t - 8 := by simpa using b1
      have hr : Spec.rankI f = 1 := by unfold Spec.rankI; omega
      rw [b', b1', empty_of_bnot_all p ok t ht hpush, empty_of_bnot_all p ok (t - 8) (by omega) hmid, hr, hpr.1]
      simp
  · -- black
    rw [e] at hoff hpr h9 h7 hd hmid ⊢
    have h10 : ¬ ((1 : Nat) = 0) := by decide
    simp only [h10, if_false] at hoff hpr h9 h7 hd hmid ⊢
    have hmk' := hmk 0 (by rw [e]; rfl)
    rcases hcases with rfl | rfl | rfl | rfl | rfl | rfl | rfl
    all_goals simp [pawnOff] at hoff hpr h9 h7 hd hcap hpush hmid
    · -- SW promotion capture: t = f - 9
      obtain ⟨a, b⟩ := sqOf_step f t hf ht (-1) (-1) (by omega) (by omega)
      apply List.mem_append_right
      simp only [List.flatMap_cons, List.flatMap_nil, List.append_nil, List.mem_append]
      left
      have a' : Spec.onBoard (Spec.fileI f - 1) (Spec.rankI f + -1) = true := a
      have b' : Spec.sqOf (Spec.fileI f - 1) (Spec.rankI f + -1) = t := b
      rw [if_pos a']
      have hen := isEnemy_of_color p ok hs t hcap
      rw [e] at hen
      rw [b', if_pos hen]
      exact mem_mk_of f t 0 k hmk'
    · obtain ⟨a, b⟩ := sqOf_step f t hf ht 1 (-1) (by omega) (by omega)
      apply List.mem_append_right
      simp only [List.flatMap_cons, List.flatMap_nil, List.append_nil, List.mem_append]
      right
      rw [if_pos a]
      have hen := isEnemy_of_color p ok hs t hcap
      rw [e] at hen
      rw [b, if_pos hen]
      exact mem_mk_of f t 0 k hmk'
    · obtain ⟨a, b⟩ := sqOf_step f t hf ht 0 (-1) (by omega) (by omega)
      apply List.mem_append_left
      apply List.mem_append_left
      have a' : Spec.onBoard (Spec.fileI f) (Spec.rankI f + -1) = true := by simpa using a
      have b' : Spec.sqOf (Spec.fileI f) (Spec.rankI f + -1) = t := by simpa using b
      rw [a', b', empty_of_bnot_all p ok t ht hpush]
      simp only [Bool.true_and, decide_true, if_true]
      exact mem_mk_of f t 0 k hmk'
    · obtain ⟨a, b⟩ := sqOf_step f t hf ht (-1) (-1) (by omega) (by omega)
      apply List.mem_append_right
      simp only [List.flatMap_cons, List.flatMap_nil, List.append_nil, List.mem_append]
      left
      have a' : Spec.onBoard (Spec.fileI f - 1) (Spec.rankI f + -1) = true := a
      have b' : Spec.sqOf (Spec.fileI f - 1) (Spec.rankI f + -1) = t := b
      rw [if_pos a']
      have hen := isEnemy_of_color p ok hs t hcap
      rw [e] at hen
      rw [b', if_pos hen]
      exact mem_mk_of f t 0 k hmk'
    · obtain ⟨a, b⟩ := sqOf_step f t hf ht 1 (-1) (by omega) (by omega)
      apply List.mem_append_right
      simp only [List.flatMap_cons, List.flatMap_nil, List.append_nil, List.mem_append]
      right
      rw [if_pos a]
      have hen := isEnemy_of_color p ok hs t hcap
      rw [e] at hen
      rw [b, if_pos hen]
      exact mem_mk_of f t 0 k hmk'
    · obtain ⟨a, b⟩ := sqOf_step f t hf ht 0 (-1) (by omega) (by omega)
      apply List.mem_append_left
      apply List.mem_append_left
      have a' : Spec.onBoard (Spec.fileI f) (Spec.rankI f + -1) = true := by simpa using a
      have b' : Spec.sqOf (Spec.fileI f) (Spec.rankI f + -1) = t := by simpa using b
      rw [a', b', empty_of_bnot_all p ok t ht hpush]
      simp only [Bool.true_and, decide_true, if_true]
      exact mem_mk_of f t 0 k hmk'
    · obtain ⟨a, b⟩ := sqOf_step f t hf ht 0 (-2) (by omega) (by omega)
      obtain ⟨a1, b1⟩ := sqOf_step f (t + 8) hf (by omega) 0 (-1) (by omega) (by omega)
      apply List.mem_append_left
      apply List.mem_append_right
      have b' : Spec.sqOf (Spec.fileI f) (Spec.rankI f + 2 * -1) = t := by simpa using b
      have b1' : Spec.sqOf (Spec.fileI f) (Spec.rankI f + -1) = t + 8 := by simpa using b1
      have hr : Spec.rankI f = 6 := by unfold Spec.rankI; omega
      rw [b', b1', empty_of_bnot_all p ok t ht hpush, empty_of_bnot_all p ok (t + 8) (by omega) hmid, hr, hpr.1]
      simp

end Chess

namespace Chess

-- set bits of shifted boards, the other direction ---------------------------------------------------------------------------------
theorem shl_testBit_of (b : BB) (n j : Nat) (h : b.testBit j = true) (hj : j + n < 64) : (shl b n).testBit (j + n) = true := by
  unfold shl
  rw [two64_eq, Nat.testBit_mod_two_pow, Nat.testBit_shiftLeft]
  simp [hj, h]

theorem shift_N_of (b : BB) (j : Nat) (h : b.testBit j = true) (hj : j + 8 < 64) : (shift .N b).testBit (j + 8) = true := shl_testBit_of b 8 j h hj
theorem shift_NN_of (b : BB) (j : Nat) (h : b.testBit j = true) (hj : j + 16 < 64) : (shift .NN b).testBit (j + 16) = true := shl_testBit_of b 16 j h hj
theorem shift_NE_of (b : BB) (j : Nat) (h : b.testBit j = true) (hj : j + 9 < 64) (hf : j % 8 ≠ 7) : (shift .NE b).testBit (j + 9) = true := by
  apply shl_testBit_of _ 9 j _ hj
  rw [Nat.testBit_and, h, bnot_testBit _ _ (by omega), fileH_testBit _ (by omega)]; simp [hf]
theorem shift_NW_of (b : BB) (j : Nat) (h : b.testBit j = true) (hj : j + 7 < 64) (hf : j % 8 ≠ 0) : (shift .NW b).testBit (j + 7) = true := by
  apply shl_testBit_of _ 7 j _ hj
  rw [Nat.testBit_and, h, bnot_testBit _ _ (by omega), fileA_testBit _ (by omega)]; simp [hf]
theorem shift_S_of (b : BB) (j : Nat) (h : b.testBit j = true) (hj : 8 ≤ j) : (shift .S b).testBit (j - 8) = true := by
  show (b >>> 8).testBit (j - 8) = true
  rw [Nat.testBit_shiftRight]; have : 8 + (j - 8) = j := by omega
  rw [this]; exact h
theorem shift_SE_of (b : BB) (j : Nat) (h : b.testBit j = true) (hj : 7 ≤ j) (h64 : j < 64) (hf : j % 8 ≠ 7) : (shift .SE b).testBit (j - 7) = true := by
  show ((b &&& bnot fileH) >>> 7).testBit (j - 7) = true
  rw [Nat.testBit_shiftRight]; have : 7 + (j - 7) = j := by omega
  rw [this, Nat.testBit_and, h, bnot_testBit _ _ h64, fileH_testBit _ h64]; simp [hf]
theorem shift_SW_of (b : BB) (j : Nat) (h : b.testBit j = true) (hj : 9 ≤ j) (h64 : j < 64) (hf : j % 8 ≠ 0) : (shift .SW b).testBit (j - 9) = true := by
  show ((b &&& bnot fileA) >>> 9).testBit (j - 9) = true
  rw [Nat.testBit_shiftRight]; have : 9 + (j - 9) = j := by omega
  rw [this, Nat.testBit_and, h, bnot_testBit _ _ h64, fileA_testBit _ h64]; simp [hf]

theorem and_testBit_of (a b : BB) (j : Nat) (h1 : a.testBit j = true) (h2 : b.testBit j = true) : (a &&& b).testBit j = true := by
  rw [Nat.testBit_and, h1, h2]; rfl

theorem rank_and_of (x : BB) (r j : Nat) (hr : r < 8) (hj : j < 64) (h : x.testBit j = true) (hrk : j / 8 = r) : (x &&& rankBB r).testBit j = true := by
  apply and_testBit_of _ _ _ h
  rw [rankBB_testBit r j hr hj]; simp [hrk]
theorem rank_andnot_of (x : BB) (r j : Nat) (hr : r < 8) (hj : j < 64) (h : x.testBit j = true) (hrk : j / 8 ≠ r) : (x &&& bnot (rankBB r)).testBit j = true := by
  apply and_testBit_of _ _ _ h
  rw [bnot_testBit _ _ hj, rankBB_testBit r j hr hj]; simp [hrk]

/-- membership in a pawn group from the square the group's bitboard contains -/
theorem mem_pawnGroup_of (side : Nat) (pawns empty pm cm : BB) (i : Nat) (hi : i < 7) (sq : Nat) (hsq : sq < 64)
    (hb : (pawnBits side pawns empty pm cm i).testBit sq = true) (k : Nat)
    (hk : if i < 3 then (k = 5 ∨ k = 4 ∨ k = 3 ∨ k = 2) else k = 0) :
    mkPromotion (pawnBack side i sq) sq k ∈ genPawnMoves side pawns empty pm cm := by
  rw [genPawnMoves_groups, List.mem_flatMap]
  have hmem : i ∈ [0, 1, 2, 3, 4, 5, 6] := by
    have : i = 0 ∨ i = 1 ∨ i = 2 ∨ i = 3 ∨ i = 4 ∨ i = 5 ∨ i = 6 := by omega
    rcases this with rfl | rfl | rfl | rfl | rfl | rfl | rfl <;> simp
  refine ⟨i, hmem, ?_⟩
  rw [pawnGroup_eq side pawns empty pm cm i hi]
  by_cases h3 : i < 3
  · rw [if_pos h3] at hk ⊢
    rw [List.mem_flatMap]
    refine ⟨sq, (mem_bitsOf _ _).2 ⟨hsq, hb⟩, ?_⟩
    unfold promoMoves
    simp only [List.mem_cons, List.not_mem_nil, or_false, QUEEN, ROOK, BISHOP, KNIGHT]
    rcases hk with rfl | rfl | rfl | rfl <;> simp
  · rw [if_neg h3] at hk ⊢
    rw [List.mem_map]
    exact ⟨sq, (mem_bitsOf _ _).2 ⟨hsq, hb⟩, by rw [hk]; exact mkMove_eq_promo _ _⟩

end Chess

namespace Chess

theorem color_of_isEnemy (p : Position) (ok : BoardOK p.board) (hs : p.side ≤ 1) (t : Nat) (ht : t < 64)
    (h : Spec.isEnemy (Spec.pcAt p.board t) p.side = true) : ((BBs.of p).color (1 - p.side)).testBit t = true := by
  rw [color_testBit p (1 - p.side) t (by omega) ok]
  have hcode := ok.codes t
  have h' : Spec.isEnemy (p.board.getD t 0) p.side = true := h
  generalize p.board.getD t 0 = pc at *
  unfold Spec.isEnemy Spec.colorOfPc at h'
  unfold colorOf
  simp only [Bool.and_eq_true, decide_eq_true_eq] at h' ⊢
  have hs01 : p.side = 0 ∨ p.side = 1 := by omega
  refine ⟨ht, h'.1, ?_⟩
  rcases hs01 with e | e <;> rw [e] at h' ⊢ <;> (split <;> split at h' <;> omega)

theorem bnot_all_of_empty (p : Position) (ok : BoardOK p.board) (t : Nat) (ht : t < 64) (h : Spec.pcAt p.board t = 0) :
    (bnot (BBs.of p).all).testBit t = true := by
  rw [bnot_testBit _ _ ht, all_testBit p t ok]
  have h' : p.board.getD t 0 = 0 := h
  rw [h']; simp

/-- the generator's side of one pawn step, by group: (from s, to t, promotion k) is generated when the group's conditions hold -/
theorem pawn_gen_of (p : Position) (hs : p.side ≤ 1) (pawns empty pm cm : BB) (idx s t k : Nat) (hi : idx < 7) (hs64 : s < 64) (ht : t < 64)
    (hpawn : pawns.testBit s = true)
    (hoff : if p.side = 0 then t = s + pawnOff idx else s = t + pawnOff idx)
    (hk : if idx < 3 then (k = 5 ∨ k = 4 ∨ k = 3 ∨ k = 2) ∧ s / 8 = (if p.side = 0 then 6 else 1) else k = 0 ∧ s / 8 ≠ (if p.side = 0 then 6 else 1))
    (h9 : pawnOff idx = 9 → s % 8 ≠ (if p.side = 0 then 7 else 0))
    (h7 : pawnOff idx = 7 → s % 8 ≠ (if p.side = 0 then 0 else 7))
    (hcap : (pawnOff idx = 9 ∨ pawnOff idx = 7) → cm.testBit t = true)
    (hpush : (pawnOff idx = 8 ∨ pawnOff idx = 16) → empty.testBit t = true ∧ pm.testBit t = true)
    (hdbl : idx = 6 → s / 8 = (if p.side = 0 then 1 else 6) ∧ empty.testBit (if p.side = 0 then s + 8 else s - 8) = true) :
    mkPromotion s t k ∈ genPawnMoves p.side pawns empty pm cm := by
  have hback : pawnBack p.side idx t = s := by
    unfold pawnBack
    by_cases h0 : p.side = 0
    · rw [if_pos h0] at hoff ⊢; omega
    · rw [if_neg h0] at hoff ⊢; omega
  rw [← hback]
  apply mem_pawnGroup_of p.side pawns empty pm cm idx hi t ht ?_ k (by
    by_cases h3 : idx < 3
    · rw [if_pos h3] at hk ⊢; exact hk.1
    · rw [if_neg h3] at hk ⊢; exact hk.1)
  have hcases : idx = 0 ∨ idx = 1 ∨ idx = 2 ∨ idx = 3 ∨ idx = 4 ∨ idx = 5 ∨ idx = 6 := by omega
  have hs01 : p.side = 0 ∨ p.side = 1 := by omega
  have h10 : ¬ ((1 : Nat) = 0) := by decide
  rcases hs01 with e | e
  · rw [e] at hoff hk h9 h7 hdbl ⊢
    simp only [if_true] at hoff hk h9 h7 hdbl
    rcases hcases with rfl | rfl | rfl | rfl | rfl | rfl | rfl <;> simp [pawnOff] at hoff hk h9 h7 hcap hpush hdbl <;> simp only [pawnBits, if_true]
    · subst hoff; exact and_testBit_of _ _ _ (shift_NE_of _ s (rank_and_of pawns 6 s (by decide) hs64 hpawn hk.2) ht h9) hcap
    · subst hoff; exact and_testBit_of _ _ _ (shift_NW_of _ s (rank_and_of pawns 6 s (by decide) hs64 hpawn hk.2) ht h7) hcap
    · subst hoff; exact and_testBit_of _ _ _ (and_testBit_of _ _ _ (shift_N_of _ s (rank_and_of pawns 6 s (by decide) hs64 hpawn hk.2) ht) hpush.2) hpush.1
    · subst hoff; exact and_testBit_of _ _ _ (shift_NE_of _ s (rank_andnot_of pawns 6 s (by decide) hs64 hpawn hk.2) ht h9) hcap
    · subst hoff; exact and_testBit_of _ _ _ (shift_NW_of _ s (rank_andnot_of pawns 6 s (by decide) hs64 hpawn hk.2) ht h7) hcap
    · subst hoff; exact and_testBit_of _ _ _ (and_testBit_of _ _ _ (shift_N_of _ s (rank_andnot_of pawns 6 s (by decide) hs64 hpawn hk.2) ht) hpush.1) hpush.2
    · subst hoff
      have hmid : (shift Dir.N (pawns &&& bnot (rankBB 6)) &&& empty).testBit (s + 8) = true :=
        and_testBit_of _ _ _ (shift_N_of _ s (rank_andnot_of pawns 6 s (by decide) hs64 hpawn hk.2) (by omega)) hdbl.2
      have hmid3 := rank_and_of _ 2 (s + 8) (by decide) (by omega) hmid (by omega)
      have := shift_N_of _ (s + 8) hmid3 (by omega)
      have e16 : s + 8 + 8 = s + 16 := by omega
      rw [e16] at this
      exact and_testBit_of _ _ _ (and_testBit_of _ _ _ this hpush.2) hpush.1
  · rw [e] at hoff hk h9 h7 hdbl ⊢
    simp only [h10, if_false] at hoff hk h9 h7 hdbl
    rcases hcases with rfl | rfl | rfl | rfl | rfl | rfl | rfl <;> simp [pawnOff] at hoff hk h9 h7 hcap hpush hdbl <;> simp only [pawnBits, h10, if_false]
    · have et : t = s - 9 := by omega
      rw [et] at hcap ⊢
      exact and_testBit_of _ _ _ (shift_SW_of _ s (rank_and_of pawns 1 s (by decide) hs64 hpawn hk.2) (by omega) hs64 h9) hcap
    · have et : t = s - 7 := by omega
      rw [et] at hcap ⊢
      exact and_testBit_of _ _ _ (shift_SE_of _ s (rank_and_of pawns 1 s (by decide) hs64 hpawn hk.2) (by omega) hs64 h7) hcap
    · have et : t = s - 8 := by omega
      rw [et] at hpush ⊢
      exact and_testBit_of _ _ _ (and_testBit_of _ _ _ (shift_S_of _ s (rank_and_of pawns 1 s (by decide) hs64 hpawn hk.2) (by omega)) hpush.2) hpush.1
    · have et : t = s - 9 := by omega
      rw [et] at hcap ⊢
      exact and_testBit_of _ _ _ (shift_SW_of _ s (rank_andnot_of pawns 1 s (by decide) hs64 hpawn hk.2) (by omega) hs64 h9) hcap
    · have et : t = s - 7 := by omega
      rw [et] at hcap ⊢
      exact and_testBit_of _ _ _ (shift_SE_of _ s (rank_andnot_of pawns 1 s (by decide) hs64 hpawn hk.2) (by omega) hs64 h7) hcap
    · have et : t = s - 8 := by omega
      rw [et] at hpush ⊢
      exact and_testBit_of _ _ _ (and_testBit_of _ _ _ (shift_S_of _ s (rank_andnot_of pawns 1 s (by decide) hs64 hpawn hk.2) (by omega)) hpush.1) hpush.2
    · have et : t = s - 16 := by omega
      rw [et] at hpush ⊢
      have hmid : (shift Dir.S (pawns &&& bnot (rankBB 1)) &&& empty).testBit (s - 8) = true :=
        and_testBit_of _ _ _ (shift_S_of _ s (rank_andnot_of pawns 1 s (by decide) hs64 hpawn hk.2) (by omega)) hdbl.2
      have hmid3 := rank_and_of _ 5 (s - 8) (by decide) (by omega) hmid (by omega)
      have := shift_S_of _ (s - 8) hmid3 (by omega)
      have e16 : s - 8 - 8 = s - 16 := by omega
      rw [e16] at this
      exact and_testBit_of _ _ _ (and_testBit_of _ _ _ this hpush.2) hpush.1

end Chess

namespace Chess

theorem sqOf_val (s : Nat) (hs : s < 64) (df dr : Int) (hon : Spec.onBoard (Spec.fileI s + df) (Spec.rankI s + dr) = true) :
    ((Spec.sqOf (Spec.fileI s + df) (Spec.rankI s + dr) : Nat) : Int) = s + dr * 8 + df ∧ Spec.sqOf (Spec.fileI s + df) (Spec.rankI s + dr) < 64 ∧
    0 ≤ ((s % 8 : Nat) : Int) + df ∧ ((s % 8 : Nat) : Int) + df < 8 ∧ 0 ≤ ((s / 8 : Nat) : Int) + dr ∧ ((s / 8 : Nat) : Int) + dr < 8 := by
  rw [onBoard_iff] at hon
  unfold Spec.fileI Spec.rankI at hon
  unfold Spec.fileI Spec.rankI Spec.sqOf
  omega

/-- `pawn_gen_of` with the colour resolved -/
theorem pawn_gen_white (p : Position) (e : p.side = 0) (pawns empty pm cm : BB) (idx s t k : Nat) (hi : idx < 7) (hs64 : s < 64) (ht : t < 64)
    (hpawn : pawns.testBit s = true) (hoff : t = s + pawnOff idx)
    (hk : if idx < 3 then (k = 5 ∨ k = 4 ∨ k = 3 ∨ k = 2) ∧ s / 8 = 6 else k = 0 ∧ s / 8 ≠ 6)
    (h9 : pawnOff idx = 9 → s % 8 ≠ 7) (h7 : pawnOff idx = 7 → s % 8 ≠ 0)
    (hcap : (pawnOff idx = 9 ∨ pawnOff idx = 7) → cm.testBit t = true)
    (hpush : (pawnOff idx = 8 ∨ pawnOff idx = 16) → empty.testBit t = true ∧ pm.testBit t = true)
    (hdbl : idx = 6 → s / 8 = 1 ∧ empty.testBit (s + 8) = true) :
    mkPromotion s t k ∈ genPawnMoves p.side pawns empty pm cm := by
  apply pawn_gen_of p (by omega) pawns empty pm cm idx s t k hi hs64 ht hpawn
  · rw [if_pos e]; exact hoff
  · rw [if_pos e]; exact hk
  · rw [if_pos e]; exact h9
  · rw [if_pos e]; exact h7
  · exact hcap
  · exact hpush
  · rw [if_pos e, if_pos e]; exact hdbl

theorem pawn_gen_black (p : Position) (e : p.side = 1) (pawns empty pm cm : BB) (idx s t k : Nat) (hi : idx < 7) (hs64 : s < 64) (ht : t < 64)
    (hpawn : pawns.testBit s = true) (hoff : s = t + pawnOff idx)
    (hk : if idx < 3 then (k = 5 ∨ k = 4 ∨ k = 3 ∨ k = 2) ∧ s / 8 = 1 else k = 0 ∧ s / 8 ≠ 1)
    (h9 : pawnOff idx = 9 → s % 8 ≠ 0) (h7 : pawnOff idx = 7 → s % 8 ≠ 7)
    (hcap : (pawnOff idx = 9 ∨ pawnOff idx = 7) → cm.testBit t = true)
    (hpush : (pawnOff idx = 8 ∨ pawnOff idx = 16) → empty.testBit t = true ∧ pm.testBit t = true)
    (hdbl : idx = 6 → s / 8 = 6 ∧ empty.testBit (s - 8) = true) :
    mkPromotion s t k ∈ genPawnMoves p.side pawns empty pm cm := by
  have hne : ¬ p.side = 0 := by omega
  apply pawn_gen_of p (by omega) pawns empty pm cm idx s t k hi hs64 ht hpawn
  · rw [if_neg hne]; exact hoff
  · rw [if_neg hne]; exact hk
  · rw [if_neg hne]; exact h9
  · rw [if_neg hne]; exact h7
  · exact hcap
  · exact hpush
  · rw [if_neg hne, if_neg hne]; exact hdbl

end Chess
