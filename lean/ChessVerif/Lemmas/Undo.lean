/-
  Lemmas/Undo.lean — undo_move ∘ do_move = id (C03): board algebra on lists, MoveInfo round trip, key components.
-/
import ChessVerif.Lemmas.Key
import ChessVerif.Props.C16
namespace Chess

/-- board accessor kept opaque to simp's list normalisation -/
def gd (l : List Nat) (i : Nat) : Nat := l.getD i 0

theorem gd_set (l : List Nat) (i j v : Nat) : gd (l.set i v) j = if i = j ∧ i < l.length then v else gd l j := by
  unfold gd
  by_cases h : i = j
  · subst h
    by_cases hl : i < l.length
    · simp [List.getD, hl]
    · simp [List.getD, hl]
  · simp [List.getD, h]

theorem list_ext_gd (a b : List Nat) (hl : a.length = b.length) (h : ∀ i, gd a i = gd b i) : a = b := by
  apply List.ext_getElem hl
  intro i h1 h2
  have := h i
  simp [gd, List.getD, h1, h2] at this
  exact this

theorem pos_ext (p q : Position) (h1 : p.side = q.side) (h2 : p.halfmove = q.halfmove) (h3 : p.ply = q.ply)
    (h4 : p.board = q.board) (h5 : p.castling = q.castling) (h6 : p.ep = q.ep) (h7 : p.hash = q.hash)
    (h8 : p.history = q.history) : p = q := by
  cases p; cases q; simp_all

theorem hash_ext (a b : HashKey) (h1 : a.pieceK = b.pieceK) (h2 : a.pawnK = b.pawnK) (h3 : a.epK = b.epK)
    (h4 : a.castK = b.castK) (h5 : a.colorK = b.colorK) : a = b := by
  cases a; cases b; simp_all

/-- field ranges under which the packed MoveInfo is lossless, and the history array is not being trimmed -/
structure FieldsOK (p : Position) : Prop where
  castling : p.castling < 16
  ep : p.ep < 65
  halfmove : p.halfmove < 65536
  side : p.side ≤ 1
  hist : p.history.length < 800

theorem xor_twice (a b : Nat) : a ^^^ b ^^^ b = a := by
  rw [Nat.xor_assoc, Nat.xor_self, Nat.xor_zero]

/-- after `undoPre` on the result of a do_move whose MoveInfo recorded p's fields, every non-piece field is p's again -/
theorem undoPre_fields (T : ZTable) (p q : Position) (cap : Nat) (isEp : Bool) (hk : KeyOK T p) (fo : FieldsOK p) (hcap : cap < 8)
    (hside : q.side = 1 - p.side) (hply : q.ply = p.ply + 1) (hcol : q.hash.colorK = p.hash.colorK ^^^ T.side) :
    let u := undoPre T q (mkMoveInfo cap p.castling p.ep isEp p.halfmove)
    u.side = p.side ∧ u.ply = p.ply ∧ u.castling = p.castling ∧ u.ep = p.ep ∧ u.halfmove = p.halfmove ∧
    u.hash.castK = p.hash.castK ∧ u.hash.epK = p.hash.epK ∧ u.hash.colorK = p.hash.colorK ∧
    u.board = q.board ∧ u.hash.pieceK = q.hash.pieceK ∧ u.hash.pawnK = q.hash.pawnK ∧ u.history = q.history := by
  have hmi := Props.C16_moveinfo cap p.castling p.ep p.halfmove isEp hcap fo.castling fo.ep fo.halfmove
  simp only at hmi
  obtain ⟨_, m2, m3, _, m5⟩ := hmi
  have hk' := (keyOK_iff T p).1 hk
  have hs : p.side = 0 ∨ p.side = 1 := by have := fo.side; omega
  intro u
  refine ⟨?_, ?_, ?_, ?_, ?_, ?_, ?_, ?_, rfl, rfl, rfl, rfl⟩
  · show 1 - q.side = p.side
    rw [hside]; rcases hs with h | h <;> simp [h]
  · show q.ply - 1 = p.ply
    rw [hply]; omega
  · show miLastCastling _ = p.castling
    exact m2
  · show miLastEp _ = p.ep
    exact m3
  · show miClock _ = p.halfmove
    exact m5
  · show T.castling (miLastCastling _) = p.hash.castK
    rw [m2, hk'.2.1]
  · show (if miLastEp _ = 64 then 0 else T.ep (fileOf (miLastEp _))) = p.hash.epK
    rw [m3, hk'.2.2.2]
    by_cases he : p.ep = 64 <;> simp [he]
  · show q.hash.colorK ^^^ T.side = p.hash.colorK
    rw [hcol, xor_twice]

end Chess

namespace Chess

theorem at_eq_gd (p : Position) (s : Nat) : p.at s = gd p.board s := rfl
theorem getD_eq_gd (l : List Nat) (s : Nat) : l.getD s 0 = gd l s := rfl

theorem movePiece_board (T : ZTable) (p : Position) (f t : Nat) : (movePiece T p f t).board = (p.board.set f 0).set t (gd p.board f) := rfl
theorem addPiece_board (T : ZTable) (p : Position) (pc s : Nat) : (addPiece T p pc s).board = p.board.set s pc := rfl
theorem removePiece_board (T : ZTable) (p : Position) (s : Nat) : (removePiece T p s).board = p.board.set s 0 := rfl

/-- move f→t then back t→f: board and piece keys are restored -/
theorem move_back (T : ZTable) (p : Position) (f t : Nat) (hpk : PK T p) (hf : f < p.board.length) (ht : t < p.board.length)
    (hft : f ≠ t) (hne : gd p.board f ≠ 0) (he : gd p.board t = 0) :
    (movePiece T (movePiece T p f t) t f).board = p.board ∧ PK T (movePiece T (movePiece T p f t) t f) ∧
    SameRest p (movePiece T (movePiece T p f t) t f) := by
  have h1 := pk_move T p f t hpk hf ht hft hne he
  have hb1 : (movePiece T p f t).board = (p.board.set f 0).set t (gd p.board f) := rfl
  have hl1 : (movePiece T p f t).board.length = p.board.length := movePiece_len T p f t
  have g1 : gd (movePiece T p f t).board t = gd p.board f := by
    rw [hb1, gd_set]; simp [ht]
  have g2 : gd (movePiece T p f t).board f = 0 := by
    rw [hb1, gd_set, gd_set]; simp [Ne.symm hft, hf]
  have h2 := pk_move T (movePiece T p f t) t f h1 (by rw [hl1]; exact ht) (by rw [hl1]; exact hf) (Ne.symm hft)
    (by show gd _ t ≠ 0; rw [g1]; exact hne) (by show gd _ f = 0; exact g2)
  refine ⟨?_, h2, sameRest_trans (sameRest_move T p f t) (sameRest_move T _ t f)⟩
  rw [movePiece_board, g1, hb1]
  apply list_ext_gd
  · simp
  · intro i
    simp only [gd_set, List.length_set]
    by_cases hi1 : t = i
    · subst hi1; simp [hft, Ne.symm hft, ht, he]
    · by_cases hi2 : f = i
      · subst hi2; simp [hf, ht, hft]
      · simp [hi1, hi2]

end Chess

namespace Chess

/-- two piece moves a→b, c→d on four distinct squares, undone in the engine's order (b→a first, then d→c) -/
theorem two_moves_back (T : ZTable) (p : Position) (a b c d : Nat) (hpk : PK T p)
    (ha : a < p.board.length) (hb : b < p.board.length) (hc : c < p.board.length) (hd : d < p.board.length)
    (hab : a ≠ b) (hac : a ≠ c) (had : a ≠ d) (hbc : b ≠ c) (hbd : b ≠ d) (hcd : c ≠ d)
    (na : gd p.board a ≠ 0) (eb : gd p.board b = 0) (nc : gd p.board c ≠ 0) (ed : gd p.board d = 0) :
    let q := movePiece T (movePiece T p a b) c d
    let u := movePiece T (movePiece T q b a) d c
    u.board = p.board ∧ PK T u ∧ SameRest p u := by
  intro q u
  -- forward
  have h1 := pk_move T p a b hpk ha hb hab na eb
  have l1 : (movePiece T p a b).board.length = p.board.length := movePiece_len T p a b
  have b1 : (movePiece T p a b).board = (p.board.set a 0).set b (gd p.board a) := rfl
  have gc1 : gd (movePiece T p a b).board c = gd p.board c := by rw [b1, gd_set, gd_set]; simp [Ne.symm hbc, Ne.symm hac, hbc, hac]
  have gd1 : gd (movePiece T p a b).board d = 0 := by rw [b1, gd_set, gd_set]; simp [hbd, had, ed]
  have h2 : PK T q := pk_move T _ c d h1 (by rw [l1]; exact hc) (by rw [l1]; exact hd) hcd (by show gd _ c ≠ 0; rw [gc1]; exact nc) (by show gd _ d = 0; exact gd1)
  have lq : q.board.length = p.board.length := by show (movePiece T _ c d).board.length = _; rw [movePiece_len, l1]
  have bq : q.board = (((p.board.set a 0).set b (gd p.board a)).set c 0).set d (gd p.board c) := by
    show (movePiece T (movePiece T p a b) c d).board = _
    rw [movePiece_board, gc1, b1]
  have qa : gd q.board a = 0 := by rw [bq]; simp only [gd_set, List.length_set]; simp [Ne.symm had, Ne.symm hac, Ne.symm hab, ha]
  have qb : gd q.board b = gd p.board a := by rw [bq]; simp only [gd_set, List.length_set]; simp [Ne.symm hbd, Ne.symm hbc, hb]
  have qc : gd q.board c = 0 := by rw [bq]; simp only [gd_set, List.length_set]; simp [Ne.symm hcd, hc]
  have qd : gd q.board d = gd p.board c := by rw [bq]; simp only [gd_set, List.length_set]; simp [hd]
  -- backward
  have h3 := pk_move T q b a h2 (by rw [lq]; exact hb) (by rw [lq]; exact ha) (Ne.symm hab) (by show gd _ b ≠ 0; rw [qb]; exact na) (by show gd _ a = 0; exact qa)
  have l3 : (movePiece T q b a).board.length = p.board.length := by rw [movePiece_len, lq]
  have b3 : (movePiece T q b a).board = (q.board.set b 0).set a (gd p.board a) := by rw [movePiece_board, qb]
  have g3d : gd (movePiece T q b a).board d = gd p.board c := by rw [b3, gd_set, gd_set]; simp [Ne.symm had, Ne.symm hbd, had, hbd, qd]
  have g3c : gd (movePiece T q b a).board c = 0 := by rw [b3, gd_set, gd_set]; simp [hac, hbc, qc]
  have h4 : PK T u := pk_move T _ d c h3 (by rw [l3]; exact hd) (by rw [l3]; exact hc) (Ne.symm hcd) (by show gd _ d ≠ 0; rw [g3d]; exact nc) (by show gd _ c = 0; exact g3c)
  refine ⟨?_, h4, sameRest_trans (sameRest_trans (sameRest_move T p a b) (sameRest_move T _ c d)) (sameRest_trans (sameRest_move T q b a) (sameRest_move T _ d c))⟩
  show (movePiece T (movePiece T q b a) d c).board = p.board
  rw [movePiece_board, g3d, b3, bq]
  apply list_ext_gd
  · simp
  · intro i
    simp only [gd_set, List.length_set]
    by_cases h1 : a = i
    · subst h1; simp [hab, hac, had, Ne.symm hab, Ne.symm hac, Ne.symm had, ha]
    · by_cases h2 : b = i
      · subst h2; simp [hab, hbc, hbd, Ne.symm hab, Ne.symm hbc, Ne.symm hbd, hb, eb]
      · by_cases h3 : c = i
        · subst h3; simp [hac, hbc, hcd, Ne.symm hac, Ne.symm hbc, Ne.symm hcd, hc, hd]
        · by_cases h4 : d = i
          · subst h4; simp [had, hbd, hcd, Ne.symm had, Ne.symm hbd, Ne.symm hcd, hd, ed]
          · simp [h1, h2, h3, h4]

end Chess

namespace Chess

/-- undo of a plain (non-promotion, non-ep) move on a position x whose board is the board after the move -/
theorem undo_normal (T : ZTable) (b : List Nat) (x : Position) (f t capPc : Nat) (hx : PK T x) (hl : b.length = 64)
    (hf : f < 64) (ht : t < 64) (hft : f ≠ t) (hne : gd b f ≠ 0) (hcap : capPc = gd b t)
    (hb : x.board = ((if capPc ≠ 0 then b.set t 0 else b).set f 0).set t (gd b f)) :
    let u := if capPc ≠ 0 then addPiece T (movePiece T x t f) capPc t else movePiece T x t f
    u.board = b ∧ PK T u ∧ SameRest x u := by
  intro u
  have lx : x.board.length = 64 := by rw [hb]; split <;> simp [hl]
  have xt : gd x.board t = gd b f := by rw [hb, gd_set]; split <;> simp [hl, ht]
  have xf : gd x.board f = 0 := by
    rw [hb, gd_set, gd_set]
    split <;> simp [Ne.symm hft, hl, hf]
  have h1 := pk_move T x t f hx (by omega) (by omega) (Ne.symm hft) (by show gd _ t ≠ 0; rw [xt]; exact hne) (by show gd _ f = 0; exact xf)
  have b1 : (movePiece T x t f).board = (x.board.set t 0).set f (gd b f) := by rw [movePiece_board, xt]
  by_cases hc : capPc ≠ 0
  · have hu : u = addPiece T (movePiece T x t f) capPc t := if_pos hc
    rw [hu]
    have g1t : gd (movePiece T x t f).board t = 0 := by rw [b1, gd_set, gd_set]; simp [hft, lx, ht]
    have h2 := pk_add T (movePiece T x t f) capPc t h1 hc (by rw [movePiece_len]; omega) (by show gd _ t = 0; exact g1t)
    refine ⟨?_, h2, sameRest_trans (sameRest_move T x t f) (sameRest_add T _ _ _)⟩
    rw [addPiece_board, b1, hb]
    rw [if_pos hc]
    apply list_ext_gd
    · simp
    · intro i
      simp only [gd_set, List.length_set]
      by_cases hi1 : t = i
      · subst hi1; simp [hft, Ne.symm hft, hl, ht, hcap]
      · by_cases hi2 : f = i
        · subst hi2; simp [hl, hf, hft, hi1]
        · simp [hi1, hi2]
  · have hu : u = movePiece T x t f := if_neg hc
    rw [hu]
    have hc0 : capPc = 0 := Decidable.not_not.mp hc
    refine ⟨?_, h1, sameRest_move T x t f⟩
    rw [b1, hb]
    rw [if_neg hc]
    apply list_ext_gd
    · simp
    · intro i
      simp only [gd_set, List.length_set]
      by_cases hi1 : t = i
      · subst hi1; simp [hft, Ne.symm hft, hl, ht]; rw [← hcap, hc0]
      · by_cases hi2 : f = i
        · subst hi2; simp [hl, hf, hft, hi1]
        · simp [hi1, hi2]

/-- undo of a promotion (with or without capture) -/
theorem undo_promo (T : ZTable) (b : List Nat) (x : Position) (f t capPc newPc pawnPc : Nat) (hx : PK T x) (hl : b.length = 64)
    (hf : f < 64) (ht : t < 64) (hft : f ≠ t) (hpawn : gd b f = pawnPc) (hp0 : pawnPc ≠ 0) (hn0 : newPc ≠ 0) (hcap : capPc = gd b t)
    (hb : x.board = ((if capPc ≠ 0 then b.set t 0 else b).set f 0).set t newPc) :
    let u0 := removePiece T (addPiece T x pawnPc f) t
    let u := if capPc ≠ 0 then addPiece T u0 capPc t else u0
    u.board = b ∧ PK T u ∧ SameRest x u := by
  intro u0 u
  have lx : x.board.length = 64 := by rw [hb]; split <;> simp [hl]
  have xt : gd x.board t = newPc := by rw [hb, gd_set]; split <;> simp [hl, ht]
  have xf : gd x.board f = 0 := by
    rw [hb, gd_set, gd_set]
    split <;> simp [Ne.symm hft, hl, hf]
  have h1 := pk_add T x pawnPc f hx hp0 (by omega) (by show gd _ f = 0; exact xf)
  have g1 : gd (addPiece T x pawnPc f).board t = newPc := by rw [addPiece_board, gd_set]; simp [hft, xt]
  have h2 : PK T u0 := pk_remove T _ t h1 (by rw [addPiece_board]; simp; omega) (by show gd _ t ≠ 0; rw [g1]; exact hn0)
  have b0 : u0.board = (x.board.set f pawnPc).set t 0 := rfl
  have sr0 : SameRest x u0 := sameRest_trans (sameRest_add T x _ _) (sameRest_remove T _ _)
  by_cases hc : capPc ≠ 0
  · have hu : u = addPiece T u0 capPc t := if_pos hc
    rw [hu]
    have g0t : gd u0.board t = 0 := by rw [b0, gd_set]; simp [lx, ht]
    have h3 := pk_add T u0 capPc t h2 hc (by rw [b0]; simp; omega) (by show gd _ t = 0; exact g0t)
    refine ⟨?_, h3, sameRest_trans sr0 (sameRest_add T _ _ _)⟩
    rw [addPiece_board, b0, hb]
    rw [if_pos hc]
    apply list_ext_gd
    · simp
    · intro i
      simp only [gd_set, List.length_set]
      by_cases hi1 : t = i
      · subst hi1; simp [hl, ht, hcap]
      · by_cases hi2 : f = i
        · subst hi2; simp [hl, hf, hft, hi1, hpawn]
        · simp [hi1, hi2]
  · have hu : u = u0 := if_neg hc
    rw [hu]
    have hc0 : capPc = 0 := Decidable.not_not.mp hc
    refine ⟨?_, h2, sr0⟩
    rw [b0, hb]
    rw [if_neg hc]
    apply list_ext_gd
    · simp
    · intro i
      simp only [gd_set, List.length_set]
      by_cases hi1 : t = i
      · subst hi1; simp [hl, ht]; rw [← hcap, hc0]
      · by_cases hi2 : f = i
        · subst hi2; simp [hl, hf, hft, hi1, hpawn]
        · simp [hi1, hi2]

/-- undo of an en-passant capture: the captured pawn returns to c, the capturing pawn to f -/
theorem undo_ep (T : ZTable) (b : List Nat) (x : Position) (f t c oppPawn : Nat) (hx : PK T x) (hl : b.length = 64)
    (hf : f < 64) (ht : t < 64) (hc : c < 64) (hft : f ≠ t) (hcf : c ≠ f) (hct : c ≠ t)
    (hne : gd b f ≠ 0) (he : gd b t = 0) (hcp : gd b c = oppPawn) (ho : oppPawn ≠ 0)
    (hb : x.board = ((b.set f 0).set t (gd b f)).set c 0) :
    let u := movePiece T (addPiece T x oppPawn c) t f
    u.board = b ∧ PK T u ∧ SameRest x u := by
  intro u
  have lx : x.board.length = 64 := by rw [hb]; simp [hl]
  have xc : gd x.board c = 0 := by rw [hb, gd_set]; simp [hl, hc]
  have xt : gd x.board t = gd b f := by rw [hb]; simp only [gd_set, List.length_set]; simp [hct, hl, ht]
  have xf : gd x.board f = 0 := by rw [hb]; simp only [gd_set, List.length_set]; simp [hcf, Ne.symm hft, hl, hf]
  have h1 := pk_add T x oppPawn c hx ho (by omega) (by show gd _ c = 0; exact xc)
  have l1 : (addPiece T x oppPawn c).board.length = 64 := by rw [addPiece_board]; simp [lx]
  have g1t : gd (addPiece T x oppPawn c).board t = gd b f := by rw [addPiece_board, gd_set]; simp [hct, xt]
  have g1f : gd (addPiece T x oppPawn c).board f = 0 := by rw [addPiece_board, gd_set]; simp [hcf, xf]
  have h2 := pk_move T _ t f h1 (by omega) (by omega) (Ne.symm hft) (by show gd _ t ≠ 0; rw [g1t]; exact hne) (by show gd _ f = 0; exact g1f)
  refine ⟨?_, h2, sameRest_trans (sameRest_add T x _ _) (sameRest_move T _ _ _)⟩
  rw [movePiece_board, g1t, addPiece_board, hb]
  apply list_ext_gd
  · simp
  · intro i
    simp only [gd_set, List.length_set]
    by_cases hi1 : t = i
    · subst hi1; simp [hft, Ne.symm hft, hct, Ne.symm hct, hl, ht, he]
    · by_cases hi2 : f = i
      · subst hi2; simp [hl, hf, hft, hi1]
      · by_cases hi3 : c = i
        · subst hi3; simp [hl, hc, hcf, hct, hi1, hi2, hcp]
        · simp [hi1, hi2, hi3]

end Chess

namespace Chess

/-- castling undone on a position x whose board is the board after king a→b' and rook c→d -/
theorem castle_back (T : ZTable) (b : List Nat) (x : Position) (a b' c d : Nat) (hx : PK T x) (hl : b.length = 64)
    (ha : a < 64) (hb' : b' < 64) (hc : c < 64) (hd : d < 64)
    (hab : a ≠ b') (hac : a ≠ c) (had : a ≠ d) (hbc : b' ≠ c) (hbd : b' ≠ d) (hcd : c ≠ d)
    (na : gd b a ≠ 0) (eb : gd b b' = 0) (nc : gd b c ≠ 0) (ed : gd b d = 0)
    (hb : x.board = (((b.set a 0).set b' (gd b a)).set c 0).set d (gd b c)) :
    let u := movePiece T (movePiece T x b' a) d c
    u.board = b ∧ PK T u ∧ SameRest x u := by
  intro u
  have lx : x.board.length = 64 := by rw [hb]; simp [hl]
  have xa : gd x.board a = 0 := by rw [hb]; simp only [gd_set, List.length_set]; simp [Ne.symm had, Ne.symm hac, Ne.symm hab, hl, ha]
  have xb : gd x.board b' = gd b a := by rw [hb]; simp only [gd_set, List.length_set]; simp [Ne.symm hbd, Ne.symm hbc, hl, hb']
  have xc : gd x.board c = 0 := by rw [hb]; simp only [gd_set, List.length_set]; simp [Ne.symm hcd, hl, hc]
  have xd : gd x.board d = gd b c := by rw [hb]; simp only [gd_set, List.length_set]; simp [hl, hd]
  have h1 := pk_move T x b' a hx (by omega) (by omega) (Ne.symm hab) (by show gd _ b' ≠ 0; rw [xb]; exact na) (by show gd _ a = 0; exact xa)
  have l1 : (movePiece T x b' a).board.length = 64 := by rw [movePiece_len]; exact lx
  have b1 : (movePiece T x b' a).board = (x.board.set b' 0).set a (gd b a) := by rw [movePiece_board, xb]
  have g1d : gd (movePiece T x b' a).board d = gd b c := by rw [b1]; simp only [gd_set, List.length_set]; simp [had, hbd, xd]
  have g1c : gd (movePiece T x b' a).board c = 0 := by rw [b1]; simp only [gd_set, List.length_set]; simp [hac, hbc, xc]
  have h2 := pk_move T _ d c h1 (by omega) (by omega) (Ne.symm hcd) (by show gd _ d ≠ 0; rw [g1d]; exact nc) (by show gd _ c = 0; exact g1c)
  refine ⟨?_, h2, sameRest_trans (sameRest_move T x _ _) (sameRest_move T _ _ _)⟩
  rw [movePiece_board, g1d, b1, hb]
  apply list_ext_gd
  · simp
  · intro i
    simp only [gd_set, List.length_set]
    by_cases h1 : a = i
    · subst h1; simp [hab, hac, had, Ne.symm hab, Ne.symm hac, Ne.symm had, hl, ha]
    · by_cases h2 : b' = i
      · subst h2; simp [h1, hbc, hbd, Ne.symm hbc, Ne.symm hbd, hl, hb', eb]
      · by_cases h3 : c = i
        · subst h3; simp [h1, h2, hcd, Ne.symm hcd, hl, hc]
        · by_cases h4 : d = i
          · subst h4; simp [h1, h2, h3, hl, hd, ed]
          · simp [h1, h2, h3, h4]

theorem pushHistory_tail (h : List Nat) (k : Nat) (hl : h.length < 800) : (pushHistory h k).tail = h := by
  unfold pushHistory MAX_PLIES_MODEL
  rw [if_neg (by omega)]
  rfl

/-- the generic closing argument: once the piece part of undo restores the board (with its keys), undo_move returns p -/
theorem undo_assemble (T : ZTable) (p q : Position) (m cap : Nat) (isEp : Bool) (k : Nat)
    (hk : KeyOK T p) (fo : FieldsOK p) (hcap : cap < 8)
    (hside : q.side = 1 - p.side) (hply : q.ply = p.ply + 1) (hcol : q.hash.colorK = p.hash.colorK ^^^ T.side)
    (hhist : q.history = pushHistory p.history k) (hq : PK T q)
    (hpieces : ∀ x : Position, PK T x → x.board = q.board →
        let u := undoPieces T x p.side m (mkMoveInfo cap p.castling p.ep isEp p.halfmove)
        u.board = p.board ∧ PK T u ∧ SameRest x u) :
    undoMove T q m (mkMoveInfo cap p.castling p.ep isEp p.halfmove) = p := by
  obtain ⟨u1, u2, u3, u4, u5, u6, u7, u8, u9, u10, u11, u12⟩ := undoPre_fields T p q cap isEp hk fo hcap hside hply hcol
  have hpkx : PK T (undoPre T q (mkMoveInfo cap p.castling p.ep isEp p.halfmove)) := pk_congr T q _ u9 u10 u11 hq
  obtain ⟨r1, r2, r3⟩ := hpieces _ hpkx u9
  have hk' := (keyOK_iff T p).1 hk
  unfold undoMove
  simp only []
  rw [u1]
  apply pos_ext
  · show (undoPieces T _ p.side m _).side = p.side
    rw [r3.side, u1]
  · show (undoPieces T _ p.side m _).halfmove = p.halfmove
    rw [r3.halfmove, u5]
  · show (undoPieces T _ p.side m _).ply = p.ply
    rw [r3.ply, u2]
  · exact r1
  · show (undoPieces T _ p.side m _).castling = p.castling
    rw [r3.castling, u3]
  · show (undoPieces T _ p.side m _).ep = p.ep
    rw [r3.ep, u4]
  · show (undoPieces T _ p.side m _).hash = p.hash
    apply hash_ext
    · rw [r2.1, r1, hk'.1.1]
    · rw [r2.2, r1, hk'.1.2]
    · rw [r3.epK, u7]
    · rw [r3.castK, u6]
    · rw [r3.colorK, u8]
  · show (undoPieces T _ p.side m _).history.tail = p.history
    rw [r3.history, u12, hhist, pushHistory_tail _ _ fo.hist]

end Chess

namespace Chess

/-- MoveOK plus what undo_move reconstructs from the packed MoveInfo: captured pieces belong to the opponent,
    promotions start from an own pawn, the en-passant victim is an opposing pawn (true of every generated move) -/
structure UndoOK (p : Position) (m : Nat) : Prop extends MoveOK p m where
  normal2 : moveCastling m = 0 →
    (p.at (moveTo m) ≠ 0 → p.at (moveTo m) = mkPiece (1 - p.side) (kindOf (p.at (moveTo m)))) ∧
    (movePromo m ≠ 0 → p.at (moveFrom m) = mkPiece p.side PAWN ∧ moveTo m ≠ p.ep) ∧
    ((kindOf (p.at (moveFrom m)) = PAWN ∧ moveTo m = p.ep) →
        p.at (if p.side = 0 then moveTo m - 8 else moveTo m + 8) = mkPiece (1 - p.side) PAWN ∧ movePromo m = 0)

theorem kindOf_lt8 (pc : Nat) : kindOf pc < 8 := by unfold kindOf; split <;> omega

theorem undo_do_castle (T : ZTable) (p : Position) (m : Nat) (hk : KeyOK T p) (fo : FieldsOK p) (ok : UndoOK p m)
    (hc : moveCastling m ≠ 0) : undoMove T (doMove T p m).1 m (doMove T p m).2 = p := by
  obtain ⟨c1, c2, c3⟩ := ok.castle hc
  have hk' := (keyOK_iff T p).1 hk
  have hlen := ok.len
  unfold doMove
  simp only []
  rw [if_pos hc]
  show undoMove T (withHistory (doMoveCastle T (preMove T p) p.side m)) m (mkMoveInfo 0 p.castling p.ep false p.halfmove) = p
  have hr : (if p.side = 0 then 0 else 7) < 8 := by split <;> omega
  generalize hrr : (if p.side = 0 then 0 else 7) = r at *
  have sq (f : Nat) (hf : f < 8) : mkSquare r f < 64 := by unfold mkSquare; omega
  have pkq : PK T (preMove T p) := pk_congr T p _ rfl rfl rfl hk'.1
  by_cases hK : moveCastling m = KING_CASTLING
  · obtain ⟨h6, h5, h7⟩ := c2 hK
    apply undo_assemble T p _ m 0 false _ hk fo (by omega)
    · unfold doMoveCastle; simp only []; rw [if_pos hK]; rfl
    · unfold doMoveCastle; simp only []; rw [if_pos hK]; rfl
    · unfold doMoveCastle; simp only []; rw [if_pos hK]
      show (movePiece T (movePiece T _ _ _) _ _).hash.colorK = _
      rw [(sameRest_trans (sameRest_move T _ _ _) (sameRest_move T _ _ _)).colorK]; rfl
    · unfold doMoveCastle; simp only []; rw [if_pos hK]; rfl
    · have := (keyOK_iff T _).1 (mid_castle T (preMove T p) p.side m (mid_preMove T p hk ok.side) hlen ok.side
        (by rw [hrr]; exact c1) (by rw [hrr]; exact c2) (by rw [hrr]; exact c3))
      exact pk_congr T _ _ rfl rfl rfl this.1
    · intro x hx hxb
      unfold undoPieces
      simp only []
      rw [if_pos hc, if_pos hK, hrr]
      apply castle_back T p.board x (mkSquare r 4) (mkSquare r 6) (mkSquare r 7) (mkSquare r 5) hx hlen
        (sq 4 (by omega)) (sq 6 (by omega)) (sq 7 (by omega)) (sq 5 (by omega))
        (by unfold mkSquare; omega) (by unfold mkSquare; omega) (by unfold mkSquare; omega)
        (by unfold mkSquare; omega) (by unfold mkSquare; omega) (by unfold mkSquare; omega) c1 h6 h7 h5
      rw [hxb]
      unfold doMoveCastle; simp only []; rw [if_pos hK, hrr]
      show (movePiece T (movePiece T _ _ _) _ _).board = _
      rw [movePiece_board, movePiece_board]
      have : gd ((p.board.set (mkSquare r 4) 0).set (mkSquare r 6) (gd p.board (mkSquare r 4))) (mkSquare r 7) = gd p.board (mkSquare r 7) := by
        simp only [gd_set, List.length_set]
        rw [if_neg (by unfold mkSquare; omega), if_neg (by unfold mkSquare; omega)]
      show ((((p.board.set _ 0).set _ (gd p.board _)).set _ 0).set _ (gd ((p.board.set _ 0).set _ (gd p.board _)) _)) = _
      rw [this]
  · obtain ⟨h2, h3, h0⟩ := c3 hK
    apply undo_assemble T p _ m 0 false _ hk fo (by omega)
    · unfold doMoveCastle; simp only []; rw [if_neg hK]; rfl
    · unfold doMoveCastle; simp only []; rw [if_neg hK]; rfl
    · unfold doMoveCastle; simp only []; rw [if_neg hK]
      show (movePiece T (movePiece T _ _ _) _ _).hash.colorK = _
      rw [(sameRest_trans (sameRest_move T _ _ _) (sameRest_move T _ _ _)).colorK]; rfl
    · unfold doMoveCastle; simp only []; rw [if_neg hK]; rfl
    · have := (keyOK_iff T _).1 (mid_castle T (preMove T p) p.side m (mid_preMove T p hk ok.side) hlen ok.side
        (by rw [hrr]; exact c1) (by rw [hrr]; exact c2) (by rw [hrr]; exact c3))
      exact pk_congr T _ _ rfl rfl rfl this.1
    · intro x hx hxb
      unfold undoPieces
      simp only []
      rw [if_pos hc, if_neg hK, hrr]
      apply castle_back T p.board x (mkSquare r 4) (mkSquare r 2) (mkSquare r 0) (mkSquare r 3) hx hlen
        (sq 4 (by omega)) (sq 2 (by omega)) (sq 0 (by omega)) (sq 3 (by omega))
        (by unfold mkSquare; omega) (by unfold mkSquare; omega) (by unfold mkSquare; omega)
        (by unfold mkSquare; omega) (by unfold mkSquare; omega) (by unfold mkSquare; omega) c1 h2 h0 h3
      rw [hxb]
      unfold doMoveCastle; simp only []; rw [if_neg hK, hrr]
      show (movePiece T (movePiece T _ _ _) _ _).board = _
      rw [movePiece_board, movePiece_board]
      have : gd ((p.board.set (mkSquare r 4) 0).set (mkSquare r 2) (gd p.board (mkSquare r 4))) (mkSquare r 0) = gd p.board (mkSquare r 0) := by
        simp only [gd_set, List.length_set]
        rw [if_neg (by unfold mkSquare; omega), if_neg (by unfold mkSquare; omega)]
      show ((((p.board.set _ 0).set _ (gd p.board _)).set _ 0).set _ (gd ((p.board.set _ 0).set _ (gd p.board _)) _)) = _
      rw [this]

end Chess

namespace Chess

/-- fields that neither the clock step nor the ep bookkeeping touch -/
structure SameCore (p q : Position) : Prop where
  side : q.side = p.side
  ply : q.ply = p.ply
  colorK : q.hash.colorK = p.hash.colorK
  history : q.history = p.history
  board : q.board = p.board
  pieceK : q.hash.pieceK = p.hash.pieceK
  pawnK : q.hash.pawnK = p.hash.pawnK

theorem sameCore_clock (q : Position) (m : Nat) : SameCore q (clockStep q m) := by
  unfold clockStep; split <;> exact ⟨rfl, rfl, rfl, rfl, rfl, rfl, rfl⟩

theorem sameCore_setEp (T : ZTable) (p : Position) (side moved f t : Nat) : SameCore p (setEpAfter T p side moved f t) := by
  unfold setEpAfter; simp only []
  by_cases h : kindOf moved = PAWN ∧ rankOf f = (if side = 0 then 1 else 6) ∧ rankOf t = (if side = 0 then 3 else 4)
  · rw [if_pos h]; exact ⟨rfl, rfl, rfl, rfl, rfl, rfl, rfl⟩
  · rw [if_neg h]; exact ⟨rfl, rfl, rfl, rfl, rfl, rfl, rfl⟩

theorem mkPiece_kindOf_zero (s : Nat) : mkPiece s (kindOf 0) = 0 := by simp [mkPiece, kindOf]

theorem undo_do_normal (T : ZTable) (p : Position) (m : Nat) (hk : KeyOK T p) (fo : FieldsOK p) (ok : UndoOK p m)
    (hc : ¬ moveCastling m ≠ 0) : undoMove T (doMove T p m).1 m (doMove T p m).2 = p := by
  have hc0 : moveCastling m = 0 := Decidable.not_not.mp hc
  obtain ⟨n1, n2, n3, n4, n5, n6⟩ := ok.normal hc0
  obtain ⟨o1, o2, o3⟩ := ok.normal2 hc0
  have hk' := (keyOK_iff T p).1 hk
  have hlen := ok.len
  have hq := mid_preMove T p hk ok.side
  obtain ⟨hq2, hb2, he2⟩ := mid_clockStep T (preMove T p) m hq
  have sc1 := sameCore_clock (preMove T p) m
  have hb2' : (clockStep (preMove T p) m).board = p.board := hb2
  have he2' : (clockStep (preMove T p) m).ep = p.ep := he2
  have hat : ∀ s, (clockStep (preMove T p) m).at s = p.at s := by
    intro s; unfold Position.at; rw [hb2]; rfl
  unfold doMove
  simp only []
  rw [if_neg hc]
  show undoMove T (withHistory (setEpAfter T (doMovePieces T (clockStep (preMove T p) m) p.side m) p.side (p.at (moveFrom m)) (moveFrom m) (moveTo m))) m
    (mkMoveInfo (kindOf (p.at (moveTo m))) p.castling p.ep (decide (kindOf (p.at (moveFrom m)) = PAWN ∧ moveTo m = p.ep)) p.halfmove) = p
  generalize hp1 : clockStep (preMove T p) m = p1 at *
  have hmid := mid_pieces T p1 p.side m hq2 (by rw [hb2']; exact hlen) n1 n2 n3 (by rw [hat]; exact n4)
    (by simp only [hat, he2']; exact n6)
  have sc2 := sameCore_setEp T (doMovePieces T p1 p.side m) p.side (p.at (moveFrom m)) (moveFrom m) (moveTo m)
  have hmi := Props.C16_moveinfo (kindOf (p.at (moveTo m))) p.castling p.ep p.halfmove
    (decide (kindOf (p.at (moveFrom m)) = PAWN ∧ moveTo m = p.ep)) (kindOf_lt8 _) fo.castling fo.ep fo.halfmove
  simp only [] at hmi
  obtain ⟨m1, _, _, m4, _⟩ := hmi
  -- side / ply / colour key / history of doMovePieces, by branch
  by_cases he : kindOf (p.at (moveFrom m)) = PAWN ∧ moveTo m = p.ep
  · -- en passant
    obtain ⟨e0, hcl, hcf, hct, hcn⟩ := n6 he
    obtain ⟨ev, epr⟩ := o3 he
    have he1 : kindOf (p1.at (moveFrom m)) = PAWN ∧ moveTo m = p1.ep := by rw [hat, he2']; exact he
    have hD : doMovePieces T p1 p.side m = removePiece T (movePiece T p1 (moveFrom m) (moveTo m)) (if p.side = 0 then moveTo m - 8 else moveTo m + 8) := by
      unfold doMovePieces; simp only []; rw [if_pos he1]
    have srD : SameRest p1 (doMovePieces T p1 p.side m) := by
      rw [hD]; exact sameRest_trans (sameRest_move T _ _ _) (sameRest_remove T _ _)
    have e0' : kindOf (p.at (moveTo m)) = 0 := by rw [e0]; rfl
    rw [e0'] at m1 m4 ⊢
    have hdec : decide (kindOf (p.at (moveFrom m)) = PAWN ∧ moveTo m = p.ep) = true := by simpa using he
    apply undo_assemble T p _ m 0 _ _ hk fo (by omega)
    · show (setEpAfter T _ _ _ _ _).side = _
      rw [sc2.side, srD.side, sc1.side]; rfl
    · show (setEpAfter T _ _ _ _ _).ply = _
      rw [sc2.ply, srD.ply, sc1.ply]; rfl
    · show (setEpAfter T _ _ _ _ _).hash.colorK = _
      rw [sc2.colorK, srD.colorK, sc1.colorK]; rfl
    · show pushHistory (setEpAfter T _ _ _ _ _).history _ = _
      rw [sc2.history, srD.history, sc1.history]; rfl
    · exact pk_congr T _ _ sc2.board sc2.pieceK sc2.pawnK hmid.pk
    · intro x hx hxb
      unfold undoPieces
      simp only []
      rw [if_neg hc, m1, m4, hdec]
      have hz : mkPiece (1 - p.side) 0 = 0 := by simp [mkPiece]
      rw [hz, if_pos (c := true = true) rfl, if_neg (c := movePromo m ≠ 0) (by simp [epr]), if_neg (c := (0:Nat) ≠ 0) (by simp)]
      apply undo_ep T p.board x (moveFrom m) (moveTo m) _ _ hx hlen n1 n2 hcl n3 hcf hct n4 e0 ev
        (mkPiece_ne_zero _ _ (by decide))
      rw [hxb]
      show (setEpAfter T _ _ _ _ _).board = _
      rw [sc2.board, hD, removePiece_board, movePiece_board, hb2']
  · -- capture / promotion / plain move
    have he1 : ¬ (kindOf (p1.at (moveFrom m)) = PAWN ∧ moveTo m = p1.ep) := by rw [hat, he2']; exact he
    have hD : doMovePieces T p1 p.side m =
        setCastlingKey T { (placeMoved T (removeCaptured T p1 (moveTo m)) p.side m) with
          castling := updateRights (placeMoved T (removeCaptured T p1 (moveTo m)) p.side m).castling p.side (p1.at (moveFrom m))
            (kindOf (p1.at (moveTo m))) (moveFrom m) (moveTo m) } := by
      unfold doMovePieces; simp only []; rw [if_neg he1]
    have l1 : p1.board.length = 64 := by rw [hb2']; exact hlen
    obtain ⟨hpk1, sr1, e1, f1⟩ := removeCaptured_spec T p1 (moveTo m) (moveFrom m) hq2.pk (by omega) n3
    have hlen1 : (removeCaptured T p1 (moveTo m)).board.length = 64 := by rw [sr1.len]; exact l1
    obtain ⟨hpk2, sr2⟩ := placeMoved_spec T (removeCaptured T p1 (moveTo m)) p.side m hpk1 (by omega) (by omega) n3
      (by rw [f1]; show p1.at _ ≠ 0; rw [hat]; exact n4) e1
    have sr := sameRest_trans sr1 sr2
    have capEq : mkPiece (1 - p.side) (kindOf (p.at (moveTo m))) = gd p.board (moveTo m) := by
      by_cases h0 : p.at (moveTo m) = 0
      · rw [h0]; rw [at_eq_gd] at h0; rw [h0]; exact mkPiece_kindOf_zero _
      · rw [← o1 h0]; rfl
    have rcb : (removeCaptured T p1 (moveTo m)).board = if gd p.board (moveTo m) ≠ 0 then p.board.set (moveTo m) 0 else p.board := by
      unfold removeCaptured
      rw [hat, at_eq_gd]
      by_cases h0 : gd p.board (moveTo m) ≠ 0
      · rw [if_pos h0, if_pos h0, removePiece_board, hb2']
      · rw [if_neg h0, if_neg h0, hb2']
    have rcf : gd (removeCaptured T p1 (moveTo m)).board (moveFrom m) = gd p.board (moveFrom m) := by
      show (removeCaptured T p1 (moveTo m)).board.getD (moveFrom m) 0 = _
      rw [f1]; show p1.at _ = _; rw [hat]; rfl
    apply undo_assemble T p _ m _ _ _ hk fo (kindOf_lt8 _)
    · show (setEpAfter T _ _ _ _ _).side = _
      rw [sc2.side, hD]; show (placeMoved T _ _ _).side = _
      rw [sr.side, sc1.side]; rfl
    · show (setEpAfter T _ _ _ _ _).ply = _
      rw [sc2.ply, hD]; show (placeMoved T _ _ _).ply = _
      rw [sr.ply, sc1.ply]; rfl
    · show (setEpAfter T _ _ _ _ _).hash.colorK = _
      rw [sc2.colorK, hD]; show (placeMoved T _ _ _).hash.colorK = _
      rw [sr.colorK, sc1.colorK]; rfl
    · show pushHistory (setEpAfter T _ _ _ _ _).history _ = _
      rw [sc2.history, hD]; show pushHistory (placeMoved T _ _ _).history _ = _
      rw [sr.history, sc1.history]; rfl
    · exact pk_congr T _ _ sc2.board sc2.pieceK sc2.pawnK hmid.pk
    · intro x hx hxb
      have hxb' : x.board = (placeMoved T (removeCaptured T p1 (moveTo m)) p.side m).board := by
        rw [hxb]; show (setEpAfter T _ _ _ _ _).board = _
        rw [sc2.board, hD]; rfl
      unfold undoPieces
      simp only []
      have hdec : decide (kindOf (p.at (moveFrom m)) = PAWN ∧ moveTo m = p.ep) = false := by simpa using he
      rw [if_neg hc, m1, m4, capEq, hdec, if_neg (c := false = true) (by decide)]
      by_cases hpr : movePromo m ≠ 0
      · rw [if_pos hpr]
        obtain ⟨pw, _⟩ := o2 hpr
        apply undo_promo T p.board x (moveFrom m) (moveTo m) _ (mkPiece p.side (movePromo m)) _ hx hlen n1 n2 n3
          (by rw [← at_eq_gd]; exact pw) (mkPiece_ne_zero _ _ (by decide)) (mkPiece_ne_zero _ _ hpr) rfl
        rw [hxb']
        unfold placeMoved
        rw [if_pos hpr, addPiece_board, removePiece_board, rcb]
      · rw [if_neg hpr]
        apply undo_normal T p.board x (moveFrom m) (moveTo m) _ hx hlen n1 n2 n3 (by rw [← at_eq_gd]; exact n4) rfl
        rw [hxb']
        unfold placeMoved
        rw [if_neg hpr, movePiece_board, rcf, rcb]

/-- C03 core: `undo_move(m, do_move(m))` restores the whole position — board, side, rights, ep square, clocks,
    every key component and the key history — for every table -/
theorem undo_do (T : ZTable) (p : Position) (m : Nat) (hk : KeyOK T p) (fo : FieldsOK p) (ok : UndoOK p m) :
    undoMove T (doMove T p m).1 m (doMove T p m).2 = p := by
  by_cases hc : moveCastling m ≠ 0
  · exact undo_do_castle T p m hk fo ok hc
  · exact undo_do_normal T p m hk fo ok hc

end Chess
