/- Lemmas/MirrorLines3.lean — chunk 3 of the kernel table: the line and full-line masks of a pair of squares and of the flipped pair are flips of each other -/
import ChessVerif.Lemmas.MirrorPawn
namespace Chess
def linesMirrorChunk3 : Bool := (List.range' 48 16).all fun a => (List.range 64).all fun b =>
  mirB (lines a b) (lines (flipV a) (flipV b)) && mirB (fullLines a b) (fullLines (flipV a) (flipV b))
set_option maxRecDepth 100000 in
theorem linesMirrorChunk3_true : linesMirrorChunk3 = true := by decide +kernel
end Chess
