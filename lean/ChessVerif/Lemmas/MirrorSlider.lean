/-
  Lemmas/MirrorSlider.lean — the magic slider lookups commute with the colour mirror, for every occupancy: through C11 (lookup = ray
  walk) the statement is about ray walks; the ray from the flipped square in the direction with the rank step negated is the flipped
  ray (kernel table over 64 squares × 8 directions), and walking a flipped ray over a flipped occupancy gives the flipped set.
-/
import ChessVerif.Lemmas.MirrorBB
import ChessVerif.Lemmas.MirrorPawn
import ChessVerif.Props.C11
import ChessVerif.Lemmas.DoubleCheck
import ChessVerif.Lemmas.SingleCheckMask
namespace Chess

def sqFlipOK : Bool := (List.range 64).all fun s => (List.range 64).all fun t => (sqBB (flipV s)).testBit t == (sqBB s).testBit (flipV t)
theorem sqFlipOK_true : sqFlipOK = true := by decide +kernel
theorem sqBB_flip (s t : Nat) (hs : s < 64) (ht : t < 64) : (sqBB (flipV s)).testBit t = (sqBB s).testBit (flipV t) := by
  have h := sqFlipOK_true
  simp only [sqFlipOK, List.all_eq_true, List.mem_range, beq_iff_eq] at h
  exact h s hs t ht

/-- walking a flipped ray over a flipped occupancy gives the flipped set -/
theorem walk_mirror (l : List Nat) (hl : ∀ s, s ∈ l → s < 64) (occ occ' : BB) (h : MirrorBB occ occ') :
    MirrorBB (Spec.walk l occ) (Spec.walk (l.map flipV) occ') := by
  induction l with
  | nil => intro t _; simp [Spec.walk]
  | cons s rest ih =>
    have hs := hl s (List.mem_cons_self ..)
    have ih' := ih (fun x hx => hl x (List.mem_cons_of_mem _ hx))
    intro t ht
    simp only [List.map_cons, Spec.walk]
    rw [Nat.testBit_or, Nat.testBit_or, sqBB_flip s t hs ht, h (flipV s) (flipV_lt s hs), flipV_flipV s hs]
    by_cases ho : occ.testBit s = true
    · simp [ho]
    · have ho' : occ.testBit s = false := by simpa using ho
      rw [ho']
      simp only [Bool.false_eq_true, if_false]
      rw [ih' t ht]

/-- (df, dr, dr') with dr' = −dr: the ray from the flipped square in direction (df, dr') is the flipped ray in direction (df, dr) -/
def dirs8 : List (Int × Int × Int) := [(-1, 1, -1), (1, 1, -1), (1, -1, 1), (-1, -1, 1), (0, 1, -1), (1, 0, 0), (0, -1, 1), (-1, 0, 0)]
def rayFlipOK : Bool := (List.range 64).all fun sq => dirs8.all fun d =>
  (Spec.raySquares (flipV sq) d.1 d.2.2 == (Spec.raySquares sq d.1 d.2.1).map flipV) && (Spec.raySquares sq d.1 d.2.1).all (fun s => decide (s < 64))
theorem rayFlipOK_true : rayFlipOK = true := by decide +kernel

theorem walk_ray_mirror (sq : Nat) (hs : sq < 64) (d : Int × Int × Int) (hd : d ∈ dirs8) (occ occ' : BB) (h : MirrorBB occ occ') :
    MirrorBB (Spec.walk (Spec.raySquares sq d.1 d.2.1) occ) (Spec.walk (Spec.raySquares (flipV sq) d.1 d.2.2) occ') := by
  have ht := rayFlipOK_true
  simp only [rayFlipOK, List.all_eq_true, List.mem_range, Bool.and_eq_true, beq_iff_eq, decide_eq_true_eq] at ht
  obtain ⟨e, hl⟩ := ht sq hs d hd
  rw [e]
  exact walk_mirror _ hl occ occ' h

theorem bishopWalk_mirror (sq : Nat) (hs : sq < 64) (occ occ' : BB) (h : MirrorBB occ occ') :
    MirrorBB (Spec.bishopWalk sq occ) (Spec.bishopWalk (flipV sq) occ') := by
  have a := walk_ray_mirror sq hs (-1, 1, -1) (by decide) occ occ' h
  have b := walk_ray_mirror sq hs (1, 1, -1) (by decide) occ occ' h
  have c := walk_ray_mirror sq hs (1, -1, 1) (by decide) occ occ' h
  have d := walk_ray_mirror sq hs (-1, -1, 1) (by decide) occ occ' h
  intro t ht
  have a' := a t ht; have b' := b t ht; have c' := c t ht; have d' := d t ht
  simp only [Spec.bishopWalk, Spec.walkDirs, Spec.bishopDirs, List.foldl_cons, List.foldl_nil, Nat.testBit_or, Nat.zero_testBit, Bool.false_or]
  simp only [] at a' b' c' d'
  rw [a', b', c', d']
  ac_rfl

theorem rookWalk_mirror (sq : Nat) (hs : sq < 64) (occ occ' : BB) (h : MirrorBB occ occ') :
    MirrorBB (Spec.rookWalk sq occ) (Spec.rookWalk (flipV sq) occ') := by
  have a := walk_ray_mirror sq hs (0, 1, -1) (by decide) occ occ' h
  have b := walk_ray_mirror sq hs (1, 0, 0) (by decide) occ occ' h
  have c := walk_ray_mirror sq hs (0, -1, 1) (by decide) occ occ' h
  have d := walk_ray_mirror sq hs (-1, 0, 0) (by decide) occ occ' h
  intro t ht
  have a' := a t ht; have b' := b t ht; have c' := c t ht; have d' := d t ht
  simp only [Spec.rookWalk, Spec.walkDirs, Spec.rookDirs, List.foldl_cons, List.foldl_nil, Nat.testBit_or, Nat.zero_testBit, Bool.false_or]
  simp only [] at a' b' c' d'
  rw [a', b', c', d']
  ac_rfl

/-- **the magic slider lookups commute with the colour mirror, for every occupancy** -/
theorem sliderAttack_mirror (sq : Nat) (hs : sq < 64) (occ occ' : BB) (h : MirrorBB occ occ') :
    MirrorBB (bishopAttack sq occ) (bishopAttack (flipV sq) occ') ∧ MirrorBB (rookAttack sq occ) (rookAttack (flipV sq) occ') ∧
    MirrorBB (queenAttack sq occ) (queenAttack (flipV sq) occ') := by
  have hf := flipV_lt sq hs
  have eb : ∀ s, s < 64 → ∀ o, bishopAttack s o = Spec.bishopWalk s o := by
    intro s hs o
    have := Props.C11_slider BISHOP s hs o
    simpa [sliderAttack, Spec.rayWalk] using this
  have er : ∀ s, s < 64 → ∀ o, rookAttack s o = Spec.rookWalk s o := by
    intro s hs o
    have := Props.C11_slider ROOK s hs o
    simpa [sliderAttack, Spec.rayWalk, ROOK, BISHOP] using this
  have mb : MirrorBB (bishopAttack sq occ) (bishopAttack (flipV sq) occ') := by
    rw [eb sq hs, eb _ hf]; exact bishopWalk_mirror sq hs occ occ' h
  have mr : MirrorBB (rookAttack sq occ) (rookAttack (flipV sq) occ') := by
    rw [er sq hs, er _ hf]; exact rookWalk_mirror sq hs occ occ' h
  exact ⟨mb, mr, mb.or mr⟩

theorem more_of_two (b : BB) (i j : Nat) (hij : i ≠ j) (hi : b.testBit i = true) (hj : b.testBit j = true) : moreThanOne b = true := by
  by_cases h : i < j
  · exact lt_bits_more b i j h hi hj
  · exact lt_bits_more b j i (by omega) hj hi

theorem moreThanOne_mirror_imp {X Y : BB} (hX : X < 2 ^ 64) (h : MirrorBB X Y) (hm : moreThanOne X = true) : moreThanOne Y = true := by
  obtain ⟨i, j, hij, hi, hj⟩ := two_bits X hm
  have lt64 : ∀ t, X.testBit t = true → t < 64 := by
    intro t ht
    apply Classical.byContradiction; intro hge
    have : X.testBit t = false := Nat.testBit_lt_two_pow (Nat.lt_of_lt_of_le hX (Nat.pow_le_pow_right (by omega) (by omega)))
    rw [this] at ht; exact Bool.noConfusion ht
  have hi64 := lt64 i hi
  have hj64 := lt64 j hj
  apply more_of_two Y (flipV i) (flipV j)
  · intro e
    apply hij
    rw [← flipV_flipV i hi64, ← flipV_flipV j hj64, e]
  · rw [h _ (flipV_lt i hi64), flipV_flipV i hi64]; exact hi
  · rw [h _ (flipV_lt j hj64), flipV_flipV j hj64]; exact hj

/-- "more than one bit" is kept by the flip -/
theorem MirrorBB.moreThanOne {X Y : BB} (hX : X < 2 ^ 64) (hY : Y < 2 ^ 64) (h : MirrorBB X Y) : Chess.moreThanOne Y = Chess.moreThanOne X := by
  apply Bool.eq_iff_iff.2
  exact ⟨moreThanOne_mirror_imp hY h.symm, moreThanOne_mirror_imp hX h⟩

theorem or_comm3 (z a b : BB) : z ||| a ||| b = z ||| b ||| a := by
  rw [Nat.or_assoc, Nat.or_comm a b, ← Nat.or_assoc]

/-- a union of per-square sets over the squares of a flipped bitboard is the flip of the union of the flipped terms -/
theorem MirrorBB.union_eq {X Y : BB} (h : MirrorBB X Y) (f g : Nat → BB)
    (hfg : ∀ s, s ∈ bitsOf X → MirrorBB (g s) (f (flipV s))) (i i' : BB) (hi : MirrorBB i i') :
    MirrorBB ((bitsOf X).foldl (fun acc s => acc ||| g s) i) ((bitsOf Y).foldl (fun acc s => acc ||| f s) i') := by
  rw [List.Perm.foldl_eq' h.bits_perm (fun x _ y _ z => or_comm3 z (f x) (f y)) i', List.foldl_map]
  have : ∀ (l : List Nat) (a a' : BB), MirrorBB a a' → (∀ s, s ∈ l → s ∈ bitsOf X) →
      MirrorBB (l.foldl (fun acc s => acc ||| g s) a) (l.foldl (fun acc s => acc ||| f (flipV s)) a') := by
    intro l
    induction l with
    | nil => intro a a' ha _; exact ha
    | cons x l ih =>
      intro a a' ha hl
      simp only [List.foldl_cons]
      exact ih _ _ (ha.or (hfg x (hl x (List.mem_cons_self ..)))) (fun s hs => hl s (List.mem_cons_of_mem _ hs))
  exact this _ _ _ hi (fun s hs => hs)

def leaperMirrorOK : Bool :=
  (List.range 64).all fun k => mirB (knightMask k) (knightMask (flipV k)) && mirB (kingMask k) (kingMask (flipV k))
theorem leaperMirrorOK_true : leaperMirrorOK = true := by decide +kernel
theorem leaper_mirror (k : Nat) (hk : k < 64) : MirrorBB (knightMask k) (knightMask (flipV k)) ∧ MirrorBB (kingMask k) (kingMask (flipV k)) := by
  have h := leaperMirrorOK_true
  simp only [leaperMirrorOK, List.all_eq_true, List.mem_range, Bool.and_eq_true] at h
  exact ⟨mirB_sound (h k hk).1, mirB_sound (h k hk).2⟩

theorem MirrorBB.zero : MirrorBB 0 0 := fun _ _ => by simp

end Chess
