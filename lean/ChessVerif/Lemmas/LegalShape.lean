/-
  Lemmas/LegalShape.lean — every pseudo-legal move the rules generate in a well-formed position has the shape `StepOK`
  (so C02/C03/C04 hold for every rules-level legal move of every well-formed position, with no run-time hypothesis).
-/
import ChessVerif.Lemmas.Refine
import ChessVerif.Lemmas.WfHyp
namespace Chess

-- coordinates -----------------------------------------------------------------------------------------------
theorem sqOf_lt (f r : Int) (h : Spec.onBoard f r = true) : Spec.sqOf f r < 64 := by
  unfold Spec.onBoard at h
  simp only [Bool.and_eq_true, decide_eq_true_eq] at h
  unfold Spec.sqOf; omega

theorem onBoard_iff (f r : Int) : Spec.onBoard f r = true ↔ (0 ≤ f ∧ f < 8 ∧ 0 ≤ r ∧ r < 8) := by
  unfold Spec.onBoard
  simp only [Bool.and_eq_true, decide_eq_true_eq]
  constructor
  · rintro ⟨⟨⟨a, b⟩, c⟩, d⟩; exact ⟨a, b, c, d⟩
  · rintro ⟨a, b, c, d⟩; exact ⟨⟨⟨a, b⟩, c⟩, d⟩

/-- square index of a displaced coordinate -/
theorem sqOf_shift (s : Nat) (hs : s < 64) (df dr : Int) (h : Spec.onBoard (Spec.fileI s + df) (Spec.rankI s + dr) = true) :
    (Spec.sqOf (Spec.fileI s + df) (Spec.rankI s + dr) : Int) = (s : Int) + dr * 8 + df := by
  rw [onBoard_iff] at h
  unfold Spec.sqOf Spec.fileI Spec.rankI at *
  omega

-- ownership ---------------------------------------------------------------------------------------------------
theorem own_shape (pc c : Nat) (hpc : pc ≤ 12) (hc : c ≤ 1) (h : Spec.isOwn pc c = true) :
    pc ≠ 0 ∧ pc = mkPiece c (kindOf pc) := by
  unfold Spec.isOwn Spec.colorOfPc at h
  simp only [Bool.and_eq_true, decide_eq_true_eq] at h
  have hx : pc = 0 ∨ pc = 1 ∨ pc = 2 ∨ pc = 3 ∨ pc = 4 ∨ pc = 5 ∨ pc = 6 ∨ pc = 7 ∨ pc = 8 ∨ pc = 9 ∨ pc = 10 ∨ pc = 11 ∨ pc = 12 := by omega
  have hc' : c = 0 ∨ c = 1 := by omega
  rcases hc' with rfl | rfl <;>
    rcases hx with rfl | rfl | rfl | rfl | rfl | rfl | rfl | rfl | rfl | rfl | rfl | rfl | rfl <;> simp_all [mkPiece, kindOf]

theorem notOwn_shape (pc c : Nat) (hpc : pc ≤ 12) (hc : c ≤ 1) (h : Spec.isOwn pc c = false) :
    pc ≠ 0 → pc = mkPiece (1 - c) (kindOf pc) := by
  unfold Spec.isOwn Spec.colorOfPc at h
  have hx : pc = 0 ∨ pc = 1 ∨ pc = 2 ∨ pc = 3 ∨ pc = 4 ∨ pc = 5 ∨ pc = 6 ∨ pc = 7 ∨ pc = 8 ∨ pc = 9 ∨ pc = 10 ∨ pc = 11 ∨ pc = 12 := by omega
  have hc' : c = 0 ∨ c = 1 := by omega
  rcases hc' with rfl | rfl <;>
    rcases hx with rfl | rfl | rfl | rfl | rfl | rfl | rfl | rfl | rfl | rfl | rfl | rfl | rfl <;> simp_all [mkPiece, kindOf]

theorem enemy_shape (pc c : Nat) (hpc : pc ≤ 12) (hc : c ≤ 1) (h : Spec.isEnemy pc c = true) :
    pc ≠ 0 ∧ pc = mkPiece (1 - c) (kindOf pc) := by
  unfold Spec.isEnemy Spec.colorOfPc at h
  simp only [Bool.and_eq_true, decide_eq_true_eq] at h
  have hx : pc = 0 ∨ pc = 1 ∨ pc = 2 ∨ pc = 3 ∨ pc = 4 ∨ pc = 5 ∨ pc = 6 ∨ pc = 7 ∨ pc = 8 ∨ pc = 9 ∨ pc = 10 ∨ pc = 11 ∨ pc = 12 := by omega
  have hc' : c = 0 ∨ c = 1 := by omega
  rcases hc' with rfl | rfl <;>
    rcases hx with rfl | rfl | rfl | rfl | rfl | rfl | rfl | rfl | rfl | rfl | rfl | rfl | rfl <;> simp_all [mkPiece, kindOf]

end Chess

namespace Chess

-- step movers (knight, king) -------------------------------------------------------------------------------------
theorem mem_stepMoves (p : Spec.SPos) (s : Nat) (offs : List (Int × Int)) (m : Spec.SMove) (h : m ∈ Spec.stepMoves p s offs) :
    ∃ d, d ∈ offs ∧ Spec.onBoard (Spec.fileI s + d.1) (Spec.rankI s + d.2) = true ∧
      m = ⟨s, Spec.sqOf (Spec.fileI s + d.1) (Spec.rankI s + d.2), 0⟩ ∧
      Spec.isOwn (Spec.pcAt p.board (Spec.sqOf (Spec.fileI s + d.1) (Spec.rankI s + d.2))) p.side = false := by
  unfold Spec.stepMoves at h
  simp only [List.mem_filterMap] at h
  obtain ⟨d, hd, hm⟩ := h
  refine ⟨d, hd, ?_⟩
  by_cases hc : (Spec.onBoard (Spec.fileI s + d.1) (Spec.rankI s + d.2) &&
      !Spec.isOwn (Spec.pcAt p.board (Spec.sqOf (Spec.fileI s + d.1) (Spec.rankI s + d.2))) p.side) = true
  · rw [if_pos hc] at hm
    simp only [Bool.and_eq_true, Bool.not_eq_true'] at hc
    exact ⟨hc.1, (Option.some.inj hm).symm, hc.2⟩
  · rw [if_neg hc] at hm; cases hm

-- sliders ----------------------------------------------------------------------------------------------------------
theorem mem_slide (b : List Nat) (c : Nat) (d : Int × Int) (n : Nat) (f r : Int) (t : Nat) (h : t ∈ Spec.slide b c d n f r) :
    ∃ j : Nat, 1 ≤ j ∧ j ≤ n ∧ Spec.onBoard (f + j * d.1) (r + j * d.2) = true ∧ t = Spec.sqOf (f + j * d.1) (r + j * d.2) ∧
      (Spec.pcAt b t = 0 ∨ Spec.isEnemy (Spec.pcAt b t) c = true) := by
  induction n generalizing f r with
  | zero => simp [Spec.slide] at h
  | succ n ih =>
    unfold Spec.slide at h
    simp only [] at h
    by_cases hon : Spec.onBoard (f + d.1) (r + d.2) = true
    · rw [if_pos hon] at h
      by_cases hz : Spec.pcAt b (Spec.sqOf (f + d.1) (r + d.2)) = 0
      · rw [if_pos hz] at h
        simp only [List.mem_cons] at h
        rcases h with rfl | h
        · exact ⟨1, by omega, by omega, by simpa using hon, by simp, Or.inl hz⟩
        · obtain ⟨j, j1, j2, j3, j4, j5⟩ := ih _ _ h
          refine ⟨j + 1, by omega, by omega, ?_, ?_, j5⟩
          · have e1 : f + ((j + 1 : Nat) : Int) * d.1 = f + d.1 + (j : Int) * d.1 := by
              rw [Int.natCast_succ, Int.add_mul]; omega
            have e2 : r + ((j + 1 : Nat) : Int) * d.2 = r + d.2 + (j : Int) * d.2 := by
              rw [Int.natCast_succ, Int.add_mul]; omega
            rw [e1, e2]; exact j3
          · have e1 : f + ((j + 1 : Nat) : Int) * d.1 = f + d.1 + (j : Int) * d.1 := by
              rw [Int.natCast_succ, Int.add_mul]; omega
            have e2 : r + ((j + 1 : Nat) : Int) * d.2 = r + d.2 + (j : Int) * d.2 := by
              rw [Int.natCast_succ, Int.add_mul]; omega
            rw [e1, e2]; exact j4
      · rw [if_neg hz] at h
        by_cases he : Spec.isEnemy (Spec.pcAt b (Spec.sqOf (f + d.1) (r + d.2))) c = true
        · rw [if_pos he] at h
          simp only [List.mem_singleton] at h
          subst h
          exact ⟨1, by omega, by omega, by simpa using hon, by simp, Or.inr he⟩
        · rw [if_neg he] at h; simp at h
    · rw [if_neg hon] at h; simp at h

end Chess

namespace Chess

-- pawns ------------------------------------------------------------------------------------------------------------
def pawnDr (c : Nat) : Int := if c = 0 then 1 else -1
def pawnLast (c : Nat) : Int := if c = 0 then 7 else 0
def pawnStart (c : Nat) : Int := if c = 0 then 1 else 6

theorem mem_mk (s t : Nat) (last : Int) (m : Spec.SMove)
    (h : m ∈ (if Spec.rankI t = last then Spec.promoKinds.map (fun k => (⟨s, t, k⟩ : Spec.SMove)) else [⟨s, t, 0⟩])) :
    m.src = s ∧ m.dst = t ∧ ((Spec.rankI t = last ∧ (m.promo = 5 ∨ m.promo = 4 ∨ m.promo = 3 ∨ m.promo = 2)) ∨ (Spec.rankI t ≠ last ∧ m.promo = 0)) := by
  by_cases hr : Spec.rankI t = last
  · rw [if_pos hr] at h
    simp only [Spec.promoKinds, List.map_cons, List.map_nil, List.mem_cons, List.not_mem_nil, or_false] at h
    rcases h with rfl | rfl | rfl | rfl <;> simp [hr]
  · rw [if_neg hr] at h
    simp only [List.mem_singleton] at h
    subst h; simp [hr]

inductive PawnShape (p : Spec.SPos) (s : Nat) (m : Spec.SMove) : Prop
  | push1 : Spec.onBoard (Spec.fileI s) (Spec.rankI s + pawnDr p.side) = true →
      m.dst = Spec.sqOf (Spec.fileI s) (Spec.rankI s + pawnDr p.side) → Spec.pcAt p.board m.dst = 0 →
      ((Spec.rankI m.dst = pawnLast p.side ∧ (m.promo = 5 ∨ m.promo = 4 ∨ m.promo = 3 ∨ m.promo = 2)) ∨ (Spec.rankI m.dst ≠ pawnLast p.side ∧ m.promo = 0)) →
      PawnShape p s m
  | push2 : Spec.rankI s = pawnStart p.side → m.dst = Spec.sqOf (Spec.fileI s) (Spec.rankI s + 2 * pawnDr p.side) →
      Spec.pcAt p.board m.dst = 0 → m.promo = 0 → PawnShape p s m
  | capture (cf : Int) : (cf = Spec.fileI s - 1 ∨ cf = Spec.fileI s + 1) → Spec.onBoard cf (Spec.rankI s + pawnDr p.side) = true →
      m.dst = Spec.sqOf cf (Spec.rankI s + pawnDr p.side) → Spec.isEnemy (Spec.pcAt p.board m.dst) p.side = true →
      ((Spec.rankI m.dst = pawnLast p.side ∧ (m.promo = 5 ∨ m.promo = 4 ∨ m.promo = 3 ∨ m.promo = 2)) ∨ (Spec.rankI m.dst ≠ pawnLast p.side ∧ m.promo = 0)) →
      PawnShape p s m
  | ep (cf : Int) : (cf = Spec.fileI s - 1 ∨ cf = Spec.fileI s + 1) → Spec.onBoard cf (Spec.rankI s + pawnDr p.side) = true →
      m.dst = Spec.sqOf cf (Spec.rankI s + pawnDr p.side) → Spec.isEnemy (Spec.pcAt p.board m.dst) p.side = false →
      p.ep ≠ 64 → m.dst = p.ep → m.promo = 0 → PawnShape p s m

theorem mem_pawnMoves (p : Spec.SPos) (s : Nat) (m : Spec.SMove) (h : m ∈ Spec.pawnMoves p s) : m.src = s ∧ PawnShape p s m := by
  unfold Spec.pawnMoves at h
  simp only [] at h
  have hdr : (if p.side = 0 then (1 : Int) else -1) = pawnDr p.side := rfl
  have hlast : (if p.side = 0 then (7 : Int) else 0) = pawnLast p.side := rfl
  have hstart : (if p.side = 0 then (1 : Int) else 6) = pawnStart p.side := rfl
  rw [hdr, hlast, hstart] at h
  simp only [List.mem_append] at h
  rcases h with (h | h) | h
  · -- single push
    by_cases hc : (Spec.onBoard (Spec.fileI s) (Spec.rankI s + pawnDr p.side) &&
        decide (Spec.pcAt p.board (Spec.sqOf (Spec.fileI s) (Spec.rankI s + pawnDr p.side)) = 0)) = true
    · rw [if_pos hc] at h
      simp only [Bool.and_eq_true, decide_eq_true_eq] at hc
      obtain ⟨a, b, c⟩ := mem_mk s _ _ m h
      exact ⟨a, PawnShape.push1 hc.1 b (by rw [b]; exact hc.2) (by rw [b]; exact c)⟩
    · rw [if_neg hc] at h; simp at h
  · -- double push
    by_cases hc : (decide (Spec.rankI s = pawnStart p.side) &&
        decide (Spec.pcAt p.board (Spec.sqOf (Spec.fileI s) (Spec.rankI s + pawnDr p.side)) = 0) &&
        decide (Spec.pcAt p.board (Spec.sqOf (Spec.fileI s) (Spec.rankI s + 2 * pawnDr p.side)) = 0)) = true
    · rw [if_pos hc] at h
      simp only [Bool.and_eq_true, decide_eq_true_eq] at hc
      simp only [List.mem_singleton] at h
      subst h
      exact ⟨rfl, PawnShape.push2 hc.1.1 rfl hc.2 rfl⟩
    · rw [if_neg hc] at h; simp at h
  · -- captures
    simp only [List.mem_flatMap, List.mem_cons, List.not_mem_nil, or_false] at h
    obtain ⟨cf, hcf, hm⟩ := h
    by_cases hon : Spec.onBoard cf (Spec.rankI s + pawnDr p.side) = true
    · rw [if_pos hon] at hm
      by_cases hen : Spec.isEnemy (Spec.pcAt p.board (Spec.sqOf cf (Spec.rankI s + pawnDr p.side))) p.side = true
      · rw [if_pos hen] at hm
        obtain ⟨a, b, c⟩ := mem_mk s _ _ m hm
        exact ⟨a, PawnShape.capture cf hcf hon b (by rw [b]; exact hen) (by rw [b]; exact c)⟩
      · rw [if_neg hen] at hm
        by_cases hep : (decide (p.ep ≠ 64) && decide (Spec.sqOf cf (Spec.rankI s + pawnDr p.side) = p.ep)) = true
        · rw [if_pos hep] at hm
          simp only [Bool.and_eq_true, decide_eq_true_eq] at hep
          simp only [List.mem_singleton] at hm
          subst hm
          exact ⟨rfl, PawnShape.ep cf hcf hon rfl (by simpa using hen) hep.1 hep.2 rfl⟩
        · rw [if_neg hep] at hm; simp at hm
    · rw [if_neg hon] at hm; simp at hm

end Chess

namespace Chess

/-- the position-level part of StepOK, from well-formedness -/
structure PosOK (s : Spec.SPos) : Prop where
  len : s.board.length = 64
  codes : ∀ i, s.board.getD i 0 ≤ 12
  side : s.side ≤ 1
  cast : s.castling < 16
  rights : RightsInv s.board s.castling

theorem posOK_of_wf (s : Spec.SPos) (h : Spec.wf s = true) : PosOK s := by
  obtain ⟨hbo, hside, _, _, _⟩ := wf_board_hyps s h
  unfold Spec.wf at h
  simp only [Bool.and_eq_true, decide_eq_true_eq, List.all_eq_true, Bool.not_eq_true'] at h
  obtain ⟨⟨⟨⟨⟨⟨⟨⟨⟨_, _⟩, _⟩, hcast⟩, _⟩, _⟩, _⟩, _⟩, hr⟩, _⟩ := h
  refine ⟨hbo.len, hbo.codes, hside, hcast, ?_⟩
  unfold Spec.rightsConsistent at hr
  simp only [Bool.and_eq_true, Bool.or_eq_true, decide_eq_true_eq] at hr
  obtain ⟨⟨⟨r1, r2⟩, r4⟩, r8⟩ := hr
  unfold RightsInv
  refine ⟨?_, ?_, ?_, ?_⟩
  · intro hne; rcases r1 with h0 | h0
    · exact absurd h0 hne
    · exact h0
  · intro hne; rcases r2 with h0 | h0
    · exact absurd h0 hne
    · exact h0
  · intro hne; rcases r4 with h0 | h0
    · exact absurd h0 hne
    · exact h0
  · intro hne; rcases r8 with h0 | h0
    · exact absurd h0 hne
    · exact h0

/-- non-pawn, non-castling moves: a piece of the side to move goes to a square not held by an own piece -/
theorem stepOK_simple (s : Spec.SPos) (m : Spec.SMove) (ok : PosOK s) (hsrc : m.src < 64) (hdst : m.dst < 64) (hne : m.src ≠ m.dst)
    (hown : Spec.isOwn (Spec.pcAt s.board m.src) s.side = true) (htar : Spec.isOwn (Spec.pcAt s.board m.dst) s.side = false)
    (hpromo : m.promo = 0) (hk : kindOf (gd s.board m.src) ≠ PAWN)
    (hnc : ¬ (kindOf (gd s.board m.src) = KING ∧ (m.dst = m.src + 2 ∨ m.dst + 2 = m.src))) : StepOK s m := by
  have o := own_shape _ _ (ok.codes m.src) ok.side hown
  exact {
    len := ok.len, side := ok.side, cast := ok.cast, rights := ok.rights, src := hsrc, dst := hdst, ne := hne,
    own := o,
    target := notOwn_shape _ _ (ok.codes m.dst) ok.side htar,
    promo := ⟨by omega, fun h => absurd hpromo h⟩,
    pawn := fun h => absurd h hk,
    ep := fun h => absurd h.1 hk,
    castle := fun h => absurd h hnc }

end Chess

namespace Chess

-- castling -----------------------------------------------------------------------------------------------------------
theorem mem_castleMoves (p : Spec.SPos) (m : Spec.SMove) (h : m ∈ Spec.castleMoves p) :
    let r0 : Nat := if p.side = 0 then 0 else 56
    Spec.pcAt p.board (r0 + 4) = Spec.mkPc p.side 6 ∧
    ((m = ⟨r0 + 4, r0 + 6, 0⟩ ∧ Spec.pcAt p.board (r0 + 7) = Spec.mkPc p.side 4 ∧ Spec.pcAt p.board (r0 + 5) = 0 ∧ Spec.pcAt p.board (r0 + 6) = 0) ∨
     (m = ⟨r0 + 4, r0 + 2, 0⟩ ∧ Spec.pcAt p.board r0 = Spec.mkPc p.side 4 ∧ Spec.pcAt p.board (r0 + 1) = 0 ∧ Spec.pcAt p.board (r0 + 2) = 0 ∧
        Spec.pcAt p.board (r0 + 3) = 0)) := by
  intro r0
  by_cases hs0 : p.side = 0
  · have hr : r0 = 0 := if_pos hs0
    rw [hr]
    simp [Spec.castleMoves, hs0] at h
    rcases h with ⟨⟨⟨⟨⟨⟨⟨⟨k, _⟩, rk⟩, e5⟩, e6⟩, _⟩, _⟩, _⟩, hm⟩ | ⟨⟨⟨⟨⟨⟨⟨⟨⟨k, _⟩, rk⟩, e1⟩, e2⟩, e3⟩, _⟩, _⟩, _⟩, hm⟩
    · rw [hs0]; exact ⟨k, Or.inl ⟨hm, rk, e5, e6⟩⟩
    · rw [hs0]; exact ⟨k, Or.inr ⟨hm, rk, e1, e2, e3⟩⟩
  · have hr : r0 = 56 := if_neg hs0
    rw [hr]
    simp [Spec.castleMoves, hs0] at h
    rcases h with ⟨⟨⟨⟨⟨⟨⟨⟨k, _⟩, rk⟩, e5⟩, e6⟩, _⟩, _⟩, _⟩, hm⟩ | ⟨⟨⟨⟨⟨⟨⟨⟨⟨k, _⟩, rk⟩, e1⟩, e2⟩, e3⟩, _⟩, _⟩, _⟩, hm⟩
    · exact ⟨k, Or.inl ⟨hm, rk, e5, e6⟩⟩
    · exact ⟨k, Or.inr ⟨hm, rk, e1, e2, e3⟩⟩

theorem stepOK_castle (s : Spec.SPos) (m : Spec.SMove) (ok : PosOK s) (h : m ∈ Spec.castleMoves s) : StepOK s m := by
  obtain ⟨hk, hc⟩ := mem_castleMoves s m h
  have hside := ok.side
  have hs01 : s.side = 0 ∨ s.side = 1 := by omega
  have hking : Spec.mkPc s.side 6 = mkPiece s.side KING := mkPc_eq' _ 6 (by decide)
  have hrook : Spec.mkPc s.side 4 = mkPiece s.side ROOK := mkPc_eq' _ 4 (by decide)
  have hr0 : (if s.side = 0 then 0 else 56) + 4 = (if s.side = 0 then 4 else 60) := by split <;> rfl
  have kk : kindOf (mkPiece s.side KING) = KING := by rcases hs01 with h | h <;> rw [h] <;> decide
  have hown : gd s.board ((if s.side = 0 then 0 else 56) + 4) = mkPiece s.side KING := by rw [← hking]; exact hk
  rcases hc with ⟨rfl, rk, e5, e6⟩ | ⟨rfl, rk, e1, e2, e3⟩
  · refine { len := ok.len, side := ok.side, cast := ok.cast, rights := ok.rights, src := ?_, dst := ?_, ne := ?_, own := ?_, target := ?_,
             promo := ⟨by simp, fun h => absurd rfl h⟩, pawn := ?_, ep := ?_, castle := ?_ }
    · show (if s.side = 0 then 0 else 56) + 4 < 64; split <;> omega
    · show (if s.side = 0 then 0 else 56) + 6 < 64; split <;> omega
    · show (if s.side = 0 then 0 else 56) + 4 ≠ (if s.side = 0 then 0 else 56) + 6; omega
    · show gd s.board _ ≠ 0 ∧ gd s.board _ = _
      rw [hown, kk]; exact ⟨mkPiece_ne_zero _ _ (by decide), rfl⟩
    · intro hne; exact absurd e6 hne
    · intro hp; rw [show gd s.board ((if s.side = 0 then 0 else 56) + 4) = mkPiece s.side KING from hown, kk] at hp; exact absurd hp (by decide)
    · intro hp; rw [show gd s.board ((if s.side = 0 then 0 else 56) + 4) = mkPiece s.side KING from hown, kk] at hp; exact absurd hp.1 (by decide)
    · intro _
      refine ⟨hr0, rfl, ?_, ?_⟩
      · intro _
        show gd s.board ((if s.side = 0 then 0 else 56) + 4 + 1) = 0 ∧ gd s.board ((if s.side = 0 then 0 else 56) + 4 + 2) = 0 ∧
          gd s.board ((if s.side = 0 then 0 else 56) + 4 + 3) = mkPiece s.side ROOK
        rw [← hrook]
        exact ⟨e5, e6, rk⟩
      · intro hh
        exfalso
        have : (if s.side = 0 then 0 else 56) + 6 + 2 = (if s.side = 0 then 0 else 56) + 4 := hh
        omega
  · refine { len := ok.len, side := ok.side, cast := ok.cast, rights := ok.rights, src := ?_, dst := ?_, ne := ?_, own := ?_, target := ?_,
             promo := ⟨by simp, fun h => absurd rfl h⟩, pawn := ?_, ep := ?_, castle := ?_ }
    · show (if s.side = 0 then 0 else 56) + 4 < 64; split <;> omega
    · show (if s.side = 0 then 0 else 56) + 2 < 64; split <;> omega
    · show (if s.side = 0 then 0 else 56) + 4 ≠ (if s.side = 0 then 0 else 56) + 2; omega
    · show gd s.board _ ≠ 0 ∧ gd s.board _ = _
      rw [hown, kk]; exact ⟨mkPiece_ne_zero _ _ (by decide), rfl⟩
    · intro hne; exact absurd e2 hne
    · intro hp; rw [show gd s.board ((if s.side = 0 then 0 else 56) + 4) = mkPiece s.side KING from hown, kk] at hp; exact absurd hp (by decide)
    · intro hp; rw [show gd s.board ((if s.side = 0 then 0 else 56) + 4) = mkPiece s.side KING from hown, kk] at hp; exact absurd hp.1 (by decide)
    · intro _
      refine ⟨hr0, rfl, ?_, ?_⟩
      · intro hh
        exfalso
        have : (if s.side = 0 then 0 else 56) + 2 = (if s.side = 0 then 0 else 56) + 4 + 2 := hh
        omega
      · intro _
        show gd s.board ((if s.side = 0 then 0 else 56) + 4 - 1) = 0 ∧ gd s.board ((if s.side = 0 then 0 else 56) + 4 - 2) = 0 ∧
          gd s.board ((if s.side = 0 then 0 else 56) + 4 - 4) = mkPiece s.side ROOK
        have a1 : (if s.side = 0 then 0 else 56) + 4 - 1 = (if s.side = 0 then 0 else 56) + 3 := by omega
        have a2 : (if s.side = 0 then 0 else 56) + 4 - 2 = (if s.side = 0 then 0 else 56) + 2 := by omega
        have a3 : (if s.side = 0 then 0 else 56) + 4 - 4 = (if s.side = 0 then 0 else 56) := by omega
        rw [a1, a2, a3, ← hrook]
        exact ⟨e3, e2, rk⟩

end Chess

namespace Chess

theorem ep_facts (s : Spec.SPos) (h : Spec.wf s = true) (he : s.ep ≠ 64) :
    (if s.side = 0 then s.ep / 8 = 5 else s.ep / 8 = 2) ∧ Spec.pcAt s.board s.ep = 0 ∧
    Spec.pcAt s.board (if s.side = 0 then s.ep - 8 else s.ep + 8) = Spec.mkPc (1 - s.side) 1 := by
  unfold Spec.wf at h
  simp only [Bool.and_eq_true] at h
  have hep := h.2
  unfold Spec.epConsistent at hep
  rw [if_neg he] at hep
  simp only [Bool.and_eq_true, decide_eq_true_eq] at hep
  obtain ⟨⟨⟨⟨a, b⟩, _⟩, d⟩, _⟩ := hep
  refine ⟨?_, b, d⟩
  by_cases hs : s.side = 0
  · rw [if_pos hs] at a ⊢; exact a
  · rw [if_neg hs] at a ⊢; exact a

theorem coords (sq : Nat) (h : sq < 64) : 0 ≤ Spec.fileI sq ∧ Spec.fileI sq < 8 ∧ 0 ≤ Spec.rankI sq ∧ Spec.rankI sq < 8 ∧
    (sq : Int) = Spec.rankI sq * 8 + Spec.fileI sq := by
  unfold Spec.fileI Spec.rankI; omega

theorem rankI_sqOf (f r : Int) (h : Spec.onBoard f r = true) : Spec.rankI (Spec.sqOf f r) = r ∧ Spec.fileI (Spec.sqOf f r) = f ∧
    ((Spec.sqOf f r : Nat) : Int) = r * 8 + f := by
  rw [onBoard_iff] at h
  unfold Spec.rankI Spec.fileI Spec.sqOf
  omega

end Chess

namespace Chess

theorem mkPc1 (c : Nat) : Spec.mkPc c 1 = mkPiece c PAWN := mkPc_eq' c 1 (by decide)

/-- a pawn move generated by the rules in a well-formed position has the StepOK shape -/
theorem stepOK_pawn (s : Spec.SPos) (hwf : Spec.wf s = true) (ok : PosOK s) (sq : Nat) (hsq : sq < 64)
    (hown : Spec.isOwn (Spec.pcAt s.board sq) s.side = true) (hkind : kindOf (gd s.board sq) = PAWN)
    (m : Spec.SMove) (hm : m ∈ Spec.pawnMoves s sq) : StepOK s m := by
  obtain ⟨hsrc, shape⟩ := mem_pawnMoves s sq m hm
  have hside := ok.side
  have hs01 : s.side = 0 ∨ s.side = 1 := by omega
  obtain ⟨c1, c2, c3, c4, c5⟩ := coords sq hsq
  have o := own_shape _ _ (ok.codes sq) ok.side hown
  have o' : gd s.board m.src ≠ 0 ∧ gd s.board m.src = mkPiece s.side (kindOf (gd s.board m.src)) := by rw [hsrc]; exact o
  have hk' : kindOf (gd s.board m.src) = PAWN := by rw [hsrc]; exact hkind
  have hnk : ¬ kindOf (gd s.board m.src) = KING := by rw [hk']; decide
  -- facts about the en-passant square
  have epf : s.ep ≠ 64 → (if s.side = 0 then s.ep / 8 = 5 else s.ep / 8 = 2) ∧ gd s.board s.ep = 0 ∧
      gd s.board (if s.side = 0 then s.ep - 8 else s.ep + 8) = mkPiece (1 - s.side) PAWN := by
    intro he
    obtain ⟨a, b, c⟩ := ep_facts s hwf he
    exact ⟨a, b, by rw [← mkPc1]; exact c⟩
  have ownpawn : gd s.board sq = mkPiece s.side PAWN := by rw [← hkind]; exact o.2
  -- the four shapes
  cases shape with
  | push1 hon hdst hempty hpromo =>
    obtain ⟨r1, r2, r3⟩ := rankI_sqOf _ _ hon
    rw [onBoard_iff] at hon
    have hd64 : m.dst < 64 := by rw [hdst]; unfold Spec.sqOf; omega
    have hdv : (m.dst : Int) = sq + 8 * pawnDr s.side := by rw [hdst, r3]; omega
    have hrank : Spec.rankI m.dst = Spec.rankI sq + pawnDr s.side := by rw [hdst]; exact r1
    refine { len := ok.len, side := ok.side, cast := ok.cast, rights := ok.rights, src := by rw [hsrc]; exact hsq, dst := hd64,
             ne := ?_, own := o', target := fun h => absurd hempty h, promo := ?_, pawn := ?_, ep := ?_, castle := fun h => absurd h.1 hnk }
    · rw [hsrc]; unfold pawnDr at hdv; rcases hs01 with h | h <;> simp [h] at hdv <;> omega
    · refine ⟨?_, ?_⟩
      · rcases hpromo with ⟨_, h | h | h | h⟩ | ⟨_, h⟩ <;> omega
      · intro hp
        refine ⟨hk', ?_⟩
        intro hde
        have hne64 : s.ep ≠ 64 := by omega
        obtain ⟨a, b, c⟩ := epf hne64
        rcases hpromo with ⟨hl, _⟩ | ⟨_, h0⟩
        · unfold pawnLast at hl; unfold Spec.rankI at hl
          rcases hs01 with h | h <;> simp [h] at hl a <;> omega
        · exact hp h0
    · intro _
      rw [hsrc]; unfold pawnDr at hdv
      constructor
      · intro h; simp [h] at hdv; left; omega
      · intro h; simp [h] at hdv; left; omega
    · intro hpe
      exfalso
      have hne64 : s.ep ≠ 64 := by omega
      obtain ⟨a, b, c⟩ := epf hne64
      -- the pushed enemy pawn would stand on the mover's own square
      unfold pawnDr at hdv
      rcases hs01 with h | h
      · simp [h] at hdv a c
        have : s.ep - 8 = sq := by omega
        rw [this, ownpawn, h] at c
        exact absurd c (by decide)
      · simp [h] at hdv a c
        have : s.ep + 8 = sq := by omega
        rw [this, ownpawn, h] at c
        exact absurd c (by decide)
  | push2 hstart hdst hempty hpromo =>
    have hon : Spec.onBoard (Spec.fileI sq) (Spec.rankI sq + 2 * pawnDr s.side) = true := by
      rw [onBoard_iff]; unfold pawnStart at hstart; unfold pawnDr
      rcases hs01 with h | h <;> simp [h] at hstart ⊢ <;> omega
    obtain ⟨r1, r2, r3⟩ := rankI_sqOf _ _ hon
    rw [onBoard_iff] at hon
    have hd64 : m.dst < 64 := by rw [hdst]; unfold Spec.sqOf; omega
    have hdv : (m.dst : Int) = sq + 16 * pawnDr s.side := by rw [hdst, r3]; omega
    refine { len := ok.len, side := ok.side, cast := ok.cast, rights := ok.rights, src := by rw [hsrc]; exact hsq, dst := hd64,
             ne := ?_, own := o', target := fun h => absurd hempty h, promo := ⟨by omega, fun h => absurd hpromo h⟩, pawn := ?_, ep := ?_,
             castle := fun h => absurd h.1 hnk }
    · rw [hsrc]; unfold pawnDr at hdv; rcases hs01 with h | h <;> simp [h] at hdv <;> omega
    · intro _
      rw [hsrc]; unfold pawnDr at hdv; unfold pawnStart at hstart; unfold Spec.rankI at hstart
      constructor
      · intro h; simp [h] at hdv hstart; right; left; omega
      · intro h; simp [h] at hdv hstart; right; left; omega
    · intro hpe
      exfalso
      have hne64 : s.ep ≠ 64 := by omega
      obtain ⟨a, b, c⟩ := epf hne64
      unfold pawnDr at hdv; unfold pawnStart at hstart; unfold Spec.rankI at hstart
      rcases hs01 with h | h <;> simp [h] at hdv hstart a <;> omega
  | capture cf hcf hon hdst henemy hpromo =>
    obtain ⟨r1, r2, r3⟩ := rankI_sqOf _ _ hon
    rw [onBoard_iff] at hon
    have hd64 : m.dst < 64 := by rw [hdst]; unfold Spec.sqOf; omega
    have hdv : (m.dst : Int) = (Spec.rankI sq + pawnDr s.side) * 8 + cf := by rw [hdst, r3]
    have hen := enemy_shape _ _ (ok.codes m.dst) ok.side henemy
    refine { len := ok.len, side := ok.side, cast := ok.cast, rights := ok.rights, src := by rw [hsrc]; exact hsq, dst := hd64,
             ne := ?_, own := o', target := fun _ => hen.2, promo := ?_, pawn := ?_, ep := ?_, castle := fun h => absurd h.1 hnk }
    · rw [hsrc]; unfold pawnDr at hdv; rcases hs01 with h | h <;> simp [h] at hdv <;> omega
    · refine ⟨?_, ?_⟩
      · rcases hpromo with ⟨_, h | h | h | h⟩ | ⟨_, h⟩ <;> omega
      · intro hp
        refine ⟨hk', ?_⟩
        intro hde
        have hne64 : s.ep ≠ 64 := by omega
        obtain ⟨a, b, c⟩ := epf hne64
        rw [← hde] at b
        exact hen.1 b
    · intro _
      rw [hsrc]; unfold pawnDr at hdv
      have hdr : Spec.rankI m.dst = Spec.rankI sq + pawnDr s.side := by rw [hdst]; exact r1
      unfold Spec.rankI pawnDr at hdr
      constructor
      · intro h; simp [h] at hdv hdr; right; right; omega
      · intro h; simp [h] at hdv hdr; right; right; omega
    · intro hpe
      exfalso
      have hne64 : s.ep ≠ 64 := by omega
      obtain ⟨a, b, c⟩ := epf hne64
      rw [← hpe.2] at b
      exact hen.1 b
  | ep cf hcf hon hdst hnot hne64 hde hpromo =>
    obtain ⟨r1, r2, r3⟩ := rankI_sqOf _ _ hon
    rw [onBoard_iff] at hon
    have hd64 : m.dst < 64 := by rw [hdst]; unfold Spec.sqOf; omega
    have hdv : (m.dst : Int) = (Spec.rankI sq + pawnDr s.side) * 8 + cf := by rw [hdst, r3]
    obtain ⟨a, b, c⟩ := epf hne64
    have hfile : Spec.fileI m.dst = cf := by rw [hdst]; exact r2
    have hdr : Spec.rankI m.dst = Spec.rankI sq + pawnDr s.side := by rw [hdst]; exact r1
    refine { len := ok.len, side := ok.side, cast := ok.cast, rights := ok.rights, src := by rw [hsrc]; exact hsq, dst := hd64,
             ne := ?_, own := o', target := ?_, promo := ⟨by omega, fun h => absurd hpromo h⟩, pawn := ?_, ep := ?_,
             castle := fun h => absurd h.1 hnk }
    · rw [hsrc]; unfold pawnDr at hdv; rcases hs01 with h | h <;> simp [h] at hdv <;> omega
    · intro hne; rw [hde] at hne; exact absurd b hne
    · intro _
      rw [hsrc]; unfold pawnDr at hdv
      unfold Spec.rankI pawnDr at hdr
      constructor
      · intro h; simp [h] at hdv hdr; right; right; omega
      · intro h; simp [h] at hdv hdr; right; right; omega
    · intro _
      unfold Spec.fileI at hfile
      unfold pawnDr at hdv
      refine ⟨hne64, ?_, by rw [hde]; exact b, hpromo, ?_, ?_, by rw [hde]; exact c, ?_⟩
      · rw [hsrc]; unfold Spec.fileI at hcf c5; omega
      · rcases hs01 with h | h <;> simp [h] at a <;> omega
      · rcases hs01 with h | h <;> simp [h] at a <;> omega
      · rw [hsrc]; unfold Spec.fileI at hcf
        rcases hs01 with h | h <;> simp [h] at hdv ⊢ <;> omega

end Chess

namespace Chess

theorem notOwn_of_empty (c : Nat) : Spec.isOwn 0 c = false := by simp [Spec.isOwn]
theorem notOwn_of_enemy (pc c : Nat) (h : Spec.isEnemy pc c = true) : Spec.isOwn pc c = false := by
  unfold Spec.isEnemy at h; unfold Spec.isOwn
  simp only [Bool.and_eq_true, decide_eq_true_eq] at h
  simp [h.2]

theorem stepOK_steps (s : Spec.SPos) (ok : PosOK s) (sq : Nat) (hsq : sq < 64)
    (hown : Spec.isOwn (Spec.pcAt s.board sq) s.side = true) (hk : kindOf (gd s.board sq) ≠ PAWN)
    (offs : List (Int × Int)) (hoffs : offs = Spec.knightOffs ∨ offs = Spec.kingOffs)
    (hking : kindOf (gd s.board sq) = KING → offs = Spec.kingOffs)
    (m : Spec.SMove) (hm : m ∈ Spec.stepMoves s sq offs) : StepOK s m := by
  obtain ⟨d, hd, hon, rfl, hnot⟩ := mem_stepMoves s sq offs m hm
  have hshift := sqOf_shift sq hsq d.1 d.2 hon
  have hlt := sqOf_lt _ _ hon
  apply stepOK_simple s _ ok hsq hlt ?_ hown hnot rfl hk ?_
  · show sq ≠ Spec.sqOf _ _
    intro he
    rw [← he] at hshift
    rcases hoffs with h | h <;> subst h <;> simp [Spec.knightOffs, Spec.kingOffs] at hd <;>
      rcases hd with rfl | rfl | rfl | rfl | rfl | rfl | rfl | rfl <;> simp at hshift <;> omega
  · rintro ⟨hkk, hc⟩
    have := hking hkk
    subst this
    simp [Spec.kingOffs] at hd
    have hc' : Spec.sqOf (Spec.fileI sq + d.1) (Spec.rankI sq + d.2) = sq + 2 ∨ Spec.sqOf (Spec.fileI sq + d.1) (Spec.rankI sq + d.2) + 2 = sq := hc
    generalize Spec.sqOf (Spec.fileI sq + d.1) (Spec.rankI sq + d.2) = t at hshift hc'
    rcases hd with rfl | rfl | rfl | rfl | rfl | rfl | rfl | rfl <;> simp at hshift <;> omega

theorem mem_slideMoves (s : Spec.SPos) (sq : Nat) (dirs : List (Int × Int)) (m : Spec.SMove) (h : m ∈ Spec.slideMoves s sq dirs) :
    ∃ d, d ∈ dirs ∧ ∃ t, t ∈ Spec.slide s.board s.side d 7 (Spec.fileI sq) (Spec.rankI sq) ∧ m = ⟨sq, t, 0⟩ := by
  unfold Spec.slideMoves at h
  simp only [List.mem_flatMap, List.mem_map] at h
  obtain ⟨d, hd, t, ht, hm⟩ := h
  exact ⟨d, hd, t, ht, hm.symm⟩

theorem stepOK_slides (s : Spec.SPos) (ok : PosOK s) (sq : Nat) (hsq : sq < 64)
    (hown : Spec.isOwn (Spec.pcAt s.board sq) s.side = true) (hk : kindOf (gd s.board sq) ≠ PAWN) (hnk : kindOf (gd s.board sq) ≠ KING)
    (dirs : List (Int × Int)) (hdirs : ∀ d, d ∈ dirs → d ∈ Spec.diagDirs ++ Spec.orthoDirs)
    (m : Spec.SMove) (hm : m ∈ Spec.slideMoves s sq dirs) : StepOK s m := by
  obtain ⟨d, hd, t, ht, rfl⟩ := mem_slideMoves s sq dirs m hm
  obtain ⟨j, j1, j2, hon, rfl, htar⟩ := mem_slide _ _ _ _ _ _ _ ht
  have hlt := sqOf_lt _ _ hon
  obtain ⟨c1, c2, c3, c4, c5⟩ := coords sq hsq
  obtain ⟨_, _, r3⟩ := rankI_sqOf _ _ hon
  have hnot : Spec.isOwn (Spec.pcAt s.board (Spec.sqOf (Spec.fileI sq + ↑j * d.1) (Spec.rankI sq + ↑j * d.2))) s.side = false := by
    rcases htar with h | h
    · rw [h]; exact notOwn_of_empty _
    · exact notOwn_of_enemy _ _ h
  apply stepOK_simple s _ ok hsq hlt ?_ hown hnot rfl hk (fun h => hnk h.1)
  show sq ≠ Spec.sqOf _ _
  intro he
  rw [← he] at r3
  have hdd := hdirs d hd
  simp [Spec.diagDirs, Spec.orthoDirs] at hdd
  rcases hdd with rfl | rfl | rfl | rfl | rfl | rfl | rfl | rfl <;> simp at r3 <;> omega

end Chess

namespace Chess

theorem kindOfPc_eq' (pc : Nat) : Spec.kindOfPc pc = kindOf pc := rfl

/-- every pseudo-legal move of the rules in a well-formed position has the StepOK shape -/
theorem stepOK_of_pseudo (s : Spec.SPos) (hwf : Spec.wf s = true) (m : Spec.SMove) (hm : m ∈ Spec.pseudoMoves s) : StepOK s m := by
  have ok := posOK_of_wf s hwf
  unfold Spec.pseudoMoves at hm
  simp only [List.mem_append, List.mem_flatMap, List.mem_range] at hm
  rcases hm with ⟨sq, hsq, hmm⟩ | hc
  · by_cases hown : Spec.isOwn (Spec.pcAt s.board sq) s.side = true
    · rw [if_pos hown] at hmm
      have hkk : Spec.kindOfPc (Spec.pcAt s.board sq) = kindOf (gd s.board sq) := rfl
      rw [hkk] at hmm
      have hk6 : kindOf (gd s.board sq) ≤ 6 := kindOf_le6 _
      have hcases : kindOf (gd s.board sq) = 0 ∨ kindOf (gd s.board sq) = 1 ∨ kindOf (gd s.board sq) = 2 ∨ kindOf (gd s.board sq) = 3 ∨
          kindOf (gd s.board sq) = 4 ∨ kindOf (gd s.board sq) = 5 ∨ kindOf (gd s.board sq) = 6 := by omega
      rcases hcases with h | h | h | h | h | h | h <;> rw [h] at hmm <;> simp only [] at hmm
      · simp at hmm
      · exact stepOK_pawn s hwf ok sq hsq hown h m hmm
      · exact stepOK_steps s ok sq hsq hown (by rw [h]; decide) _ (Or.inl rfl) (by rw [h]; intro hh; exact absurd hh (by decide)) m hmm
      · exact stepOK_slides s ok sq hsq hown (by rw [h]; decide) (by rw [h]; decide) _ (by intro d hd; simp [hd]) m hmm
      · exact stepOK_slides s ok sq hsq hown (by rw [h]; decide) (by rw [h]; decide) _ (by intro d hd; simp [hd]) m hmm
      · exact stepOK_slides s ok sq hsq hown (by rw [h]; decide) (by rw [h]; decide) _ (by intro d hd; exact hd) m hmm
      · exact stepOK_steps s ok sq hsq hown (by rw [h]; decide) _ (Or.inr rfl) (fun _ => rfl) m hmm
    · rw [if_neg hown] at hmm; simp at hmm
  · exact stepOK_castle s m ok hc

theorem stepOK_of_legal (s : Spec.SPos) (hwf : Spec.wf s = true) (m : Spec.SMove) (hm : m ∈ Spec.legalMoves s) : StepOK s m := by
  unfold Spec.legalMoves at hm
  exact stepOK_of_pseudo s hwf m (List.mem_filter.1 hm).1

end Chess
