/-
  Lemmas/MagicCheck.lean — the per-square finite obligations of C11 (each discharged by `decide +kernel` in
  its own module under Props/C11gen/), and the lemma turning a passed check into the statement for ALL 2^64 occupancies.
-/
import ChessVerif.Lemmas.Magic
import ChessVerif.Spec.Attacks
namespace Chess

open Spec in
theorem walk_congr (l : List Nat) (o o' : BB) (h : ∀ s, s ∈ l.dropLast → o.testBit s = o'.testBit s) :
    walk l o = walk l o' := by
  induction l with
  | nil => simp [walk]
  | cons s rest ih =>
    cases rest with
    | nil => simp [walk]
    | cons t rest' =>
      have hs : o.testBit s = o'.testBit s := h s (by simp [List.dropLast])
      have ih' := ih (fun x hx => h x (by simp only [List.dropLast]; exact List.mem_cons_of_mem _ hx))
      simp only [walk] at ih' ⊢
      rw [hs, ih']

open Spec in
theorem walkDirs_congr (dirs : List (Int × Int)) (sq : Nat) (o o' : BB)
    (h : ∀ d, d ∈ dirs → ∀ s, s ∈ (raySquares sq d.1 d.2).dropLast → o.testBit s = o'.testBit s) :
    walkDirs dirs sq o = walkDirs dirs sq o' := by
  unfold walkDirs
  generalize (0 : BB) = acc
  induction dirs generalizing acc with
  | nil => rfl
  | cons d ds ih =>
    simp only [List.foldl]
    rw [walk_congr _ o o' (h d (by simp))]
    exact ih (fun d' hd' => h d' (List.mem_cons_of_mem _ hd')) _

/-- every square of a ray except its last one lies in the mask -/
def maskCovers (dirs : List (Int × Int)) (mask : BB) (sq : Nat) : Bool :=
  dirs.all (fun d => (Spec.raySquares sq d.1 d.2).dropLast.all (fun s => mask.testBit s))

theorem walkDirs_mask (dirs : List (Int × Int)) (mask : BB) (sq : Nat) (occ : BB)
    (h : maskCovers dirs mask sq = true) : Spec.walkDirs dirs sq (occ &&& mask) = Spec.walkDirs dirs sq occ := by
  apply walkDirs_congr
  intro d hd s hs
  simp only [maskCovers, List.all_eq_true] at h
  have := h d hd s hs
  simp [Nat.testBit_and, this]

def rookSquareOK (sq : Nat) : Bool :=
  decide ((bitsOf (rookMask sq)).length ≤ rookBits sq) && decide (rookMask sq < two64) &&
  maskCovers Spec.rookDirs (rookMask sq) sq &&
  checkFillK (bitsOf (rookMask sq)) (rookMagic sq) (rookBits sq) (rookAttacksSlow sq) (rookBits sq) 0
    (Trie.full allSquares (rookBits sq)) (fun _ => true) &&
  forallSubsets (fun s => rookAttacksSlow sq s == Spec.rookWalk sq s) (bitsOf (rookMask sq)) 0

def bishopSquareOK (sq : Nat) : Bool :=
  decide ((bitsOf (bishopMask sq)).length ≤ bishopBits sq) && decide (bishopMask sq < two64) &&
  maskCovers Spec.bishopDirs (bishopMask sq) sq &&
  checkFillK (bitsOf (bishopMask sq)) (bishopMagic sq) (bishopBits sq) (bishopAttacksSlow sq) (bishopBits sq) 0
    (Trie.full allSquares (bishopBits sq)) (fun _ => true) &&
  forallSubsets (fun s => bishopAttacksSlow sq s == Spec.bishopWalk sq s) (bitsOf (bishopMask sq)) 0

theorem rookTables_getD (sq : Nat) (h : sq < 64) : rookTables.getD sq (.leaf 0) = rookTableAt sq := by
  simp [rookTables, Array.getD, h]

theorem bishopTables_getD (sq : Nat) (h : sq < 64) : bishopTables.getD sq (.leaf 0) = bishopTableAt sq := by
  simp [bishopTables, Array.getD, h]

theorem rook_of_ok (sq : Nat) (hs : sq < 64) (h : rookSquareOK sq = true) (occ : BB) :
    rookAttack sq occ = Spec.rookWalk sq occ := by
  simp only [rookSquareOK, Bool.and_eq_true, decide_eq_true_eq] at h
  obtain ⟨⟨⟨⟨hlen, hm⟩, hcov⟩, hfill⟩, hslow⟩ := h
  have ht := table_correct (rookMagic sq) (rookBits sq) (rookAttacksSlow sq) (rookMask sq) hm hlen hfill occ
  have hsl := forallSubsets_sound _ _ _ hslow occ
  rw [restrict_bitsOf _ _ hm] at hsl
  simp only [Nat.zero_or, beq_iff_eq] at hsl
  unfold rookAttack
  rw [rookTables_getD sq hs]
  show (rookTableAt sq).get (rookBits sq) (magicKey (occ &&& rookMask sq) (rookMagic sq) (rookBits sq)) = _
  unfold rookTableAt
  rw [ht, hsl]
  exact walkDirs_mask _ _ _ _ hcov

theorem bishop_of_ok (sq : Nat) (hs : sq < 64) (h : bishopSquareOK sq = true) (occ : BB) :
    bishopAttack sq occ = Spec.bishopWalk sq occ := by
  simp only [bishopSquareOK, Bool.and_eq_true, decide_eq_true_eq] at h
  obtain ⟨⟨⟨⟨hlen, hm⟩, hcov⟩, hfill⟩, hslow⟩ := h
  have ht := table_correct (bishopMagic sq) (bishopBits sq) (bishopAttacksSlow sq) (bishopMask sq) hm hlen hfill occ
  have hsl := forallSubsets_sound _ _ _ hslow occ
  rw [restrict_bitsOf _ _ hm] at hsl
  simp only [Nat.zero_or, beq_iff_eq] at hsl
  unfold bishopAttack
  rw [bishopTables_getD sq hs]
  show (bishopTableAt sq).get (bishopBits sq) (magicKey (occ &&& bishopMask sq) (bishopMagic sq) (bishopBits sq)) = _
  unfold bishopTableAt
  rw [ht, hsl]
  exact walkDirs_mask _ _ _ _ hcov

end Chess
