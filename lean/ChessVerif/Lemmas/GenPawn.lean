/-
  Lemmas/GenPawn.lean — what the seven groups of `generate_pawn_moves` contain: every element is the code of (from, to, promotion)
  with a pawn of the given set on `from`, the group's offset between the squares, a promotion piece exactly in the three groups of
  the seventh-rank pawns, and no wrap-around of the board edge.
-/
import ChessVerif.Lemmas.GenBasics
import ChessVerif.Model.Movegen
namespace Chess

def pawnOff (idx : Nat) : Nat := if idx = 0 ∨ idx = 3 then 9 else if idx = 1 ∨ idx = 4 then 7 else if idx = 6 then 16 else 8

/-- the description of one generated pawn move: group index, squares, promotion kind -/
structure PawnMv (side : Nat) (pawns empty pm cm : BB) (m idx f t k : Nat) : Prop where
  idx7 : idx < 7
  mv : IsMv m f t k
  pawn : pawns.testBit f = true
  off : if side = 0 then t = f + pawnOff idx else f = t + pawnOff idx
  promo : if idx < 3 then (k = 5 ∨ k = 4 ∨ k = 3 ∨ k = 2) ∧ f / 8 = (if side = 0 then 6 else 1)
          else k = 0 ∧ f / 8 ≠ (if side = 0 then 6 else 1)
  file9 : pawnOff idx = 9 → f % 8 ≠ (if side = 0 then 7 else 0)
  file7 : pawnOff idx = 7 → f % 8 ≠ (if side = 0 then 0 else 7)
  dbl : idx = 6 → f / 8 = (if side = 0 then 1 else 6)
  cap : (pawnOff idx = 9 ∨ pawnOff idx = 7) → cm.testBit t = true
  push : (pawnOff idx = 8 ∨ pawnOff idx = 16) → empty.testBit t = true ∧ pm.testBit t = true
  mid : idx = 6 → empty.testBit (if side = 0 then t - 8 else t + 8) = true

theorem mem_promoMoves (f t m : Nat) (h : m ∈ promoMoves f t) :
    ∃ k, (k = 5 ∨ k = 4 ∨ k = 3 ∨ k = 2) ∧ m = mkPromotion f t k := by
  unfold promoMoves at h
  simp only [List.mem_cons, List.not_mem_nil, or_false] at h
  rcases h with rfl | rfl | rfl | rfl
  · exact ⟨5, by simp, rfl⟩
  · exact ⟨4, by simp, rfl⟩
  · exact ⟨3, by simp, rfl⟩
  · exact ⟨2, by simp, rfl⟩

theorem rank_of_and (x : BB) (r j : Nat) (hr : r < 8) (hj : j < 64) (h : (x &&& rankBB r).testBit j = true) : x.testBit j = true ∧ j / 8 = r := by
  refine ⟨and_testBit_left _ _ _ h, ?_⟩
  have := and_testBit_right _ _ _ h
  rw [rankBB_testBit r j hr hj] at this
  simpa using this

theorem rank_of_andnot (x : BB) (r j : Nat) (hr : r < 8) (hj : j < 64) (h : (x &&& bnot (rankBB r)).testBit j = true) : x.testBit j = true ∧ j / 8 ≠ r := by
  refine ⟨and_testBit_left _ _ _ h, ?_⟩
  have := and_testBit_right _ _ _ h
  rw [bnot_testBit _ _ hj, rankBB_testBit r j hr hj] at this
  simpa using this


/-- the seven groups of `generate_pawn_moves`, in the order the engine emits them -/
def pawnGroup (side : Nat) (pawns empty pushMask captureMask : BB) (i : Nat) : List Nat :=
  let UP := if side = 0 then Dir.N else Dir.S
  let UR := if side = 0 then Dir.NE else Dir.SW
  let UL := if side = 0 then Dir.NW else Dir.SE
  let rank3 := if side = 0 then rankBB 2 else rankBB 5
  let rank7 := if side = 0 then rankBB 6 else rankBB 1
  let back (d : Nat) (sq : Nat) : Nat := if side = 0 then sq - d else sq + d
  let on7 := pawns &&& rank7
  let not7 := pawns &&& bnot rank7
  let pushed := shift UP not7 &&& empty
  match i with
  | 0 => (bitsOf (shift UR on7 &&& captureMask)).flatMap (fun sq => promoMoves (back 9 sq) sq)
  | 1 => (bitsOf (shift UL on7 &&& captureMask)).flatMap (fun sq => promoMoves (back 7 sq) sq)
  | 2 => (bitsOf (shift UP on7 &&& pushMask &&& empty)).flatMap (fun sq => promoMoves (back 8 sq) sq)
  | 3 => (bitsOf (shift UR not7 &&& captureMask)).map (fun sq => mkMove (back 9 sq) sq)
  | 4 => (bitsOf (shift UL not7 &&& captureMask)).map (fun sq => mkMove (back 7 sq) sq)
  | 5 => (bitsOf (pushed &&& pushMask)).map (fun sq => mkMove (back 8 sq) sq)
  | 6 => (bitsOf (shift UP (pushed &&& rank3) &&& pushMask &&& empty)).map (fun sq => mkMove (back 16 sq) sq)
  | _ => []

theorem genPawnMoves_groups (side : Nat) (pawns empty pm cm : BB) :
    genPawnMoves side pawns empty pm cm = [0, 1, 2, 3, 4, 5, 6].flatMap (pawnGroup side pawns empty pm cm) := by
  unfold genPawnMoves
  simp only [List.flatMap_cons, List.flatMap_nil, List.append_nil, pawnGroup, List.append_assoc]

theorem mem_pawnGroup_white (pawns empty pm cm : BB) (m i : Nat)
    (h : m ∈ pawnGroup 0 pawns empty pm cm i) : ∃ f t k, PawnMv 0 pawns empty pm cm m i f t k := by
  have h10 : ¬ ((1 : Nat) = 0) := by decide
  match i, h with
  | 0, h =>
    simp only [pawnGroup, h10, if_true, if_false, List.mem_flatMap, List.mem_map, mem_bitsOf] at h
    obtain ⟨sq, ⟨hsq, hb⟩, hm⟩ := h
    obtain ⟨k, hk, rfl⟩ := mem_promoMoves _ _ _ hm
    have h1 := and_testBit_left _ _ _ hb
    obtain ⟨_, g9, hsrc⟩ := shift_up_testBit .NE 9 (by simp) _ sq h1
    have hfile := shift_NE_file _ sq h1
    obtain ⟨hpw, hr⟩ := rank_of_and pawns 6 (sq - 9) (by decide) (by omega) hsrc
    exact ⟨sq - 9, sq, k, by decide, ⟨rfl, by omega, hsq, by omega⟩, hpw, by simp [pawnOff]; omega, by simp; exact ⟨hk, hr⟩, by intro _; simpa using hfile,
      by simp [pawnOff], by simp, by intro _; exact and_testBit_right _ _ _ hb, by simp [pawnOff], by simp⟩
  | 1, h =>
    simp only [pawnGroup, h10, if_true, if_false, List.mem_flatMap, List.mem_map, mem_bitsOf] at h
    obtain ⟨sq, ⟨hsq, hb⟩, hm⟩ := h
    obtain ⟨k, hk, rfl⟩ := mem_promoMoves _ _ _ hm
    have h1 := and_testBit_left _ _ _ hb
    obtain ⟨_, g7, hsrc⟩ := shift_up_testBit .NW 7 (by simp) _ sq h1
    have hfile := shift_NW_file _ sq h1
    obtain ⟨hpw, hr⟩ := rank_of_and pawns 6 (sq - 7) (by decide) (by omega) hsrc
    exact ⟨sq - 7, sq, k, by decide, ⟨rfl, by omega, hsq, by omega⟩, hpw, by simp [pawnOff]; omega, by simp; exact ⟨hk, hr⟩, by simp [pawnOff],
      by intro _; simpa using hfile, by simp, by intro _; exact and_testBit_right _ _ _ hb, by simp [pawnOff], by simp⟩
  | 2, h =>
    simp only [pawnGroup, h10, if_true, if_false, List.mem_flatMap, List.mem_map, mem_bitsOf] at h
    obtain ⟨sq, ⟨hsq, hb⟩, hm⟩ := h
    obtain ⟨k, hk, rfl⟩ := mem_promoMoves _ _ _ hm
    have h1 := and_testBit_left _ _ _ (and_testBit_left _ _ _ hb)
    obtain ⟨_, g8, hsrc⟩ := shift_up_testBit .N 8 (by simp) _ sq h1
    obtain ⟨hpw, hr⟩ := rank_of_and pawns 6 (sq - 8) (by decide) (by omega) hsrc
    exact ⟨sq - 8, sq, k, by decide, ⟨rfl, by omega, hsq, by omega⟩, hpw, by simp [pawnOff]; omega, by simp; exact ⟨hk, hr⟩, by simp [pawnOff],
      by simp [pawnOff], by simp, by simp [pawnOff], by intro _; exact ⟨and_testBit_right _ _ _ hb, and_testBit_right _ _ _ (and_testBit_left _ _ _ hb)⟩, by simp⟩
  | 3, h =>
    simp only [pawnGroup, h10, if_true, if_false, List.mem_flatMap, List.mem_map, mem_bitsOf] at h
    obtain ⟨sq, ⟨hsq, hb⟩, rfl⟩ := h
    have h1 := and_testBit_left _ _ _ hb
    obtain ⟨_, g9, hsrc⟩ := shift_up_testBit .NE 9 (by simp) _ sq h1
    have hfile := shift_NE_file _ sq h1
    obtain ⟨hpw, hr⟩ := rank_of_andnot pawns 6 (sq - 9) (by decide) (by omega) hsrc
    exact ⟨sq - 9, sq, 0, by decide, IsMv.ofMove _ _ (by omega) hsq, hpw, by simp [pawnOff]; omega, by simp; exact hr, by intro _; simpa using hfile,
      by simp [pawnOff], by simp, by intro _; exact and_testBit_right _ _ _ hb, by simp [pawnOff], by simp⟩
  | 4, h =>
    simp only [pawnGroup, h10, if_true, if_false, List.mem_flatMap, List.mem_map, mem_bitsOf] at h
    obtain ⟨sq, ⟨hsq, hb⟩, rfl⟩ := h
    have h1 := and_testBit_left _ _ _ hb
    obtain ⟨_, g7, hsrc⟩ := shift_up_testBit .NW 7 (by simp) _ sq h1
    have hfile := shift_NW_file _ sq h1
    obtain ⟨hpw, hr⟩ := rank_of_andnot pawns 6 (sq - 7) (by decide) (by omega) hsrc
    exact ⟨sq - 7, sq, 0, by decide, IsMv.ofMove _ _ (by omega) hsq, hpw, by simp [pawnOff]; omega, by simp; exact hr, by simp [pawnOff],
      by intro _; simpa using hfile, by simp, by intro _; exact and_testBit_right _ _ _ hb, by simp [pawnOff], by simp⟩
  | 5, h =>
    simp only [pawnGroup, h10, if_true, if_false, List.mem_flatMap, List.mem_map, mem_bitsOf] at h
    obtain ⟨sq, ⟨hsq, hb⟩, rfl⟩ := h
    have h1 := and_testBit_left _ _ _ (and_testBit_left _ _ _ hb)
    obtain ⟨_, g8, hsrc⟩ := shift_up_testBit .N 8 (by simp) _ sq h1
    obtain ⟨hpw, hr⟩ := rank_of_andnot pawns 6 (sq - 8) (by decide) (by omega) hsrc
    exact ⟨sq - 8, sq, 0, by decide, IsMv.ofMove _ _ (by omega) hsq, hpw, by simp [pawnOff]; omega, by simp; exact hr, by simp [pawnOff],
      by simp [pawnOff], by simp, by simp [pawnOff], by intro _; exact ⟨and_testBit_right _ _ _ (and_testBit_left _ _ _ hb), and_testBit_right _ _ _ hb⟩, by simp⟩
  | 6, h =>
    simp only [pawnGroup, h10, if_true, if_false, List.mem_flatMap, List.mem_map, mem_bitsOf] at h
    obtain ⟨sq, ⟨hsq, hb⟩, rfl⟩ := h
    have h1 := and_testBit_left _ _ _ (and_testBit_left _ _ _ hb)
    obtain ⟨_, g8, hmid⟩ := shift_up_testBit .N 8 (by simp) _ sq h1
    obtain ⟨hpushed, hr3⟩ := rank_of_and _ 2 (sq - 8) (by decide) (by omega) hmid
    have h2 := and_testBit_left _ _ _ hpushed
    obtain ⟨_, g8', hsrc⟩ := shift_up_testBit .N 8 (by simp) _ (sq - 8) h2
    obtain ⟨hpw, hr⟩ := rank_of_andnot pawns 6 (sq - 8 - 8) (by decide) (by omega) hsrc
    have e : sq - 8 - 8 = sq - 16 := by omega
    rw [e] at hpw hr
    exact ⟨sq - 16, sq, 0, by decide, IsMv.ofMove _ _ (by omega) hsq, hpw, by simp [pawnOff]; omega, by simp; exact hr, by simp [pawnOff],
      by simp [pawnOff], by intro _; simp; omega, by simp [pawnOff], by intro _; exact ⟨and_testBit_right _ _ _ hb, and_testBit_right _ _ _ (and_testBit_left _ _ _ hb)⟩, by intro _; simp; exact and_testBit_right _ _ _ hpushed⟩
  | (n + 7), h => simp [pawnGroup] at h

theorem mem_pawnGroup_black (pawns empty pm cm : BB) (hp : ∀ j, pawns.testBit j = true → j < 64) (m i : Nat)
    (h : m ∈ pawnGroup 1 pawns empty pm cm i) : ∃ f t k, PawnMv 1 pawns empty pm cm m i f t k := by
  have h10 : ¬ ((1 : Nat) = 0) := by decide
  match i, h with
  | 0, h =>
    simp only [pawnGroup, h10, if_true, if_false, List.mem_flatMap, List.mem_map, mem_bitsOf] at h
    obtain ⟨sq, ⟨hsq, hb⟩, hm⟩ := h
    obtain ⟨k, hk, rfl⟩ := mem_promoMoves _ _ _ hm
    have h1 := and_testBit_left _ _ _ hb
    have hsrc := shift_down_testBit .SW 9 (by simp) _ sq h1
    have hlt := hp _ (and_testBit_left _ _ _ hsrc)
    have hfile := shift_SW_file _ sq hlt h1
    obtain ⟨hpw, hr⟩ := rank_of_and pawns 1 (sq + 9) (by decide) hlt hsrc
    exact ⟨sq + 9, sq, k, by decide, ⟨rfl, hlt, hsq, by omega⟩, hpw, by simp [pawnOff], by simp; exact ⟨hk, hr⟩, by intro _; simpa using hfile,
      by simp [pawnOff], by simp, by intro _; exact and_testBit_right _ _ _ hb, by simp [pawnOff], by simp⟩
  | 1, h =>
    simp only [pawnGroup, h10, if_true, if_false, List.mem_flatMap, List.mem_map, mem_bitsOf] at h
    obtain ⟨sq, ⟨hsq, hb⟩, hm⟩ := h
    obtain ⟨k, hk, rfl⟩ := mem_promoMoves _ _ _ hm
    have h1 := and_testBit_left _ _ _ hb
    have hsrc := shift_down_testBit .SE 7 (by simp) _ sq h1
    have hlt := hp _ (and_testBit_left _ _ _ hsrc)
    have hfile := shift_SE_file _ sq hlt h1
    obtain ⟨hpw, hr⟩ := rank_of_and pawns 1 (sq + 7) (by decide) hlt hsrc
    exact ⟨sq + 7, sq, k, by decide, ⟨rfl, hlt, hsq, by omega⟩, hpw, by simp [pawnOff], by simp; exact ⟨hk, hr⟩, by simp [pawnOff],
      by intro _; simpa using hfile, by simp, by intro _; exact and_testBit_right _ _ _ hb, by simp [pawnOff], by simp⟩
  | 2, h =>
    simp only [pawnGroup, h10, if_true, if_false, List.mem_flatMap, List.mem_map, mem_bitsOf] at h
    obtain ⟨sq, ⟨hsq, hb⟩, hm⟩ := h
    obtain ⟨k, hk, rfl⟩ := mem_promoMoves _ _ _ hm
    have h1 := and_testBit_left _ _ _ (and_testBit_left _ _ _ hb)
    have hsrc := shift_down_testBit .S 8 (by simp) _ sq h1
    have hlt := hp _ (and_testBit_left _ _ _ hsrc)
    obtain ⟨hpw, hr⟩ := rank_of_and pawns 1 (sq + 8) (by decide) hlt hsrc
    exact ⟨sq + 8, sq, k, by decide, ⟨rfl, hlt, hsq, by omega⟩, hpw, by simp [pawnOff], by simp; exact ⟨hk, by omega⟩, by simp [pawnOff],
      by simp [pawnOff], by simp, by simp [pawnOff], by intro _; exact ⟨and_testBit_right _ _ _ hb, and_testBit_right _ _ _ (and_testBit_left _ _ _ hb)⟩, by simp⟩
  | 3, h =>
    simp only [pawnGroup, h10, if_true, if_false, List.mem_flatMap, List.mem_map, mem_bitsOf] at h
    obtain ⟨sq, ⟨hsq, hb⟩, rfl⟩ := h
    have h1 := and_testBit_left _ _ _ hb
    have hsrc := shift_down_testBit .SW 9 (by simp) _ sq h1
    have hlt := hp _ (and_testBit_left _ _ _ hsrc)
    have hfile := shift_SW_file _ sq hlt h1
    obtain ⟨hpw, hr⟩ := rank_of_andnot pawns 1 (sq + 9) (by decide) hlt hsrc
    exact ⟨sq + 9, sq, 0, by decide, IsMv.ofMove _ _ hlt hsq, hpw, by simp [pawnOff], by simp; exact hr, by intro _; simpa using hfile,
      by simp [pawnOff], by simp, by intro _; exact and_testBit_right _ _ _ hb, by simp [pawnOff], by simp⟩
  | 4, h =>
    simp only [pawnGroup, h10, if_true, if_false, List.mem_flatMap, List.mem_map, mem_bitsOf] at h
    obtain ⟨sq, ⟨hsq, hb⟩, rfl⟩ := h
    have h1 := and_testBit_left _ _ _ hb
    have hsrc := shift_down_testBit .SE 7 (by simp) _ sq h1
    have hlt := hp _ (and_testBit_left _ _ _ hsrc)
    have hfile := shift_SE_file _ sq hlt h1
    obtain ⟨hpw, hr⟩ := rank_of_andnot pawns 1 (sq + 7) (by decide) hlt hsrc
    exact ⟨sq + 7, sq, 0, by decide, IsMv.ofMove _ _ hlt hsq, hpw, by simp [pawnOff], by simp; exact hr, by simp [pawnOff],
      by intro _; simpa using hfile, by simp, by intro _; exact and_testBit_right _ _ _ hb, by simp [pawnOff], by simp⟩
  | 5, h =>
    simp only [pawnGroup, h10, if_true, if_false, List.mem_flatMap, List.mem_map, mem_bitsOf] at h
    obtain ⟨sq, ⟨hsq, hb⟩, rfl⟩ := h
    have h1 := and_testBit_left _ _ _ (and_testBit_left _ _ _ hb)
    have hsrc := shift_down_testBit .S 8 (by simp) _ sq h1
    have hlt := hp _ (and_testBit_left _ _ _ hsrc)
    obtain ⟨hpw, hr⟩ := rank_of_andnot pawns 1 (sq + 8) (by decide) hlt hsrc
    exact ⟨sq + 8, sq, 0, by decide, IsMv.ofMove _ _ hlt hsq, hpw, by simp [pawnOff], by simp; omega, by simp [pawnOff],
      by simp [pawnOff], by simp, by simp [pawnOff], by intro _; exact ⟨and_testBit_right _ _ _ (and_testBit_left _ _ _ hb), and_testBit_right _ _ _ hb⟩, by simp⟩
  | 6, h =>
    simp only [pawnGroup, h10, if_true, if_false, List.mem_flatMap, List.mem_map, mem_bitsOf] at h
    obtain ⟨sq, ⟨hsq, hb⟩, rfl⟩ := h
    have h1 := and_testBit_left _ _ _ (and_testBit_left _ _ _ hb)
    have hmid := shift_down_testBit .S 8 (by simp) _ sq h1
    have hpushed0 := and_testBit_left _ _ _ hmid
    have h2 := and_testBit_left _ _ _ hpushed0
    have hsrc := shift_down_testBit .S 8 (by simp) _ (sq + 8) h2
    have hlt := hp _ (and_testBit_left _ _ _ hsrc)
    obtain ⟨_, hr3⟩ := rank_of_and _ 5 (sq + 8) (by decide) (by omega) hmid
    obtain ⟨hpw, hr⟩ := rank_of_andnot pawns 1 (sq + 8 + 8) (by decide) hlt hsrc
    have e : sq + 8 + 8 = sq + 16 := by omega
    rw [e] at hpw hr hlt
    exact ⟨sq + 16, sq, 0, by decide, IsMv.ofMove _ _ hlt hsq, hpw, by simp [pawnOff], by simp; exact hr, by simp [pawnOff],
      by simp [pawnOff], by intro _; simp; omega, by simp [pawnOff], by intro _; exact ⟨and_testBit_right _ _ _ hb, and_testBit_right _ _ _ (and_testBit_left _ _ _ hb)⟩, by intro _; simp; exact and_testBit_right _ _ _ hpushed0⟩
  | (n + 7), h => simp [pawnGroup] at h

theorem mem_pawnGroup (side : Nat) (hs : side ≤ 1) (pawns empty pm cm : BB) (hp : ∀ j, pawns.testBit j = true → j < 64) (m i : Nat)
    (h : m ∈ pawnGroup side pawns empty pm cm i) : ∃ f t k, PawnMv side pawns empty pm cm m i f t k := by
  have : side = 0 ∨ side = 1 := by omega
  rcases this with rfl | rfl
  · exact mem_pawnGroup_white pawns empty pm cm m i h
  · exact mem_pawnGroup_black pawns empty pm cm hp m i h

end Chess

namespace Chess

/-- the bitboard of target squares group i iterates over -/
def pawnBits (side : Nat) (pawns empty pushMask captureMask : BB) (i : Nat) : BB :=
  let UP := if side = 0 then Dir.N else Dir.S
  let UR := if side = 0 then Dir.NE else Dir.SW
  let UL := if side = 0 then Dir.NW else Dir.SE
  let rank3 := if side = 0 then rankBB 2 else rankBB 5
  let rank7 := if side = 0 then rankBB 6 else rankBB 1
  let on7 := pawns &&& rank7
  let not7 := pawns &&& bnot rank7
  let pushed := shift UP not7 &&& empty
  match i with
  | 0 => shift UR on7 &&& captureMask
  | 1 => shift UL on7 &&& captureMask
  | 2 => shift UP on7 &&& pushMask &&& empty
  | 3 => shift UR not7 &&& captureMask
  | 4 => shift UL not7 &&& captureMask
  | 5 => pushed &&& pushMask
  | 6 => shift UP (pushed &&& rank3) &&& pushMask &&& empty
  | _ => 0

def pawnBack (side i sq : Nat) : Nat := if side = 0 then sq - pawnOff i else sq + pawnOff i

theorem pawnGroup_eq (side : Nat) (pawns empty pm cm : BB) (i : Nat) (hi : i < 7) :
    pawnGroup side pawns empty pm cm i =
      if i < 3 then (bitsOf (pawnBits side pawns empty pm cm i)).flatMap (fun sq => promoMoves (pawnBack side i sq) sq)
      else (bitsOf (pawnBits side pawns empty pm cm i)).map (fun sq => mkMove (pawnBack side i sq) sq) := by
  have : i = 0 ∨ i = 1 ∨ i = 2 ∨ i = 3 ∨ i = 4 ∨ i = 5 ∨ i = 6 := by omega
  rcases this with rfl | rfl | rfl | rfl | rfl | rfl | rfl <;> simp [pawnGroup, pawnBits, pawnBack, pawnOff]

/-- the origin square of a generated pawn move is on the board -/
theorem pawnBack_lt (side : Nat) (hs : side ≤ 1) (pawns empty pm cm : BB) (hp : ∀ j, pawns.testBit j = true → j < 64) (i : Nat) (hi : i < 7) (sq : Nat)
    (h : sq ∈ bitsOf (pawnBits side pawns empty pm cm i)) : pawnBack side i sq < 64 := by
  rw [mem_bitsOf] at h
  have hs01 : side = 0 ∨ side = 1 := by omega
  rcases hs01 with rfl | rfl
  · unfold pawnBack; rw [if_pos rfl]; omega
  · unfold pawnBack; rw [if_neg (by decide)]
    obtain ⟨hsq, hb⟩ := h
    have h10 : ¬ ((1 : Nat) = 0) := by decide
    have : i = 0 ∨ i = 1 ∨ i = 2 ∨ i = 3 ∨ i = 4 ∨ i = 5 ∨ i = 6 := by omega
    rcases this with rfl | rfl | rfl | rfl | rfl | rfl | rfl <;> simp only [pawnBits, h10, if_false] at hb
    · exact hp _ (and_testBit_left _ _ _ (shift_down_testBit .SW 9 (by simp) _ sq (and_testBit_left _ _ _ hb)))
    · exact hp _ (and_testBit_left _ _ _ (shift_down_testBit .SE 7 (by simp) _ sq (and_testBit_left _ _ _ hb)))
    · exact hp _ (and_testBit_left _ _ _ (shift_down_testBit .S 8 (by simp) _ sq (and_testBit_left _ _ _ (and_testBit_left _ _ _ hb))))
    · exact hp _ (and_testBit_left _ _ _ (shift_down_testBit .SW 9 (by simp) _ sq (and_testBit_left _ _ _ hb)))
    · exact hp _ (and_testBit_left _ _ _ (shift_down_testBit .SE 7 (by simp) _ sq (and_testBit_left _ _ _ hb)))
    · exact hp _ (and_testBit_left _ _ _ (shift_down_testBit .S 8 (by simp) _ sq (and_testBit_left _ _ _ (and_testBit_left _ _ _ hb))))
    · have h1 := shift_down_testBit .S 8 (by simp) _ sq (and_testBit_left _ _ _ (and_testBit_left _ _ _ hb))
      have h2 := shift_down_testBit .S 8 (by simp) _ (sq + 8) (and_testBit_left _ _ _ (and_testBit_left _ _ _ h1))
      have := hp _ (and_testBit_left _ _ _ h2)
      simp [pawnOff]; omega

theorem promoMoves_nodup (f t : Nat) (hf : f < 64) (ht : t < 64) : (promoMoves f t).Nodup := by
  have e : ∀ k, k < 8 → movePromo (mkPromotion f t k) = k := fun k hk => (Props.C16_encoding f t k hf ht hk).2.2.1
  have ne : ∀ a b, a < 8 → b < 8 → a ≠ b → mkPromotion f t a ≠ mkPromotion f t b := by
    intro a b ha hb hab h
    have := congrArg movePromo h
    rw [e a ha, e b hb] at this
    exact hab this
  unfold promoMoves
  simp only [QUEEN, ROOK, BISHOP, KNIGHT]
  refine List.Pairwise.cons ?_ (List.Pairwise.cons ?_ (List.Pairwise.cons ?_ (List.Pairwise.cons ?_ List.Pairwise.nil)))
  · intro x hx
    simp only [List.mem_cons, List.not_mem_nil, or_false] at hx
    rcases hx with rfl | rfl | rfl <;> exact ne _ _ (by decide) (by decide) (by decide)
  · intro x hx
    simp only [List.mem_cons, List.not_mem_nil, or_false] at hx
    rcases hx with rfl | rfl <;> exact ne _ _ (by decide) (by decide) (by decide)
  · intro x hx
    simp only [List.mem_cons, List.not_mem_nil, or_false] at hx
    rcases hx with rfl; exact ne _ _ (by decide) (by decide) (by decide)
  · intro x hx; cases hx

theorem pawnGroup_nodup (side : Nat) (hs : side ≤ 1) (pawns empty pm cm : BB) (hp : ∀ j, pawns.testBit j = true → j < 64) (i : Nat) :
    (pawnGroup side pawns empty pm cm i).Nodup := by
  by_cases hi : i < 7
  · rw [pawnGroup_eq side pawns empty pm cm i hi]
    have hback := pawnBack_lt side hs pawns empty pm cm hp i hi
    have hlt : ∀ sq, sq ∈ bitsOf (pawnBits side pawns empty pm cm i) → sq < 64 := fun sq h => ((mem_bitsOf _ _).1 h).1
    split
    · apply nodup_flatMap _ _ (bitsOf_nodup _)
      · intro sq hsq; exact promoMoves_nodup _ _ (hback sq hsq) (hlt sq hsq)
      · intro a ha b hb hab x hx y hy e
        obtain ⟨k1, _, rfl⟩ := mem_promoMoves _ _ _ hx
        obtain ⟨k2, _, rfl⟩ := mem_promoMoves _ _ _ hy
        have := congrArg moveTo e
        rw [(Props.C16_encoding _ a k1 (hback a ha) (hlt a ha) (by omega)).2.1, (Props.C16_encoding _ b k2 (hback b hb) (hlt b hb) (by omega)).2.1] at this
        exact hab this
    · apply nodup_map_of_inj _ _ (bitsOf_nodup _)
      intro a ha b hb e
      have := congrArg moveTo e
      rw [(Props.C16_encoding_move _ a (hback a ha) (hlt a ha)).2.1, (Props.C16_encoding_move _ b (hback b hb) (hlt b hb)).2.1] at this
      exact this
  · have : pawnGroup side pawns empty pm cm i = [] := by
      obtain ⟨n, rfl⟩ : ∃ n, i = n + 7 := ⟨i - 7, by omega⟩
      simp [pawnGroup]
    rw [this]; exact List.nodup_nil

end Chess

namespace Chess

/-- the group a pawn move code belongs to, read off the code -/
def pawnIdxOf (side m : Nat) : Nat :=
  (if movePromo m ≠ 0 then 0 else 3) +
    (if (if side = 0 then moveTo m - moveFrom m else moveFrom m - moveTo m) = 9 then 0
     else if (if side = 0 then moveTo m - moveFrom m else moveFrom m - moveTo m) = 7 then 1
     else if (if side = 0 then moveTo m - moveFrom m else moveFrom m - moveTo m) = 8 then 2 else 3)

theorem PawnMv.idxOf {side : Nat} {pawns cm : BB} {m idx f t k : Nat} (h : PawnMv side pawns empty pm cm m idx f t k) : pawnIdxOf side m = idx := by
  unfold pawnIdxOf
  rw [h.mv.from_, h.mv.to_, h.mv.promo_]
  have hoff := h.off
  have hpr := h.promo
  have hi := h.idx7
  have hoffv : (if side = 0 then t - f else f - t) = pawnOff idx := by
    by_cases hs : side = 0
    · rw [if_pos hs] at hoff ⊢; omega
    · rw [if_neg hs] at hoff ⊢; omega
  rw [hoffv]
  have hcases : idx = 0 ∨ idx = 1 ∨ idx = 2 ∨ idx = 3 ∨ idx = 4 ∨ idx = 5 ∨ idx = 6 := by omega
  rcases hcases with rfl | rfl | rfl | rfl | rfl | rfl | rfl
  · have hk : k ≠ 0 := by simp at hpr; omega
    simp [pawnOff, hk]
  · have hk : k ≠ 0 := by simp at hpr; omega
    simp [pawnOff, hk]
  · have hk : k ≠ 0 := by simp at hpr; omega
    simp [pawnOff, hk]
  · have hk : k = 0 := by simp at hpr; exact hpr.1
    simp [pawnOff, hk]
  · have hk : k = 0 := by simp at hpr; exact hpr.1
    simp [pawnOff, hk]
  · have hk : k = 0 := by simp at hpr; exact hpr.1
    simp [pawnOff, hk]
  · have hk : k = 0 := by simp at hpr; exact hpr.1
    simp [pawnOff, hk]

theorem genPawnMoves_nodup (side : Nat) (hs : side ≤ 1) (pawns empty pm cm : BB) (hp : ∀ j, pawns.testBit j = true → j < 64) :
    (genPawnMoves side pawns empty pm cm).Nodup := by
  rw [genPawnMoves_groups]
  apply nodup_flatMap _ _ (by decide)
  · intro i _; exact pawnGroup_nodup side hs pawns empty pm cm hp i
  · intro i _ j _ hij x hx y hy e
    obtain ⟨f1, t1, k1, h1⟩ := mem_pawnGroup side hs pawns empty pm cm hp x i hx
    obtain ⟨f2, t2, k2, h2⟩ := mem_pawnGroup side hs pawns empty pm cm hp y j hy
    have := h1.idxOf
    rw [e, h2.idxOf] at this
    exact hij this.symm

theorem mem_genPawnMoves (side : Nat) (hs : side ≤ 1) (pawns empty pm cm : BB) (hp : ∀ j, pawns.testBit j = true → j < 64) (m : Nat)
    (h : m ∈ genPawnMoves side pawns empty pm cm) : ∃ idx f t k, PawnMv side pawns empty pm cm m idx f t k := by
  rw [genPawnMoves_groups, List.mem_flatMap] at h
  obtain ⟨i, _, hm⟩ := h
  obtain ⟨f, t, k, h⟩ := mem_pawnGroup side hs pawns empty pm cm hp m i hm
  exact ⟨i, f, t, k, h⟩

end Chess
