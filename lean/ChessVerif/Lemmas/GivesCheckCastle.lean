/-
  Lemmas/GivesCheckCastle.lean — `move_gives_check` for castling.  Castling is analysed as two steps of the same side, the king's
  (e-file square → its arrival square) and then the rook's (corner → its arrival square), each through `gives_check_core`; what
  remains is that neither step discovers a check, which is geometry of the back rank: a ray that passes THROUGH the king's home
  square runs along the back rank, and nothing passes through a corner.  The geometry is a finite table over (king square,
  direction, square) evaluated in the kernel.
-/
import ChessVerif.Lemmas.GivesCheck
namespace Chess

/-- `f` occurs in the ray `L` strictly before `s` -/
def thru : List Nat → Nat → Nat → Bool
  | [], _, _ => false
  | x :: xs, f, s => if x = s then false else if x = f then xs.contains s else thru xs f s

theorem walk_mem (L : List Nat) (occ : BB) (s : Nat) (h : (Spec.walk L occ).testBit s = true) : s ∈ L := by
  induction L with
  | nil => simp [Spec.walk] at h
  | cons x xs ih =>
    unfold Spec.walk at h
    rw [Nat.testBit_or, sqBB_testBit] at h
    simp only [Bool.or_eq_true, decide_eq_true_eq] at h
    rcases h with h | h
    · rw [h]; exact List.mem_cons_self
    · by_cases ho : occ.testBit x = true
      · rw [if_pos ho] at h; simp at h
      · rw [if_neg ho] at h; exact List.mem_cons_of_mem _ (ih h)

/-- a ray does not reach past an occupied square -/
theorem walk_blocked (L : List Nat) (occ : BB) (t s : Nat) (ht : occ.testBit t = true) (h : (Spec.walk L occ).testBit s = true) :
    thru L t s = false := by
  induction L with
  | nil => rfl
  | cons x xs ih =>
    unfold thru
    by_cases hxs : x = s
    · rw [if_pos hxs]
    · rw [if_neg hxs]
      unfold Spec.walk at h
      rw [Nat.testBit_or, sqBB_testBit] at h
      have hd : decide (x = s) = false := by simp [hxs]
      rw [hd, Bool.false_or] at h
      by_cases hxt : x = t
      · subst hxt
        rw [if_pos ht] at h; simp at h
      · rw [if_neg hxt]
        by_cases ho : occ.testBit x = true
        · rw [if_pos ho] at h; simp at h
        · rw [if_neg ho] at h; exact ih h

/-- a square other than f that a ray reaches once f is lifted (and t added) was reached before, or lies behind f and not behind t -/
theorem walk_lift_other (L : List Nat) (occ : BB) (f t s : Nat)
    (h : (Spec.walk L ((occ ^^^ sqBB f) ||| sqBB t)).testBit s = true) :
    (Spec.walk L occ).testBit s = true ∨ (thru L f s = true ∧ thru L t s = false) := by
  induction L with
  | nil => simp [Spec.walk] at h
  | cons x xs ih =>
    by_cases hxs : x = s
    · left
      unfold Spec.walk
      rw [Nat.testBit_or, sqBB_testBit]; simp [hxs]
    · have hh := h
      unfold Spec.walk at h
      rw [Nat.testBit_or, sqBB_testBit] at h
      have hd : decide (x = s) = false := by simp [hxs]
      rw [hd, Bool.false_or] at h
      by_cases ho' : ((occ ^^^ sqBB f) ||| sqBB t).testBit x = true
      · rw [if_pos ho'] at h; simp at h
      · rw [if_neg ho'] at h
        have hxt : x ≠ t := by
          intro e
          apply ho'
          rw [Nat.testBit_or, sqBB_testBit, e]; simp
        have htocc : ((occ ^^^ sqBB f) ||| sqBB t).testBit t = true := by
          rw [Nat.testBit_or, sqBB_testBit]; simp
        by_cases hxf : x = f
        · right
          unfold thru
          rw [if_neg hxs, if_pos hxf, if_neg hxs, if_neg hxt]
          refine ⟨?_, walk_blocked xs _ t s htocc h⟩
          simp only [List.contains_eq_mem, decide_eq_true_eq]
          exact walk_mem xs _ s h
        · have hocc : occ.testBit x = false := by
            rw [Nat.testBit_or, Nat.testBit_xor, sqBB_testBit, sqBB_testBit] at ho'
            have hfx : decide (f = x) = false := by simp; exact fun e => hxf e.symm
            rw [hfx] at ho'
            simp only [Bool.bne_false, Bool.or_eq_true, decide_eq_true_eq, not_or] at ho'
            simpa using ho'.1
          rcases ih h with h1 | ⟨h1, h2⟩
          · left
            unfold Spec.walk
            rw [Nat.testBit_or, if_neg (by simp [hocc]), h1]; simp
          · right
            unfold thru
            rw [if_neg hxs, if_neg hxf, if_neg hxs, if_neg hxt]
            exact ⟨h1, h2⟩

theorem walkDirs_lift_other (dirs : List (Int × Int)) (k : Nat) (occ : BB) (f t s : Nat)
    (h : (Spec.walkDirs dirs k ((occ ^^^ sqBB f) ||| sqBB t)).testBit s = true) :
    (Spec.walkDirs dirs k occ).testBit s = true ∨
      ∃ d, d ∈ dirs ∧ thru (Spec.raySquares k d.1 d.2) f s = true ∧ thru (Spec.raySquares k d.1 d.2) t s = false := by
  unfold Spec.walkDirs at h ⊢
  rw [walkDirs_testBit] at h
  rcases h with h | ⟨d, hd, h⟩
  · simp at h
  · rcases walk_lift_other _ occ f t s h with h1 | h1
    · left; rw [walkDirs_testBit]; exact Or.inr ⟨d, hd, h1⟩
    · right; exact ⟨d, hd, h1⟩

def rayDirs : List (Int × Int) := Spec.bishopDirs ++ Spec.rookDirs

/-- a move that discovers nothing: every square behind f (and not behind t) as seen from the enemy king is t itself or empty -/
theorem no_discovery (p : Position) (f t kq : Nat) (ok : BoardOK p.board) (hc : p.side ≤ 1) (hkq : kq < 64)
    (htarget : ∀ K, 1 ≤ K → K ≤ 6 → p.board.getD t 0 ≠ mkPiece p.side K)
    (hsafe : attackedBB p kq (1 - p.side) = false)
    (hgeo : ∀ d, d ∈ rayDirs → ∀ s, thru (Spec.raySquares kq d.1 d.2) f s = true → thru (Spec.raySquares kq d.1 d.2) t s = false →
      s = t ∨ p.board.getD s 0 = 0) :
    bishopAttack kq (((BBs.of p).all ^^^ sqBB f) ||| sqBB t) &&& ((BBs.of p).ck p.side BISHOP ||| (BBs.of p).ck p.side QUEEN) = 0 ∧
    rookAttack kq (((BBs.of p).all ^^^ sqBB f) ||| sqBB t) &&& ((BBs.of p).ck p.side ROOK ||| (BBs.of p).ck p.side QUEEN) = 0 := by
  have hopp : 1 - (1 - p.side) = p.side := by omega
  unfold attackedBB at hsafe
  simp only [hopp, Bool.or_eq_false_iff, decide_eq_false_iff_not, ne_eq, Decidable.not_not] at hsafe
  obtain ⟨⟨⟨_, _⟩, sB⟩, sR⟩ := hsafe
  have notOwn : ∀ s K, 1 ≤ K → K ≤ 6 → (s = t ∨ p.board.getD s 0 = 0) → ((BBs.of p).ck p.side K).testBit s = false := by
    intro s K h1 h6 hs
    rw [ck_testBit p p.side K s hc h6 ok]
    simp only [Bool.and_eq_false_iff, decide_eq_false_iff_not]
    right
    rcases hs with rfl | h0
    · exact htarget K h1 h6
    · rw [h0]; exact fun h => mkPiece_ne_zero p.side K (by omega) h.symm
  have hb1 := Props.C11_slider BISHOP kq hkq (BBs.of p).all
  have hb2 := Props.C11_slider BISHOP kq hkq (((BBs.of p).all ^^^ sqBB f) ||| sqBB t)
  have hr1 := Props.C11_slider ROOK kq hkq (BBs.of p).all
  have hr2 := Props.C11_slider ROOK kq hkq (((BBs.of p).all ^^^ sqBB f) ||| sqBB t)
  simp [sliderAttack, Spec.rayWalk] at hb1 hb2
  simp [sliderAttack, Spec.rayWalk, ROOK, BISHOP] at hr1 hr2
  constructor
  · apply Decidable.byContradiction
    intro hne
    have hne' : bishopAttack kq (((BBs.of p).all ^^^ sqBB f) ||| sqBB t) &&& ((BBs.of p).ck p.side BISHOP ||| (BBs.of p).ck p.side QUEEN) ≠ 0 := hne
    rw [meets_iff] at hne'
    obtain ⟨s, h1, h2⟩ := hne'
    rw [hb2] at h1
    rcases walkDirs_lift_other _ kq _ f t s h1 with h | ⟨d, hd, g1, g2⟩
    · have h' : (bishopAttack kq (BBs.of p).all).testBit s = true := by rw [hb1]; exact h
      exact and_ne_zero_of_testBit _ _ s h' h2 sB
    · have := hgeo d (by unfold rayDirs; exact List.mem_append_left _ hd) s g1 g2
      rw [Nat.testBit_or, notOwn s BISHOP (by decide) (by decide) this, notOwn s QUEEN (by decide) (by decide) this] at h2
      simp at h2
  · apply Decidable.byContradiction
    intro hne
    have hne' : rookAttack kq (((BBs.of p).all ^^^ sqBB f) ||| sqBB t) &&& ((BBs.of p).ck p.side ROOK ||| (BBs.of p).ck p.side QUEEN) ≠ 0 := hne
    rw [meets_iff] at hne'
    obtain ⟨s, h1, h2⟩ := hne'
    rw [hr2] at h1
    rcases walkDirs_lift_other _ kq _ f t s h1 with h | ⟨d, hd, g1, g2⟩
    · have h' : (rookAttack kq (BBs.of p).all).testBit s = true := by rw [hr1]; exact h
      exact and_ne_zero_of_testBit _ _ s h' h2 sR
    · have := hgeo d (by unfold rayDirs; exact List.mem_append_right _ hd) s g1 g2
      rw [Nat.testBit_or, notOwn s ROOK (by decide) (by decide) this, notOwn s QUEEN (by decide) (by decide) this] at h2
      simp at h2

end Chess

namespace Chess

/-- back-rank geometry of one castling (king oldK → myK, rook oldR → myR), for every square kq of the other king except the two
    arrival squares, every ray direction and every square s: what lies behind the king's home square and not behind its arrival
    square is one of the two arrival squares; nothing lies behind the rook's corner -/
def castleGeoB (oldK myK myR oldR : Nat) : Bool :=
  (List.range 64).all fun kq => (kq == myK || kq == myR) ||
    rayDirs.all fun d => (List.range 64).all fun s =>
      (!(thru (Spec.raySquares kq d.1 d.2) oldK s) || thru (Spec.raySquares kq d.1 d.2) myK s || s == myK || s == myR) &&
      !(thru (Spec.raySquares kq d.1 d.2) oldR s)


theorem thru_lt (L : List Nat) (f s : Nat) (hL : ∀ x, x ∈ L → x < 64) (h : thru L f s = true) : s < 64 := by
  induction L with
  | nil => simp [thru] at h
  | cons x xs ih =>
    unfold thru at h
    by_cases hxs : x = s
    · rw [if_pos hxs] at h; cases h
    · rw [if_neg hxs] at h
      by_cases hxf : x = f
      · rw [if_pos hxf] at h
        simp only [List.contains_eq_mem, decide_eq_true_eq] at h
        exact hL s (List.mem_cons_of_mem _ h)
      · rw [if_neg hxf] at h
        exact ih (fun y hy => hL y (List.mem_cons_of_mem _ hy)) h

theorem rayCoords_lt (df dr : Int) (n : Nat) (f r : Int) : ∀ x, x ∈ Spec.rayCoords df dr n f r → x < 64 := by
  induction n generalizing f r with
  | zero => intro x hx; simp [Spec.rayCoords] at hx
  | succ n ih =>
    intro x hx
    unfold Spec.rayCoords at hx
    simp only [] at hx
    split at hx
    · rename_i hc
      simp only [List.mem_cons] at hx
      rcases hx with rfl | hx
      · omega
      · exact ih _ _ x hx
    · simp at hx

theorem castleGeo_use (oldK myK myR oldR kq : Nat) (h : castleGeoB oldK myK myR oldR = true) (hkq : kq < 64) (h1 : kq ≠ myK) (h2 : kq ≠ myR)
    (d : Int × Int) (hd : d ∈ rayDirs) (s : Nat) :
    (thru (Spec.raySquares kq d.1 d.2) oldK s = true → thru (Spec.raySquares kq d.1 d.2) myK s = false → s = myK ∨ s = myR) ∧
    thru (Spec.raySquares kq d.1 d.2) oldR s = false := by
  unfold castleGeoB at h
  rw [List.all_eq_true] at h
  have h' := h kq (List.mem_range.2 hkq)
  simp only [Bool.or_eq_true, beq_iff_eq, h1, h2, false_or, or_self] at h'
  rw [List.all_eq_true] at h'
  have h'' := h' d hd
  rw [List.all_eq_true] at h''
  by_cases hs : s < 64
  · have g := h'' s (List.mem_range.2 hs)
    simp only [Bool.and_eq_true, Bool.or_eq_true, Bool.not_eq_true', beq_iff_eq] at g
    refine ⟨?_, g.2⟩
    intro a b
    rcases g.1 with ((g1 | g1) | g1) | g1
    · rw [a] at g1; cases g1
    · rw [b] at g1; cases g1
    · exact Or.inl g1
    · exact Or.inr g1
  · have hL : ∀ x, x ∈ Spec.raySquares kq d.1 d.2 → x < 64 := by
      unfold Spec.raySquares; exact rayCoords_lt _ _ _ _ _
    constructor
    · intro a; exact absurd (thru_lt _ _ _ hL a) hs
    · apply Bool.eq_false_iff.2
      intro a; exact hs (thru_lt _ _ _ hL a)

end Chess
