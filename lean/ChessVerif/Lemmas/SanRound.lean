/-
  Lemmas/SanRound.lean — `parseSan p (san p m) = some m` for every generated move, from the shape of the generated
  list (`genShapeB`, decidable, evaluated at every position of a run; it is what C01 exactness gives).
  Steps: the text of `san` as a list of characters (`sanWithoutCheck_toList`), the regular expression on that text
  (Lemmas/SanShapes, exhaustive), the parser's filter keeps exactly `m` (disambiguation logic), castling separately.
-/
import ChessVerif.Model.Text
import ChessVerif.Lemmas.SanShapes
import ChessVerif.Lemmas.SanShapesPawn
namespace Chess

-- moves as bit fields ------------------------------------------------------------------
theorem moveFrom_eq (m : Nat) : moveFrom m = m % 64 := by
  unfold moveFrom
  exact Nat.and_two_pow_sub_one_eq_mod m 6

theorem moveTo_eq (m : Nat) : moveTo m = m / 64 % 64 := by
  unfold moveTo
  rw [Nat.shiftRight_eq_div_pow]
  exact Nat.and_two_pow_sub_one_eq_mod _ 6

theorem movePromo_eq (m : Nat) : movePromo m = m / 4096 % 8 := by
  unfold movePromo
  rw [Nat.shiftRight_eq_div_pow]
  exact Nat.and_two_pow_sub_one_eq_mod _ 3

theorem move_ext (x y : Nat) (hx : x < 32768) (hy : y < 32768) (h1 : moveFrom x = moveFrom y) (h2 : moveTo x = moveTo y)
    (h3 : movePromo x = movePromo y) : x = y := by
  rw [moveFrom_eq, moveFrom_eq] at h1
  rw [moveTo_eq, moveTo_eq] at h2
  rw [movePromo_eq, movePromo_eq] at h3
  omega

theorem moveFrom_lt (m : Nat) : moveFrom m < 64 := by rw [moveFrom_eq]; omega
theorem moveTo_lt (m : Nat) : moveTo m < 64 := by rw [moveTo_eq]; omega

-- lists --------------------------------------------------------------------------------
theorem filter_unique {α : Type} [DecidableEq α] (l : List α) (P : α → Bool) (m : α) (hn : l.Nodup) (hm : m ∈ l) (hp : P m = true)
    (hu : ∀ x, x ∈ l → P x = true → x = m) : l.filter P = [m] := by
  induction l with
  | nil => cases hm
  | cons a as ih =>
    rw [List.nodup_cons] at hn
    by_cases ha : a = m
    · subst ha
      rw [List.filter_cons_of_pos hp]
      have : as.filter P = [] := by
        rw [List.filter_eq_nil_iff]
        intro x hx hpx
        have := hu x (List.mem_cons_of_mem _ hx) (by simpa using hpx)
        subst this
        exact hn.1 hx
      rw [this]
    · have hpa : ¬ P a = true := fun h => ha (hu a (by simp) h)
      rw [List.filter_cons_of_neg hpa]
      have hm' : m ∈ as := by
        rcases List.mem_cons.1 hm with h | h
        · exact absurd h.symm ha
        · exact h
      exact ih hn.2 hm' (fun x hx => hu x (List.mem_cons_of_mem _ hx))

theorem eq_of_length_le_one {α : Type} (l : List α) (h : ¬ l.length > 1) (a b : α) (ha : a ∈ l) (hb : b ∈ l) : a = b := by
  match l, h, ha, hb with
  | [x], _, ha, hb =>
    simp only [List.mem_cons, List.not_mem_nil, or_false] at ha hb
    rw [ha, hb]
  | x :: y :: rest, h, _, _ => simp at h

-- the text of `san` --------------------------------------------------------------------
def sanMatching (p : Position) (m : Nat) : List Nat :=
  (genMoves p).filter (fun x =>
    moveCastling x = 0 && (kindOf (p.at (moveFrom x)) = kindOf (p.at (moveFrom m)) && moveTo x = moveTo m && movePromo x = movePromo m))

def sanM2 (p : Position) (m : Nat) : List Nat :=
  (sanMatching p m).filter (fun x => fileOf (moveFrom x) = fileOf (moveFrom m))

def sanCap (p : Position) (m : Nat) : Bool :=
  decide ((sqBB (moveTo m) &&& ((BBs.of p).color (1 - p.side) |||
    (if kindOf (p.at (moveFrom m)) = PAWN then (if p.ep = 64 then sqBB 64 % two64 else sqBB p.ep) else 0))) ≠ 0)

def sanDf (p : Position) (m : Nat) : Option Nat :=
  if (sanMatching p m).length > 1 then some (fileOf (moveFrom m))
  else if kindOf (p.at (moveFrom m)) = PAWN ∧ sanCap p m = true then some (fileOf (moveFrom m)) else none

def sanDr (p : Position) (m : Nat) : Option Nat :=
  if (sanMatching p m).length > 1 ∧ (sanM2 p m).length > 1 then some (rankOf (moveFrom m)) else none

def pieceLetter (k : Nat) : Option Char := if k ≠ PAWN then some ("  NBRQK".toList.getD k ' ') else none
def promoLetter (k : Nat) : Option Char := if k ≠ 0 then some ("  NBRQ ".toList.getD k ' ') else none

theorem string_ne_empty_of_toList (s : String) (c : Char) (l : List Char) (h : s.toList = c :: l) : s ≠ "" := by
  intro e; rw [e] at h; simp at h

def sanBuild (moved : Nat) (n1 n2 cap : Bool) (f t promo : Nat) : String :=
  let s := if moved ≠ PAWN then String.singleton ("  NBRQK".toList.getD moved ' ') else ""
  let s := if n1 = true then (let s := s.push (fileChar (fileOf f)); if n2 = true then s.push (rankChar (rankOf f)) else s) else s
  let s := if cap = true then (if moved = PAWN ∧ s = "" then s.push (fileChar (fileOf f)) else s).push 'x' else s
  let s := s ++ sqName t
  if promo ≠ 0 then (s.push '=').push ("  NBRQ ".toList.getD promo ' ') else s

theorem sanWithoutCheck_eq_build (p : Position) (m : Nat) (hc : moveCastling m = 0) :
    sanWithoutCheck p m = sanBuild (kindOf (p.at (moveFrom m))) (decide ((sanMatching p m).length > 1)) (decide ((sanM2 p m).length > 1))
      (sanCap p m) (moveFrom m) (moveTo m) (movePromo m) := by
  have hk : ¬ moveCastling m = KING_CASTLING := by rw [hc]; decide
  have hq : ¬ moveCastling m = QUEEN_CASTLING := by rw [hc]; decide
  unfold sanWithoutCheck sanBuild sanCap sanM2 sanMatching
  rw [if_neg hk, if_neg hq]
  simp only [decide_eq_true_eq]

theorem sanBuild_toList (moved : Nat) (n1 n2 cap : Bool) (f t promo : Nat) :
    (sanBuild moved n1 n2 cap f t promo).toList =
      sanText (pieceLetter moved)
        (if n1 = true then some (fileOf f) else if moved = PAWN ∧ cap = true then some (fileOf f) else none)
        (if n1 = true ∧ n2 = true then some (rankOf f) else none) cap t (promoLetter promo) [] := by
  unfold sanBuild sanText pieceLetter promoLetter sqName
  by_cases hm : moved = PAWN <;> cases n1 <;> cases n2 <;> cases cap <;> by_cases hp : promo = 0 <;>
    simp [hm, hp, fileChar, rankChar, fileOf, rankOf]

theorem sanWithoutCheck_toList (p : Position) (m : Nat) (hc : moveCastling m = 0) :
    (sanWithoutCheck p m).toList =
      sanText (pieceLetter (kindOf (p.at (moveFrom m)))) (sanDf p m) (sanDr p m) (sanCap p m) (moveTo m) (promoLetter (movePromo m)) [] := by
  rw [sanWithoutCheck_eq_build p m hc, sanBuild_toList]
  unfold sanDf sanDr
  simp only [decide_eq_true_eq]

-- letters and squares --------------------------------------------------------------------
theorem parse_pieceLetter (k : Nat) (h1 : 1 ≤ k) (h6 : k ≤ 6) : parsePieceKind (pieceLetter k) = k := by
  have : k = 1 ∨ k = 2 ∨ k = 3 ∨ k = 4 ∨ k = 5 ∨ k = 6 := by omega
  rcases this with rfl | rfl | rfl | rfl | rfl | rfl <;> decide

theorem pieceLetter_mem (k : Nat) (h2 : 2 ≤ k) (h6 : k ≤ 6) : ∃ c, pieceLetter k = some c ∧ c ∈ ['N', 'B', 'R', 'Q', 'K'] := by
  have : k = 2 ∨ k = 3 ∨ k = 4 ∨ k = 5 ∨ k = 6 := by omega
  rcases this with rfl | rfl | rfl | rfl | rfl
  · exact ⟨'N', by decide, by decide⟩
  · exact ⟨'B', by decide, by decide⟩
  · exact ⟨'R', by decide, by decide⟩
  · exact ⟨'Q', by decide, by decide⟩
  · exact ⟨'K', by decide, by decide⟩

theorem promoLetter_facts (k : Nat) (h1 : k ≠ 1) (h5 : k ≤ 5) :
    promoLetter k ∈ promoLetters ∧
    (promoLetter k).map (fun c => parsePieceKind (some c)) = (if k = 0 then none else some k) := by
  have : k = 0 ∨ k = 2 ∨ k = 3 ∨ k = 4 ∨ k = 5 := by omega
  rcases this with rfl | rfl | rfl | rfl | rfl <;> decide

theorem square_back : ∀ t, t < 64 → mkSquare ((rankChar (t / 8)).toNat - 49) ((fileChar (t % 8)).toNat - 97) = t := by decide
theorem file_back : ∀ f, f < 8 → (fileChar f).toNat - 97 = f := by decide
theorem rank_back : ∀ r, r < 8 → (rankChar r).toNat - 49 = r := by decide

theorem optRange_mem (f : Nat) (h : f < 8) : some f ∈ optRange 8 := by
  unfold optRange
  exact List.mem_cons_of_mem _ (List.mem_map.2 ⟨f, List.mem_range.2 h, rfl⟩)
theorem optRange_none : (none : Option Nat) ∈ optRange 8 := by unfold optRange; simp

theorem piece_shape (c : Char) (hc : c ∈ ['N', 'B', 'R', 'Q', 'K']) (df dr : Option Nat) (hdf : df ∈ optRange 8) (hdr : dr ∈ optRange 8)
    (cap : Bool) (t : Nat) (ht : t < 64) (sfx : List Char) (hs : sfx ∈ sanSuffixes) :
    sanMatch (sanText (some c) df dr cap t none sfx) = sanExpected (some c) df dr t none := by
  have hall : pieceShapeOK c = true := by
    simp only [List.mem_cons, List.mem_nil_iff, or_false] at hc
    rcases hc with rfl | rfl | rfl | rfl | rfl
    · exact shapesN
    · exact shapesB
    · exact shapesR
    · exact shapesQ
    · exact shapesK
  simp only [pieceShapeOK, List.all_eq_true, beq_iff_eq] at hall
  exact hall df hdf dr hdr cap (by cases cap <;> simp) t (List.mem_range.2 ht) sfx hs

theorem pawn_shape (df dr : Option Nat) (hdf : df ∈ optRange 8) (hdr : dr ∈ optRange 8) (cap : Bool) (t : Nat) (ht : t < 64)
    (pr : Option Char) (hp : pr ∈ promoLetters) (sfx : List Char) (hs : sfx ∈ sanSuffixes) :
    sanMatch (sanText none df dr cap t pr sfx) = sanExpected none df dr t pr := by
  cases dr with
  | none =>
    have hall := shapesPawn
    simp only [pawnShapeOK, List.all_eq_true, beq_iff_eq] at hall
    exact hall df hdf cap (by cases cap <;> simp) t (List.mem_range.2 ht) pr hp sfx hs
  | some r =>
    have hr : r < 8 := by
      unfold optRange at hdr
      simp only [List.mem_cons, List.mem_map, List.mem_range, reduceCtorEq, false_or] at hdr
      obtain ⟨a, ha, he⟩ := hdr
      cases he; exact ha
    exact pawnRank_shape df hdf r hr cap t ht pr hp sfx hs

-- the shape of the generated list -----------------------------------------------------------
/-- what the round trip needs from the generated list: no duplicates; castling moves are the two castling codes; other
    moves are 15-bit codes moving a piece that exists, promoting (to N, B, R or Q) exactly when a pawn reaches an end rank -/
def genShapeB (p : Position) : Bool :=
  decide (genMoves p).Nodup && (genMoves p).all (fun m =>
    if moveCastling m ≠ 0 then (m == kingCastlingMove || m == queenCastlingMove)
    else decide (m < 32768) && decide (1 ≤ kindOf (p.at (moveFrom m))) && decide (kindOf (p.at (moveFrom m)) ≤ 6) &&
      decide (movePromo m ≠ 1) && decide (movePromo m ≤ 5) &&
      (decide (movePromo m ≠ 0) == (decide (kindOf (p.at (moveFrom m)) = PAWN) && (decide (rankOf (moveTo m) = 0) || decide (rankOf (moveTo m) = 7)))))

structure MoveShape (p : Position) (m : Nat) : Prop where
  lt : m < 32768
  k1 : 1 ≤ kindOf (p.at (moveFrom m))
  k6 : kindOf (p.at (moveFrom m)) ≤ 6
  p1 : movePromo m ≠ 1
  p5 : movePromo m ≤ 5
  pr : movePromo m ≠ 0 ↔ (kindOf (p.at (moveFrom m)) = PAWN ∧ (rankOf (moveTo m) = 0 ∨ rankOf (moveTo m) = 7))

theorem genShape_nodup (p : Position) (h : genShapeB p = true) : (genMoves p).Nodup := by
  unfold genShapeB at h
  simp only [Bool.and_eq_true, decide_eq_true_eq] at h
  exact h.1

theorem genShape_mem (p : Position) (h : genShapeB p = true) (m : Nat) (hm : m ∈ genMoves p) (hc : moveCastling m = 0) : MoveShape p m := by
  unfold genShapeB at h
  simp only [Bool.and_eq_true, List.all_eq_true] at h
  have := h.2 m hm
  rw [if_neg (by rw [hc]; simp)] at this
  simp only [Bool.and_eq_true, decide_eq_true_eq, beq_iff_eq] at this
  obtain ⟨⟨⟨⟨⟨a, b⟩, c⟩, d⟩, e⟩, f⟩ := this
  refine ⟨a, b, c, d, e, ?_⟩
  constructor
  · intro hp
    have : decide (movePromo m ≠ 0) = true := by simpa using hp
    rw [f] at this
    simpa using this
  · intro hp
    have : (decide (kindOf (p.at (moveFrom m)) = PAWN) && (decide (rankOf (moveTo m) = 0) || decide (rankOf (moveTo m) = 7))) = true := by
      simpa using hp
    rw [← f] at this
    simpa using this

theorem genShape_castle (p : Position) (h : genShapeB p = true) (m : Nat) (hm : m ∈ genMoves p) (hc : moveCastling m ≠ 0) :
    m = kingCastlingMove ∨ m = queenCastlingMove := by
  unfold genShapeB at h
  simp only [Bool.and_eq_true, List.all_eq_true] at h
  have := h.2 m hm
  rw [if_pos hc] at this
  simpa using this

-- the parser -------------------------------------------------------------------------------
/-- the filter `parse_san` applies to the generated list -/
def sanFilter (p : Position) (moved : Nat) (g2 g3 : Option Char) (toSq : Nat) (promo : Option Nat) (m : Nat) : Bool :=
  moveCastling m = 0 &&
  kindOf (p.at (moveFrom m)) = moved &&
  (match g2 with | none => true | some c => fileOf (moveFrom m) = c.toNat - 97) &&
  (match g3 with | none => true | some c => rankOf (moveFrom m) = c.toNat - 49) &&
  moveTo m = toSq &&
  (match promo with | none => true | some k => movePromo m = k)

theorem parseSan_of_match (p : Position) (str : String) (m : Nat)
    (g1 g2 g3 : Option Char) (f r : Char) (pr : Option Char)
    (h1 : ¬ (stripSuffix str = "0-0" ∨ stripSuffix str = "O-O")) (h2 : ¬ (stripSuffix str = "0-0-0" ∨ stripSuffix str = "O-O-O"))
    (hm : sanMatch str.toList = some (g1, g2, g3, f, r, pr))
    (hp : ¬ (pr.map (fun c => parsePieceKind (some c)) = some PAWN ∨ pr.map (fun c => parsePieceKind (some c)) = some KING))
    (hf : (genMoves p).filter (sanFilter p (parsePieceKind g1) g2 g3 (mkSquare (r.toNat - 49) (f.toNat - 97))
            (pr.map (fun c => parsePieceKind (some c)))) = [m]) :
    parseSan p str = some m := by
  unfold parseSan
  simp only []
  rw [if_neg h1, if_neg h2, hm]
  simp only []
  rw [if_neg hp]
  show (match (genMoves p).filter (sanFilter p (parsePieceKind g1) g2 g3 (mkSquare (r.toNat - 49) (f.toNat - 97))
            (pr.map (fun c => parsePieceKind (some c)))) with
        | [m] => some m
        | _ => none) = some m
  rw [hf]

/-- the text keeps its first character when the suffix is stripped -/
theorem stripSuffix_head (s : String) (c d : Char) (rest : List Char) (h : s.toList = c :: d :: rest) :
    ∃ rest', (stripSuffix s).toList = c :: rest' := by
  unfold stripSuffix
  cases hrev : s.toList.reverse with
  | nil => exact ⟨d :: rest, h⟩
  | cons x r =>
    simp only []
    split
    · have e : s.toList = r.reverse ++ [x] := by
        have := congrArg List.reverse hrev
        rw [List.reverse_reverse] at this
        rw [this, List.reverse_cons]
      rw [String.toList_ofList]
      cases hr : r.reverse with
      | nil => rw [hr, h] at e; simp at e
      | cons y ys =>
        rw [hr, h] at e
        simp only [List.cons_append, List.cons.injEq] at e
        exact ⟨ys, by rw [e.1]⟩
    · exact ⟨d :: rest, h⟩

theorem not_castle_text (s : String) (c d : Char) (rest : List Char) (h : s.toList = c :: d :: rest) (hO : c ≠ 'O') (h0 : c ≠ '0') :
    ¬ (stripSuffix s = "0-0" ∨ stripSuffix s = "O-O") ∧ ¬ (stripSuffix s = "0-0-0" ∨ stripSuffix s = "O-O-O") := by
  obtain ⟨rest', hr⟩ := stripSuffix_head s c d rest h
  refine ⟨?_, ?_⟩ <;> rintro (e | e) <;> rw [e] at hr <;> simp at hr <;> first | exact h0 hr.1.symm | exact hO hr.1.symm

-- disambiguation ------------------------------------------------------------------------------
def promoOpt (k : Nat) : Option Nat := if k = 0 then none else some k

theorem sanDf_cases (p : Position) (m : Nat) : sanDf p m = none ∨ sanDf p m = some (fileOf (moveFrom m)) := by
  unfold sanDf
  split
  · exact Or.inr rfl
  · split
    · exact Or.inr rfl
    · exact Or.inl rfl

theorem sanDr_cases (p : Position) (m : Nat) : sanDr p m = none ∨ sanDr p m = some (rankOf (moveFrom m)) := by
  unfold sanDr
  split
  · exact Or.inr rfl
  · exact Or.inl rfl

theorem sanFilter_self (p : Position) (m : Nat) (hc : moveCastling m = 0) :
    sanFilter p (kindOf (p.at (moveFrom m))) ((sanDf p m).map fileChar) ((sanDr p m).map rankChar) (moveTo m) (promoOpt (movePromo m)) m = true := by
  have hf8 : fileOf (moveFrom m) < 8 := by unfold fileOf; omega
  have hr8 : rankOf (moveFrom m) < 8 := by have := moveFrom_lt m; unfold rankOf; omega
  have g2 : (match (sanDf p m).map fileChar with | none => true | some c => decide (fileOf (moveFrom m) = c.toNat - 97)) = true := by
    rcases sanDf_cases p m with h | h <;> rw [h]
    · rfl
    · simp only [Option.map_some, decide_eq_true_eq]; exact (file_back _ hf8).symm
  have g3 : (match (sanDr p m).map rankChar with | none => true | some c => decide (rankOf (moveFrom m) = c.toNat - 49)) = true := by
    rcases sanDr_cases p m with h | h <;> rw [h]
    · rfl
    · simp only [Option.map_some, decide_eq_true_eq]; exact (rank_back _ hr8).symm
  have g5 : (match promoOpt (movePromo m) with | none => true | some k => decide (movePromo m = k)) = true := by
    unfold promoOpt
    by_cases h0 : movePromo m = 0
    · rw [if_pos h0]
    · rw [if_neg h0]; simp
  unfold sanFilter
  rw [g2, g3, g5]
  simp [hc]

theorem sanFilter_unique (p : Position) (hs : genShapeB p = true) (m : Nat) (hm : m ∈ genMoves p) (hc : moveCastling m = 0)
    (x : Nat) (hx : x ∈ genMoves p)
    (hP : sanFilter p (kindOf (p.at (moveFrom m))) ((sanDf p m).map fileChar) ((sanDr p m).map rankChar) (moveTo m) (promoOpt (movePromo m)) x = true) :
    x = m := by
  unfold sanFilter at hP
  simp only [Bool.and_eq_true, decide_eq_true_eq] at hP
  obtain ⟨⟨⟨⟨⟨cx, kx⟩, fx⟩, rx⟩, tx⟩, px⟩ := hP
  have sm := genShape_mem p hs m hm hc
  have sx := genShape_mem p hs x hx cx
  have hf8 : fileOf (moveFrom m) < 8 := by unfold fileOf; omega
  have hr8 : rankOf (moveFrom m) < 8 := by have := moveFrom_lt m; unfold rankOf; omega
  -- the promotion fields agree
  have hpr : movePromo x = movePromo m := by
    by_cases h0 : movePromo m = 0
    · by_cases hx0 : movePromo x = 0
      · rw [hx0, h0]
      · exfalso
        have := sx.pr.1 hx0
        rw [kx, tx] at this
        exact (sm.pr.2 this) h0
    · unfold promoOpt at px
      rw [if_neg h0] at px
      simpa using px
  have hxm : x ∈ sanMatching p m := by
    unfold sanMatching
    rw [List.mem_filter]
    refine ⟨hx, ?_⟩
    simp only [Bool.and_eq_true, decide_eq_true_eq]
    exact ⟨cx, ⟨kx, tx⟩, hpr⟩
  have hmm : m ∈ sanMatching p m := by
    unfold sanMatching
    rw [List.mem_filter]
    refine ⟨hm, ?_⟩
    simp [hc]
  by_cases n1 : (sanMatching p m).length > 1
  · have hfile : fileOf (moveFrom x) = fileOf (moveFrom m) := by
      unfold sanDf at fx
      rw [if_pos n1] at fx
      simp only [Option.map_some, decide_eq_true_eq] at fx
      rw [fx, file_back _ hf8]
    have hx2 : x ∈ sanM2 p m := by
      unfold sanM2; rw [List.mem_filter]; exact ⟨hxm, by simpa using hfile⟩
    have hm2 : m ∈ sanM2 p m := by
      unfold sanM2; rw [List.mem_filter]; exact ⟨hmm, by simp⟩
    by_cases n2 : (sanM2 p m).length > 1
    · have hrank : rankOf (moveFrom x) = rankOf (moveFrom m) := by
        unfold sanDr at rx
        rw [if_pos ⟨n1, n2⟩] at rx
        simp only [Option.map_some, decide_eq_true_eq] at rx
        rw [rx, rank_back _ hr8]
      have hfrom : moveFrom x = moveFrom m := by
        unfold fileOf at hfile; unfold rankOf at hrank; omega
      exact move_ext x m sx.lt sm.lt hfrom tx hpr
    · exact eq_of_length_le_one _ n2 x m hx2 hm2
  · exact eq_of_length_le_one _ n1 x m hxm hmm

theorem sanFilter_eq (p : Position) (hs : genShapeB p = true) (m : Nat) (hm : m ∈ genMoves p) (hc : moveCastling m = 0) :
    (genMoves p).filter (sanFilter p (kindOf (p.at (moveFrom m))) ((sanDf p m).map fileChar) ((sanDr p m).map rankChar) (moveTo m)
      (promoOpt (movePromo m))) = [m] :=
  filter_unique _ _ m (genShape_nodup p hs) hm (sanFilter_self p m hc) (fun x hx hP => sanFilter_unique p hs m hm hc x hx hP)

-- assembly -------------------------------------------------------------------------------------
theorem file_ne : ∀ f, f < 8 → fileChar f ≠ 'O' ∧ fileChar f ≠ '0' := by decide
theorem rank_ne : ∀ r, r < 8 → rankChar r ≠ 'O' ∧ rankChar r ≠ '0' := by decide

theorem sanText_head (pl : Option Char) (hpl : ∀ c, pl = some c → c ≠ 'O' ∧ c ≠ '0') (df : Option Nat) (hdf : ∀ f, df = some f → f < 8)
    (dr : Option Nat) (hdr : ∀ r, dr = some r → r < 8) (cap : Bool) (t : Nat) (promo : Option Char) (sfx : List Char) :
    ∃ c d rest, sanText pl df dr cap t promo sfx = c :: d :: rest ∧ c ≠ 'O' ∧ c ≠ '0' := by
  have ht8 : t % 8 < 8 := by omega
  unfold sanText
  cases pl with
  | some c =>
    have := hpl c rfl
    cases df <;> cases dr <;> cases cap <;> exact ⟨c, _, _, rfl, this.1, this.2⟩
  | none =>
    cases df with
    | some f =>
      have := file_ne f (hdf f rfl)
      cases dr <;> cases cap <;> exact ⟨fileChar f, _, _, rfl, this.1, this.2⟩
    | none =>
      cases dr with
      | some r =>
        have := rank_ne r (hdr r rfl)
        cases cap <;> exact ⟨rankChar r, _, _, rfl, this.1, this.2⟩
      | none =>
        cases cap
        · exact ⟨fileChar (t % 8), _, _, rfl, (file_ne _ ht8).1, (file_ne _ ht8).2⟩
        · exact ⟨'x', _, _, rfl, by decide, by decide⟩

theorem sanText_suffix (pl : Option Char) (df dr : Option Nat) (cap : Bool) (t : Nat) (promo : Option Char) (sfx : List Char) :
    sanText pl df dr cap t promo [] ++ sfx = sanText pl df dr cap t promo sfx := by
  unfold sanText
  simp only [List.append_nil, List.append_assoc]

/-- the round trip for a non-castling move, for any of the three suffixes -/
theorem parseSan_plain (p : Position) (hs : genShapeB p = true) (m : Nat) (hm : m ∈ genMoves p) (hc : moveCastling m = 0)
    (str : String) (sfx : List Char) (hsfx : sfx ∈ sanSuffixes) (hstr : str.toList = (sanWithoutCheck p m).toList ++ sfx) :
    parseSan p str = some m := by
  have sm := genShape_mem p hs m hm hc
  have hf8 : fileOf (moveFrom m) < 8 := by unfold fileOf; omega
  have hr8 : rankOf (moveFrom m) < 8 := by have := moveFrom_lt m; unfold rankOf; omega
  have ht := moveTo_lt m
  rw [sanWithoutCheck_toList p m hc, sanText_suffix] at hstr
  have hdf : sanDf p m ∈ optRange 8 := by
    rcases sanDf_cases p m with h | h <;> rw [h]
    · exact optRange_none
    · exact optRange_mem _ hf8
  have hdr : sanDr p m ∈ optRange 8 := by
    rcases sanDr_cases p m with h | h <;> rw [h]
    · exact optRange_none
    · exact optRange_mem _ hr8
  have hpf := promoLetter_facts (movePromo m) sm.p1 sm.p5
  -- the regular expression recovers the printed fields
  have hmatch : sanMatch str.toList =
      some (pieceLetter (kindOf (p.at (moveFrom m))), (sanDf p m).map fileChar, (sanDr p m).map rankChar,
            fileChar (moveTo m % 8), rankChar (moveTo m / 8), promoLetter (movePromo m)) := by
    rw [hstr]
    by_cases hk : kindOf (p.at (moveFrom m)) = PAWN
    · have : pieceLetter (kindOf (p.at (moveFrom m))) = none := by rw [hk]; rfl
      rw [this]
      exact pawn_shape _ _ hdf hdr _ _ ht _ hpf.1 _ hsfx
    · have h2 : 2 ≤ kindOf (p.at (moveFrom m)) := by
        have := sm.k1
        have hk' : kindOf (p.at (moveFrom m)) ≠ 1 := hk
        omega
      obtain ⟨c, hcl, hcm⟩ := pieceLetter_mem _ h2 sm.k6
      have hp0 : movePromo m = 0 := by
        by_cases h0 : movePromo m = 0
        · exact h0
        · exact absurd (sm.pr.1 h0).1 hk
      have : promoLetter (movePromo m) = none := by rw [hp0]; rfl
      rw [hcl, this]
      exact piece_shape c hcm _ _ hdf hdr _ _ ht _ hsfx
  -- the text is not a castling text
  have hhead : ∃ c d rest, str.toList = c :: d :: rest ∧ c ≠ 'O' ∧ c ≠ '0' := by
    rw [hstr]
    apply sanText_head
    · intro c hcl
      by_cases hk : kindOf (p.at (moveFrom m)) = PAWN
      · rw [hk] at hcl; cases hcl
      · have h2 : 2 ≤ kindOf (p.at (moveFrom m)) := by
          have := sm.k1
          have hk' : kindOf (p.at (moveFrom m)) ≠ 1 := hk
          omega
        obtain ⟨c', hcl', hcm⟩ := pieceLetter_mem _ h2 sm.k6
        rw [hcl'] at hcl
        cases hcl
        simp only [List.mem_cons, List.mem_nil_iff, or_false] at hcm
        rcases hcm with rfl | rfl | rfl | rfl | rfl <;> decide
    · intro f hf
      rcases sanDf_cases p m with h | h <;> rw [h] at hf
      · cases hf
      · cases hf; exact hf8
    · intro r hr
      rcases sanDr_cases p m with h | h <;> rw [h] at hr
      · cases hr
      · cases hr; exact hr8
  obtain ⟨c, d, rest, hl, hO, h0⟩ := hhead
  obtain ⟨n1, n2⟩ := not_castle_text str c d rest hl hO h0
  have hpo : (promoLetter (movePromo m)).map (fun c => parsePieceKind (some c)) = promoOpt (movePromo m) := hpf.2
  apply parseSan_of_match p str m _ _ _ _ _ _ n1 n2 hmatch
  · rw [hpo]
    unfold promoOpt
    by_cases h0 : movePromo m = 0
    · rw [if_pos h0]; simp
    · rw [if_neg h0]
      have := sm.p1; have := sm.p5
      intro h
      have e1 : PAWN = 1 := rfl
      have e6 : KING = 6 := rfl
      rcases h with h | h <;> (injection h with h; omega)
  · rw [hpo, parse_pieceLetter _ sm.k1 sm.k6, square_back _ ht]
    exact sanFilter_eq p hs m hm hc

end Chess
