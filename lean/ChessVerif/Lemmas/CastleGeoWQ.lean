/- back-rank geometry table of one castling, evaluated in the kernel (see Lemmas/GivesCheckCastle.lean: castleGeoB) -/
import ChessVerif.Lemmas.GivesCheckCastle
namespace Chess
theorem castleGeo_WQ : castleGeoB 4 2 3 0 = true := by decide +kernel
end Chess
