/- Lemmas/MirrorLines.lean — the line masks under the mirror, from the four kernel-table chunks -/
import ChessVerif.Lemmas.MirrorLines0
import ChessVerif.Lemmas.MirrorLines1
import ChessVerif.Lemmas.MirrorLines2
import ChessVerif.Lemmas.MirrorLines3
namespace Chess

theorem lines_mirror (a b : Nat) (ha : a < 64) (hb : b < 64) :
    MirrorBB (lines a b) (lines (flipV a) (flipV b)) ∧ MirrorBB (fullLines a b) (fullLines (flipV a) (flipV b)) := by
  have h0 := linesMirrorChunk0_true
  have h1 := linesMirrorChunk1_true
  have h2 := linesMirrorChunk2_true
  have h3 := linesMirrorChunk3_true
  simp only [linesMirrorChunk0, linesMirrorChunk1, linesMirrorChunk2, linesMirrorChunk3, List.all_eq_true, List.mem_range, List.mem_range'_1,
    Bool.and_eq_true] at h0 h1 h2 h3
  have : (mirB (lines a b) (lines (flipV a) (flipV b)) = true ∧ mirB (fullLines a b) (fullLines (flipV a) (flipV b)) = true) := by
    by_cases c0 : a < 16
    · exact h0 a ⟨by omega, by omega⟩ b hb
    · by_cases c1 : a < 32
      · exact h1 a ⟨by omega, by omega⟩ b hb
      · by_cases c2 : a < 48
        · exact h2 a ⟨by omega, by omega⟩ b hb
        · exact h3 a ⟨by omega, by omega⟩ b hb
  exact ⟨mirB_sound this.1, mirB_sound this.2⟩

end Chess
