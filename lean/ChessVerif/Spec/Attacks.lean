/-
  Spec/Attacks.lean — geometric definitions of attack sets, written from the rules, not from the code:
  a slider attacks along each of its rays square by square up to and including the first occupied square.
-/
import ChessVerif.Model.Basic
namespace Chess.Spec

/-- squares reached from (f, r) by repeatedly adding (df, dr) while staying on the board -/
def rayCoords (df dr : Int) : Nat → Int → Int → List Nat
  | 0, _, _ => []
  | n+1, f, r =>
      let f' := f + df
      let r' := r + dr
      if 0 ≤ f' ∧ f' < 8 ∧ 0 ≤ r' ∧ r' < 8 then (r' * 8 + f').toNat :: rayCoords df dr n f' r' else []

def raySquares (sq : Nat) (df dr : Int) : List Nat := rayCoords df dr 7 (sq % 8 : Nat) (sq / 8 : Nat)

/-- walk a ray: every square is attacked until (and including) the first occupied one -/
def walk : List Nat → BB → BB
  | [], _ => 0
  | s :: rest, occ => sqBB s ||| (if occ.testBit s then 0 else walk rest occ)

def bishopDirs : List (Int × Int) := [(-1, 1), (1, 1), (1, -1), (-1, -1)]
def rookDirs : List (Int × Int) := [(0, 1), (1, 0), (0, -1), (-1, 0)]

def walkDirs (dirs : List (Int × Int)) (sq : Nat) (occ : BB) : BB :=
  dirs.foldl (fun acc d => acc ||| walk (raySquares sq d.1 d.2) occ) 0

def bishopWalk (sq : Nat) (occ : BB) : BB := walkDirs bishopDirs sq occ
def rookWalk (sq : Nat) (occ : BB) : BB := walkDirs rookDirs sq occ
def queenWalk (sq : Nat) (occ : BB) : BB := bishopWalk sq occ ||| rookWalk sq occ

def rayWalk (kind sq : Nat) (occ : BB) : BB :=
  if kind = BISHOP then bishopWalk sq occ else if kind = ROOK then rookWalk sq occ else queenWalk sq occ

/-- leaper sets from coordinates -/
def leaperSet (offs : List (Int × Int)) (sq : Nat) : BB :=
  offs.foldl (fun acc d =>
    let f := ((sq % 8 : Nat) : Int) + d.1
    let r := ((sq / 8 : Nat) : Int) + d.2
    if 0 ≤ f ∧ f < 8 ∧ 0 ≤ r ∧ r < 8 then acc ||| sqBB (r * 8 + f).toNat else acc) 0

def knightJumps : List (Int × Int) := [(1, 2), (-1, 2), (1, -2), (-1, -2), (2, 1), (2, -1), (-2, 1), (-2, -1)]
def kingSteps : List (Int × Int) := [(0, 1), (0, -1), (1, 0), (-1, 0), (1, 1), (-1, 1), (1, -1), (-1, -1)]
def knightSet (sq : Nat) : BB := leaperSet knightJumps sq
def kingSet (sq : Nat) : BB := leaperSet kingSteps sq

/-- squares attacked by pawns of `side` standing on `bb`, from coordinates -/
def pawnAttackSet (side : Nat) (bb : BB) : BB :=
  (List.range 64).foldl (fun acc s =>
    if bb.testBit s then
      acc ||| leaperSet (if side = 0 then [(-1, 1), (1, 1)] else [(-1, -1), (1, -1)]) s
    else acc) 0

/-- unit step from a towards b if they share a rank, file or diagonal -/
def stepTowards (a b : Nat) : Option (Int × Int) :=
  let fa : Int := (a % 8 : Nat); let ra : Int := (a / 8 : Nat)
  let fb : Int := (b % 8 : Nat); let rb : Int := (b / 8 : Nat)
  let df := fb - fa; let dr := rb - ra
  if a = b then none
  else if df = 0 ∨ dr = 0 ∨ df = dr ∨ df = -dr then some (Int.sign df, Int.sign dr)
  else none

def takeThrough (b : Nat) : List Nat → List Nat
  | [] => []
  | s :: rest => if s = b then [s] else s :: takeThrough b rest

/-- squares from a to b inclusive when aligned (a alone when a = b), empty otherwise -/
def betweenIncl (a b : Nat) : BB :=
  if a = b then sqBB a
  else match stepTowards a b with
    | none => 0
    | some d => sqBB a ||| bbOfList (takeThrough b (raySquares a d.1 d.2))

/-- the whole rank, file or diagonal through two distinct aligned squares, empty otherwise -/
def fullLine (a b : Nat) : BB :=
  match stepTowards a b with
  | none => 0
  | some d => sqBB a ||| bbOfList (raySquares a d.1 d.2) ||| bbOfList (raySquares a (-d.1) (-d.2))

end Chess.Spec
