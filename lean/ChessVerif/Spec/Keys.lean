/-
  Spec/Keys.lean — position keys as specifications: the Zobrist key computed from scratch from the four
  components (placement, side, rights, ep file), and the published Polyglot book key.
-/
import ChessVerif.Spec.Rules
import ChessVerif.Spec.Random64
namespace Chess.Spec

/-- Zobrist key from scratch over arbitrary tables: XOR of the cell of every piece, the rights cell,
    the ep-file cell when an ep square is set, the side cell when Black is to move -/
def scratchKey (piece : Nat → Nat → Nat) (castling : Nat → Nat) (side : Nat) (ep : Nat → Nat) (p : SPos) : Nat :=
  let k := (List.range 64).foldl (fun acc s => if pcAt p.board s ≠ 0 then acc ^^^ piece (pcAt p.board s) s else acc) 0
  let k := k ^^^ castling p.castling
  let k := if p.ep ≠ 64 then k ^^^ ep (p.ep % 8) else k
  if p.side = 1 then k ^^^ side else k

def scratchPawnKey (piece : Nat → Nat → Nat) (p : SPos) : Nat :=
  (List.range 64).foldl (fun acc s => if kindOfPc (pcAt p.board s) = 1 then acc ^^^ piece (pcAt p.board s) s else acc) 0

def R (i : Nat) : Nat := random64.getD i 0

/-- Polyglot: kind_of_piece = 2·(kind−1) + (1 if white); offset = 64·kind_of_piece + 8·rank + file -/
def polyPieceIdx (pc s : Nat) : Nat := 64 * (2 * (kindOfPc pc - 1) + (if colorOfPc pc = 0 then 1 else 0)) + s

/-- the ep file counts only if a pawn of the side to move stands beside the pawn that just advanced two squares -/
def polyEpApplies (p : SPos) : Bool :=
  p.ep ≠ 64 &&
    (let pushed := if p.side = 0 then p.ep - 8 else p.ep + 8
     let f := fileI pushed
     let r := rankI pushed
     [f - 1, f + 1].any (fun nf => onBoard nf r && pcAt p.board (sqOf nf r) = mkPc p.side 1))

/-- XOR of `f s` over the squares 0 .. n-1 -/
def xorSquares (f : Nat → Nat) : Nat → Nat
  | 0 => 0
  | n+1 => xorSquares f n ^^^ f n

/-- the piece part: the random of every occupied square -/
def polyPieces (board : List Nat) : Nat :=
  xorSquares (fun s => if pcAt board s ≠ 0 then R (polyPieceIdx (pcAt board s) s) else 0) 64

def polyKey (p : SPos) : Nat :=
  let k := polyPieces p.board
  let k := if p.castling &&& 1 ≠ 0 then k ^^^ R 768 else k
  let k := if p.castling &&& 2 ≠ 0 then k ^^^ R 769 else k
  let k := if p.castling &&& 4 ≠ 0 then k ^^^ R 770 else k
  let k := if p.castling &&& 8 ≠ 0 then k ^^^ R 771 else k
  let k := if polyEpApplies p then k ^^^ R (772 + p.ep % 8) else k
  if p.side = 0 then k ^^^ R 780 else k

end Chess.Spec
