/-
  Spec/Mate.lean — exhaustive forced-mate search on the rules specification (the oracle for C08).
  `forcedMate p n`  : the side to move can force checkmate within n of its own moves.
  `matedWithin p n` : the side to move cannot avoid being mated within n moves of the opponent
                      (n = 0: it is checkmated now).
  A node budget keeps the search total; `none` = budget exhausted (verdict unknown).
-/
import ChessVerif.Spec.Rules
namespace Chess.Spec

mutual
/-- returns (answer?, remaining budget) -/
partial def forcedMateB (p : SPos) (n : Nat) (budget : Nat) : Option Bool × Nat :=
  if budget = 0 then (none, 0) else
  if n = 0 then (some false, budget - 1) else
  let ms := legalMoves p
  let rec go (ms : List SMove) (budget : Nat) (unknown : Bool) : Option Bool × Nat :=
    match ms with
    | [] => (if unknown then none else some false, budget)
    | m :: rest =>
        let q := apply p m
        match matedWithinB q (n - 1) budget with
        | (some true, b) => (some true, b)
        | (some false, b) => go rest b unknown
        | (none, b) => if b = 0 then (none, 0) else go rest b true
  go ms (budget - 1) false

partial def matedWithinB (p : SPos) (n : Nat) (budget : Nat) : Option Bool × Nat :=
  if budget = 0 then (none, 0) else
  let ms := legalMoves p
  if ms.isEmpty then (some (inCheck p.board p.side), budget - 1)
  else if n = 0 then (some false, budget - 1)
  else
    let rec go (ms : List SMove) (budget : Nat) (unknown : Bool) : Option Bool × Nat :=
      match ms with
      | [] => (if unknown then none else some true, budget)
      | m :: rest =>
          match forcedMateB (apply p m) n budget with
          | (some false, b) => (some false, b)
          | (some true, b) => go rest b unknown
          | (none, b) => if b = 0 then (none, 0) else go rest b true
    go ms (budget - 1) false
end

def forcedMate (p : SPos) (n budget : Nat) : Option Bool := (forcedMateB p n budget).1
def matedWithin (p : SPos) (n budget : Nat) : Option Bool := (matedWithinB p n budget).1

/-- some legal move gives checkmate at once -/
def mateInOneMoves (p : SPos) : List SMove := (legalMoves p).filter (fun m => isMate (apply p m))

end Chess.Spec
