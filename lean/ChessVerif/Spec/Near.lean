/-
  Spec/Near.lean — "a king of colour `by_` stands next to square s" (the king term of Spec.attacked), kept in a file of its own
  so that the driver's decidable hypotheses (Lemmas/OKDefs.lean) do not depend on any theorem module.
-/
import ChessVerif.Spec.Rules
namespace Chess

/-- the king term of the rules-level definition -/
def kingNear (b : List Nat) (s by_ : Nat) : Bool :=
  Spec.kingOffs.any (fun d => Spec.onBoard (Spec.fileI s + d.1) (Spec.rankI s + d.2) &&
    decide (Spec.pcAt b (Spec.sqOf (Spec.fileI s + d.1) (Spec.rankI s + d.2)) = Spec.mkPc by_ 6))

end Chess
