/-
  Spec/Fen.lean — Forsyth–Edwards Notation for the specification side (independent of Model.ofFen / Model.fen).
-/
import ChessVerif.Spec.Rules
namespace Chess.Spec

def pcOfChar (c : Char) : Nat :=
  match "PNBRQKpnbrqk".toList.idxOf? c with
  | some i => i + 1
  | none => 0

def charOfPc (pc : Nat) : Char := "?PNBRQKpnbrqk".toList.getD pc '?'

def splitOn (sep : Char) (cs : List Char) : List (List Char) :=
  let (cur, acc) := cs.foldl (fun (st : List Char × List (List Char)) c =>
    if c = sep then ([], st.1.reverse :: st.2) else (c :: st.1, st.2)) ([], [])
  (cur.reverse :: acc).reverse

def words (s : String) : List String :=
  ((splitOn ' ' s.toList).filter (fun w => !w.isEmpty)).map String.ofList

def rowOfFen (cs : List Char) : List Nat :=
  cs.flatMap (fun c => if c.isDigit then List.replicate (c.toNat - 48) 0 else [pcOfChar c])

def sqOfName (s : String) : Nat :=
  match s.toList with
  | [f, r] => (r.toNat - 49) * 8 + (f.toNat - 97)
  | _ => 64

/-- parse a FEN; rows are given from rank 8 down to rank 1 -/
def ofFen (s : String) : SPos :=
  let w := words s
  let rows := (splitOn '/' (w.getD 0 "").toList).map rowOfFen
  let board := (rows.reverse).flatten
  let rights := (w.getD 2 "-").toList.foldl (fun acc c =>
    acc ||| (if c = 'K' then 1 else if c = 'Q' then 2 else if c = 'k' then 4 else if c = 'q' then 8 else 0)) 0
  { board := board, side := if w.getD 1 "w" = "w" then 0 else 1, castling := rights,
    ep := if w.getD 3 "-" = "-" then 64 else sqOfName (w.getD 3 "-"),
    halfmove := (w.getD 4 "0").toNat?.getD 0, fullmove := (w.getD 5 "1").toNat?.getD 1 }

def fenRow (row : List Nat) : String :=
  let (s, n) := row.foldl (fun (st : String × Nat) pc =>
    if pc = 0 then (st.1, st.2 + 1)
    else ((if st.2 > 0 then st.1 ++ toString st.2 else st.1).push (charOfPc pc), 0)) ("", 0)
  if n > 0 then s ++ toString n else s

def sqName (s : Nat) : String := (String.singleton (Char.ofNat (97 + s % 8))).push (Char.ofNat (49 + s / 8))

def toFen (p : SPos) : String :=
  let rows := (List.range 8).reverse.map (fun r => fenRow ((p.board.drop (8 * r)).take 8))
  let rights := (if p.castling &&& 1 ≠ 0 then "K" else "") ++ (if p.castling &&& 2 ≠ 0 then "Q" else "") ++
                (if p.castling &&& 4 ≠ 0 then "k" else "") ++ (if p.castling &&& 8 ≠ 0 then "q" else "")
  String.intercalate "/" rows ++ " " ++ (if p.side = 0 then "w" else "b") ++ " " ++
    (if rights = "" then "-" else rights) ++ " " ++ (if p.ep = 64 then "-" else sqName p.ep) ++ " " ++
    toString p.halfmove ++ " " ++ toString p.fullmove

def uciOf (m : SMove) : String :=
  sqName m.src ++ sqName m.dst ++ (if m.promo = 0 then "" else String.singleton ("  nbrq".toList.getD m.promo ' '))

def moveOfUci (s : String) : SMove :=
  let cs := s.toList
  let src := sqOfName (String.ofList (cs.take 2))
  let dst := sqOfName (String.ofList ((cs.drop 2).take 2))
  let promo := match cs.drop 4 with
    | c :: _ => if c = 'n' then 2 else if c = 'b' then 3 else if c = 'r' then 4 else if c = 'q' then 5 else 0
    | [] => 0
  ⟨src, dst, promo⟩

end Chess.Spec
