/-
  Spec/Rules.lean — the rules of chess written naively (FIDE Laws arts. 3.1–3.9, 5, 9), independent of the
  engine's algorithms: a board is 64 piece codes, attacks are found by walking square by square,
  legality = pseudo-legal ∧ own king not attacked after the move has been applied.
  This is the specification the model is proved/compared against, and the oracle of the hunts.
  Piece codes: 0 empty; 1..6 = white P N B R Q K; 7..12 = black P N B R Q K.
-/
namespace Chess.Spec

structure SPos where
  board : List Nat
  side : Nat            -- 0 white, 1 black
  castling : Nat        -- bit 1 = K, 2 = Q, 4 = k, 8 = q
  ep : Nat              -- en-passant target square, 64 = none
  halfmove : Nat
  fullmove : Nat
  deriving DecidableEq, Repr, Inhabited

/-- a move as the rules see it: from, to, promotion kind (0 none, 2..5 = N B R Q). Castling is the
    king's two-square move. -/
structure SMove where
  src : Nat
  dst : Nat
  promo : Nat
  deriving DecidableEq, Repr, Inhabited

def colorOfPc (pc : Nat) : Nat := if pc < 7 then 0 else 1
def kindOfPc (pc : Nat) : Nat := if pc = 0 then 0 else (pc - 1) % 6 + 1
def mkPc (c k : Nat) : Nat := k + 6 * c
def isOwn (pc c : Nat) : Bool := pc ≠ 0 && colorOfPc pc = c
def isEnemy (pc c : Nat) : Bool := pc ≠ 0 && colorOfPc pc ≠ c

def onBoard (f r : Int) : Bool := 0 ≤ f && f < 8 && 0 ≤ r && r < 8
def sqOf (f r : Int) : Nat := (r * 8 + f).toNat
def fileI (s : Nat) : Int := ((s % 8 : Nat) : Int)
def rankI (s : Nat) : Int := ((s / 8 : Nat) : Int)
def pcAt (b : List Nat) (s : Nat) : Nat := b.getD s 0

def knightOffs : List (Int × Int) := [(1, 2), (-1, 2), (1, -2), (-1, -2), (2, 1), (2, -1), (-2, 1), (-2, -1)]
def kingOffs : List (Int × Int) := [(0, 1), (0, -1), (1, 0), (-1, 0), (1, 1), (-1, 1), (1, -1), (-1, -1)]
def diagDirs : List (Int × Int) := [(1, 1), (-1, 1), (1, -1), (-1, -1)]
def orthoDirs : List (Int × Int) := [(0, 1), (0, -1), (1, 0), (-1, 0)]

/-- first piece met when walking from (f, r) in direction d (exclusive of the start), with its square -/
def firstPiece (b : List Nat) (d : Int × Int) : Nat → Int → Int → Option (Nat × Nat)
  | 0, _, _ => none
  | n+1, f, r =>
      let f' := f + d.1
      let r' := r + d.2
      if onBoard f' r' then
        let pc := pcAt b (sqOf f' r')
        if pc ≠ 0 then some (pc, sqOf f' r') else firstPiece b d n f' r'
      else none

/-- is square `s` attacked by a piece of colour `by`? -/
def attacked (b : List Nat) (s : Nat) (by_ : Nat) : Bool :=
  let f := fileI s
  let r := rankI s
  -- a pawn of colour `by` attacks s from one rank behind (from its own point of view)
  let pr : Int := if by_ = 0 then r - 1 else r + 1
  let pawn := [f - 1, f + 1].any (fun pf => onBoard pf pr && pcAt b (sqOf pf pr) = mkPc by_ 1)
  let knight := knightOffs.any (fun d => onBoard (f + d.1) (r + d.2) && pcAt b (sqOf (f + d.1) (r + d.2)) = mkPc by_ 2)
  let king := kingOffs.any (fun d => onBoard (f + d.1) (r + d.2) && pcAt b (sqOf (f + d.1) (r + d.2)) = mkPc by_ 6)
  let diag := diagDirs.any (fun d => match firstPiece b d 7 f r with
    | some (pc, _) => pc = mkPc by_ 3 || pc = mkPc by_ 5
    | none => false)
  let ortho := orthoDirs.any (fun d => match firstPiece b d 7 f r with
    | some (pc, _) => pc = mkPc by_ 4 || pc = mkPc by_ 5
    | none => false)
  pawn || knight || king || diag || ortho

def findKing (b : List Nat) (c : Nat) : Nat :=
  ((List.range 64).find? (fun s => pcAt b s = mkPc c 6)).getD 64

def inCheck (b : List Nat) (c : Nat) : Bool := attacked b (findKing b c) (1 - c)

/-- squares a slider reaches from (f, r) in direction d: empty squares, then the first enemy piece -/
def slide (b : List Nat) (c : Nat) (d : Int × Int) : Nat → Int → Int → List Nat
  | 0, _, _ => []
  | n+1, f, r =>
      let f' := f + d.1
      let r' := r + d.2
      if onBoard f' r' then
        let pc := pcAt b (sqOf f' r')
        if pc = 0 then sqOf f' r' :: slide b c d n f' r'
        else if isEnemy pc c then [sqOf f' r'] else []
      else []

def promoKinds : List Nat := [5, 4, 3, 2]

def pawnMoves (p : SPos) (s : Nat) : List SMove :=
  let c := p.side
  let f := fileI s
  let r := rankI s
  let dr : Int := if c = 0 then 1 else -1
  let startRank : Int := if c = 0 then 1 else 6
  let lastRank : Int := if c = 0 then 7 else 0
  let mk (t : Nat) : List SMove :=
    if rankI t = lastRank then promoKinds.map (fun k => ⟨s, t, k⟩) else [⟨s, t, 0⟩]
  let one := if onBoard f (r + dr) && pcAt p.board (sqOf f (r + dr)) = 0 then mk (sqOf f (r + dr)) else []
  let two := if r = startRank && pcAt p.board (sqOf f (r + dr)) = 0 && pcAt p.board (sqOf f (r + 2 * dr)) = 0
             then [⟨s, sqOf f (r + 2 * dr), 0⟩] else []
  let caps := [f - 1, f + 1].flatMap (fun cf =>
    if onBoard cf (r + dr) then
      let t := sqOf cf (r + dr)
      if isEnemy (pcAt p.board t) c then mk t
      else if p.ep ≠ 64 && t = p.ep then [⟨s, t, 0⟩]
      else []
    else [])
  one ++ two ++ caps

def stepMoves (p : SPos) (s : Nat) (offs : List (Int × Int)) : List SMove :=
  offs.filterMap (fun d =>
    let f := fileI s + d.1
    let r := rankI s + d.2
    if onBoard f r && !isOwn (pcAt p.board (sqOf f r)) p.side then some ⟨s, sqOf f r, 0⟩ else none)

def slideMoves (p : SPos) (s : Nat) (dirs : List (Int × Int)) : List SMove :=
  dirs.flatMap (fun d => (slide p.board p.side d 7 (fileI s) (rankI s)).map (fun t => ⟨s, t, 0⟩))

/-- castling (art. 3.8.2): right still held, king and rook on their original squares, squares between them
    empty, king not in check and does not pass through or land on an attacked square -/
def castleMoves (p : SPos) : List SMove :=
  let c := p.side
  let r0 : Nat := if c = 0 then 0 else 56
  let opp := 1 - c
  let b := p.board
  let kOK := pcAt b (r0 + 4) = mkPc c 6
  let short :=
    if kOK && p.castling &&& (if c = 0 then 1 else 4) ≠ 0 && pcAt b (r0 + 7) = mkPc c 4 &&
       pcAt b (r0 + 5) = 0 && pcAt b (r0 + 6) = 0 &&
       !attacked b (r0 + 4) opp && !attacked b (r0 + 5) opp && !attacked b (r0 + 6) opp
    then [(⟨r0 + 4, r0 + 6, 0⟩ : SMove)] else []
  let long :=
    if kOK && p.castling &&& (if c = 0 then 2 else 8) ≠ 0 && pcAt b r0 = mkPc c 4 &&
       pcAt b (r0 + 1) = 0 && pcAt b (r0 + 2) = 0 && pcAt b (r0 + 3) = 0 &&
       !attacked b (r0 + 4) opp && !attacked b (r0 + 3) opp && !attacked b (r0 + 2) opp
    then [(⟨r0 + 4, r0 + 2, 0⟩ : SMove)] else []
  short ++ long

def pseudoMoves (p : SPos) : List SMove :=
  (List.range 64).flatMap (fun s =>
    let pc := pcAt p.board s
    if isOwn pc p.side then
      match kindOfPc pc with
      | 1 => pawnMoves p s
      | 2 => stepMoves p s knightOffs
      | 3 => slideMoves p s diagDirs
      | 4 => slideMoves p s orthoDirs
      | 5 => slideMoves p s (diagDirs ++ orthoDirs)
      | 6 => stepMoves p s kingOffs
      | _ => []
    else []) ++ castleMoves p

def isCastle (b : List Nat) (m : SMove) : Bool :=
  kindOfPc (pcAt b m.src) = 6 && (m.dst = m.src + 2 || m.dst + 2 = m.src)
def isEpCapture (p : SPos) (m : SMove) : Bool :=
  kindOfPc (pcAt p.board m.src) = 1 && m.dst = p.ep && p.ep ≠ 64 && fileI m.src ≠ fileI m.dst
def isCaptureMove (p : SPos) (m : SMove) : Bool := pcAt p.board m.dst ≠ 0 || isEpCapture p m

def clearRight (c bit : Nat) : Nat := c &&& (15 ^^^ bit)

/-- the position after the move, by the rules -/
def apply (p : SPos) (m : SMove) : SPos :=
  let c := p.side
  let b := p.board
  let pc := pcAt b m.src
  let k := kindOfPc pc
  let capture := isCaptureMove p m
  -- piece placement
  let b1 := (b.set m.src 0).set m.dst (if m.promo ≠ 0 then mkPc c m.promo else pc)
  let b2 := if isEpCapture p m then b1.set (if c = 0 then m.dst - 8 else m.dst + 8) 0 else b1
  let b3 :=
    if isCastle b m then
      if m.dst = m.src + 2 then (b2.set (m.src + 3) 0).set (m.src + 1) (mkPc c 4)
      else (b2.set (m.src - 4) 0).set (m.src - 1) (mkPc c 4)
    else b2
  -- castling rights: lost when the king moves, when a rook leaves its corner, when a rook is captured in its corner
  let r := p.castling
  let r := if k = 6 then clearRight r (if c = 0 then 3 else 12) else r
  let r := if m.src = 7 || m.dst = 7 then clearRight r 1 else r
  let r := if m.src = 0 || m.dst = 0 then clearRight r 2 else r
  let r := if m.src = 63 || m.dst = 63 then clearRight r 4 else r
  let r := if m.src = 56 || m.dst = 56 then clearRight r 8 else r
  -- en-passant target after a double step (FEN convention: always recorded)
  let ep := if k = 1 && (m.dst = m.src + 16 || m.dst + 16 = m.src) then (m.src + m.dst) / 2 else 64
  { board := b3, side := 1 - c, castling := r, ep := ep,
    halfmove := if k = 1 || capture then 0 else p.halfmove + 1,
    fullmove := if c = 1 then p.fullmove + 1 else p.fullmove }

def legal (p : SPos) (m : SMove) : Bool :=
  (pseudoMoves p).contains m && !inCheck (apply p m).board p.side

def legalMoves (p : SPos) : List SMove :=
  (pseudoMoves p).filter (fun m => !inCheck (apply p m).board p.side)

def isMate (p : SPos) : Bool := (legalMoves p).isEmpty && inCheck p.board p.side
def isStalemate (p : SPos) : Bool := (legalMoves p).isEmpty && !inCheck p.board p.side

def count (b : List Nat) (pc : Nat) : Nat := (b.filter (· = pc)).length

/-- bare kings, or a single minor piece on the board besides the kings -/
def insufficientMaterial (b : List Nat) : Bool :=
  let others := (b.filter (fun pc => pc ≠ 0 && pc ≠ 6 && pc ≠ 12))
  others.isEmpty || (others.length = 1 && (kindOfPc (others.headD 0) = 2 || kindOfPc (others.headD 0) = 3))

/-- identity of a position for repetition purposes: placement, side, rights, ep square -/
def samePos (a b : SPos) : Bool := a.board = b.board && a.side = b.side && a.castling = b.castling && a.ep = b.ep

/-- number of earlier positions of the game (list, newest first, current excluded) equal to the current one -/
def earlier (cur : SPos) (past : List SPos) : Nat := (past.filter (samePos cur)).length

-- well-formedness (the quantifier of the position properties) ---------------------------------
def kingsAdjacent (b : List Nat) : Bool :=
  let w := findKing b 0; let k := findKing b 1
  let df := fileI w - fileI k; let dr := rankI w - rankI k
  (df.natAbs ≤ 1) && (dr.natAbs ≤ 1)

def rightsConsistent (p : SPos) : Bool :=
  let b := p.board
  (p.castling &&& 1 = 0 || (pcAt b 4 = 6 && pcAt b 7 = 4)) &&
  (p.castling &&& 2 = 0 || (pcAt b 4 = 6 && pcAt b 0 = 4)) &&
  (p.castling &&& 4 = 0 || (pcAt b 60 = 12 && pcAt b 63 = 10)) &&
  (p.castling &&& 8 = 0 || (pcAt b 60 = 12 && pcAt b 56 = 10))

/-- the position "before the double push" that created the ep square: pawn back on its start square -/
def beforeDoublePush (p : SPos) : List Nat :=
  let c := p.side  -- side to move now; the pusher is 1 - c
  let pushed := if c = 0 then p.ep - 8 else p.ep + 8
  let origin := if c = 0 then p.ep + 8 else p.ep - 8
  (p.board.set pushed 0).set origin (mkPc (1 - c) 1)

def epConsistent (p : SPos) : Bool :=
  if p.ep = 64 then true
  else
    let c := p.side
    let b := p.board
    let okRank := if c = 0 then p.ep / 8 = 5 else p.ep / 8 = 2
    let pushed := if c = 0 then p.ep - 8 else p.ep + 8
    let origin := if c = 0 then p.ep + 8 else p.ep - 8
    okRank && pcAt b p.ep = 0 && pcAt b origin = 0 && pcAt b pushed = mkPc (1 - c) 1 &&
      -- the double push was itself legal: before it, the side now to move was not in check
      -- (it was the pusher's turn), and after it the pusher is not in check (checked by `wf`)
      !inCheck (beforeDoublePush p) c

def materialOK (b : List Nat) : Bool :=
  [0, 1].all (fun c =>
    count b (mkPc c 6) = 1 &&
    count b (mkPc c 1) ≤ 8 &&
    count b (mkPc c 2) + count b (mkPc c 1) ≤ 10 &&
    count b (mkPc c 3) + count b (mkPc c 1) ≤ 10 &&
    count b (mkPc c 4) + count b (mkPc c 1) ≤ 10 &&
    count b (mkPc c 5) + count b (mkPc c 1) ≤ 9)

def noPawnsOnEdge (b : List Nat) : Bool :=
  (List.range 8).all (fun f => kindOfPc (pcAt b f) ≠ 1 && kindOfPc (pcAt b (56 + f)) ≠ 1)

/-- one-ply retro-legal positions: the quantifier of C01/C02/… -/
def wf (p : SPos) : Bool :=
  p.board.length = 64 && p.board.all (· ≤ 12) && p.side ≤ 1 && p.castling < 16 &&
  materialOK p.board && !kingsAdjacent p.board && !inCheck p.board (1 - p.side) &&
  noPawnsOnEdge p.board && rightsConsistent p && epConsistent p

end Chess.Spec
