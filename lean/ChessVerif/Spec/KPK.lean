/-
  Spec/KPK.lean — the game-theoretic value of king + pawn v king, from the rules (C12's specification).

  A position is (side to move, white king, white pawn, black king) with a WHITE pawn on any of the 8 files,
  ranks 2..7 (the black-pawn case is the colour mirror).  `Wins` is the least fixpoint of:
    White to move wins  iff  some legal move reaches a won position, or it promotes safely;
    Black to move loses iff  it has a legal move and every legal move reaches a won position
                             (capturing the pawn draws; no legal move = stalemate, a pawn cannot mate here).
  "Promotes safely": the pawn reaches rank 8 on an empty square, the new queen (or, if a queen stalemates,
  a rook) cannot be captured and Black is not stalemated.  That K+Q/K+R v K is then won is chess theory
  outside this file (stated in DESIGN §6 C12).
  `solve` is an executable retrograde computation of that fixpoint, used as oracle by the driver.
-/
namespace Chess.Spec.KPK

def fileOf (s : Nat) : Nat := s % 8
def rankOf (s : Nat) : Nat := s / 8
def dist (a b : Nat) : Nat :=
  max (if fileOf a ≥ fileOf b then fileOf a - fileOf b else fileOf b - fileOf a)
      (if rankOf a ≥ rankOf b then rankOf a - rankOf b else rankOf b - rankOf a)

/-- squares a king on `s` can step to -/
def kingSteps (s : Nat) : List Nat :=
  (List.range 64).filter (fun t => t ≠ s && dist s t = 1)

/-- squares attacked by the white pawn on `p` -/
def pawnAttacks (p : Nat) : List Nat :=
  (if fileOf p > 0 then [p + 7] else []) ++ (if fileOf p < 7 then [p + 9] else [])

structure Pos where
  stm : Nat     -- 0 = White (the pawn's side) to move, 1 = Black
  wk : Nat
  wp : Nat
  bk : Nat
  deriving DecidableEq, Repr, Inhabited

def legal (q : Pos) : Bool :=
  q.wk ≠ q.wp && q.bk ≠ q.wp && q.wk ≠ q.bk && dist q.wk q.bk > 1 &&
  1 ≤ rankOf q.wp && rankOf q.wp ≤ 6 &&
  -- the side that is NOT to move may not be in check: with White to move the black king is not attacked by the pawn
  !(q.stm = 0 && (pawnAttacks q.wp).contains q.bk)

/-- after a promotion on `sq` with the white king on wk and the black king on bk (Black to move):
    is the promoted piece safe and Black not stalemated, for a queen or else a rook? -/
def promotionWins (wk sq bk : Nat) : Bool :=
  let capturable := dist bk sq = 1 && dist wk sq > 1
  if capturable then false
  else
    -- squares attacked by a queen / rook on sq (the kings are the only other pieces; wk may block)
    let lineAttacks (diag : Bool) (t : Nat) : Bool :=
      let df : Int := (fileOf t : Int) - (fileOf sq : Int)
      let dr : Int := (rankOf t : Int) - (rankOf sq : Int)
      let aligned := (df = 0 ∨ dr = 0) ∨ (diag ∧ (df = dr ∨ df = -dr))
      if t = sq ∨ ¬ aligned then false
      else
        -- blocked by the white king standing strictly between?
        let sf : Int := if df > 0 then 1 else if df < 0 then -1 else 0
        let sr : Int := if dr > 0 then 1 else if dr < 0 then -1 else 0
        let n := max df.natAbs dr.natAbs
        !((List.range (n - 1)).any (fun k =>
            let f := (fileOf sq : Int) + sf * ((k : Int) + 1)
            let r := (rankOf sq : Int) + sr * ((k : Int) + 1)
            (r * 8 + f).toNat = wk))
    let blackHasMove (diag : Bool) : Bool :=
      (kingSteps bk).any (fun t => dist t wk > 1 && !(lineAttacks diag t) && !(t = sq && dist wk sq = 1) &&
                                   (t ≠ sq))
    let inCheck (diag : Bool) : Bool := lineAttacks diag bk
    -- not stalemate: Black has a move or is in check (then it is mate or play goes on with Q/R v bare king)
    (blackHasMove true || inCheck true) || (blackHasMove false || inCheck false)

inductive Outcome | win | draw
  deriving DecidableEq, Repr

/-- successor positions of `q` under the rules (pawn capture / promotion are reported separately) -/
def whiteMoves (q : Pos) : List Pos × Bool :=
  let ks := (kingSteps q.wk).filter (fun t => t ≠ q.wp && dist t q.bk > 1)
  let kingMoves := ks.map (fun t => ({ stm := 1, wk := t, wp := q.wp, bk := q.bk } : Pos))
  let one := q.wp + 8
  let free1 := one ≠ q.wk && one ≠ q.bk
  let promo := rankOf q.wp = 6 && free1 && promotionWins q.wk one q.bk
  let push1 := if rankOf q.wp < 6 ∧ free1 then [({ stm := 1, wk := q.wk, wp := one, bk := q.bk } : Pos)] else []
  let two := q.wp + 16
  let push2 := if rankOf q.wp = 1 ∧ free1 ∧ two ≠ q.wk ∧ two ≠ q.bk then [({ stm := 1, wk := q.wk, wp := two, bk := q.bk } : Pos)] else []
  (kingMoves ++ push1 ++ push2, promo)

/-- Black's king moves: (positions reached, can the pawn be captured) -/
def blackMoves (q : Pos) : List Pos × Bool :=
  let targets := (kingSteps q.bk).filter (fun t => dist t q.wk > 1 && !(pawnAttacks q.wp).contains t)
  let captures := targets.contains q.wp
  ((targets.filter (· ≠ q.wp)).map (fun t => ({ stm := 0, wk := q.wk, wp := q.wp, bk := t } : Pos)), captures)

def idx (q : Pos) : Nat := ((q.stm * 64 + q.wk) * 64 + q.wp) * 64 + q.bk

/-- one retrograde sweep: `won` marks positions already known won for White -/
def sweep (won : Array Bool) : Array Bool × Bool := Id.run do
  let mut w := won
  let mut changed := false
  for stm in [0:2] do
    for wk in [0:64] do
      for wp in [8:56] do
        for bk in [0:64] do
          let q : Pos := { stm := stm, wk := wk, wp := wp, bk := bk }
          let i := idx q
          if !w.getD i false && legal q then
            if stm = 0 then
              let (succ, promo) := whiteMoves q
              if promo || succ.any (fun s => legal s && w.getD (idx s) false) then
                w := w.set! i true
                changed := true
            else
              let (succ, captures) := blackMoves q
              -- Black loses iff it cannot take the pawn and every move loses; with no move at all it is stalemate
              -- (draw) unless the pawn gives check (checkmate)
              let mated := succ.isEmpty && !captures && (pawnAttacks q.wp).contains q.bk
              if mated || (!captures && !succ.isEmpty && succ.all (fun s => w.getD (idx s) false)) then
                w := w.set! i true
                changed := true
  return (w, changed)

partial def solveLoop (w : Array Bool) (n : Nat) : Array Bool × Nat :=
  let (w', ch) := sweep w
  if ch then solveLoop w' (n + 1) else (w', n)

/-- the set of positions won for the pawn's side (index `idx`), and the number of sweeps -/
def solve (_ : Unit) : Array Bool × Nat := solveLoop (Array.replicate (2 * 64 * 64 * 64) false) 0

/-- like `sweep`, but records in `rk` the number of the sweep (from 1) in which a position became won; positions marked
    in the same sweep as one of the successors they rely on are NOT accepted in that sweep (so ranks strictly decrease) -/
def sweepRanked (rk : Array Nat) (n : Nat) : Array Nat × Bool := Id.run do
  let mut w := rk
  let mut changed := false
  for stm in [0:2] do
    for wk in [0:64] do
      for wp in [8:56] do
        for bk in [0:64] do
          let q : Pos := { stm := stm, wk := wk, wp := wp, bk := bk }
          let i := idx q
          if rk.getD i 0 = 0 && legal q then
            let won (s : Pos) : Bool := rk.getD (idx s) 0 ≠ 0      -- marked in an EARLIER sweep
            if stm = 0 then
              let (succ, promo) := whiteMoves q
              if promo || succ.any (fun s => legal s && won s) then
                w := w.set! i n
                changed := true
            else
              let (succ, captures) := blackMoves q
              let mated := succ.isEmpty && !captures && (pawnAttacks q.wp).contains q.bk
              if mated || (!captures && !succ.isEmpty && succ.all won) then
                w := w.set! i n
                changed := true
  return (w, changed)

partial def rankLoop (rk : Array Nat) (n : Nat) : Array Nat :=
  let (rk', ch) := sweepRanked rk n
  if ch then rankLoop rk' (n + 1) else rk'

/-- rank of every position: 0 = not won, otherwise the (Jacobi) sweep in which it became won -/
def solveRanks (_ : Unit) : Array Nat := rankLoop (Array.replicate (2 * 64 * 64 * 64) 0) 1

end Chess.Spec.KPK
