/-
  DriverExtra.lean — further line-protocol operations (evaluation, book, time, bitbase, tables) and
  scenario generators; kept apart from Driver.lean so the core protocol stays small.
-/
import ChessVerif.Model.Text
import ChessVerif.Model.Polyglot
import ChessVerif.Spec.Rules
import ChessVerif.Spec.Keys
import ChessVerif.Spec.Fen
open Chess

structure ExtraState where
  dummy : Nat := 0

def extraOp (x : ExtraState) (_mp : Position) (_sp : Spec.SPos) (_op : String) (_args : List String) :
    Option (ExtraState × String × String) := none

def genExtra (_args : List String) : IO Unit := IO.eprintln "unknown generator"
