/-
  DriverExtra.lean — further line-protocol operations (tables, evaluation, book, time, bitbase) and
  scenario generators; kept apart from Driver.lean so the core protocol stays small.
-/
import ChessVerif.Model.Text
import ChessVerif.Model.Polyglot
import ChessVerif.Spec.Rules
import ChessVerif.Spec.Keys
import ChessVerif.Spec.Fen
import ChessVerif.Spec.Attacks
import ChessVerif.Model.Time
import ChessVerif.Gen.Importance
import ChessVerif.Model.Bitbase
import ChessVerif.Spec.KPK
import ChessVerif.Model.Eval
open Chess

-- floating point instance of the time manager ---------------------------------------------------------
def impF (x : Nat) : Float := Float.ofBits (UInt64.ofNat (Gen.importanceBits.getD x 0))

def ratioF (m ply : Nat) : Float :=
  let mi := impF ply
  let rest := (List.range' 1 (m - 1)).foldl (fun acc i => acc + impF (ply + 2 * i)) (0.0 : Float)
  mi / (mi + rest)

def truncF (x : Float) : Int := x.toInt64.toInt

/-- IEEE-754 doubles, the same operations in the same order as time_manager.cpp -/
def floatOps : FloatOps :=
  { scale := fun m ply total => truncF (Float.ofInt total * ratioF m ply),
    cap := fun a => truncF (0.7 * Float.ofInt a) }

-- book helpers ------------------------------------------------------------------------------------------
def hexBytes (s : String) : List Nat :=
  let rec go : List Char → List Nat
    | a :: b :: rest => (parseHexC a * 16 + parseHexC b) :: go rest
    | _ => []
  if s = "-" then [] else go s.toList
where parseHexC (c : Char) : Nat :=
  if c.isDigit then c.toNat - 48 else if 'a' ≤ c ∧ c ≤ 'f' then c.toNat - 87 else if 'A' ≤ c ∧ c ≤ 'F' then c.toNat - 55 else 0

def insertNat (x : Nat) : List Nat → List Nat
  | [] => [x]
  | y :: ys => if x < y then x :: y :: ys else if x = y then y :: ys else y :: insertNat x ys

def showBook (es : List BookEntry) : String :=
  let keys := es.foldl (fun acc e => insertNat e.key acc) []
  let body := keys.foldl (fun acc k =>
    (es.filter (·.key = k)).foldl (fun acc e =>
      acc ++ " " ++ (let ds := Nat.toDigits 16 e.key; String.ofList (List.replicate (16 - ds.length) '0' ++ ds)) ++ ":" ++ toString e.move ++ ":" ++ toString e.weight) acc) ""
  "book n=" ++ toString es.length ++ body

/-- specification-side reading of a Polyglot file: complete 16-byte records; key = 8 bytes big-endian; move word:
    bits 0-5 to-square, 6-11 from-square, 12-14 promotion (1..4 = N B R Q); weight = 2 bytes big-endian at offset 10 -/
def specBook (bs : List Nat) : List BookEntry :=
  let n := bs.length / 16
  (List.range n).map (fun i =>
    let rec_ := (bs.drop (16 * i)).take 16
    let key := (rec_.take 8).foldl (fun acc b => acc * 256 + b) 0
    let code := rec_.getD 8 0 * 256 + rec_.getD 9 0
    let promo := (code / 4096) % 8
    let mv := (code / 64) % 64 + 64 * (code % 64) + 4096 * (if promo = 0 then 0 else promo + 1)
    { key := key, move := mv, weight := rec_.getD 10 0 * 256 + rec_.getD 11 0 })

def specPick (es : List BookEntry) (r : Nat) : Nat :=
  -- the index whose weight interval [cum i, cum (i+1)) contains r
  ((List.range es.length).find? (fun i =>
    let lo := ((es.take i).map (·.weight)).foldl (· + ·) 0
    lo ≤ r ∧ r < lo + (es.getD i default).weight)).getD es.length

def specBest (es : List BookEntry) : Option BookEntry :=
  let mx := es.foldl (fun acc e => max acc e.weight) 0
  es.find? (fun e => e.weight = mx)

structure ExtraState where
  kpk : Option (Array Bool) := none     -- the spec's solved KPK table, computed on first use
  cache : PawnCache := {}               -- the model of the session's long-lived evaluator

def hexs (n : Nat) : String := String.ofList (Nat.toDigits 16 n)
def hex16' (n : Nat) : String :=
  let ds := Nat.toDigits 16 n
  String.ofList (List.replicate (16 - ds.length) '0' ++ ds)

def parseHex (s : String) : Nat :=
  s.toList.foldl (fun acc c =>
    acc * 16 + (if c.isDigit then c.toNat - 48 else if 'a' ≤ c ∧ c ≤ 'f' then c.toNat - 87 else if 'A' ≤ c ∧ c ≤ 'F' then c.toNat - 55 else 0)) 0

def argN (args : List String) (i : Nat) : Nat := (args.getD i "0").toNat?.getD 0

def extraOp (x : ExtraState) (mp : Position) (_sp : Spec.SPos) (op : String) (args : List String) :
    Option (ExtraState × String × String) :=
  if op = "eval" then
    let v := "eval " ++ toString (evalPure mp)
    some (x, v, v)
  else if op = "evalw" then
    let (v, c) := evalCached x.cache mp
    -- specification of a transparent cache: the warm value IS the pure value
    some ({ x with cache := c }, "evalw " ++ toString v, "evalw " ++ toString (evalPure mp))
  else if op = "evalclear" then
    some ({ x with cache := x.cache.clear }, "evalclear ok", "evalclear ok")
  else if op = "pawnslot" then
    let v := "pawnslot " ++ toString (mp.hash.pawnK % PAWN_CACHE_SIZE)
    some (x, v, v)
  else if op = "kpkrow" then
    let strong := argN args 0; let stm := argN args 1; let psq := argN args 2
    let tab := match x.kpk with | some t => t | none => (Spec.KPK.solve ()).1
    let pre := "kpkrow " ++ toString strong ++ " " ++ toString stm ++ " " ++ toString psq ++ " "
    let cells (f : Nat → Nat → Char) : String :=
      String.ofList ((List.range 64).flatMap (fun sk => (List.range 64).map (fun wkk =>
        if sk = wkk ∨ sk = psq ∨ wkk = psq then '-' else f sk wkk)))
    let m := cells (fun sk wkk => if kpkSaysWin strong stm sk psq wkk then 'W' else 'D')
    -- spec: White-pawn frame; a black pawn is the colour mirror (ranks flipped, side to move swapped)
    let fl (s : Nat) : Nat := if strong = 0 then s else (7 - s / 8) * 8 + s % 8
    let sstm := if strong = 0 then stm else 1 - stm
    let s := cells (fun sk wkk =>
      let q : Spec.KPK.Pos := { stm := sstm, wk := fl sk, wp := fl psq, bk := fl wkk }
      if Spec.KPK.legal q then (if tab.getD (Spec.KPK.idx q) false then 'W' else 'D') else 'x')
    some ({ x with kpk := some tab }, pre ++ m, pre ++ s)
  else if op = "book" then
    let bs := hexBytes (args.getD 0 "-")
    some (x, showBook (loadBook bs), showBook (specBook bs))
  else if op = "bookbest" then
    let bs := hexBytes (args.getD 0 "-"); let key := parseHex (args.getD 1 "0")
    let em := entriesFor (loadBook bs) key
    let es := (specBook bs).filter (·.key = key)
    let m := match best em with | none => "bookbest absent" | some b => "bookbest move=" ++ toString (decodeBookMove mp b.move)
    let s := match specBest es with | none => "bookbest absent" | some b => "bookbest move=" ++ toString (decodeBookMove mp b.move)
    some (x, m, s)
  else if op = "bookdist" then
    -- the support of the random policy: decoded move ↦ summed weight of the records of this key (model's and spec's loaders)
    let bs := hexBytes (args.getD 0 "-"); let key := parseHex (args.getD 1 "0")
    let em := entriesFor (loadBook bs) key
    let es := (specBook bs).filter (·.key = key)
    let line (l : List BookEntry) : String :=
      if l.isEmpty then "bookdist absent"
      else
        let pairs := l.map (fun e => (decodeBookMove mp e.move, e.weight))
        let moves := (pairs.map (·.1)).eraseDups
        let moves := moves.toArray.qsort (· < ·) |>.toList
        "bookdist support" ++ moves.foldl (fun acc m => acc ++ " " ++ toString m ++ ":" ++ toString ((pairs.filter (·.1 = m)).foldl (fun a x => a + x.2) 0)) ""
    some (x, line em, line es)
  else if op = "bookpick" then
    let bs := hexBytes (args.getD 0 "-"); let key := parseHex (args.getD 1 "0"); let r := argN args 3
    let em := entriesFor (loadBook bs) key
    let es := (specBook bs).filter (·.key = key)
    let tot (l : List BookEntry) : Nat := (l.map (·.weight)).foldl (· + ·) 0
    let line (l : List BookEntry) (i : Nat) :=
      if l.isEmpty then "bookpick absent" else if tot l = 0 then "bookpick total=0"
      else "bookpick r=" ++ toString r ++ " total=" ++ toString (tot l) ++ " move=" ++ toString (decodeBookMove mp (l.getD i default).move)
    some (x, line em (pick em r), line es (specPick es r))
  else if op = "time" then
    let left := argN args 0; let inc := argN args 1; let mtg := argN args 2; let ply := argN args 3
    let pre := "time left=" ++ toString left ++ " inc=" ++ toString inc ++ " mtg=" ++ toString mtg ++ " ply=" ++ toString ply ++ " t="
    let t := calcTime floatOps left inc mtg ply
    some (x, pre ++ toString t, pre ++ toString t)
  else if op = "slidertab" then
    let kind := argN args 0; let sq := argN args 1
    let mask := if kind = BISHOP then bishopMask sq else rookMask sq
    let bits := bitsOf mask
    let n := 2 ^ bits.length
    let hdr := "slidertab " ++ toString kind ++ " " ++ toString sq ++ " n=" ++ toString n
    let m := (List.range n).foldl (fun acc i => acc ++ " " ++ hexs (sliderAttack kind sq (blockersFromIndex i bits))) hdr
    let s := (List.range n).foldl (fun acc i => acc ++ " " ++ hexs (Spec.rayWalk kind sq (blockersFromIndex i bits))) hdr
    some (x, m, s)
  else if op = "att" then
    let kind := argN args 0; let sq := argN args 1; let occ := parseHex (args.getD 2 "0")
    let pre := "att " ++ toString kind ++ " " ++ toString sq ++ " "
    some (x, pre ++ hex16' (sliderAttack kind sq occ), pre ++ hex16' (Spec.rayWalk kind sq occ))
  else if op = "leapers" then
    let sq := argN args 0
    let rs (f : Nat → Nat) := String.intercalate "," ((List.range 8).map (fun r => hex16' (f r)))
    let m := "leapers " ++ toString sq ++ " n=" ++ hex16' (knightMask sq) ++ " k=" ++ hex16' (kingMask sq) ++
      " pw=" ++ hex16' (pawnAttacks 0 (sqBB sq)) ++ " pb=" ++ hex16' (pawnAttacks 1 (sqBB sq)) ++
      " bm=" ++ hex16' (bishopMask sq) ++ " rm=" ++ hex16' (rookMask sq) ++ " rays=" ++ rs (fun r => rays r sq)
    -- spec: coordinate definitions; ray order NW N NE E SE S SW W; masks = rays minus their last square (edge squares)
    let dirs : List (Int × Int) := [(-1, 1), (0, 1), (1, 1), (1, 0), (1, -1), (0, -1), (-1, -1), (-1, 0)]
    let rayS (r : Nat) : Nat := bbOfList (Spec.raySquares sq (dirs.getD r (0, 0)).1 (dirs.getD r (0, 0)).2)
    let inner (r : Nat) : Nat := bbOfList (Spec.raySquares sq (dirs.getD r (0, 0)).1 (dirs.getD r (0, 0)).2).dropLast
    let s := "leapers " ++ toString sq ++ " n=" ++ hex16' (Spec.knightSet sq) ++ " k=" ++ hex16' (Spec.kingSet sq) ++
      " pw=" ++ hex16' (Spec.pawnAttackSet 0 (sqBB sq)) ++ " pb=" ++ hex16' (Spec.pawnAttackSet 1 (sqBB sq)) ++
      " bm=" ++ hex16' (inner 0 ||| inner 2 ||| inner 4 ||| inner 6) ++ " rm=" ++ hex16' (inner 1 ||| inner 3 ||| inner 5 ||| inner 7) ++
      " rays=" ++ rs rayS
    some (x, m, s)
  else if op = "lines" then
    let a := argN args 0
    let m := (List.range 64).foldl (fun acc b => acc ++ " " ++ hexs (lines a b) ++ ":" ++ hexs (fullLines a b)) ("lines " ++ toString a)
    let s := (List.range 64).foldl (fun acc b => acc ++ " " ++ hexs (Spec.betweenIncl a b) ++ ":" ++ hexs (Spec.fullLine a b)) ("lines " ++ toString a)
    some (x, m, s)
  else if op = "pawnatt" then
    let side := argN args 0; let bb := parseHex (args.getD 1 "0")
    let pre := "pawnatt " ++ toString side ++ " "
    some (x, pre ++ hex16' (pawnAttacks side bb), pre ++ hex16' (Spec.pawnAttackSet side bb))
  else if op = "bits" then
    let bb := parseHex (args.getD 0 "0")
    let specLsb := ((List.range 64).find? (fun i => bb.testBit i)).getD 64
    let specMsb := ((List.range 64).reverse.find? (fun i => bb.testBit i)).getD 64
    let specPop := ((List.range 64).filter (fun i => bb.testBit i)).length
    let m := "bits lsb=" ++ toString (if bb = 0 then 64 else lsb bb) ++ " msb=" ++ toString (if bb = 0 then 64 else msb bb) ++
      " pop=" ++ toString (popcount bb) ++ " more=" ++ (if moreThanOne bb then "1" else "0")
    let s := "bits lsb=" ++ toString specLsb ++ " msb=" ++ toString specMsb ++ " pop=" ++ toString specPop ++
      " more=" ++ (if specPop > 1 then "1" else "0")
    some (x, m, s)
  else none

def genExtra (_args : List String) : IO Unit := IO.eprintln "unknown generator"
