/-
  Model/Position.lean — mirrors engine/position.cpp + engine/zobrist_hash.cpp.

  Representation choice (deviation from DESIGN §2 recorded in DESIGN §11): the C++ keeps three redundant
  placements (`_board`, two bitboard families, piece lists).  The model keeps ONE (`board`, 64 piece codes)
  and derives the other two on demand (`pieceBB`, `squaresOf`); that the C++ keeps its three in step is
  checked on the implementation at every step of every correspondence run (`sync=ok` in the state line),
  and consumers of the piece lists are order-independent (C03), which is checked by comparing after
  do/undo excursions that permute the C++ lists.
-/
import ChessVerif.Model.Types
import ChessVerif.Model.Tables
namespace Chess

/-- the per-process random Zobrist tables (`PIECE_HASH`, `CASTLING_HASH`, `SIDE_HASH`, `ENPASSANT_HASH`);
    every theorem is for an arbitrary table -/
structure ZTable where
  piece : Nat → Nat → Nat
  castling : Nat → Nat
  side : Nat
  ep : Nat → Nat

structure HashKey where
  pieceK : Nat := 0
  pawnK : Nat := 0
  epK : Nat := 0
  castK : Nat := 0
  colorK : Nat := 0
  deriving DecidableEq, Repr, Inhabited

def HashKey.key (h : HashKey) : Nat := h.pieceK ^^^ h.pawnK ^^^ h.epK ^^^ h.castK ^^^ h.colorK

/-- `HashKey::toggle_piece` -/
def HashKey.toggle (T : ZTable) (h : HashKey) (pc sq : Nat) : HashKey :=
  if kindOf pc = PAWN then { h with pawnK := h.pawnK ^^^ T.piece pc sq }
  else { h with pieceK := h.pieceK ^^^ T.piece pc sq }

structure Position where
  side : Nat := 0
  halfmove : Nat := 0          -- uint16_t _half_move_counter (after the clock fix; was uint8_t)
  ply : Int := 1               -- int32_t _ply_counter
  board : List Nat := List.replicate 64 0
  castling : Nat := 0
  ep : Nat := 64
  hash : HashKey := {}
  history : List Nat := []     -- `_history[0 .. _history_counter)`, newest first
  deriving DecidableEq, Repr, Inhabited

def Position.at (p : Position) (sq : Nat) : Nat := p.board.getD sq 0

/-- bitboard of the squares holding piece code `pc` -/
def bbOfPiece (board : List Nat) (pc : Nat) : BB :=
  (board.foldl (fun (acc : BB × Nat) x => (if x = pc then acc.1 ||| sqBB acc.2 else acc.1, acc.2 + 1)) (0, 0)).1

/-- all 13 per-piece bitboards in one pass (index = piece code; slot 0 = empty squares, unused) -/
def pieceBBs (board : List Nat) : List BB :=
  (board.foldl (fun (acc : List BB × Nat) x => (acc.1.set x (acc.1.getD x 0 ||| sqBB acc.2), acc.2 + 1))
    (List.replicate 13 0, 0)).1

structure BBs where
  pc : List BB
def BBs.of (p : Position) : BBs := ⟨pieceBBs p.board⟩
def BBs.piece (b : BBs) (pc : Nat) : BB := b.pc.getD pc 0
/-- `pieces(c, k)` -/
def BBs.ck (b : BBs) (c k : Nat) : BB := b.pc.getD (mkPiece c k) 0
/-- `pieces(c)` -/
def BBs.color (b : BBs) (c : Nat) : BB :=
  b.ck c 1 ||| b.ck c 2 ||| b.ck c 3 ||| b.ck c 4 ||| b.ck c 5 ||| b.ck c 6
/-- `pieces()` -/
def BBs.all (b : BBs) : BB := b.color 0 ||| b.color 1
/-- `pieces(k)` -/
def BBs.kind (b : BBs) (k : Nat) : BB := b.ck 0 k ||| b.ck 1 k

/-- squares of piece `pc` in ascending order (the model's canonical piece list) -/
def squaresOf (board : List Nat) (pc : Nat) : List Nat := bitsOf (bbOfPiece board pc)
def countOf (board : List Nat) (pc : Nat) : Nat := (board.filter (· = pc)).length
def kingSq (board : List Nat) (side : Nat) : Nat := lsb (bbOfPiece board (mkPiece side KING))

-- primitives (position.cpp:366-431) -------------------------------------------
def addPiece (T : ZTable) (p : Position) (pc sq : Nat) : Position :=
  { p with board := p.board.set sq pc, hash := p.hash.toggle T pc sq }

def removePiece (T : ZTable) (p : Position) (sq : Nat) : Position :=
  let pc := p.at sq
  { p with board := p.board.set sq 0, hash := p.hash.toggle T pc sq }

def movePiece (T : ZTable) (p : Position) (f t : Nat) : Position :=
  let pc := p.at f
  { p with board := (p.board.set f 0).set t pc, hash := (p.hash.toggle T pc f).toggle T pc t }

def changeSide (T : ZTable) (p : Position) : Position :=
  { p with side := 1 - p.side, hash := { p.hash with colorK := p.hash.colorK ^^^ T.side } }

def setCastlingKey (T : ZTable) (p : Position) : Position :=
  { p with hash := { p.hash with castK := T.castling p.castling } }

-- FEN (position.cpp:50-117, 132-186) ---------------------------------------------
def charToPiece (c : Char) : Nat :=
  match c with
  | 'P' => 1 | 'N' => 2 | 'B' => 3 | 'R' => 4 | 'Q' => 5 | 'K' => 6
  | 'p' => 7 | 'n' => 8 | 'b' => 9 | 'r' => 10 | 'q' => 11 | 'k' => 12
  | _ => 0

def placeLoop : List Char → Int → List Nat → List Nat
  | [], _, b => b
  | c :: cs, sq, b =>
      if c = '/' then placeLoop cs (sq - 16) b
      else if '0' ≤ c ∧ c ≤ '9' then placeLoop cs (sq + ((c.toNat - 48 : Nat) : Int)) b
      else placeLoop cs (sq + 1) (b.set sq.toNat (charToPiece c))

def notationToSquare (s : String) : Nat :=
  match s.toList with
  | f :: r :: _ => mkSquare (r.toNat - '1'.toNat) (f.toNat - 'a'.toNat)
  | _ => 64

/-- `HashKey::init` (zobrist_hash.cpp:58-89): XOR over all pieces, rights, ep file, side -/
def HashKey.init (T : ZTable) (board : List Nat) (side castling ep : Nat) : HashKey :=
  let h0 : HashKey := { colorK := if side = 1 then T.side else 0 }
  let h1 := (board.foldl (fun (acc : HashKey × Nat) pc =>
      (if pc = 0 then acc.1 else acc.1.toggle T pc acc.2, acc.2 + 1)) (h0, 0)).1
  { h1 with castK := T.castling castling, epK := if ep ≠ 64 then T.ep (fileOf ep) else 0 }

def tokensAux : List Char → List Char → List String → List String
  | [], cur, acc => (if cur.isEmpty then acc else String.ofList cur.reverse :: acc).reverse
  | c :: cs, cur, acc =>
      if c = ' ' ∨ c = '\t' ∨ c = '\n' ∨ c = '\r' then
        tokensAux cs [] (if cur.isEmpty then acc else String.ofList cur.reverse :: acc)
      else tokensAux cs (c :: cur) acc

/-- whitespace-separated tokens, as `istream >> token` reads them -/
def tokens (s : String) : List String := tokensAux s.toList [] []

def ofFen (T : ZTable) (s : String) : Position :=
  let tk := tokens s
  let board := placeLoop (tk.getD 0 "").toList 56 (List.replicate 64 0)
  let side := if tk.getD 1 "" = "w" then 0 else 1
  let castling := (tk.getD 2 "").toList.foldl (fun acc c =>
    match c with
    | 'K' => acc ||| W_OO | 'Q' => acc ||| W_OOO | 'k' => acc ||| B_OO | 'q' => acc ||| B_OOO | _ => acc) 0
  let eps := tk.getD 3 "-"
  let ep := if eps = "-" then 64 else notationToSquare eps
  let hm := (tk.getD 4 "0").toNat?.getD 0
  let full := (tk.getD 5 "0").toNat?.getD 0
  let ply : Int := 2 * (full : Int) - 1 + (if side = 1 then 1 else 0)
  let h := HashKey.init T board side castling ep
  { side := side, halfmove := hm % 65536, ply := ply, board := board, castling := castling, ep := ep,
    hash := h, history := [h.key] }

def startFen : String := "rnbqkbnr/pppppppp/8/8/8/8/PPPPPPPP/RNBQKBNR w KQkq - 0 1"

def pieceChar (pc : Nat) : Char := " PNBRQKpnbrqk".toList.getD pc ' '

def fenRank (board : List Nat) (r : Nat) : String :=
  let (s, cnt) := (List.range 8).foldl (fun (acc : String × Nat) f =>
      let pc := board.getD (mkSquare r f) 0
      if pc = 0 then (acc.1, acc.2 + 1)
      else ((if acc.2 > 0 then acc.1.push (Char.ofNat (48 + acc.2)) else acc.1).push (pieceChar pc), 0)) ("", 0)
  if cnt > 0 then s.push (Char.ofNat (48 + cnt)) else s

def sqName (s : Nat) : String := (String.singleton (Char.ofNat (97 + fileOf s))).push (Char.ofNat (49 + rankOf s))

def fen (p : Position) : String :=
  let placement := String.intercalate "/" ([7, 6, 5, 4, 3, 2, 1, 0].map (fenRank p.board))
  let rights := if p.castling ≠ 0 then
      (if p.castling &&& W_OO ≠ 0 then "K" else "") ++ (if p.castling &&& W_OOO ≠ 0 then "Q" else "") ++
      (if p.castling &&& B_OO ≠ 0 then "k" else "") ++ (if p.castling &&& B_OOO ≠ 0 then "q" else "")
    else "-"
  let eps := if p.ep ≠ 64 then sqName p.ep else "-"
  placement ++ " " ++ (if p.side = 0 then "w" else "b") ++ " " ++ rights ++ " " ++ eps ++ " " ++
    toString p.halfmove ++ " " ++ toString (Int.tdiv (p.ply - 1) 2 + 1)

-- attacks on the king (position.cpp:626-640) -----------------------------------------
def isInCheckBB (b : BBs) (board : List Nat) (side : Nat) : Bool :=
  let k := kingSq board side
  let opp := 1 - side
  let occ := b.all
  (pawnAttacks side (sqBB k) &&& b.ck opp PAWN) ≠ 0 ||
  (knightMask k &&& b.ck opp KNIGHT) ≠ 0 ||
  (bishopAttack k occ &&& (b.ck opp BISHOP ||| b.ck opp QUEEN)) ≠ 0 ||
  (rookAttack k occ &&& (b.ck opp ROOK ||| b.ck opp QUEEN)) ≠ 0

def isInCheck (p : Position) (side : Nat) : Bool := isInCheckBB (BBs.of p) p.board side

-- do / undo (position.cpp:433-624) ------------------------------------------------------
def clearBits (x mask : Nat) : Nat := x &&& (15 ^^^ mask)

def MAX_PLIES_MODEL : Nat := 800
/-- `_history[_history_counter++] = key`, after dropping the oldest half when the array is full (C10 fix) -/
def pushHistory (h : List Nat) (k : Nat) : List Nat :=
  if h.length ≥ MAX_PLIES_MODEL then k :: h.take (h.length - MAX_PLIES_MODEL / 2) else k :: h

/-- castling branch of do_move (position.cpp:447-466): clock, king and rook, rights, rights key, ep square -/
def doMoveCastle (T : ZTable) (p : Position) (side m : Nat) : Position :=
  let p := { p with halfmove := (p.halfmove + 1) % 65536 }
  let r := if side = 0 then 0 else 7
  let p := if moveCastling m = KING_CASTLING then
      movePiece T (movePiece T p (mkSquare r 4) (mkSquare r 6)) (mkSquare r 7) (mkSquare r 5)
    else
      movePiece T (movePiece T p (mkSquare r 4) (mkSquare r 2)) (mkSquare r 0) (mkSquare r 3)
  let p := { p with castling := clearBits p.castling (castlingRightsOf side) }
  let p := setCastlingKey T p
  { p with ep := 64 }

/-- the five castling-right clauses of do_move (position.cpp:503-516) -/
def updateRights (c side moved captured f t : Nat) : Nat :=
  let c := if kindOf moved = KING then clearBits c (castlingRightsOf side) else c
  let c := if kindOf moved = ROOK ∧ f = (if side = 0 then 7 else 63) then clearBits c (castlingRightsOf side &&& KING_CASTLING) else c
  let c := if kindOf moved = ROOK ∧ f = (if side = 0 then 0 else 56) then clearBits c (castlingRightsOf side &&& QUEEN_CASTLING) else c
  let c := if captured = ROOK ∧ t = (if side = 0 then 63 else 7) then clearBits c (castlingRightsOf (1 - side) &&& KING_CASTLING) else c
  let c := if captured = ROOK ∧ t = (if side = 0 then 56 else 0) then clearBits c (castlingRightsOf (1 - side) &&& QUEEN_CASTLING) else c
  c

/-- `if (captured_piece != NO_PIECE) remove_piece(to(move))` -/
def removeCaptured (T : ZTable) (p : Position) (t : Nat) : Position :=
  if p.at t ≠ 0 then removePiece T p t else p

/-- promotion (`remove_piece(from); add_piece(promoted, to)`) or plain `move_piece(from, to)` -/
def placeMoved (T : ZTable) (p : Position) (side m : Nat) : Position :=
  if movePromo m ≠ 0 then addPiece T (removePiece T p (moveFrom m)) (mkPiece side (movePromo m)) (moveTo m)
  else movePiece T p (moveFrom m) (moveTo m)

/-- piece movement of the non-castling branch (position.cpp:481-518): en passant, or capture / promotion / plain move
    followed by the rights update -/
def doMovePieces (T : ZTable) (p : Position) (side m : Nat) : Position :=
  let f := moveFrom m
  let t := moveTo m
  let moved := p.at f
  let capturedPc := p.at t
  if kindOf moved = PAWN ∧ t = p.ep then
    removePiece T (movePiece T p f t) (if side = 0 then t - 8 else t + 8)
  else
    let p2 := placeMoved T (removeCaptured T p t) side m
    setCastlingKey T { p2 with castling := updateRights p2.castling side moved (kindOf capturedPc) f t }

/-- the ep square after the move: set after a double pawn push (with its key), cleared otherwise -/
def setEpAfter (T : ZTable) (p : Position) (side moved f t : Nat) : Position :=
  let epRank := if side = 0 then 3 else 4
  let rank2 := if side = 0 then 1 else 6
  if kindOf moved = PAWN ∧ rankOf f = rank2 ∧ rankOf t = epRank then
    let e := if side = 0 then t - 8 else t + 8
    { p with ep := e, hash := { p.hash with epK := T.ep (fileOf e) } }
  else { p with ep := 64 }

/-- the common prologue of do_move: side flipped (with its key), ply counter bumped, ep key cleared -/
def preMove (T : ZTable) (p : Position) : Position :=
  { (changeSide T p) with ply := (changeSide T p).ply + 1, hash := { (changeSide T p).hash with epK := 0 } }

/-- half-move clock of the non-castling branch: +1 (uint16) for a quiet non-pawn move, else reset -/
def clockStep (q : Position) (m : Nat) : Position :=
  if kindOf (q.at (moveFrom m)) ≠ PAWN ∧ kindOf (q.at (moveTo m)) = 0 then { q with halfmove := (q.halfmove + 1) % 65536 }
  else { q with halfmove := 0 }

def withHistory (p : Position) : Position := { p with history := pushHistory p.history p.hash.key }

/-- `Position::do_move`; returns the new position and the packed MoveInfo -/
def doMove (T : ZTable) (p0 : Position) (m : Nat) : Position × Nat :=
  let side := p0.side
  let q := preMove T p0
  if moveCastling m ≠ 0 then
    (withHistory (doMoveCastle T q side m), mkMoveInfo 0 q.castling q.ep false q.halfmove)
  else
    let moved := q.at (moveFrom m)
    (withHistory (setEpAfter T (doMovePieces T (clockStep q m) side m) side moved (moveFrom m) (moveTo m)),
     mkMoveInfo (kindOf (q.at (moveTo m))) q.castling q.ep (decide (kindOf moved = PAWN ∧ moveTo m = q.ep)) q.halfmove)

/-- first half of undo_move (position.cpp:541-555): side, ply counter, castling rights, ep square (with keys), clock -/
def undoPre (T : ZTable) (q : Position) (mi : Nat) : Position :=
  let p := changeSide T q
  let p := { p with ply := p.ply - 1 }
  let p := setCastlingKey T { p with castling := miLastCastling mi }
  let e := miLastEp mi
  let p := { p with ep := e, hash := { p.hash with epK := if e = 64 then 0 else T.ep (fileOf e) } }
  { p with halfmove := miClock mi }

/-- second half (position.cpp:557-591): the pieces go back; `side` is the side that made the move -/
def undoPieces (T : ZTable) (p : Position) (side m mi : Nat) : Position :=
  if moveCastling m ≠ 0 then
    let r := if side = 0 then 0 else 7
    if moveCastling m = KING_CASTLING then
      movePiece T (movePiece T p (mkSquare r 6) (mkSquare r 4)) (mkSquare r 5) (mkSquare r 7)
    else
      movePiece T (movePiece T p (mkSquare r 2) (mkSquare r 4)) (mkSquare r 3) (mkSquare r 0)
  else
    let f := moveFrom m
    let t := moveTo m
    let captured := mkPiece (1 - side) (miCaptured mi)
    let p := if miIsEp mi then addPiece T p (mkPiece (1 - side) PAWN) (if side = 0 then t - 8 else t + 8) else p
    let p := if movePromo m ≠ 0 then removePiece T (addPiece T p (mkPiece side PAWN) f) t
             else movePiece T p t f
    if captured ≠ 0 then addPiece T p captured t else p

/-- `Position::undo_move` -/
def undoMove (T : ZTable) (q : Position) (m mi : Nat) : Position :=
  let p := undoPre T q mi
  let p := undoPieces T p p.side m mi
  { p with history := p.history.tail }

/-- `Position::do_null_move` (does not touch the key history) -/
def doNull (T : ZTable) (p0 : Position) : Position × Nat :=
  let p := changeSide T p0
  let p := { p with ply := p.ply + 1, halfmove := (p.halfmove + 1) % 65536 }
  let e := p.ep
  ({ p with ep := 64, hash := { p.hash with epK := 0 } }, mkMoveInfo 0 0 e false 0)

/-- `Position::undo_null_move` -/
def undoNull (T : ZTable) (p0 : Position) (mi : Nat) : Position :=
  let p := changeSide T p0
  let p := { p with ply := p.ply - 1, halfmove := (p.halfmove + 65535) % 65536 }
  let e := miLastEp mi
  { p with ep := e, hash := if e ≠ 64 then { p.hash with epK := T.ep (fileOf e) } else p.hash }

-- draw predicates (position.cpp:188-227) ---------------------------------------------------
def countEq (k : Nat) : List Nat → Nat
  | [] => 0
  | x :: xs => (if x = k then 1 else 0) + countEq k xs

/-- `is_repeated`: some earlier entry of the history (excluding the newest) equals the current key -/
def isRepeated (p : Position) : Bool := p.history.tail.contains p.hash.key
/-- `threefold_repetition`: at least two earlier entries equal the current key -/
def threefold (p : Position) : Bool := decide (2 ≤ countEq p.hash.key p.history.tail)
def rule50 (p : Position) : Bool := decide (100 ≤ p.halfmove)

def pcv (board : List Nat) : Nat :=
  (countOf board 1 <<< 4) ||| (countOf board 2 <<< 8) ||| (countOf board 3 <<< 12) ||| (countOf board 4 <<< 16) |||
  (countOf board 5 <<< 20) ||| (countOf board 7 <<< 28) ||| (countOf board 8 <<< 32) ||| (countOf board 9 <<< 36) |||
  (countOf board 10 <<< 40) ||| (countOf board 11 <<< 44)

def notEnoughPCV : List Nat := [0, 1 <<< 32, 1 <<< 36, 1 <<< 8, 1 <<< 12]
def enoughMaterial (p : Position) : Bool := !(notEnoughPCV.contains (pcv p.board))
def isDraw (p : Position) : Bool := rule50 p || threefold p || !enoughMaterial p
def noNonpawns (board : List Nat) (c : Nat) : Nat :=
  countOf board (mkPiece c KNIGHT) + countOf board (mkPiece c BISHOP) + countOf board (mkPiece c ROOK) + countOf board (mkPiece c QUEEN)

end Chess
