/-
  Model/Basic.lean — bitboards and bit hacks, mirroring engine/bitboard.h and engine/bithacks.cpp.

  A bitboard is a `Nat` below 2^64; the operations that can carry out of 64 bits in C++ (`<<`, `*`, `~`)
  reduce modulo 2^64 explicitly, so the arithmetic is exactly `uint64_t`.  (`Nat` rather than `BitVec 64`
  because the kernel evaluates `Nat` bit operations natively, which the table theorems of C11/C12 need.)
  Squares are `Nat` 0..63 (a1 = 0, h8 = 63), `noSquare = 64` as in the C++ enum.
  Colours: 0 = WHITE, 1 = BLACK.  Piece kinds 0..6, pieces 0..12 as in engine/types.h.
  Core Lean only (no Mathlib) so that the driver links as a `lean_exe`.
-/
namespace Chess

abbrev BB := Nat

def two64 : Nat := 18446744073709551616
/-- `x << n` on `uint64_t` -/
@[inline] def shl (b : BB) (n : Nat) : BB := (b <<< n) % two64
/-- `~x` on `uint64_t` -/
@[inline] def bnot (b : BB) : BB := 18446744073709551615 ^^^ b

def noSquare : Nat := 64

@[inline] def sqBB (s : Nat) : BB := 1 <<< s
@[inline] def BB.has (b : BB) (s : Nat) : Bool := b.testBit s

def fileOf (s : Nat) : Nat := s % 8     -- C++: sq & 7
def rankOf (s : Nat) : Nat := s / 8     -- C++: sq >> 3
def mkSquare (r f : Nat) : Nat := r * 8 + f

def rank1 : BB := 0x00000000000000ff
def fileA : BB := 0x0101010101010101
def fileH : BB := 0x8080808080808080
def rankBB (r : Nat) : BB := shl rank1 (8 * r)
def fileBB (f : Nat) : BB := shl fileA f
def allSquares : BB := 0xffffffffffffffff

/-- Directions as in `enum Direction`; the model uses a small inductive instead of the int codes. -/
inductive Dir | N | E | S | W | NE | NW | SE | SW | NN | SS
  deriving DecidableEq, Repr

/-- `shift<dir>(bb)` of engine/bitboard.h:127-143. -/
def shift (d : Dir) (b : BB) : BB :=
  match d with
  | .N  => shl b 8
  | .E  => shl (b &&& bnot fileH) 1
  | .S  => b >>> 8
  | .W  => (b &&& bnot fileA) >>> 1
  | .NE => shl (b &&& bnot fileH) 9
  | .NW => shl (b &&& bnot fileA) 7
  | .SE => (b &&& bnot fileH) >>> 7
  | .SW => (b &&& bnot fileA) >>> 9
  | .NN => shl b 16
  | .SS => b >>> 16

/-- the integer step added to a square index by one shift in this direction -/
def Dir.delta : Dir → Int
  | .N => 8 | .E => 1 | .S => -8 | .W => -1
  | .NE => 9 | .NW => 7 | .SE => -7 | .SW => -9 | .NN => 16 | .SS => -16

def pawnAttacks (side : Nat) (b : BB) : BB :=
  if side = 0 then shift .NW b ||| shift .NE b else shift .SW b ||| shift .SE b

def kingAttacksBB (b : BB) : BB :=
  shift .N b ||| shift .S b ||| shift .W b ||| shift .E b |||
  shift .NE b ||| shift .NW b ||| shift .SE b ||| shift .SW b

/-- `lsb(bb)` = `__builtin_ffsll(bb) - 1` for `bb ≠ 0` (the C++ returns -1 on 0 and is never called with it):
    `bb & -bb` isolates the lowest set bit, `log2` reads its index. -/
def lsb (b : BB) : Nat := Nat.log2 (b &&& (two64 - b))

/-- `msb(bb)` = `63 - __builtin_clzll(bb)` for `bb ≠ 0` (undefined on 0 in C++). -/
def msb (b : BB) : Nat := Nat.log2 b

def popcountAux (b : BB) : Nat → Nat
  | 0 => 0
  | i+1 => (if b.testBit i then 1 else 0) + popcountAux b i

def popcount (b : BB) : Nat := popcountAux b 64

/-- `bb && (bb & (bb-1))` -/
def moreThanOne (b : BB) : Bool := b != 0 && (b &&& (b - 1)) != 0

def bitsAux (b : BB) : Nat → List Nat → List Nat
  | 0, acc => acc
  | i+1, acc => bitsAux b i (if b.testBit i then i :: acc else acc)

/-- the set squares in ascending order: what `FOR_EACH_BIT` / `pop_lsb` loops visit -/
def bitsOf (b : BB) : List Nat := bitsAux b 64 []

def bbOfList (l : List Nat) : BB := l.foldl (fun acc s => acc ||| sqBB s) 0

/-- Chebyshev distance, engine/types.h:317 -/
def distance (a b : Nat) : Nat :=
  let dr := if rankOf a ≥ rankOf b then rankOf a - rankOf b else rankOf b - rankOf a
  let df := if fileOf a ≥ fileOf b then fileOf a - fileOf b else fileOf b - fileOf a
  max dr df

def flipV (s : Nat) : Nat := mkSquare (7 - rankOf s) (fileOf s)
def flipH (s : Nat) : Nat := mkSquare (rankOf s) (7 - fileOf s)
/-- `normalize(sq, side)` of engine/types.h:222 -/
def normSq (s side : Nat) : Nat := if side = 0 then s else flipV s
/-- `sq_color`: returns 0 (WHITE) when rank+file is odd, 1 (BLACK) otherwise, as the C++ does -/
def sqColor (s : Nat) : Nat := if (rankOf s + fileOf s) % 2 = 1 then 0 else 1

-- pieces --------------------------------------------------------------------
def PAWN := 1
def KNIGHT := 2
def BISHOP := 3
def ROOK := 4
def QUEEN := 5
def KING := 6

/-- `make_piece_kind` (NO_PIECE ↦ NO_PIECE_KIND) -/
def kindOf (pc : Nat) : Nat := if pc = 0 then 0 else (pc - 1) % 6 + 1
/-- `get_color` (pc ≠ 0) -/
def colorOf (pc : Nat) : Nat := if pc < 7 then 0 else 1
/-- `make_piece` -/
def mkPiece (side kind : Nat) : Nat := if kind = 0 then 0 else kind + 6 * side
def isSlider (pc : Nat) : Bool := kindOf pc = BISHOP || kindOf pc = ROOK || kindOf pc = QUEEN

-- castling bits
def W_OO := 1
def W_OOO := 2
def B_OO := 4
def B_OOO := 8
def castlingRightsOf (side : Nat) : Nat := if side = 0 then 3 else 12
def KING_CASTLING := 5
def QUEEN_CASTLING := 10

end Chess
