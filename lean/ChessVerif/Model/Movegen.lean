/-
  Model/Movegen.lean — mirrors engine/movegen.cpp (generate_legal_moves and its helpers), function by function:
  checkers, forbidden squares with the king x-rayed out, pins by ray scan, push/capture masks, the seven
  pawn groups, en passant with the rank test, pinned-piece moves, castling path tests.
-/
import ChessVerif.Model.Position
namespace Chess

/-- `checkers<side>` (movegen.cpp:29-50) -/
def checkersBB (b : BBs) (board : List Nat) (side : Nat) : BB :=
  let k := kingSq board side
  let opp := 1 - side
  let up := if side = 0 then shift .NW (sqBB k) ||| shift .NE (sqBB k) else shift .SE (sqBB k) ||| shift .SW (sqBB k)
  (up &&& b.ck opp PAWN) |||
  (knightMask k &&& b.ck opp KNIGHT) |||
  (bishopAttack k b.all &&& (b.ck opp BISHOP ||| b.ck opp QUEEN)) |||
  (rookAttack k b.all &&& (b.ck opp ROOK ||| b.ck opp QUEEN))

/-- `forbidden_squares<side>` (movegen.cpp:52-88): squares attacked by the opponent with our king removed -/
def forbiddenSquares (b : BBs) (board : List Nat) (side : Nat) : BB :=
  let opp := 1 - side
  let k := kingSq board side
  let pawns := b.ck opp PAWN
  -- UPLEFT/UPRIGHT are the *opponent's* capture directions
  let bb := if side = 1 then shift .NW pawns ||| shift .NE pawns else shift .SE pawns ||| shift .SW pawns
  let bb := (bitsOf (b.ck opp KNIGHT)).foldl (fun acc s => acc ||| knightMask s) bb
  let blockers := b.all ^^^ sqBB k
  let bb := (bitsOf (b.ck opp BISHOP)).foldl (fun acc s => acc ||| bishopAttack s blockers) bb
  let bb := (bitsOf (b.ck opp ROOK)).foldl (fun acc s => acc ||| rookAttack s blockers) bb
  let bb := (bitsOf (b.ck opp QUEEN)).foldl (fun acc s => acc ||| queenAttack s blockers) bb
  bb ||| kingMask (kingSq board opp)

def promoMoves (f t : Nat) : List Nat :=
  [mkPromotion f t QUEEN, mkPromotion f t ROOK, mkPromotion f t BISHOP, mkPromotion f t KNIGHT]

/-- `generate_pawn_moves<side>` (movegen.cpp:98-154) for the not-pinned pawns -/
def genPawnMoves (side : Nat) (pawns empty pushMask captureMask : BB) : List Nat :=
  let UP := if side = 0 then Dir.N else Dir.S
  let UR := if side = 0 then Dir.NE else Dir.SW
  let UL := if side = 0 then Dir.NW else Dir.SE
  let rank3 := if side = 0 then rankBB 2 else rankBB 5
  let rank7 := if side = 0 then rankBB 6 else rankBB 1
  -- `sq - up` etc. as arithmetic on the target square
  let back (d : Nat) (sq : Nat) : Nat := if side = 0 then sq - d else sq + d
  let on7 := pawns &&& rank7
  let not7 := pawns &&& bnot rank7
  let g1 := (bitsOf (shift UR on7 &&& captureMask)).flatMap (fun sq => promoMoves (back 9 sq) sq)
  let g2 := (bitsOf (shift UL on7 &&& captureMask)).flatMap (fun sq => promoMoves (back 7 sq) sq)
  let g3 := (bitsOf (shift UP on7 &&& pushMask &&& empty)).flatMap (fun sq => promoMoves (back 8 sq) sq)
  let g4 := (bitsOf (shift UR not7 &&& captureMask)).map (fun sq => mkMove (back 9 sq) sq)
  let g5 := (bitsOf (shift UL not7 &&& captureMask)).map (fun sq => mkMove (back 7 sq) sq)
  let pushed := shift UP not7 &&& empty
  let g6 := (bitsOf (pushed &&& pushMask)).map (fun sq => mkMove (back 8 sq) sq)
  let g7 := (bitsOf (shift UP (pushed &&& rank3) &&& pushMask &&& empty)).map (fun sq => mkMove (back 16 sq) sq)
  g1 ++ g2 ++ g3 ++ g4 ++ g5 ++ g6 ++ g7

/-- `generate_enpassant<side>` (movegen.cpp:156-202); `capturers` = the pawns allowed to capture -/
def genEnpassant (b : BBs) (board : List Nat) (side : Nat) (capturers pushMask captureMask : BB) (ep : Nat) : List Nat :=
  let UR := if side = 0 then Dir.NE else Dir.SW
  let UL := if side = 0 then Dir.NW else Dir.SE
  let back (d : Nat) (sq : Nat) : Nat := if side = 0 then sq - d else sq + d
  let capturedSq := back 8 ep
  if ¬ ((sqBB capturedSq &&& captureMask) ≠ 0 ∨ (sqBB ep &&& pushMask) ≠ 0) then []
  else
    let rightBB := shift UR capturers &&& sqBB ep
    let leftBB := shift UL capturers &&& sqBB ep
    let opp := 1 - side
    let blocked :=
      if (rightBB ≠ 0) ≠ (leftBB ≠ 0) then
        let attacking := if leftBB ≠ 0 then sqBB (back 7 ep) else if rightBB ≠ 0 then sqBB (back 9 ep) else 0
        let blockers := b.all ^^^ (sqBB capturedSq ||| attacking)
        let attacked := attackInLine (kingSq board side) 3 blockers
        (attacked &&& (b.ck opp ROOK ||| b.ck opp QUEEN)) ≠ 0
      else false
    if blocked then []
    else (if rightBB ≠ 0 then [mkMove (back 9 ep) ep] else []) ++ (if leftBB ≠ 0 then [mkMove (back 7 ep) ep] else [])

/-- `generate_pin_in_ray<side, ray>` (movegen.cpp:256-298): returns (pin?, pinned square bit) -/
def genPinInRay (b : BBs) (board : List Nat) (side ray : Nat) : Option Nat :=
  let k := kingSq board side
  let masked := rays ray k &&& b.all
  if moreThanOne masked then
    let pinnedSq := if ray < 4 then lsb masked else msb masked
    let rest := if ray < 4 then masked &&& (masked - 1) else masked &&& bnot (sqBB pinnedSq)
    let attackingSq := if ray < 4 then lsb rest else msb rest
    if (sqBB pinnedSq &&& b.color side) ≠ 0 then
      let opp := 1 - side
      let sliders := b.ck opp QUEEN ||| (if ray % 2 = 1 then b.ck opp ROOK else b.ck opp BISHOP)
      if (sqBB attackingSq &&& sliders) ≠ 0 then some (mkPin pinnedSq (kindOf (board.getD pinnedSq 0)) ray) else none
    else none
  else none

def genPins (b : BBs) (board : List Nat) (side : Nat) : List Nat :=
  [0, 1, 2, 3, 4, 5, 6, 7].filterMap (genPinInRay b board side)

/-- `generate_pinned_pawn_moves<side>` (movegen.cpp:317-388); `target` is ignored by the C++ too.
    After the C01 fix a diagonally pinned pawn may also capture onto the en-passant square. -/
def genPinnedPawnMoves (b : BBs) (side fromSq ray ep : Nat) : List Nat :=
  let UP := if side = 0 then Dir.N else Dir.S
  let UPUP := if side = 0 then Dir.NN else Dir.SS
  let UR := if side = 0 then Dir.NE else Dir.SW
  let UL := if side = 0 then Dir.NW else Dir.SE
  let rank7 := if side = 0 then 6 else 1
  let rank2bb := if side = 0 then rankBB 1 else rankBB 6
  let fwd (d : Nat) : Nat := if side = 0 then fromSq + d else fromSq - d
  let opp := 1 - side
  let fb := sqBB fromSq
  let occ := b.all
  let empty := bnot occ
  let epBB := if ep ≠ 64 then sqBB ep else 0
  if rankOf fromSq = rank7 then
    match ray % 4 with
    | 0 => if (shift UL fb &&& b.color opp) ≠ 0 then
             [mkPromotion fromSq (fwd 7) QUEEN, mkPromotion fromSq (fwd 7) ROOK, mkPromotion fromSq (fwd 7) KNIGHT, mkPromotion fromSq (fwd 7) BISHOP] else []
    | 1 => if (shift UP fb &&& empty) ≠ 0 then
             [mkPromotion fromSq (fwd 8) QUEEN, mkPromotion fromSq (fwd 8) ROOK, mkPromotion fromSq (fwd 8) KNIGHT, mkPromotion fromSq (fwd 8) BISHOP] else []
    | 2 => if (shift UR fb &&& b.color opp) ≠ 0 then
             [mkPromotion fromSq (fwd 9) QUEEN, mkPromotion fromSq (fwd 9) ROOK, mkPromotion fromSq (fwd 9) KNIGHT, mkPromotion fromSq (fwd 9) BISHOP] else []
    | _ => []
  else
    match ray % 4 with
    | 0 => if (shift UL fb &&& (b.color opp ||| epBB)) ≠ 0 then [mkMove fromSq (fwd 7)] else []
    | 1 => if (shift UP fb &&& empty) ≠ 0 then
             [mkMove fromSq (fwd 8)] ++ (if (shift UPUP (fb &&& rank2bb) &&& empty) ≠ 0 then [mkMove fromSq (fwd 16)] else [])
           else []
    | 2 => if (shift UR fb &&& (b.color opp ||| epBB)) ≠ 0 then [mkMove fromSq (fwd 9)] else []
    | _ => []

/-- `allowed_ray(piece, ray)` -/
def allowedRay (kind ray : Nat) : Bool :=
  if kind = BISHOP then ray % 2 = 0 else if kind = ROOK then ray % 2 = 1 else true

/-- `generate_pinned_piece_moves<side>` (movegen.cpp:390-414) -/
def genPinnedPieceMoves (b : BBs) (side pin : Nat) (target : BB) (ep : Nat) : List Nat :=
  let fromSq := pinSquare pin
  let kind := pinKind pin
  let ray := pinRay pin
  if kind = KNIGHT then []
  else if kind = PAWN then genPinnedPawnMoves b side fromSq ray ep
  else if !allowedRay kind ray then []
  else (bitsOf (attackInLine fromSq ray b.all &&& target)).map (fun sq => mkMove fromSq sq)

def genPieceMoves (b : BBs) (kind fromSq : Nat) (target : BB) : List Nat :=
  let att := if kind = KNIGHT then knightMask fromSq else sliderAttack kind fromSq b.all
  (bitsOf (att &&& target)).map (fun sq => mkMove fromSq sq)

def genKingMoves (fromSq : Nat) (notAllowed : BB) : List Nat :=
  (bitsOf (kingMask fromSq &&& bnot notAllowed)).map (fun sq => mkMove fromSq sq)

/-- `generate_legal_moves<side>` (movegen.cpp:416-520), moves in the order the C++ emits them -/
def genMoves (p : Position) : List Nat :=
  let side := p.side
  let board := p.board
  let b := BBs.of p
  let opp := 1 - side
  let checkers := checkersBB b board side
  let attacked := forbiddenSquares b board side
  let k := kingSq board side
  let own := b.color side
  if checkers ≠ 0 ∧ moreThanOne checkers then genKingMoves k (attacked ||| own)
  else
    let (pushMask, captureMask) :=
      if checkers ≠ 0 then
        let cs := lsb checkers
        (if isSlider (board.getD cs 0) then lines k cs ^^^ sqBB k ^^^ sqBB cs else 0, checkers)
      else (bnot b.all, b.color opp)
    let pins := genPins b board side
    let pinned := pins.foldl (fun acc pin => acc ||| sqBB (pinSquare pin)) 0
    let notPinnedPawns := b.ck side PAWN &&& bnot pinned
    let target := captureMask ||| pushMask
    let l := genPawnMoves side notPinnedPawns (bnot b.all) pushMask captureMask
    let l := l ++ (bitsOf (b.ck side KNIGHT &&& bnot pinned)).flatMap (fun s => genPieceMoves b KNIGHT s target)
    let l := l ++ (bitsOf (b.ck side BISHOP &&& bnot pinned)).flatMap (fun s => genPieceMoves b BISHOP s target)
    let l := l ++ (bitsOf (b.ck side ROOK &&& bnot pinned)).flatMap (fun s => genPieceMoves b ROOK s target)
    let l := l ++ (bitsOf (b.ck side QUEEN &&& bnot pinned)).flatMap (fun s => genPieceMoves b QUEEN s target)
    let l := l ++ (if p.ep ≠ 64 then genEnpassant b board side notPinnedPawns pushMask captureMask p.ep else [])
    let l := l ++ genKingMoves k (attacked ||| own)
    if checkers ≠ 0 then l
    else
      let l := l ++ pins.flatMap (fun pin => genPinnedPieceMoves b side pin (pushMask ||| captureMask) p.ep)
      let taken := attacked ||| b.all
      let l := l ++ (if side = 0 then
                       (if p.castling &&& W_OO ≠ 0 ∧ (taken &&& castlingPath W_OO) = 0 then [mkCastling KING_CASTLING] else [])
                     else
                       (if p.castling &&& B_OO ≠ 0 ∧ (taken &&& castlingPath B_OO) = 0 then [mkCastling KING_CASTLING] else []))
      let l := l ++ (if side = 0 then
                       (if p.castling &&& W_OOO ≠ 0 ∧ (taken &&& castlingPath W_OOO) = 0 ∧ (queenCastlingBlock 0 &&& b.all) = 0
                        then [mkCastling QUEEN_CASTLING] else [])
                     else
                       (if p.castling &&& B_OOO ≠ 0 ∧ (taken &&& castlingPath B_OOO) = 0 ∧ (queenCastlingBlock 1 &&& b.all) = 0
                        then [mkCastling QUEEN_CASTLING] else []))
      l

def isCheckmate (p : Position) : Bool := (genMoves p).isEmpty && isInCheck p p.side
def isStalemate (p : Position) : Bool := (genMoves p).isEmpty && !isInCheck p p.side

end Chess
