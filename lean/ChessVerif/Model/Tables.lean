/-
  Model/Tables.lean — mirrors engine/move_bitboards.cpp: RAYS, the leaper masks, the magic-bitboard
  tables (same initialisation algorithm: fill with all-ones, first writer wins), LINES and FULL_LINES.
  Magics and index bits come from Gen (re-extracted from the build on every run).
-/
import ChessVerif.Model.Basic
import ChessVerif.Gen.Magics
namespace Chess

/-- `enum Ray`: NW N NE E SE S SW W -/
def rayDir : Nat → Dir
  | 0 => .NW | 1 => .N | 2 => .NE | 3 => .E | 4 => .SE | 5 => .S | 6 => .SW | _ => .W

def rayGo (d : Dir) : Nat → BB → BB → BB
  | 0, _, acc => acc
  | n+1, field, acc => if field = 0 then acc else rayGo d n (shift d field) (acc ||| field)

/-- `RAYS[ray][sq]` as computed by init_rays (move_bitboards.cpp:143-163) -/
def rays (ray sq : Nat) : BB := rayGo (rayDir ray) 8 (shift (rayDir ray) (sqBB sq)) 0

/-- `get_attack_in_ray` / `attack_in_ray` (move_bitboards.cpp:110, movegen.cpp:10) -/
def attackInRay (sq ray : Nat) (blockers : BB) : BB :=
  let r := rays ray sq
  let mb := blockers &&& r
  if mb = 0 then r
  else
    let blocker := if ray < 4 then lsb mb else msb mb
    r &&& bnot (rays ray blocker)

def oppositeRay (ray : Nat) : Nat := (ray + 4) % 8
def attackInLine (sq ray : Nat) (blockers : BB) : BB :=
  attackInRay sq ray blockers ||| attackInRay sq (oppositeRay ray) blockers

def bishopAttacksSlow (sq : Nat) (blockers : BB) : BB :=
  attackInRay sq 0 blockers ||| attackInRay sq 2 blockers ||| attackInRay sq 6 blockers ||| attackInRay sq 4 blockers
def rookAttacksSlow (sq : Nat) (blockers : BB) : BB :=
  attackInRay sq 1 blockers ||| attackInRay sq 3 blockers ||| attackInRay sq 5 blockers ||| attackInRay sq 7 blockers

def knightMask (sq : Nat) : BB :=
  let b := sqBB sq
  shift .N (shift .N (shift .E b)) ||| shift .N (shift .N (shift .W b)) |||
  shift .S (shift .S (shift .E b)) ||| shift .S (shift .S (shift .W b)) |||
  shift .E (shift .E (shift .N b)) ||| shift .E (shift .E (shift .S b)) |||
  shift .W (shift .W (shift .N b)) ||| shift .W (shift .W (shift .S b))

def kingMask (sq : Nat) : BB := kingAttacksBB (sqBB sq)

def rank8 : BB := rankBB 7
def bishopMask (sq : Nat) : BB :=
  (rays 0 sq ||| rays 2 sq ||| rays 4 sq ||| rays 6 sq) &&& bnot (fileA ||| fileH ||| rank1 ||| rank8)
def rookMask (sq : Nat) : BB :=
  (rays 1 sq &&& bnot rank8) ||| (rays 3 sq &&& bnot fileH) ||| (rays 5 sq &&& bnot rank1) ||| (rays 7 sq &&& bnot fileA)

-- magic tables ---------------------------------------------------------------
/-- binary trie standing for one `TABLE[sq][0 .. 2^depth)` row; a leaf holds the slot value -/
inductive Trie
  | leaf (v : BB)
  | node (l r : Trie)

def Trie.full (v : BB) : Nat → Trie
  | 0 => .leaf v
  | d+1 => .node (Trie.full v d) (Trie.full v d)

/-- slot `key` (most significant of the `depth` index bits first) -/
def Trie.get : Trie → Nat → Nat → BB
  | .leaf v, _, _ => v
  | .node _ _, 0, _ => 0
  | .node l r, d+1, key => if key.testBit d then r.get d key else l.get d key

/-- `if (TABLE[key] != all_squares) (assert) else TABLE[key] = v` — first writer wins -/
def Trie.insertFirst : Trie → Nat → Nat → BB → Trie
  | .leaf cur, _, _, v => if cur != allSquares then .leaf cur else .leaf v
  | .node l r, 0, _, _ => .node l r
  | .node l r, d+1, key, v =>
      if key.testBit d then .node l (r.insertFirst d key v) else .node (l.insertFirst d key v) r

/-- identity continuation-passing that makes a lazy evaluator (the kernel) bring the trie to a constructor
    before going on; without it 4096 pending insertions nest too deeply for `decide +kernel` -/
def Trie.force {α : Type} : Trie → (Trie → α) → α
  | .leaf v, k => k (.leaf v)
  | .node l r, k => k (.node l r)

/-- `get_blockers_from_index`: bit i of `index` selects the i-th lowest square of the mask -/
def blockersFromIndex : Nat → List Nat → BB
  | _, [] => 0
  | index, s :: rest => (if index % 2 = 1 then sqBB s else 0) ||| blockersFromIndex (index / 2) rest

def magicKey (blockers : BB) (magic : Nat) (bits : Nat) : Nat :=
  ((blockers * magic) % two64) >>> (64 - bits)

def bishopMagic (sq : Nat) : Nat := Gen.bishopMagics.getD sq 0
def rookMagic (sq : Nat) : Nat := Gen.rookMagics.getD sq 0
def bishopBits (sq : Nat) : Nat := Gen.bishopIndexBits.getD sq 0
def rookBits (sq : Nat) : Nat := Gen.rookIndexBits.getD sq 0

/-- the init loop `for index in 0 .. 2^d` from `index` upward, as a binary recursion (ascending index order,
    so "first writer wins" is preserved; depth `d` keeps kernel evaluation shallow) -/
def fillTable (maskBits : List Nat) (magic bits : Nat) (att : BB → BB) : Nat → Nat → Trie → Trie
  | 0, index, t =>
      let bl := blockersFromIndex index maskBits
      t.insertFirst bits (magicKey bl magic bits) (att bl)
  | d+1, index, t =>
      (fillTable maskBits magic bits att d index t).force
        (fun t' => fillTable maskBits magic bits att d (index + 2 ^ d) t')

/-- the row `BISHOP_TABLE[sq]` after init_bishop_magics (move_bitboards.cpp:225-243) -/
def bishopTableAt (sq : Nat) : Trie :=
  fillTable (bitsOf (bishopMask sq)) (bishopMagic sq) (bishopBits sq) (bishopAttacksSlow sq)
    (bishopBits sq) 0 (Trie.full allSquares (bishopBits sq))

def rookTableAt (sq : Nat) : Trie :=
  fillTable (bitsOf (rookMask sq)) (rookMagic sq) (rookBits sq) (rookAttacksSlow sq)
    (rookBits sq) 0 (Trie.full allSquares (rookBits sq))

/-- computed once per process by the compiled driver; logically equal to the `…TableAt` rows -/
def bishopTables : Array Trie := Array.ofFn (n := 64) fun i => bishopTableAt i.val
def rookTables : Array Trie := Array.ofFn (n := 64) fun i => rookTableAt i.val

/-- `slider_attack<BISHOP>` (move_bitboards.h:105-112) -/
def bishopAttack (sq : Nat) (blockers : BB) : BB :=
  let b := blockers &&& bishopMask sq
  (bishopTables.getD sq (.leaf 0)).get (bishopBits sq) (magicKey b (bishopMagic sq) (bishopBits sq))

def rookAttack (sq : Nat) (blockers : BB) : BB :=
  let b := blockers &&& rookMask sq
  (rookTables.getD sq (.leaf 0)).get (rookBits sq) (magicKey b (rookMagic sq) (rookBits sq))

def queenAttack (sq : Nat) (blockers : BB) : BB := bishopAttack sq blockers ||| rookAttack sq blockers

def sliderAttack (kind sq : Nat) (blockers : BB) : BB :=
  if kind = BISHOP then bishopAttack sq blockers
  else if kind = ROOK then rookAttack sq blockers
  else queenAttack sq blockers

-- LINES / FULL_LINES -----------------------------------------------------------
/-- one direction of init_lines_bitboards: walk from `a`, writing LINES[a][to] = bb so far -/
def linesWalk (d : Dir) (target : Nat) : Nat → BB → BB → Int → Option BB
  | 0, _, _, _ => none
  | n+1, toBB, bb, to =>
      if toBB = 0 then none
      else if to = (target : Int) then some bb
      else linesWalk d target n (shift d toBB) (bb ||| shift d bb) (to + d.delta)

def linesFirst (a b : Nat) : List Nat → BB
  | [] => 0
  | r :: rs => match linesWalk (rayDir r) b 9 (sqBB a) (sqBB a) a with
               | some bb => bb
               | none => linesFirst a b rs

/-- `LINES[a][b]`: squares from a to b inclusive when b is on a queen line from a, else 0 -/
def lines (a b : Nat) : BB := linesFirst a b [0, 1, 2, 3, 4, 5, 6, 7]

def diagBB (pred : Nat → Nat → Bool) : BB :=
  (List.range 64).foldl (fun acc s => if pred (rankOf s) (fileOf s) then acc ||| sqBB s else acc) 0

/-- `FULL_LINES[a][b]` (move_bitboards.cpp:301-347) -/
def fullLines (a b : Nat) : BB :=
  let ra := rankOf a; let fa := fileOf a; let rb := rankOf b; let fb := fileOf b
  if a = b then 0
  else if ra = rb then rankBB ra
  else if fa = fb then fileBB fa
  else if ra + fa = rb + fb then diagBB (fun r f => r + f = ra + fa)
  else if ra + fb = rb + fa then diagBB (fun r f => r + fa = ra + f)
  else 0

def castlingPath (c : Nat) : BB := Gen.castlingPaths.getD c 0
def queenCastlingBlock (side : Nat) : BB := Gen.queenCastlingBlock.getD side 0

end Chess
