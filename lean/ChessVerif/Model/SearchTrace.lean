/-
  Model/SearchTrace.lean — the search as an abstract automaton over hook events (DESIGN §6 C05/C08/C09/C10).

  The engine's search has real nondeterminism (clock, the other thread's stop) and state an adversary may
  choose (table contents), so its *numbers* are not modelled.  What is modelled is the discipline by which
  moves enter move lists, principal variations and `_best_move`: an executable acceptor over the events the
  CHESSPP_VERIF hooks emit.  Each guard mirrors one code site of engine/search.cpp:

    ENTER ply       one ply deeper, or the same Info slot again (quiescence, internal iterative deepening) with no move made
    MOVES ply l     the node's move list is a permutation of the generated legal moves (root: of the root moves, all generated)
    DO ply m        m is in the node's list                       (search.cpp: begin[move_count])
    PV_SET ply m    m is in the node's list                       (TT exact hit guarded by std::find; begin[0] fallback)
    PV_ADD ply m    m is the move just searched from this node AND a node one ply deeper was visited under it (so pv[ply+1]
                    was cleared and rewritten from the position after m); pv[ply] := m :: pv[ply+1]
    PV_SET / PV_ADD only after this visit cleared its slot (clear_pv_list is the first thing a node does)
    TT_CUT ply m    m is in the node's list                       (std::find(begin, end, move) != end)
    ITER_DONE d     only with the stop flag unseen; BEST_SET takes the head of pv[0]
    BESTMOVE m      m is the recorded best move; exactly once, last

  Positions are advanced with the MODEL's doMove/doNull; UNDO returns to the position recorded at node entry (`npos`),
  which is what the engine's undo_move does by C03.  Lemmas/TracePV.lean proves that these guards suffice: every principal
  variation an accepted trace reports is a line of generated moves from the root.
-/
import ChessVerif.Model.Movegen
import ChessVerif.Model.Text
namespace Chess

inductive Ev
  | enter (ply : Nat) (depth : Int) (q : Bool)
  | exit (ply : Nat) (value : Int)
  | moves (ply : Nat) (l : List Nat)
  | doMv (ply : Nat) (m : Nat)
  | undoMv (ply : Nat) (m : Nat)
  | nullDo (ply : Nat)
  | nullUndo (ply : Nat)
  | pvClear (ply : Nat)
  | pvSet (ply : Nat) (m : Nat)
  | pvAdd (ply : Nat) (m : Nat)
  | ttCut (ply : Nat) (m : Nat) (flag : Nat)
  | iterStart (d : Nat)
  | iterDone (d : Nat) (value : Int)
  | bestSet (m : Nat)
  | bestMove (m : Nat)
  | stopSeen (ply : Nat)
  | aspiration (lo hi : Int)
  | stopDelivered                      -- emitted by the harness when it calls Search::stop() (not an engine event)
  deriving Repr, Inhabited

structure Frame where
  ply : Nat
  npos : Position := {}               -- ghost: the model position at which this node was entered
  moves : Option (List Nat) := none
  current : Option Nat := none        -- move done and not yet undone
  lastSearched : Option Nat := none   -- last move undone (what PV_ADD may prepend)
  nullDone : Bool := false
  cleared : Bool := false             -- clear_pv_list ran for this visit (search.cpp: first thing after the ply is set)
  childDone : Bool := false           -- a node one ply deeper was visited (and has returned) under the current / last searched move
  deriving Inhabited

structure AState where
  pos : Position
  frames : List Frame := []            -- innermost first
  pv : List (List Nat) := List.replicate 90 []   -- pv[ply]
  root : Position
  rootMoves : List Nat
  best : Option Nat := none
  iterStarted : List Nat := []         -- newest first
  iterDone : List Nat := []
  justDone : Bool := false             -- an ITER_DONE was the previous iteration-level event
  stopSeen : Bool := false
  bestMoves : List Nat := []           -- BESTMOVE events seen
  reportedPVs : List (List Nat) := []  -- pv[0] at each ITER_DONE (what print_info printed)
  maxPly : Nat := 0
  maxPvLen : Nat := 0
  exits : List Int := []               -- values returned to the root caller (ply-0 exits), newest first
  worstExit : Int := 0                 -- largest |value| seen in any EXIT
  stopDelivered : Bool := false
  expandedAfterStop : Nat := 0         -- nodes that went on to generate moves after stop() had been called
  visitsAfterStop : Nat := 0
  deriving Inhabited

def sameMembers (a b : List Nat) : Bool := a.length = b.length && a.all (b.contains ·) && b.all (a.contains ·)

def T0 : ZTable := zeroTable

/-- what the parent frame looks like after a node above it has returned: `childDone` says whether that node was one ply
    deeper and was searched under a real move (so that pv[ply+1] is a line from the position after that move) -/
def afterChild (g : Frame) (childPly : Nat) : Frame := { g with childDone := decide (g.ply + 1 = childPly) && g.current.isSome }

/-- one transition; `Except String` carries the reason for rejection -/
def stepEv (s : AState) (e : Ev) : Except String AState :=
  match e with
  | .enter ply _ _ =>
      match s.frames with
      | [] => if ply = 0 then pure { s with frames := [{ ply := 0, npos := s.pos }], maxPly := max s.maxPly ply,
                                             visitsAfterStop := s.visitsAfterStop + (if s.stopDelivered then 1 else 0) }
              else throw "enter: first frame not at ply 0"
      | f :: rest =>
          if ply = f.ply + 1 then
            pure { s with frames := { ply := ply, npos := s.pos } :: f :: rest, maxPly := max s.maxPly ply,
                          visitsAfterStop := s.visitsAfterStop + (if s.stopDelivered then 1 else 0) }
          else if ply = f.ply then
            -- same Info slot again (quiescence at depth 0, internal iterative deepening): only with no move made
            if f.current.isSome ∨ f.nullDone then throw "enter: same-ply re-entry while a move is made"
            else pure { s with frames := { ply := ply, npos := s.pos } :: { f with lastSearched := none, childDone := false } :: rest,
                               maxPly := max s.maxPly ply,
                               visitsAfterStop := s.visitsAfterStop + (if s.stopDelivered then 1 else 0) }
          else throw s!"enter: ply {ply} under frame at ply {f.ply}"
  | .exit ply v =>
      match s.frames with
      | f :: rest =>
          if f.ply ≠ ply then throw "exit: ply mismatch"
          else if f.current.isSome ∨ f.nullDone then throw "exit: a move is still made"
          else if !f.cleared then throw "exit: node returned without clearing its pv slot on entry"
          else pure { s with frames := (match rest with | [] => [] | g :: rest' => afterChild g f.ply :: rest'),
                             exits := if ply = 0 ∧ rest.isEmpty then v :: s.exits else s.exits,
                             worstExit := max s.worstExit (if v < 0 then -v else v) }
      | [] => throw "exit: no frame"
  | .moves ply l =>
      match s.frames with
      | f :: rest =>
          if f.ply ≠ ply then throw "moves: ply mismatch"
          else if f.current.isSome ∨ f.nullDone then throw "moves: list fixed while a move is made"
          else
            let gen := genMoves s.pos
            let expected := if ply = 0 then s.rootMoves else gen
            if sameMembers l expected && l.all (gen.contains ·) then
              pure { s with frames := { f with moves := some l } :: rest,
                            expandedAfterStop := s.expandedAfterStop + (if s.stopDelivered then 1 else 0) }
            else throw s!"moves: list at ply {ply} is not the generated move list"
      | [] => throw "moves: no frame"
  | .doMv ply m =>
      match s.frames with
      | f :: rest =>
          if f.ply ≠ ply then throw "do: ply mismatch"
          else if f.current.isSome ∨ f.nullDone then throw "do: nested do without undo"
          else match f.moves with
            | none => throw "do: before the move list"
            | some l =>
                if l.contains m then
                  pure { s with pos := (doMove T0 s.pos m).1,
                                frames := { f with current := some m, childDone := false } :: rest }
                else throw s!"do: move {m} not in the node's list"
      | [] => throw "do: no frame"
  | .undoMv ply m =>
      match s.frames with
      | f :: rest =>
          if f.ply ≠ ply then throw "undo: ply mismatch"
          else if f.current ≠ some m ∨ f.nullDone then throw "undo: not the move that was made"
          else pure { s with pos := f.npos, frames := { f with current := none, lastSearched := some m } :: rest }
      | [] => throw "undo: nothing to undo"
  | .nullDo ply =>
      match s.frames with
      | f :: rest =>
          if f.ply ≠ ply ∨ f.current.isSome ∨ f.nullDone then throw "null: bad state"
          else pure { s with pos := (doNull T0 s.pos).1, frames := { f with nullDone := true } :: rest }
      | [] => throw "null: no frame"
  | .nullUndo ply =>
      match s.frames with
      | f :: rest =>
          if f.ply ≠ ply ∨ !f.nullDone ∨ f.current.isSome then throw "nullundo: bad state"
          else pure { s with pos := f.npos, frames := { f with nullDone := false } :: rest }
      | [] => throw "nullundo: nothing to undo"
  | .pvClear ply =>
      match s.frames with
      | f :: rest => if f.ply = ply then pure { s with pv := s.pv.set ply [], frames := { f with cleared := true } :: rest }
                     else throw "pvclear: ply mismatch"
      | [] => throw "pvclear: no frame"
  | .pvSet ply m =>
      match s.frames with
      | f :: _ =>
          if f.ply ≠ ply then throw "pvset: ply mismatch"
          else if !f.cleared then throw "pvset: before the node cleared its pv slot"
          else match f.moves with
            | some l => if l.contains m then pure { s with pv := s.pv.set ply [m], maxPvLen := max s.maxPvLen 1 }
                        else throw s!"pvset: move {m} not in the node's list"
            | none => throw "pvset: before the move list"
      | [] => throw "pvset: no frame"
  | .pvAdd ply m =>
      match s.frames with
      | f :: _ =>
          if f.ply ≠ ply then throw "pvadd: ply mismatch"
          else if f.lastSearched ≠ some m ∨ f.current.isSome then throw s!"pvadd: move {m} is not the move just searched"
          else if !f.cleared then throw "pvadd: before the node cleared its pv slot"
          else if !f.childDone then throw s!"pvadd: no node was visited under move {m}, pv[ply+1] is stale"
          else
            let child := s.pv.getD (ply + 1) []
            pure { s with pv := s.pv.set ply (m :: child), maxPvLen := max s.maxPvLen (child.length + 1) }
      | [] => throw "pvadd: no frame"
  | .ttCut ply m _ =>
      match s.frames with
      | f :: _ =>
          if f.ply ≠ ply then throw "ttcut: ply mismatch"
          else match f.moves with
            | some l => if l.contains m then pure s else throw s!"ttcut: table move {m} not in the node's list"
            | none => throw "ttcut: before the move list"
      | [] => throw "ttcut: no frame"
  | .iterStart d =>
      if !s.frames.isEmpty then throw "iterstart: inside a node"
      else if d ≠ s.iterStarted.headD 0 + 1 then throw s!"iterstart: depth {d} after {s.iterStarted.headD 0}"
      else pure { s with iterStarted := d :: s.iterStarted, justDone := false }
  | .iterDone d _ =>
      if !s.frames.isEmpty then throw "iterdone: inside a node"
      else if s.stopSeen then throw "iterdone: after the stop flag was seen"
      else if s.iterStarted.head? ≠ some d then throw "iterdone: not the running iteration"
      else if (s.pv.getD 0 []).isEmpty ∧ !s.rootMoves.isEmpty then throw "iterdone: empty root pv"
      else pure { s with iterDone := d :: s.iterDone, justDone := true, reportedPVs := s.pv.getD 0 [] :: s.reportedPVs }
  | .bestSet m =>
      if !s.bestMoves.isEmpty then throw "bestset: after the bestmove was printed"
      else if s.justDone ∧ (s.pv.getD 0 []).head? = some m then pure { s with best := some m, justDone := false }
      else if s.best = some m then pure s
      else if s.best = none ∧ s.rootMoves.contains m then pure { s with best := some m }
      else if s.rootMoves.isEmpty then pure { s with best := some m, justDone := false }   -- go in a position without legal moves: no claim
      else throw s!"bestset: {m} is neither the finished iteration's pv head, the current best, nor a fallback root move"
  | .bestMove m =>
      if !s.frames.isEmpty then throw "bestmove: inside a node"
      else if !s.bestMoves.isEmpty then throw "bestmove: second bestmove"
      else if s.best ≠ some m then throw s!"bestmove: {m} is not the recorded best move"
      else pure { s with bestMoves := m :: s.bestMoves }
  | .stopSeen _ => pure { s with stopSeen := true }
  | .stopDelivered => pure { s with stopDelivered := true }
  | .aspiration _ _ => pure s   -- informational: the engine does re-search with an empty window after a far fail-low/high

def initState (root : Position) (rootMoves : List Nat) : AState :=
  { pos := root, root := root, rootMoves := rootMoves }

def runTrace (s : AState) : List Ev → Nat → Except (String × Nat) AState
  | [], _ => pure s
  | e :: es, i => match stepEv s e with
    | .ok s' => runTrace s' es (i + 1)
    | .error msg => throw (msg, i)

/-- a whole `go`: accepted iff every step is, the search unwound completely, the position was restored and
    exactly one BESTMOVE ended the trace -/
def acceptTrace (root : Position) (rootMoves : List Nat) (t : List Ev) : Except (String × Nat) AState :=
  match runTrace (initState root rootMoves) t 0 with
  | .error e => throw e
  | .ok s =>
      if !s.frames.isEmpty then throw ("end: search not unwound", t.length)
      else if s.bestMoves.length ≠ 1 then throw ("end: not exactly one bestmove", t.length)
      else pure s

/-- a line of moves is playable from `p` in the model: each move is generated where it is played -/
def legalLine : Position → List Nat → Bool
  | _, [] => true
  | p, m :: ms => (genMoves p).contains m && legalLine (doMove T0 p m).1 ms

end Chess
