/-
  Model/SanMatch.lean — the one SAN regular expression of engine/position.cpp:14,
      ([NBRQK]?)([a-h]?)([1-8]?)x?([a-h][1-8])=?([nbrqkNBRQK]?)[\\+#]?
  as a backtracking matcher with ECMAScript semantics (greedy optional groups, tried in order, whole-string match).
  Kept free of the position model so that the exhaustive matcher theorems do not depend on generated data.
-/
namespace Chess

def fileChar (f : Nat) : Char := Char.ofNat (97 + f)
def rankChar (r : Nat) : Char := Char.ofNat (49 + r)

/-- optional single char from a class, greedy: try consuming first, then skipping (ECMAScript backtracking order) -/
def sanMatch (cs : List Char) : Option (Option Char × Option Char × Option Char × Char × Char × Option Char) :=
  let isPiece (c : Char) := c = 'N' ∨ c = 'B' ∨ c = 'R' ∨ c = 'Q' ∨ c = 'K'
  let isFile (c : Char) := 'a' ≤ c ∧ c ≤ 'h'
  let isRank (c : Char) := '1' ≤ c ∧ c ≤ '8'
  let isPromo (c : Char) := c = 'n' ∨ c = 'b' ∨ c = 'r' ∨ c = 'q' ∨ c = 'k' ∨ isPiece c
  -- the tail after group 4: =? ([nbrqkNBRQK]?) [+#]? then end of string
  let tail (cs : List Char) : Option (Option Char) :=
    let afterEq (cs : List Char) : Option (Option Char) :=
      let afterPromo (pr : Option Char) (cs : List Char) : Option (Option Char) :=
        match cs with
        | [] => some pr
        | [c] => if c = '+' ∨ c = '#' then some pr else none
        | _ => none
      match cs with
      | c :: rest => if isPromo c then (match afterPromo (some c) rest with | some r => some r | none => afterPromo none cs) else afterPromo none cs
      | [] => afterPromo none cs
    match cs with
    | '=' :: rest => (match afterEq rest with | some r => some r | none => afterEq cs)
    | _ => afterEq cs
  let g4 (g1 g2 g3 : Option Char) (cs : List Char) :=
    -- x? then ([a-h][1-8])
    let sq (cs : List Char) :=
      match cs with
      | f :: r :: rest => if isFile f ∧ isRank r then (match tail rest with | some pr => some (g1, g2, g3, f, r, pr) | none => none) else none
      | _ => none
    match cs with
    | 'x' :: rest => (match sq rest with | some r => some r | none => sq cs)
    | _ => sq cs
  let g3 (g1 g2 : Option Char) (cs : List Char) :=
    match cs with
    | c :: rest => if isRank c then (match g4 g1 g2 (some c) rest with | some r => some r | none => g4 g1 g2 none cs) else g4 g1 g2 none cs
    | [] => g4 g1 g2 none cs
  let g2 (g1 : Option Char) (cs : List Char) :=
    match cs with
    | c :: rest => if isFile c then (match g3 g1 (some c) rest with | some r => some r | none => g3 g1 none cs) else g3 g1 none cs
    | [] => g3 g1 none cs
  match cs with
  | c :: rest => if isPiece c then (match g2 (some c) rest with | some r => some r | none => g2 none cs) else g2 none cs
  | [] => g2 none cs


end Chess
