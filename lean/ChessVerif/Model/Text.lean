/-
  Model/Text.lean — mirrors Position::uci / parse_uci / san / san_without_check / parse_san
  (engine/position.cpp:675-876) and the move classification predicates (position.cpp:229-329).
  The one SAN regex `([NBRQK]?)([a-h]?)([1-8]?)x?([a-h][1-8])=?([nbrqkNBRQK]?)[\+#]?` is modelled by a
  backtracking matcher with ECMAScript greedy-optional order (`sanMatch`).
-/
import ChessVerif.Model.Movegen
import ChessVerif.Model.SanMatch
namespace Chess

/-- the four-or-five character text of a non-castling move -/
def uciPlain (f t k : Nat) : String :=
  let s := (((String.singleton (fileChar (fileOf f))).push (rankChar (rankOf f))).push
    (fileChar (fileOf t))).push (rankChar (rankOf t))
  if k ≠ 0 then s.push ("  nbrq ".toList.getD k ' ') else s

/-- `Position::uci` -/
def uci (p : Position) (m : Nat) : String :=
  if moveCastling m &&& KING_CASTLING ≠ 0 then (if p.side = 0 then "e1g1" else "e8g8")
  else if moveCastling m &&& QUEEN_CASTLING ≠ 0 then (if p.side = 0 then "e1c1" else "e8c8")
  else uciPlain (moveFrom m) (moveTo m) (movePromo m)

/-- the (from, to, promotion) a UCI move string denotes; `none` where the C++ throws (bad promotion letter)
    or reads out of range (fewer than four characters) -/
def parseUciSquares (s : String) : Option (Nat × Nat × Nat) :=
  match s.toList with
  | f0 :: r0 :: f1 :: r1 :: rest =>
    let fromSq := mkSquare (r0.toNat - 49) (f0.toNat - 97)
    let toSq := mkSquare (r1.toNat - 49) (f1.toNat - 97)
    match rest with
    | [] => some (fromSq, toSq, 0)
    | c :: _ =>
      if c = 'n' ∨ c = 'N' then some (fromSq, toSq, KNIGHT)
      else if c = 'b' ∨ c = 'B' then some (fromSq, toSq, BISHOP)
      else if c = 'r' ∨ c = 'R' then some (fromSq, toSq, ROOK)
      else if c = 'q' ∨ c = 'Q' then some (fromSq, toSq, QUEEN)
      else none
  | _ => none

/-- "king on e1/e8 moving two files" becomes the castling code (position.cpp:727-734) -/
def castleFix (isK : Bool) (fromSq toSq m : Nat) : Nat :=
  let m := if isK ∧ fromSq = 4 ∧ toSq = 6 then mkCastling KING_CASTLING else m
  let m := if isK ∧ fromSq = 4 ∧ toSq = 2 then mkCastling QUEEN_CASTLING else m
  let m := if isK ∧ fromSq = 60 ∧ toSq = 62 then mkCastling KING_CASTLING else m
  let m := if isK ∧ fromSq = 60 ∧ toSq = 58 then mkCastling QUEEN_CASTLING else m
  m

/-- `Position::parse_uci` -/
def parseUci (p : Position) (s : String) : Option Nat :=
  match parseUciSquares s with
  | none => none
  | some (fromSq, toSq, k) => some (castleFix (kindOf (p.at fromSq) = KING) fromSq toSq (mkPromotion fromSq toSq k))

-- classification ---------------------------------------------------------------------
def moveIsQuiet (p : Position) (m : Nat) : Bool :=
  if moveCastling m ≠ 0 then true
  else if movePromo m ≠ 0 then false
  else if moveTo m = p.ep ∧ kindOf (p.at (moveFrom m)) = PAWN then false
  else p.at (moveTo m) = 0

def moveIsCapture (p : Position) (m : Nat) : Bool :=
  moveCastling m = 0 &&
    (p.at (moveTo m) ≠ 0 || (kindOf (p.at (moveFrom m)) = PAWN && moveTo m = p.ep))

/-- the piece kind whose attack pattern is tested for a direct check (position.cpp: `moved_piece_kind`) -/
def checkingKind (p : Position) (m : Nat) : Nat :=
  if movePromo m ≠ 0 then movePromo m else kindOf (p.at (moveFrom m))

/-- `Position::move_gives_check` (position.cpp:254-329, after the C15 fix) -/
def moveGivesCheck (p : Position) (m : Nat) : Bool :=
  let b := BBs.of p
  let side := p.side
  let kSq := kingSq p.board (1 - side)
  let kBB := sqBB kSq
  let occ := b.all
  if moveCastling m ≠ 0 then
    let r := if side = 0 then 0 else 7
    let ks := moveCastling m &&& KING_CASTLING ≠ 0
    let oldK := kingSq p.board side
    let oldR := mkSquare r (if ks then 7 else 0)
    let myK := mkSquare r (if ks then 6 else 2)
    let myR := mkSquare r (if ks then 5 else 3)
    let bl := occ ^^^ sqBB oldK ^^^ sqBB oldR ^^^ sqBB myK ^^^ sqBB myR
    (rookAttack myR bl &&& kBB) ≠ 0
  else
    let f := moveFrom m
    let t := moveTo m
    let kind := checkingKind p m
    let movedKind := kindOf (p.at f)
    let bl := (occ ^^^ sqBB f) ||| sqBB t
    let direct :=
      if kind = PAWN then (pawnAttacks side (sqBB t) &&& kBB) ≠ 0
      else if kind = KNIGHT then (knightMask t &&& kBB) ≠ 0
      else if kind = BISHOP then (bishopAttack t bl &&& kBB) ≠ 0
      else if kind = ROOK then (rookAttack t bl &&& kBB) ≠ 0
      else if kind = QUEEN then (queenAttack t bl &&& kBB) ≠ 0
      else false
    let bq := b.ck side BISHOP ||| b.ck side QUEEN
    let rq := b.ck side ROOK ||| b.ck side QUEEN
    let disc := (bishopAttack kSq bl &&& bq) ≠ 0 || (rookAttack kSq bl &&& rq) ≠ 0
    let epc :=
      if movedKind = PAWN ∧ t = p.ep then
        let cap := sqBB (mkSquare (rankOf f) (fileOf t))
        let bl2 := bl ^^^ cap
        (bishopAttack kSq bl2 &&& bq) ≠ 0 || (rookAttack kSq bl2 &&& rq) ≠ 0
      else false
    direct || disc || epc

-- SAN -----------------------------------------------------------------------------------
def sanWithoutCheck (p : Position) (m : Nat) : String :=
  if moveCastling m = KING_CASTLING then "O-O"
  else if moveCastling m = QUEEN_CASTLING then "O-O-O"
  else
    let f := moveFrom m
    let t := moveTo m
    let moved := kindOf (p.at f)
    let matching := (genMoves p).filter (fun x =>
      moveCastling x = 0 && (kindOf (p.at (moveFrom x)) = moved && moveTo x = t && movePromo x = movePromo m))
    let s := if moved ≠ PAWN then String.singleton ("  NBRQK".toList.getD moved ' ') else ""
    let s :=
      if matching.length > 1 then
        let s := s.push (fileChar (fileOf f))
        let m2 := matching.filter (fun x => fileOf (moveFrom x) = fileOf f)
        if m2.length > 1 then s.push (rankChar (rankOf f)) else s
      else s
    let b := BBs.of p
    let capBB := b.color (1 - p.side) ||| (if moved = PAWN then (if p.ep = 64 then sqBB 64 % two64 else sqBB p.ep) else 0)
    let s :=
      if (sqBB t &&& capBB) ≠ 0 then
        (if moved = PAWN ∧ s = "" then s.push (fileChar (fileOf f)) else s).push 'x'
      else s
    let s := s ++ sqName t
    if movePromo m ≠ 0 then (s.push '=').push ("  NBRQ ".toList.getD (movePromo m) ' ') else s

/-- the state after `m` needed for the suffix; the Zobrist table is irrelevant for it -/
def zeroTable : ZTable := ⟨fun _ _ => 0, fun _ => 0, 0, fun _ => 0⟩

def san (p : Position) (m : Nat) : String :=
  let basic := sanWithoutCheck p m
  let q := (doMove zeroTable p m).1
  if isCheckmate q then basic ++ "#"
  else if isInCheck q q.side then basic ++ "+"
  else basic

def parsePieceKind (c : Option Char) : Nat :=
  match c with
  | some 'n' | some 'N' => KNIGHT
  | some 'b' | some 'B' => BISHOP
  | some 'r' | some 'R' => ROOK
  | some 'q' | some 'Q' => QUEEN
  | some 'k' | some 'K' => KING
  | _ => PAWN

/-- strip at most one trailing '+' or '#' (C17 fix: castling strings are compared after stripping the suffix) -/
def stripSuffix (s : String) : String :=
  match s.toList.reverse with
  | c :: rest => if c = '+' ∨ c = '#' then String.ofList rest.reverse else s
  | [] => s

/-- `Position::parse_san`; `none` = NO_MOVE -/
def parseSan (p : Position) (str : String) : Option Nat :=
  let moves := genMoves p
  let core := stripSuffix str
  if core = "0-0" ∨ core = "O-O" then (if moves.contains kingCastlingMove then some kingCastlingMove else none)
  else if core = "0-0-0" ∨ core = "O-O-O" then (if moves.contains queenCastlingMove then some queenCastlingMove else none)
  else
    match sanMatch str.toList with
    | none => none
    | some (g1, g2, g3, f, r, pr) =>
      let moved := parsePieceKind g1
      let toSq := mkSquare (r.toNat - 49) (f.toNat - 97)
      let promo : Option Nat := pr.map (fun c => parsePieceKind (some c))
      if promo = some PAWN ∨ promo = some KING then none
      else
        let ms := moves.filter (fun m =>
          moveCastling m = 0 &&
          kindOf (p.at (moveFrom m)) = moved &&
          (match g2 with | none => true | some c => fileOf (moveFrom m) = c.toNat - 97) &&
          (match g3 with | none => true | some c => rankOf (moveFrom m) = c.toNat - 49) &&
          moveTo m = toSq &&
          (match promo with | none => true | some k => movePromo m = k))
        match ms with
        | [m] => some m
        | _ => none

end Chess
