/-
  Model/Types.lean — packed Move / MoveInfo encodings of engine/types.h and engine/types.cpp (same bit layouts).
-/
import ChessVerif.Model.Basic
namespace Chess

/-- `create_move(from, to)` = `to << 6 | from` -/
def mkMove (f t : Nat) : Nat := (t <<< 6) ||| f
/-- `create_promotion(from, to, promotion)` -/
def mkPromotion (f t k : Nat) : Nat := (k <<< 12) ||| (t <<< 6) ||| f
/-- `create_castling(c)` for c = KING_CASTLING (5) or QUEEN_CASTLING (10) -/
def mkCastling (c : Nat) : Nat := (if c = KING_CASTLING then 1 else 2) <<< 15

def noMove : Nat := 0
def kingCastlingMove : Nat := mkCastling KING_CASTLING
def queenCastlingMove : Nat := mkCastling QUEEN_CASTLING

def moveFrom (m : Nat) : Nat := m &&& 0x3F
def moveTo (m : Nat) : Nat := (m >>> 6) &&& 0x3F
def movePromo (m : Nat) : Nat := (m >>> 12) &&& 0x7
/-- `castling(move)`: NO_CASTLING / KING_CASTLING / QUEEN_CASTLING -/
def moveCastling (m : Nat) : Nat :=
  let p := (m >>> 15) &&& 0x3
  if p = 0 then 0 else if p = 1 then KING_CASTLING else QUEEN_CASTLING

/-- `create_moveinfo` (types.cpp:28-37); `lastEp = 64` means NO_SQUARE; `clock` is a uint16 (bits 15..30) -/
def mkMoveInfo (captured lastCastling lastEp : Nat) (isEp : Bool) (clock : Nat) : Nat :=
  if lastEp ≠ noSquare then
    (clock <<< 15) ||| ((if isEp then 1 else 0) <<< 14) ||| (1 <<< 13) ||| (lastEp <<< 7) ||| (lastCastling <<< 3) ||| captured
  else
    (clock <<< 15) ||| ((if isEp then 1 else 0) <<< 14) ||| (lastCastling <<< 3) ||| captured

def miCaptured (mi : Nat) : Nat := mi &&& 0x7
def miLastCastling (mi : Nat) : Nat := (mi >>> 3) &&& 0xF
def miLastEp (mi : Nat) : Nat := if (mi >>> 13) &&& 1 = 1 then (mi >>> 7) &&& 0x3F else noSquare
def miIsEp (mi : Nat) : Bool := (mi >>> 14) &&& 1 = 1
def miClock (mi : Nat) : Nat := (mi >>> 15) &&& 0xFFFF

/-- pins of movegen.cpp:204-229 -/
def mkPin (sq kind ray : Nat) : Nat := (ray <<< 9) ||| (kind <<< 6) ||| sq
def pinSquare (p : Nat) : Nat := p &&& 0x3F
def pinKind (p : Nat) : Nat := (p >>> 6) &&& 0x7
def pinRay (p : Nat) : Nat := (p >>> 9) &&& 0x7

end Chess
