/-
  Model/Time.lean — mirrors TimeManager::calculateTime / computeTimeForFixedLength (engine/time_manager.cpp).
  The two floating-point steps are parameters (`FloatOps`): `scale m ply total` = `Duration(double(total) * ratio(m, ply))`
  and `cap x` = `Duration(0.7 * x)`.  The driver instantiates them with IEEE doubles (Lean `Float`) over the
  `importance` values re-extracted from the build; the theorems assume only monotonicity/range facts about them.
-/
namespace Chess

structure FloatOps where
  scale : Nat → Nat → Int → Int      -- movesToGo, ply, total time ↦ truncated share
  cap : Int → Int                    -- x ↦ trunc(0.7 · x)

def MAX_MOVES_TO_GO : Nat := 50

/-- the loop `for (movesToGo = 1; movesToGo < maxMovesToGo; ++movesToGo) time = min(time, t)` -/
def calcLoop (F : FloatOps) (left inc : Int) (ply maxM : Nat) : Int :=
  (List.range' 1 (maxM - 1)).foldl (fun time m => min time (F.scale m ply (left + inc * ((m : Int) - 1)))) left

/-- `TimeManager::calculateTime` for the side's remaining time `left`, increment `inc`, `movestogo`, game `ply` -/
def calcTime (F : FloatOps) (left inc : Int) (movestogo ply : Nat) : Int :=
  min (calcLoop F left inc ply (if movestogo = 0 then MAX_MOVES_TO_GO else movestogo)) (F.cap left)

end Chess
