/-
  Model/Eval.lean — the static evaluation, transcribed function by function from engine/score.cpp,
  engine/endgame.cpp and engine/position_bitboards.h, keeping the explicit `side == WHITE ? … : …` choices
  (msb vs lsb, relative ranks, NORTH vs SOUTH), C++ integer division truncating toward zero (`Int.tdiv`),
  and the pawn-key cache of PositionScorer (HashMap: slot = key mod 2^18, probe compares keys, insert
  overwrites, clear resets whole entries).  Evaluation constants are written out here; the correspondence
  check compares every evaluation with the C++ (a changed constant shows up as a disagreement).
-/
import ChessVerif.Model.Movegen
import ChessVerif.Model.Bitbase
import ChessVerif.Gen.Consts
namespace Chess

structure Sc where
  mg : Int := 0
  eg : Int := 0
  deriving DecidableEq, Repr, Inhabited

instance : Add Sc := ⟨fun a b => ⟨a.mg + b.mg, a.eg + b.eg⟩⟩
instance : Sub Sc := ⟨fun a b => ⟨a.mg - b.mg, a.eg - b.eg⟩⟩
def Sc.scale (s : Sc) (v : Int) : Sc := ⟨s.mg * v, s.eg * v⟩
def Sc.ofV (v : Int) : Sc := ⟨v, v⟩

def pieceValue : Nat → Sc
  | 1 => ⟨300, 370⟩ | 2 => ⟨890, 880⟩ | 3 => ⟨900, 950⟩ | 4 => ⟨1400, 1550⟩ | 5 => ⟨2900, 2800⟩ | _ => ⟨0, 0⟩
def mobilityBonus : Nat → Sc
  | 1 => ⟨5, 10⟩ | 2 => ⟨12, 24⟩ | 3 => ⟨18, 8⟩ | 4 => ⟨6, 24⟩ | 5 => ⟨4, 12⟩ | 6 => ⟨0, 10⟩ | _ => ⟨0, 0⟩
def controlSpace : Nat → Sc
  | 1 => ⟨20, 30⟩ | 2 => ⟨20, 0⟩ | 3 => ⟨10, 5⟩ | 4 => ⟨10, 10⟩ | 5 => ⟨10, 20⟩ | _ => ⟨0, 0⟩
def kingProtectorPenalty : Nat → Sc
  | 2 => ⟨-6, -4⟩ | 3 => ⟨-5, -3⟩ | _ => ⟨0, 0⟩
def kingAttackerPenalty : Nat → Sc
  | 2 => ⟨-7, -4⟩ | 3 => ⟨-4, -3⟩ | _ => ⟨0, 0⟩
def ROOK_SEMIOPEN_FILE_BONUS : Sc := ⟨10, 11⟩
def ROOK_OPEN_FILE_BONUS : Sc := ⟨20, 40⟩
def TRAPPED_ROOK_PENALTY : Sc := ⟨-50, -10⟩
def BISHOP_PAIR_BONUS : Sc := ⟨50, 60⟩
def CONNECTED_ROOKS_BONUS : Sc := ⟨20, 10⟩
def OUTPOST_KNIGHT_BONUS : Sc := ⟨25, 10⟩
def OUTPOST_BISHOP_BONUS : Sc := ⟨20, 10⟩
def PAWN_CONTROL_CENTER_BONUS : Sc := ⟨30, 30⟩
def PASSED_PAWN_BONUS : Sc := ⟨20, 40⟩
def passedPawnRankWeight : Nat → Int
  | 1 => 1 | 2 => 1 | 3 => 2 | 4 => 3 | 5 => 6 | 6 => 10 | _ => 0
def DOUBLE_PAWN_PENALTY : Sc := ⟨-15, -45⟩
def connectedPawnsBonus : Nat → Int
  | 2 => 2 | 3 => 5 | 4 => 20 | 5 => 40 | 6 => 80 | _ => 0
def BACKWARD_PAWN_PENALTY : Sc := ⟨-30, -100⟩
def ISOLATED_PAWN_PENALTY : Sc := ⟨-20, -80⟩
def KING_SAFETY_BONUS : Sc := ⟨30, 0⟩
def SAFE_KNIGHT : Sc := ⟨10, 2⟩
def CONTROL_CENTER_KNIGHT : Sc := ⟨10, 10⟩
def VULNERABLE_QUEEN_PENALTY : Sc := ⟨-30, -15⟩
def WEAK_BACKRANK_PENALTY : Sc := ⟨-75, -100⟩
def WEAK_KING_DIAGONALS : Sc := ⟨-5, 0⟩
def WEAK_KING_LINES : Sc := ⟨-7, 0⟩
def KING_PAWN_PROXIMITY_PENALTY : Sc := ⟨0, -5⟩
def PAWNS_ON_SAME_COLOR_AS_BISHOP_PENALTY : Sc := ⟨-3, -5⟩

def VALUE_NONE : Int := Gen.VALUE_NONE
def VALUE_MATE : Int := Gen.VALUE_MATE
def VALUE_KNOWN_WIN : Int := Gen.VALUE_KNOWN_WIN
def VALUE_POSITIVE_DRAW : Int := Gen.VALUE_POSITIVE_DRAW

-- bitboard helpers (bitboard.h) -------------------------------------------------------------------
def whiteSquares : BB := 0x55aa55aa55aa55aa
def blackSquares : BB := bnot whiteSquares
def colorSquares (c : Nat) : BB := if c = 0 then whiteSquares else blackSquares
def opponentRanks (side : Nat) : BB :=
  if side = 0 then rankBB 4 ||| rankBB 5 ||| rankBB 6 ||| rankBB 7 else rankBB 0 ||| rankBB 1 ||| rankBB 2 ||| rankBB 3
def centerBB : BB := (fileBB 3 ||| fileBB 4) &&& (rankBB 3 ||| rankBB 4)
def opponentsCenter (side : Nat) : BB :=
  (fileBB 2 ||| fileBB 3 ||| fileBB 4 ||| fileBB 5) &&& (if side = 0 then rankBB 4 ||| rankBB 5 else rankBB 2 ||| rankBB 3)
def neighbourFiles (f : Nat) : BB := (if f > 0 then fileBB (f - 1) else 0) ||| (if f < 7 then fileBB (f + 1) else 0)

/-- `forward_ranks_bb<side>(sq)` -/
def forwardRanks (side sq : Nat) : BB :=
  if side = 0 then shl (bnot rank1) (8 * rankOf sq) else (bnot (rankBB 7)) >>> (8 * (7 - rankOf sq))
def passedPawnBB (side sq : Nat) : BB := forwardRanks side sq &&& (neighbourFiles (fileOf sq) ||| fileBB (fileOf sq))
def squaresLeftBehind (side sq : Nat) : BB :=
  neighbourFiles (fileOf sq) &&& (forwardRanks (1 - side) sq ||| rankBB (rankOf sq))

def pseudoBishop (sq : Nat) : BB := rays 0 sq ||| rays 2 sq ||| rays 4 sq ||| rays 6 sq
def pseudoRook (sq : Nat) : BB := rays 1 sq ||| rays 3 sq ||| rays 7 sq ||| rays 5 sq

def allOnSameFile (bb : BB) : Bool := (List.range 8).any (fun f => bb = (bb &&& fileBB f))

/-- `get_outposts<side>` (position_bitboards.h) -/
def getOutposts (b : BBs) (side : Nat) : BB :=
  let opp := b.ck (1 - side) PAWN
  let pick (f : Nat) : Nat :=
    let on := opp &&& fileBB f
    if popcount on ≠ 0 then (if side = 0 then msb on else lsb on) else mkSquare (if side = 0 then 0 else 7) f
  let o := squaresLeftBehind (1 - side) (pick 1) &&& fileBB 0
  let o := o ||| (squaresLeftBehind (1 - side) (pick 6) &&& fileBB 7)
  let o := (List.range 6).foldl (fun acc k =>
    let i := k + 1
    acc ||| (squaresLeftBehind (1 - side) (pick (i - 1)) &&& squaresLeftBehind (1 - side) (pick (i + 1)))) o
  let pawns := b.ck side PAWN
  let attacked := if side = 0 then shift .NW pawns ||| shift .NE pawns else shift .SE pawns ||| shift .SW pawns
  o &&& attacked &&& bnot (b.kind PAWN)

/-- `blockers_for_square<side>` (score.cpp): single pieces standing between `sq` and an enemy slider aimed at it -/
def blockersForSquare (b : BBs) (side sq : Nat) : BB :=
  let opp := 1 - side
  let snipers := (pseudoBishop sq &&& (b.ck opp BISHOP ||| b.ck opp QUEEN)) ||| (pseudoRook sq &&& (b.ck opp ROOK ||| b.ck opp QUEEN))
  let rest := b.all &&& bnot (snipers ||| sqBB sq)
  (bitsOf snipers).foldl (fun acc s =>
    let x := lines sq s &&& rest
    if x ≠ 0 ∧ !moreThanOne x then acc ||| x else acc) 0

/-- `attacked_squares(position, side)` (movegen.cpp:587): squares attacked by the opponent of `side` -/
def attackedSquares (b : BBs) (board : List Nat) (side : Nat) : BB :=
  let opp := 1 - side
  let pawns := b.ck opp PAWN
  let bb := if side = 1 then shift .NW pawns ||| shift .NE pawns else shift .SE pawns ||| shift .SW pawns
  let bb := (bitsOf (b.ck opp KNIGHT)).foldl (fun acc s => acc ||| knightMask s) bb
  let bb := (bitsOf (b.ck opp BISHOP)).foldl (fun acc s => acc ||| bishopAttack s b.all) bb
  let bb := (bitsOf (b.ck opp ROOK)).foldl (fun acc s => acc ||| rookAttack s b.all) bb
  let bb := (bitsOf (b.ck opp QUEEN)).foldl (fun acc s => acc ||| queenAttack s b.all) bb
  bb ||| kingMask (kingSq board opp)

/-- the per-evaluation scratch state of PositionScorer::setup<side> -/
structure Setup where
  attPawn : BB
  attPiece : BB        -- _attacked_by_piece: knights, bishops, rooks, queens (x-ray through own like sliders)
  outposts : BB
  kingBlockers : BB

def setupSide (b : BBs) (board : List Nat) (side : Nat) : Setup :=
  let occ := b.all
  let bq := b.ck side BISHOP ||| b.ck side QUEEN
  let rq := b.ck side ROOK ||| b.ck side QUEEN
  let n := (bitsOf (b.ck side KNIGHT)).foldl (fun acc s => acc ||| knightMask s) 0
  let bi := (bitsOf (b.ck side BISHOP)).foldl (fun acc s => acc ||| bishopAttack s (occ &&& bnot bq)) 0
  let r := (bitsOf (b.ck side ROOK)).foldl (fun acc s => acc ||| rookAttack s (occ &&& bnot rq)) 0
  let q := (bitsOf (b.ck side QUEEN)).foldl (fun acc s => acc ||| bishopAttack s (occ &&& bnot bq) ||| rookAttack s (occ &&& bnot rq)) 0
  { attPawn := pawnAttacks side (b.ck side PAWN), attPiece := n ||| bi ||| r ||| q,
    outposts := getOutposts b side, kingBlockers := blockersForSquare b side (kingSq board side) }

/-- `get_real_possible_moves<side>` -/
def realMoves (b : BBs) (board : List Nat) (side : Nat) (own opp : Setup) (sq : Nat) (moves : BB) : BB :=
  let k := kingSq board side
  let oppPieces := b.color (1 - side) &&& bnot (b.ck (1 - side) PAWN)
  let moves := if (sqBB sq &&& own.kingBlockers) ≠ 0 then moves &&& fullLines sq k else moves
  let moves := moves &&& bnot (b.color side)
  moves &&& bnot (opp.attPawn &&& bnot oppPieces)

def pc (bb : BB) : Int := (popcount bb : Nat)

def scoreKingShelter (b : BBs) (side ksq : Nat) : Sc := KING_SAFETY_BONUS.scale (pc (kingMask ksq &&& b.ck side PAWN))

def relSquare (side sq : Nat) : Nat := mkSquare (if side = 0 then rankOf sq else 7 - rankOf sq) (fileOf sq)

def maxByMg (a b : Sc) : Sc := if a.mg < b.mg then b else a

def scoreKingSafety (b : BBs) (board : List Nat) (castling side : Nat) : Sc :=
  let k := kingSq board side
  let kc := if side = 0 then W_OO else B_OO
  let qc := if side = 0 then W_OOO else B_OOO
  let s := scoreKingShelter b side k
  let s := if castling &&& kc ≠ 0 then maxByMg s (scoreKingShelter b side (relSquare side 6)) else s
  let s := if castling &&& qc ≠ 0 then
             maxByMg (maxByMg s (scoreKingShelter b side (relSquare side 2))) (scoreKingShelter b side (relSquare side 1))
           else s
  (bitsOf (b.ck side PAWN)).foldl (fun acc p => acc + KING_PAWN_PROXIMITY_PENALTY.scale (distance k p)) s

def scoreKing (b : BBs) (board : List Nat) (castling side : Nat) (own opp : Setup) : Sc :=
  let k := kingSq board side
  let ok := kingSq board (1 - side)
  let firstRank := if side = 0 then 0 else 7
  let secondRank := if side = 0 then 1 else 6
  let kingArea := kingMask k ||| sqBB k
  let moves := kingMask k &&& bnot (attackedSquares b board (1 - side))
  let v := scoreKingSafety b board castling side
  let v := v + (mobilityBonus KING).scale (pc moves)
  let v :=
    if rankOf k = firstRank ∧ (b.ck (1 - side) ROOK ||| b.ck (1 - side) QUEEN) ≠ 0 then
      let area := kingArea &&& rankBB secondRank
      let blocked := b.color side ||| opp.attPiece ||| opp.attPawn ||| kingMask ok
      if (area &&& blocked) = area then v + WEAK_BACKRANK_PENALTY else v
    else v
  let occ := b.all &&& bnot own.kingBlockers
  let v := if b.ck (1 - side) QUEEN ≠ 0 ∨ (b.ck (1 - side) BISHOP &&& colorSquares (sqColor k)) ≠ 0
           then v + WEAK_KING_DIAGONALS.scale (pc (bishopAttack k occ)) else v
  if b.ck (1 - side) QUEEN ≠ 0 ∨ b.ck (1 - side) ROOK ≠ 0 then v + WEAK_KING_LINES.scale (pc (rookAttack k occ)) else v

def scorePiecesForSide (b : BBs) (board : List Nat) (castling side : Nat) (own opp : Setup) : Sc :=
  let k := kingSq board side
  let ok := kingSq board (1 - side)
  let occ := b.all
  let bq := b.ck side BISHOP ||| b.ck side QUEEN
  let rq := b.ck side ROOK ||| b.ck side QUEEN
  let knights := (bitsOf (b.ck side KNIGHT)).foldl (fun acc sq =>
    let att := knightMask sq
    let s := pieceValue KNIGHT
    let s := if (sqBB sq &&& own.attPawn) ≠ 0 then s + SAFE_KNIGHT else s
    let s := s + (controlSpace KNIGHT).scale (pc (att &&& opponentRanks side))
    let s := s + CONTROL_CENTER_KNIGHT.scale (pc (att &&& centerBB))
    let s := s + (kingProtectorPenalty KNIGHT).scale (distance k sq)
    let s := s + (kingAttackerPenalty KNIGHT).scale (distance ok sq)
    let s := s + (mobilityBonus KNIGHT).scale (pc (realMoves b board side own opp sq att))
    let s := if (own.outposts &&& sqBB sq) ≠ 0 then s + OUTPOST_KNIGHT_BONUS else s
    acc + s) (⟨0, 0⟩ : Sc)
  let bishops := (bitsOf (b.ck side BISHOP)).foldl (fun acc sq =>
    let att := bishopAttack sq occ
    let s := pieceValue BISHOP
    let s := s + (controlSpace BISHOP).scale (pc (bishopAttack sq (occ &&& bnot bq) &&& opponentRanks side))
    let s := s + (mobilityBonus BISHOP).scale (pc (realMoves b board side own opp sq att))
    let s := s + (kingProtectorPenalty BISHOP).scale (distance k sq)
    let s := s + (kingAttackerPenalty BISHOP).scale (distance ok sq)
    let s := s + PAWNS_ON_SAME_COLOR_AS_BISHOP_PENALTY.scale (pc (b.ck side PAWN &&& colorSquares (sqColor sq)))
    let s := if (own.outposts &&& sqBB sq) ≠ 0 then s + OUTPOST_BISHOP_BONUS else s
    acc + s) (⟨0, 0⟩ : Sc)
  let bishops := if (b.ck side BISHOP &&& whiteSquares) ≠ 0 ∧ (b.ck side BISHOP &&& blackSquares) ≠ 0 then bishops + BISHOP_PAIR_BONUS else bishops
  let rooks := (bitsOf (b.ck side ROOK)).foldl (fun acc sq =>
    let s := pieceValue ROOK
    let s := s + (controlSpace ROOK).scale (pc (rookAttack sq (occ &&& bnot rq) &&& opponentRanks side))
    let fbb := fileBB (fileOf sq)
    let rbb := rankBB (rankOf sq)
    let s := if (fbb &&& b.kind PAWN) = 0 then s + ROOK_OPEN_FILE_BONUS else s
    let s := if (fbb &&& b.ck side PAWN) = 0 ∧ (fbb &&& b.ck (1 - side) PAWN) ≠ 0 then s + ROOK_SEMIOPEN_FILE_BONUS else s
    let s := if moreThanOne (fbb &&& b.ck side ROOK) ∨ moreThanOne (rbb &&& b.ck side ROOK) then s + ⟨10, 5⟩ else s
    let moves := realMoves b board side own opp sq (rookAttack sq occ)
    let s := s + (mobilityBonus ROOK).scale (pc moves)
    let s :=
      if popcount moves ≤ 3 ∧ (decide (fileOf k < 4) = decide (fileOf sq < fileOf k)) then
        let canCastle := castling &&& castlingRightsOf side ≠ 0
        s + TRAPPED_ROOK_PENALTY.scale (if canCastle then 1 else 2)
      else s
    acc + s) (⟨0, 0⟩ : Sc)
  let queens := (bitsOf (b.ck side QUEEN)).foldl (fun acc sq =>
    let s := pieceValue QUEEN
    let s := s + (controlSpace QUEEN).scale (pc (bishopAttack sq (occ &&& bnot bq) &&& opponentRanks side))
    let s := s + (controlSpace QUEEN).scale (pc (rookAttack sq (occ &&& bnot rq) &&& opponentRanks side))
    let snipers := (pseudoBishop sq &&& b.ck (1 - side) BISHOP) ||| (pseudoRook sq &&& b.ck (1 - side) ROOK)
    let rest := occ &&& bnot (snipers ||| sqBB sq)
    let vulnerable := (bitsOf snipers).any (fun sn => let x := lines sq sn &&& rest; x ≠ 0 ∧ !moreThanOne x)
    let s := if vulnerable then s + VULNERABLE_QUEEN_PENALTY else s
    let s := s + (mobilityBonus QUEEN).scale (pc (realMoves b board side own opp sq (queenAttack sq occ)))
    acc + s) (⟨0, 0⟩ : Sc)
  knights + bishops + rooks + queens + scoreKing b board castling side own opp

/-- `score_pawns_for_side<side>` -/
def scorePawnsForSide (b : BBs) (side : Nat) : Sc :=
  let ours := b.ck side PAWN
  let theirs := b.ck (1 - side) PAWN
  let upD := if side = 0 then Dir.N else Dir.S
  let downD := if side = 0 then Dir.S else Dir.N
  (bitsOf ours).foldl (fun acc sq =>
    let r := rankOf sq
    let f := fileOf sq
    let relRank := if side = 0 then r else 7 - r
    let attacks := pawnAttacks side (sqBB sq)
    let neighbours := ours &&& neighbourFiles f
    let phalanx := neighbours &&& rankBB r
    let support := neighbours &&& rankBB (if side = 0 then r - 1 else r + 1)
    let lever := theirs &&& attacks
    let leverPush := theirs &&& shift upD attacks
    let opposed := theirs &&& passedPawnBB side sq
    let blocked := (theirs &&& shift upD (sqBB sq)) ≠ 0
    let doubled := (ours &&& shift downD (sqBB sq)) ≠ 0
    let fwdSq := if side = 0 then sq + 8 else sq - 8
    let backward := (neighbours &&& passedPawnBB (1 - side) fwdSq) = 0 ∧ (blocked ∨ leverPush ≠ 0)
    let passed := opposed = 0 ∨ (opposed ^^^ lever) = 0 ∨ ((opposed ^^^ leverPush) = 0 ∧ popcount phalanx ≥ popcount leverPush)
    let s := pieceValue PAWN
    let s := s + PAWN_CONTROL_CENTER_BONUS.scale (pc (attacks &&& opponentsCenter side))
    let s := if doubled then s + DOUBLE_PAWN_PENALTY else s
    let s :=
      if (support ||| phalanx) ≠ 0 then
        let s := s + Sc.ofV (connectedPawnsBonus relRank * (1 + (if phalanx ≠ 0 then 1 else 0) - (if opposed ≠ 0 then 1 else 0)))
        s + Sc.ofV (10 * pc support)
      else if neighbours = 0 then s + ISOLATED_PAWN_PENALTY
      else if backward then s + BACKWARD_PAWN_PENALTY
      else s
    let s := if passed then s + PASSED_PAWN_BONUS.scale (passedPawnRankWeight relRank) else s
    acc + s) (⟨0, 0⟩ : Sc)

/-- what the pawn cache stores: white pawn score minus black pawn score (depends on the pawn bitboards only) -/
def pawnScore (b : BBs) : Sc := scorePawnsForSide b 0 - scorePawnsForSide b 1

def MAX_PIECE_WEIGHTS : Int := 24
def gamePhaseWeight (board : List Nat) : Int :=
  let c (pc : Nat) : Int := (countOf board pc : Nat)
  min (c 2 + c 3 + 2 * c 4 + 4 * c 5 + c 8 + c 9 + 2 * c 10 + 4 * c 11) MAX_PIECE_WEIGHTS

def combine (s : Sc) (w : Int) : Int := Int.tdiv (s.mg * w + s.eg * (MAX_PIECE_WEIGHTS - w)) MAX_PIECE_WEIGHTS

-- endgames (endgame.cpp) ---------------------------------------------------------------------------------
def pushToEdge : List Int := [
  100, 90, 80, 70, 70, 80, 90, 100,
   90, 60, 50, 40, 40, 50, 60,  90,
   80, 50, 30, 20, 20, 30, 40,  80,
   70, 40, 20, 10, 10, 20, 40,  70,
   70, 40, 20, 10, 10, 20, 40,  70,
   80, 50, 30, 20, 20, 30, 40,  80,
   90, 60, 50, 40, 40, 50, 60,  90,
  100, 90, 80, 70, 70, 80, 90, 100]
def pushToColorCorner : List Int := [
  100, 90, 80, 70, 70, 60, 50,  40,
   90, 60, 50, 40, 40, 50, 60,  50,
   80, 50, 30, 20, 20, 30, 40,  60,
   70, 40, 20, 10, 10, 20, 40,  70,
   70, 40, 20, 10, 10, 20, 40,  70,
   60, 50, 30, 20, 20, 30, 40,  80,
   50, 60, 50, 40, 40, 50, 60,  90,
   40, 50, 60, 70, 70, 80, 90, 100]
def pushClose : List Int := [0, 7, 6, 5, 4, 3, 2, 1]
def pte (s : Nat) : Int := pushToEdge.getD s 0
def pcl (d : Nat) : Int := pushClose.getD d 0

def mostAdvancedPawn (pawns : BB) (side : Nat) : Nat := if side = 0 then msb pawns else lsb pawns

def mkPcv (l : List Nat) : Nat :=
  match l with
  | [wp, wn, wb, wr, wq, bp, bn, bb, br, bq] =>
      (wp <<< 4) ||| (wn <<< 8) ||| (wb <<< 12) ||| (wr <<< 16) ||| (wq <<< 20) ||| (bp <<< 28) ||| (bn <<< 32) ||| (bb <<< 36) ||| (br <<< 40) ||| (bq <<< 44)
  | _ => 0

/-- the material signature of an exact-material endgame for `strong` -/
def sandbox (strong : Nat) (w b : List Nat) : Nat := if strong = 0 then mkPcv w else mkPcv b

inductive EG | KPK | KPsK | KRKB | KRKN | KNNK | KNNKP | KQKR | KNBK | KRNKR | KRBKR | KBPsK | KBPsKB | KRKP | KQKP | KQKRPs | KmmKm | KXK
  deriving DecidableEq, Repr

def egOrder : List EG := [.KPK, .KPsK, .KRKB, .KRKN, .KNNK, .KNNKP, .KQKR, .KNBK, .KRNKR, .KRBKR, .KBPsK, .KBPsKB, .KRKP, .KQKP, .KQKRPs, .KmmKm, .KXK]

def egApplies (e : EG) (b : BBs) (board : List Nat) (strong : Nat) : Bool :=
  let weak := 1 - strong
  let n (c k : Nat) : Nat := countOf board (mkPiece c k)
  let pv := pcv board
  match e with
  | .KPK => pv = sandbox strong [1,0,0,0,0,0,0,0,0,0] [0,0,0,0,0,1,0,0,0,0]
  | .KPsK => noNonpawns board strong = 0 ∧ n strong PAWN ≥ 2 ∧ b.color weak = b.ck weak KING
  | .KRKB => pv = sandbox strong [0,0,0,1,0,0,0,1,0,0] [0,0,1,0,0,0,0,0,1,0]
  | .KRKN => pv = sandbox strong [0,0,0,1,0,0,1,0,0,0] [0,1,0,0,0,0,0,0,1,0]
  | .KNNK => pv = sandbox strong [0,2,0,0,0,0,0,0,0,0] [0,0,0,0,0,0,2,0,0,0]
  | .KNNKP => pv = sandbox strong [0,2,0,0,0,1,0,0,0,0] [1,0,0,0,0,0,2,0,0,0]
  | .KQKR => pv = sandbox strong [0,0,0,0,1,0,0,0,1,0] [0,0,0,1,0,0,0,0,0,1]
  | .KNBK => pv = sandbox strong [0,1,1,0,0,0,0,0,0,0] [0,0,0,0,0,0,1,1,0,0]
  | .KRNKR => pv = sandbox strong [0,1,0,1,0,0,0,0,1,0] [0,0,0,1,0,0,1,0,1,0]
  | .KRBKR => pv = sandbox strong [0,0,1,1,0,0,0,0,1,0] [0,0,0,1,0,0,0,1,1,0]
  | .KBPsK => n strong BISHOP = 1 ∧ noNonpawns board strong = 1 ∧ n strong PAWN > 0 ∧ b.color weak = b.ck weak KING
  | .KBPsKB => n strong BISHOP = 1 ∧ n weak BISHOP = 1 ∧ n strong PAWN ≥ 1 ∧ n weak PAWN = 0 ∧ noNonpawns board strong = 1 ∧ noNonpawns board weak = 1
  | .KRKP => pv = sandbox strong [0,0,0,1,0,1,0,0,0,0] [1,0,0,0,0,0,0,0,1,0]
  | .KQKP => pv = sandbox strong [0,0,0,0,1,1,0,0,0,0] [1,0,0,0,0,0,0,0,0,1]
  | .KQKRPs => n strong QUEEN = 1 ∧ n weak ROOK = 1 ∧ n strong PAWN = 0 ∧ n weak PAWN ≥ 1 ∧ noNonpawns board strong = 1 ∧ noNonpawns board weak = 1
  | .KmmKm => n strong KNIGHT + n strong BISHOP = 2 ∧ n weak KNIGHT + n weak BISHOP = 1 ∧ n strong PAWN = 0 ∧ n weak PAWN = 0 ∧
              noNonpawns board strong = 2 ∧ noNonpawns board weak = 1
  | .KXK => popcount (b.color weak) = 1

def pvEg (k : Nat) : Int := (pieceValue k).eg

/-- `Endgame<…>::strongSideScore` -/
def egStrongScore (e : EG) (b : BBs) (board : List Nat) (stm strong : Nat) : Int :=
  let weak := 1 - strong
  let sk := kingSq board strong
  let wk := kingSq board weak
  let n (c k : Nat) : Int := (countOf board (mkPiece c k) : Nat)
  let sq1 (c k : Nat) : Nat := lsb (b.ck c k)          -- piece_position(piece, 0) when there is exactly one
  let cap (v : Int) : Int := min v (VALUE_MATE - 1)
  match e with
  | .KPK =>
      let (side, nsk, nsp, nwk) := kpkNormalize strong stm sk (sq1 strong PAWN) wk
      if !kpkCheck side nsk nsp nwk then VALUE_POSITIVE_DRAW + (rankOf nsp : Nat) else VALUE_KNOWN_WIN + (rankOf nsp : Nat)
  | .KPsK =>
      let pawns := b.ck strong PAWN
      let qsq := normSq (mkSquare 7 (fileOf (lsb pawns))) strong
      if (pawns = (pawns &&& fileA) ∨ pawns = (pawns &&& fileH)) ∧ distance wk qsq ≤ 1 then VALUE_POSITIVE_DRAW
      else VALUE_KNOWN_WIN + pvEg PAWN * n strong PAWN + (rankOf (normSq (mostAdvancedPawn pawns strong) strong) : Nat)
  | .KNBK =>
      let bsq := sq1 strong BISHOP
      let ksq := if (rankOf bsq + fileOf bsq) % 2 = 1 then flipV wk else wk
      cap (VALUE_KNOWN_WIN + pushToColorCorner.getD ksq 0)
  | .KQKR => cap (VALUE_KNOWN_WIN + (pvEg QUEEN - pvEg ROOK + pte wk + pcl (distance sk wk)))
  | .KXK =>
      let v := pvEg PAWN * n strong PAWN + pvEg KNIGHT * n strong KNIGHT + pvEg BISHOP * n strong BISHOP +
               pvEg ROOK * n strong ROOK + pvEg QUEEN * n strong QUEEN + pte wk + pcl (distance sk wk)
      cap (v + VALUE_KNOWN_WIN)
  | .KRNKR => VALUE_POSITIVE_DRAW + pte wk
  | .KRBKR => VALUE_POSITIVE_DRAW + pte wk
  | .KBPsK =>
      let pawns := b.ck strong PAWN
      let qsq := normSq (mkSquare 7 (fileOf (lsb pawns))) strong
      let bsq := sq1 strong BISHOP
      if (pawns = (pawns &&& fileA) ∨ pawns = (pawns &&& fileH)) ∧ sqColor qsq ≠ sqColor bsq ∧ distance wk qsq ≤ 1 then VALUE_POSITIVE_DRAW
      else VALUE_KNOWN_WIN + pvEg PAWN * n strong PAWN + pvEg BISHOP + (rankOf (normSq (mostAdvancedPawn pawns strong) strong) : Nat)
  | .KQKP =>
      let nsk := normSq sk strong; let nwk := normSq wk strong
      let psq := normSq (sq1 weak PAWN) strong
      let qsq := mkSquare 0 (fileOf psq)
      if rankOf psq = 1 ∧ (b.ck weak PAWN &&& (fileBB 0 ||| fileBB 2 ||| fileBB 5 ||| fileBB 7)) ≠ 0 ∧ distance nwk qsq ≤ 1
      then VALUE_POSITIVE_DRAW + pcl (distance nsk psq)
      else VALUE_KNOWN_WIN + pcl (distance nsk psq)
  | .KRKP =>
      let nsk := normSq sk strong; let nwk := normSq wk strong
      let psq := normSq (sq1 weak PAWN) strong
      let qsq := mkSquare 0 (fileOf psq)
      let fd : Int := ((fileOf nsk : Nat) : Int) - ((fileOf psq : Nat) : Int)
      if rankOf nsk < rankOf psq ∧ fd.natAbs ≤ 1 then VALUE_KNOWN_WIN + pcl (distance nsk psq)
      else if rankOf psq < 4 ∧ distance nwk psq ≤ 1 ∧ distance nsk psq > 2 then VALUE_POSITIVE_DRAW + (rankOf psq : Nat)
      else pvEg ROOK - pvEg PAWN - pcl (distance psq qsq)
  | .KNNK => 0
  | .KNNKP =>
      let nsk := normSq sk strong; let nwk := normSq wk strong
      let psq := normSq (sq1 weak PAWN) strong
      let kn := bitsOf (b.ck strong KNIGHT)
      let k1 := normSq (kn.getD 0 0) strong; let k2 := normSq (kn.getD 1 0) strong
      pvEg PAWN + 5 * pcl (distance nsk nwk) + 5 * pcl (distance k1 nwk) + 5 * pcl (distance k2 nwk) + pte nwk + 30 * (rankOf psq : Nat)
  | .KBPsKB =>
      let pawns := b.ck strong PAWN
      let fp := normSq (mostAdvancedPawn pawns strong) strong
      let nwk := normSq wk strong
      let sb := normSq (sq1 strong BISHOP) strong
      let wb := normSq (sq1 weak BISHOP) strong
      let np : Int := (popcount pawns : Nat)
      let drawV : Int := VALUE_POSITIVE_DRAW + 10 * np + 2 * (rankOf fp : Nat)
      let dflt : Int := np * pvEg PAWN + 10 * (rankOf fp : Nat)
      if allOnSameFile pawns then
        if fileOf nwk = fileOf fp ∧ rankOf nwk > rankOf fp ∧ sqColor nwk ≠ sqColor sb then drawV else dflt
      else if sqColor sb ≠ sqColor nwk then
        let file1 := fileOf fp
        let files := (List.range 8).filter (fun f => (pawns &&& fileBB f) ≠ 0)
        if files.length = 2 then
          let file2 := (files.filter (· ≠ file1)).headD file1
          let fp2 := normSq (mostAdvancedPawn (pawns &&& fileBB file2) strong) strong
          let fdiff : Int := ((file1 : Nat) : Int) - ((file2 : Nat) : Int)
          if fdiff.natAbs = 1 ∧ !moreThanOne (pawns &&& fileBB file1) ∧ rankOf fp > rankOf fp2 ∧ sqColor fp = sqColor sb then
            let block1 := mkSquare (rankOf fp + 1) file1
            let block2 := mkSquare (rankOf fp) file2
            if nwk = block1 ∧ (wb = block2 ∨ (bishopAttack wb b.all &&& sqBB block2) ≠ 0) then drawV
            else if nwk = block2 ∧ (wb = block1 ∨ (bishopAttack wb b.all &&& sqBB block1) ≠ 0) then drawV
            else dflt
          else dflt
        else dflt
      else dflt
  | .KRKB => VALUE_POSITIVE_DRAW + pte (normSq wk strong)
  | .KRKN =>
      let nwk := normSq wk strong
      VALUE_POSITIVE_DRAW + pte nwk + 10 * (distance nwk (normSq (sq1 weak KNIGHT) strong) : Nat)
  | .KQKRPs =>
      let pawns := b.ck weak PAWN
      let rsq := sq1 weak ROOK
      if (pawnAttacks weak pawns &&& sqBB rsq) ≠ 0 ∧ (kingMask wk &&& pawns) ≠ 0 then
        VALUE_POSITIVE_DRAW + 10 * (rankOf (normSq (mostAdvancedPawn pawns weak) strong) : Nat)
      else pvEg QUEEN - pvEg ROOK - ((popcount pawns : Nat) : Int) * pvEg PAWN
  | .KmmKm =>
      if !(n strong BISHOP = 2 ∧ n weak KNIGHT = 1) then VALUE_POSITIVE_DRAW
      else
        let bs := bitsOf (b.ck strong BISHOP)
        if sqColor (bs.getD 0 0) ≠ sqColor (bs.getD 1 0) then 2 * pvEg BISHOP - pvEg KNIGHT else VALUE_POSITIVE_DRAW

/-- `endgame::score`: first applicable (type, strong side) in registration order, else VALUE_NONE -/
def endgameScore (b : BBs) (board : List Nat) (stm : Nat) : Int :=
  let cands := egOrder.flatMap (fun e => [(e, 0), (e, 1)])
  match cands.find? (fun (e, strong) => egApplies e b board strong) with
  | some (e, strong) => let v := egStrongScore e b board stm strong; if stm = strong then v else -v
  | none => VALUE_NONE

/-- the evaluation as a pure function of the position, parameterised by the pawn score it uses -/
def evalWith (p : Position) (pawns : Sc) : Int :=
  let b := BBs.of p
  let w := setupSide b p.board 0
  let bl := setupSide b p.board 1
  let pieces := scorePiecesForSide b p.board p.castling 0 w bl - scorePiecesForSide b p.board p.castling 1 bl w
  let v := combine (pawns + pieces) (gamePhaseWeight p.board)
  if p.side = 0 then v else -v

/-- `PositionScorer::score` on a scorer whose cache is transparent (fresh evaluator) -/
def evalPure (p : Position) : Int :=
  let b := BBs.of p
  let e := endgameScore b p.board p.side
  if e ≠ VALUE_NONE then e else evalWith p (pawnScore b)

-- the pawn cache (hashmap.h, score.cpp:449-464) ---------------------------------------------------------------
structure CacheEntry where
  key : Nat := 0
  value : Sc := {}
  deriving DecidableEq, Repr, Inhabited

/-- HashMap<uint64_t, Score, 512*512>: only the touched slots are stored; untouched slots are all-zero entries -/
structure PawnCache where
  slots : List (Nat × CacheEntry) := []
  deriving Repr, Inhabited

def PAWN_CACHE_SIZE : Nat := 262144
def PawnCache.get (c : PawnCache) (slot : Nat) : CacheEntry := ((c.slots.find? (·.1 = slot)).map (·.2)).getD {}
def PawnCache.set (c : PawnCache) (slot : Nat) (e : CacheEntry) : PawnCache := ⟨(slot, e) :: c.slots.filter (·.1 ≠ slot)⟩
/-- `clear()` after the C14 fix: every entry is reset -/
def PawnCache.clear (_ : PawnCache) : PawnCache := ⟨[]⟩

/-- `PositionScorer::score` with its cache: returns the value and the new cache -/
def evalCached (c : PawnCache) (p : Position) : Int × PawnCache :=
  let b := BBs.of p
  let e := endgameScore b p.board p.side
  if e ≠ VALUE_NONE then (e, c)
  else
    let key := p.hash.pawnK
    let slot := key % PAWN_CACHE_SIZE
    let ent := c.get slot
    if ent.key = key then (evalWith p ent.value, c)
    else
      let s := pawnScore b
      (evalWith p s, c.set slot ⟨key, s⟩)

end Chess
