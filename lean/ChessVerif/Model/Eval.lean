/-
  Model/Eval.lean — the static evaluation, transcribed function by function from engine/score.cpp,
  engine/endgame.cpp and engine/position_bitboards.h, keeping the explicit `side == WHITE ? … : …` choices
  (msb vs lsb, relative ranks, NORTH vs SOUTH), C++ integer division truncating toward zero (`Int.tdiv`),
  and the pawn-key cache of PositionScorer (HashMap: slot = key mod 2^18, probe compares keys, insert
  overwrites, clear resets whole entries).  Evaluation constants come from Gen/EvalConsts.lean (value.h objects as compiled, endgame.cpp tables
  from the source text): a retuned constant moves the model with the code; the inline literals of score.cpp
  (e.g. `10 * popcount(support)`) are written out here and are covered by the correspondence check.
-/
import ChessVerif.Model.Movegen
import ChessVerif.Model.Bitbase
import ChessVerif.Gen.Consts
import ChessVerif.Gen.EvalConsts
namespace Chess

structure Sc where
  mg : Int := 0
  eg : Int := 0
  deriving DecidableEq, Repr, Inhabited

instance : Add Sc := ⟨fun a b => ⟨a.mg + b.mg, a.eg + b.eg⟩⟩
instance : Sub Sc := ⟨fun a b => ⟨a.mg - b.mg, a.eg - b.eg⟩⟩
def Sc.scale (s : Sc) (v : Int) : Sc := ⟨s.mg * v, s.eg * v⟩
def Sc.ofV (v : Int) : Sc := ⟨v, v⟩

/- evaluation constants: value.h objects as compiled into the current build (Gen/EvalConsts.lean, regenerated on every run) -/
def scTab (mg eg : List Int) (k : Nat) : Sc := ⟨mg.getD k 0, eg.getD k 0⟩
def pieceValue (k : Nat) : Sc := scTab Gen.PIECE_VALUE_MG Gen.PIECE_VALUE_EG k
def mobilityBonus (k : Nat) : Sc := scTab Gen.MOBILITY_BONUS_MG Gen.MOBILITY_BONUS_EG k
def controlSpace (k : Nat) : Sc := scTab Gen.CONTROL_SPACE_MG Gen.CONTROL_SPACE_EG k
def kingProtectorPenalty (k : Nat) : Sc := scTab Gen.KING_PROTECTOR_PENALTY_MG Gen.KING_PROTECTOR_PENALTY_EG k
def kingAttackerPenalty (k : Nat) : Sc := scTab Gen.KING_ATTACKER_PENALTY_MG Gen.KING_ATTACKER_PENALTY_EG k
def ROOK_SEMIOPEN_FILE_BONUS : Sc := ⟨Gen.ROOK_SEMIOPEN_FILE_BONUS_MG, Gen.ROOK_SEMIOPEN_FILE_BONUS_EG⟩
def ROOK_OPEN_FILE_BONUS : Sc := ⟨Gen.ROOK_OPEN_FILE_BONUS_MG, Gen.ROOK_OPEN_FILE_BONUS_EG⟩
def TRAPPED_ROOK_PENALTY : Sc := ⟨Gen.TRAPPED_ROOK_PENALTY_MG, Gen.TRAPPED_ROOK_PENALTY_EG⟩
def BISHOP_PAIR_BONUS : Sc := ⟨Gen.BISHOP_PAIR_BONUS_MG, Gen.BISHOP_PAIR_BONUS_EG⟩
def CONNECTED_ROOKS_BONUS : Sc := ⟨Gen.CONNECTED_ROOKS_BONUS_MG, Gen.CONNECTED_ROOKS_BONUS_EG⟩
def OUTPOST_KNIGHT_BONUS : Sc := ⟨Gen.OUTPOST_KNIGHT_BONUS_MG, Gen.OUTPOST_KNIGHT_BONUS_EG⟩
def OUTPOST_BISHOP_BONUS : Sc := ⟨Gen.OUTPOST_BISHOP_BONUS_MG, Gen.OUTPOST_BISHOP_BONUS_EG⟩
def PAWN_CONTROL_CENTER_BONUS : Sc := ⟨Gen.PAWN_CONTROL_CENTER_BONUS_MG, Gen.PAWN_CONTROL_CENTER_BONUS_EG⟩
def PASSED_PAWN_BONUS : Sc := ⟨Gen.PASSED_PAWN_BONUS_MG, Gen.PASSED_PAWN_BONUS_EG⟩
def passedPawnRankWeight (r : Nat) : Int := Gen.PASSED_PAWN_RANK_WEIGHT.getD r 0
def DOUBLE_PAWN_PENALTY : Sc := ⟨Gen.DOUBLE_PAWN_PENALTY_MG, Gen.DOUBLE_PAWN_PENALTY_EG⟩
def connectedPawnsBonus (r : Nat) : Int := Gen.CONNECTED_PAWNS_BONUS.getD r 0
def BACKWARD_PAWN_PENALTY : Sc := ⟨Gen.BACKWARD_PAWN_PENALTY_MG, Gen.BACKWARD_PAWN_PENALTY_EG⟩
def ISOLATED_PAWN_PENALTY : Sc := ⟨Gen.ISOLATED_PAWN_PENALTY_MG, Gen.ISOLATED_PAWN_PENALTY_EG⟩
def KING_SAFETY_BONUS : Sc := ⟨Gen.KING_SAFETY_BONUS_MG, Gen.KING_SAFETY_BONUS_EG⟩
def SAFE_KNIGHT : Sc := ⟨Gen.SAFE_KNIGHT_MG, Gen.SAFE_KNIGHT_EG⟩
def CONTROL_CENTER_KNIGHT : Sc := ⟨Gen.CONTROL_CENTER_KNIGHT_MG, Gen.CONTROL_CENTER_KNIGHT_EG⟩
def VULNERABLE_QUEEN_PENALTY : Sc := ⟨Gen.VULNERABLE_QUEEN_PENALTY_MG, Gen.VULNERABLE_QUEEN_PENALTY_EG⟩
def WEAK_BACKRANK_PENALTY : Sc := ⟨Gen.WEAK_BACKRANK_PENALTY_MG, Gen.WEAK_BACKRANK_PENALTY_EG⟩
def WEAK_KING_DIAGONALS : Sc := ⟨Gen.WEAK_KING_DIAGONALS_MG, Gen.WEAK_KING_DIAGONALS_EG⟩
def WEAK_KING_LINES : Sc := ⟨Gen.WEAK_KING_LINES_MG, Gen.WEAK_KING_LINES_EG⟩
def KING_PAWN_PROXIMITY_PENALTY : Sc := ⟨Gen.KING_PAWN_PROXIMITY_PENALTY_MG, Gen.KING_PAWN_PROXIMITY_PENALTY_EG⟩
def PAWNS_ON_SAME_COLOR_AS_BISHOP_PENALTY : Sc := ⟨Gen.PAWNS_ON_SAME_COLOR_AS_BISHOP_PENALTY_MG, Gen.PAWNS_ON_SAME_COLOR_AS_BISHOP_PENALTY_EG⟩

def VALUE_NONE : Int := Gen.VALUE_NONE
def VALUE_MATE : Int := Gen.VALUE_MATE
def VALUE_KNOWN_WIN : Int := Gen.VALUE_KNOWN_WIN
def VALUE_POSITIVE_DRAW : Int := Gen.VALUE_POSITIVE_DRAW

-- bitboard helpers (bitboard.h) -------------------------------------------------------------------
def whiteSquares : BB := 0x55aa55aa55aa55aa
def blackSquares : BB := bnot whiteSquares
def colorSquares (c : Nat) : BB := if c = 0 then whiteSquares else blackSquares
def opponentRanks (side : Nat) : BB :=
  if side = 0 then rankBB 4 ||| rankBB 5 ||| rankBB 6 ||| rankBB 7 else rankBB 0 ||| rankBB 1 ||| rankBB 2 ||| rankBB 3
def centerBB : BB := (fileBB 3 ||| fileBB 4) &&& (rankBB 3 ||| rankBB 4)
def opponentsCenter (side : Nat) : BB :=
  (fileBB 2 ||| fileBB 3 ||| fileBB 4 ||| fileBB 5) &&& (if side = 0 then rankBB 4 ||| rankBB 5 else rankBB 2 ||| rankBB 3)
def neighbourFiles (f : Nat) : BB := (if f > 0 then fileBB (f - 1) else 0) ||| (if f < 7 then fileBB (f + 1) else 0)

/-- `forward_ranks_bb<side>(sq)` -/
def forwardRanks (side sq : Nat) : BB :=
  if side = 0 then shl (bnot rank1) (8 * rankOf sq) else (bnot (rankBB 7)) >>> (8 * (7 - rankOf sq))
def passedPawnBB (side sq : Nat) : BB := forwardRanks side sq &&& (neighbourFiles (fileOf sq) ||| fileBB (fileOf sq))
def squaresLeftBehind (side sq : Nat) : BB :=
  neighbourFiles (fileOf sq) &&& (forwardRanks (1 - side) sq ||| rankBB (rankOf sq))

def pseudoBishop (sq : Nat) : BB := rays 0 sq ||| rays 2 sq ||| rays 4 sq ||| rays 6 sq
def pseudoRook (sq : Nat) : BB := rays 1 sq ||| rays 3 sq ||| rays 7 sq ||| rays 5 sq

def allOnSameFile (bb : BB) : Bool := (List.range 8).any (fun f => bb = (bb &&& fileBB f))

/-- `get_outposts<side>` (position_bitboards.h) -/
def getOutposts (b : BBs) (side : Nat) : BB :=
  let opp := b.ck (1 - side) PAWN
  let pick (f : Nat) : Nat :=
    let on := opp &&& fileBB f
    if popcount on ≠ 0 then (if side = 0 then msb on else lsb on) else mkSquare (if side = 0 then 0 else 7) f
  let o := squaresLeftBehind (1 - side) (pick 1) &&& fileBB 0
  let o := o ||| (squaresLeftBehind (1 - side) (pick 6) &&& fileBB 7)
  let o := (List.range 6).foldl (fun acc k =>
    let i := k + 1
    acc ||| (squaresLeftBehind (1 - side) (pick (i - 1)) &&& squaresLeftBehind (1 - side) (pick (i + 1)))) o
  let pawns := b.ck side PAWN
  let attacked := if side = 0 then shift .NW pawns ||| shift .NE pawns else shift .SE pawns ||| shift .SW pawns
  o &&& attacked &&& bnot (b.kind PAWN)

/-- `blockers_for_square<side>` (score.cpp): single pieces standing between `sq` and an enemy slider aimed at it -/
def blockersForSquare (b : BBs) (side sq : Nat) : BB :=
  let opp := 1 - side
  let snipers := (pseudoBishop sq &&& (b.ck opp BISHOP ||| b.ck opp QUEEN)) ||| (pseudoRook sq &&& (b.ck opp ROOK ||| b.ck opp QUEEN))
  let rest := b.all &&& bnot (snipers ||| sqBB sq)
  (bitsOf snipers).foldl (fun acc s =>
    let x := lines sq s &&& rest
    if x ≠ 0 ∧ !moreThanOne x then acc ||| x else acc) 0

/-- `attacked_squares(position, side)` (movegen.cpp:587): squares attacked by the opponent of `side` -/
def attackedSquares (b : BBs) (board : List Nat) (side : Nat) : BB :=
  let opp := 1 - side
  let pawns := b.ck opp PAWN
  let bb := if side = 1 then shift .NW pawns ||| shift .NE pawns else shift .SE pawns ||| shift .SW pawns
  let bb := (bitsOf (b.ck opp KNIGHT)).foldl (fun acc s => acc ||| knightMask s) bb
  let bb := (bitsOf (b.ck opp BISHOP)).foldl (fun acc s => acc ||| bishopAttack s b.all) bb
  let bb := (bitsOf (b.ck opp ROOK)).foldl (fun acc s => acc ||| rookAttack s b.all) bb
  let bb := (bitsOf (b.ck opp QUEEN)).foldl (fun acc s => acc ||| queenAttack s b.all) bb
  bb ||| kingMask (kingSq board opp)

/-- the per-evaluation scratch state of PositionScorer::setup<side> -/
structure Setup where
  attPawn : BB
  attPiece : BB        -- _attacked_by_piece: knights, bishops, rooks, queens (x-ray through own like sliders)
  outposts : BB
  kingBlockers : BB

def setupSide (b : BBs) (board : List Nat) (side : Nat) : Setup :=
  let occ := b.all
  let bq := b.ck side BISHOP ||| b.ck side QUEEN
  let rq := b.ck side ROOK ||| b.ck side QUEEN
  let n := (bitsOf (b.ck side KNIGHT)).foldl (fun acc s => acc ||| knightMask s) 0
  let bi := (bitsOf (b.ck side BISHOP)).foldl (fun acc s => acc ||| bishopAttack s (occ &&& bnot bq)) 0
  let r := (bitsOf (b.ck side ROOK)).foldl (fun acc s => acc ||| rookAttack s (occ &&& bnot rq)) 0
  let q := (bitsOf (b.ck side QUEEN)).foldl (fun acc s => acc ||| bishopAttack s (occ &&& bnot bq) ||| rookAttack s (occ &&& bnot rq)) 0
  { attPawn := pawnAttacks side (b.ck side PAWN), attPiece := n ||| bi ||| r ||| q,
    outposts := getOutposts b side, kingBlockers := blockersForSquare b side (kingSq board side) }

/-- `get_real_possible_moves<side>` -/
def realMoves (b : BBs) (board : List Nat) (side : Nat) (own opp : Setup) (sq : Nat) (moves : BB) : BB :=
  let k := kingSq board side
  let oppPieces := b.color (1 - side) &&& bnot (b.ck (1 - side) PAWN)
  let moves := if (sqBB sq &&& own.kingBlockers) ≠ 0 then moves &&& fullLines sq k else moves
  let moves := moves &&& bnot (b.color side)
  moves &&& bnot (opp.attPawn &&& bnot oppPieces)

def pc (bb : BB) : Int := (popcount bb : Nat)

def scoreKingShelter (b : BBs) (side ksq : Nat) : Sc := KING_SAFETY_BONUS.scale (pc (kingMask ksq &&& b.ck side PAWN))

def relSquare (side sq : Nat) : Nat := mkSquare (if side = 0 then rankOf sq else 7 - rankOf sq) (fileOf sq)

def maxByMg (a b : Sc) : Sc := if a.mg < b.mg then b else a

def scoreKingSafety (b : BBs) (board : List Nat) (castling side : Nat) : Sc :=
  let k := kingSq board side
  let kc := if side = 0 then W_OO else B_OO
  let qc := if side = 0 then W_OOO else B_OOO
  let s := scoreKingShelter b side k
  let s := if castling &&& kc ≠ 0 then maxByMg s (scoreKingShelter b side (relSquare side 6)) else s
  let s := if castling &&& qc ≠ 0 then
             maxByMg (maxByMg s (scoreKingShelter b side (relSquare side 2))) (scoreKingShelter b side (relSquare side 1))
           else s
  (bitsOf (b.ck side PAWN)).foldl (fun acc p => acc + KING_PAWN_PROXIMITY_PENALTY.scale (distance k p)) s

/-- `if (c) s += k` as a term of a sum -/
def optSc (c : Prop) [Decidable c] (k : Sc) : Sc := if c then k else ⟨0, 0⟩

def scoreKing (b : BBs) (board : List Nat) (castling side : Nat) (own opp : Setup) : Sc :=
  let k := kingSq board side
  let ok := kingSq board (1 - side)
  let firstRank := if side = 0 then 0 else 7
  let secondRank := if side = 0 then 1 else 6
  let kingArea := kingMask k ||| sqBB k
  let moves := kingMask k &&& bnot (attackedSquares b board (1 - side))
  let area := kingArea &&& rankBB secondRank
  let blocked := b.color side ||| opp.attPiece ||| opp.attPawn ||| kingMask ok
  let occ := b.all &&& bnot own.kingBlockers
  scoreKingSafety b board castling side
  + (mobilityBonus KING).scale (pc moves)
  + optSc ((rankOf k = firstRank ∧ (b.ck (1 - side) ROOK ||| b.ck (1 - side) QUEEN) ≠ 0) ∧ (area &&& blocked) = area) WEAK_BACKRANK_PENALTY
  + optSc (b.ck (1 - side) QUEEN ≠ 0 ∨ (b.ck (1 - side) BISHOP &&& colorSquares (sqColor k)) ≠ 0) (WEAK_KING_DIAGONALS.scale (pc (bishopAttack k occ)))
  + optSc (b.ck (1 - side) QUEEN ≠ 0 ∨ b.ck (1 - side) ROOK ≠ 0) (WEAK_KING_LINES.scale (pc (rookAttack k occ)))

def knightScore (b : BBs) (board : List Nat) (side : Nat) (own opp : Setup) (k ok sq : Nat) : Sc :=
  let att := knightMask sq
  pieceValue KNIGHT
  + optSc ((sqBB sq &&& own.attPawn) ≠ 0) SAFE_KNIGHT
  + (controlSpace KNIGHT).scale (pc (att &&& opponentRanks side))
  + CONTROL_CENTER_KNIGHT.scale (pc (att &&& centerBB))
  + (kingProtectorPenalty KNIGHT).scale (distance k sq)
  + (kingAttackerPenalty KNIGHT).scale (distance ok sq)
  + (mobilityBonus KNIGHT).scale (pc (realMoves b board side own opp sq att))
  + optSc ((own.outposts &&& sqBB sq) ≠ 0) OUTPOST_KNIGHT_BONUS

def bishopScore (b : BBs) (board : List Nat) (side : Nat) (own opp : Setup) (k ok sq : Nat) : Sc :=
  let occ := b.all
  let bq := b.ck side BISHOP ||| b.ck side QUEEN
  pieceValue BISHOP
  + (controlSpace BISHOP).scale (pc (bishopAttack sq (occ &&& bnot bq) &&& opponentRanks side))
  + (mobilityBonus BISHOP).scale (pc (realMoves b board side own opp sq (bishopAttack sq occ)))
  + (kingProtectorPenalty BISHOP).scale (distance k sq)
  + (kingAttackerPenalty BISHOP).scale (distance ok sq)
  + PAWNS_ON_SAME_COLOR_AS_BISHOP_PENALTY.scale (pc (b.ck side PAWN &&& colorSquares (sqColor sq)))
  + optSc ((own.outposts &&& sqBB sq) ≠ 0) OUTPOST_BISHOP_BONUS

def rookScore (b : BBs) (board : List Nat) (castling side : Nat) (own opp : Setup) (k sq : Nat) : Sc :=
  let occ := b.all
  let rq := b.ck side ROOK ||| b.ck side QUEEN
  let fbb := fileBB (fileOf sq)
  let rbb := rankBB (rankOf sq)
  let moves := realMoves b board side own opp sq (rookAttack sq occ)
  pieceValue ROOK
  + (controlSpace ROOK).scale (pc (rookAttack sq (occ &&& bnot rq) &&& opponentRanks side))
  + optSc ((fbb &&& b.kind PAWN) = 0) ROOK_OPEN_FILE_BONUS
  + optSc ((fbb &&& b.ck side PAWN) = 0 ∧ (fbb &&& b.ck (1 - side) PAWN) ≠ 0) ROOK_SEMIOPEN_FILE_BONUS
  + optSc (moreThanOne (fbb &&& b.ck side ROOK) ∨ moreThanOne (rbb &&& b.ck side ROOK)) ⟨10, 5⟩
  + (mobilityBonus ROOK).scale (pc moves)
  + optSc (popcount moves ≤ 3 ∧ (decide (fileOf k < 4) = decide (fileOf sq < fileOf k)))
      (TRAPPED_ROOK_PENALTY.scale (if castling &&& castlingRightsOf side ≠ 0 then 1 else 2))

def queenScore (b : BBs) (board : List Nat) (side : Nat) (own opp : Setup) (sq : Nat) : Sc :=
  let occ := b.all
  let bq := b.ck side BISHOP ||| b.ck side QUEEN
  let rq := b.ck side ROOK ||| b.ck side QUEEN
  let snipers := (pseudoBishop sq &&& b.ck (1 - side) BISHOP) ||| (pseudoRook sq &&& b.ck (1 - side) ROOK)
  let rest := occ &&& bnot (snipers ||| sqBB sq)
  let vulnerable := (bitsOf snipers).any (fun sn => let x := lines sq sn &&& rest; x ≠ 0 ∧ !moreThanOne x)
  pieceValue QUEEN
  + (controlSpace QUEEN).scale (pc (bishopAttack sq (occ &&& bnot bq) &&& opponentRanks side))
  + (controlSpace QUEEN).scale (pc (rookAttack sq (occ &&& bnot rq) &&& opponentRanks side))
  + optSc (vulnerable = true) VULNERABLE_QUEEN_PENALTY
  + (mobilityBonus QUEEN).scale (pc (realMoves b board side own opp sq (queenAttack sq occ)))

def scorePiecesForSide (b : BBs) (board : List Nat) (castling side : Nat) (own opp : Setup) : Sc :=
  let k := kingSq board side
  let ok := kingSq board (1 - side)
  let knights := (bitsOf (b.ck side KNIGHT)).foldl (fun acc sq => acc + knightScore b board side own opp k ok sq) (⟨0, 0⟩ : Sc)
  let bishops := (bitsOf (b.ck side BISHOP)).foldl (fun acc sq => acc + bishopScore b board side own opp k ok sq) (⟨0, 0⟩ : Sc)
  let bishops := bishops + optSc ((b.ck side BISHOP &&& whiteSquares) ≠ 0 ∧ (b.ck side BISHOP &&& blackSquares) ≠ 0) BISHOP_PAIR_BONUS
  let rooks := (bitsOf (b.ck side ROOK)).foldl (fun acc sq => acc + rookScore b board castling side own opp k sq) (⟨0, 0⟩ : Sc)
  let queens := (bitsOf (b.ck side QUEEN)).foldl (fun acc sq => acc + queenScore b board side own opp sq) (⟨0, 0⟩ : Sc)
  knights + bishops + rooks + queens + scoreKing b board castling side own opp

/-- one pawn of `score_pawns_for_side<side>` -/
def pawnTerm (b : BBs) (side sq : Nat) : Sc :=
  let ours := b.ck side PAWN
  let theirs := b.ck (1 - side) PAWN
  let upD := if side = 0 then Dir.N else Dir.S
  let downD := if side = 0 then Dir.S else Dir.N
  let r := rankOf sq
  let f := fileOf sq
  let relRank := if side = 0 then r else 7 - r
  let attacks := pawnAttacks side (sqBB sq)
  let neighbours := ours &&& neighbourFiles f
  let phalanx := neighbours &&& rankBB r
  let support := neighbours &&& rankBB (if side = 0 then r - 1 else r + 1)
  let lever := theirs &&& attacks
  let leverPush := theirs &&& shift upD attacks
  let opposed := theirs &&& passedPawnBB side sq
  let blocked := (theirs &&& shift upD (sqBB sq)) ≠ 0
  let doubled := (ours &&& shift downD (sqBB sq)) ≠ 0
  let fwdSq := if side = 0 then sq + 8 else sq - 8
  let backward := (neighbours &&& passedPawnBB (1 - side) fwdSq) = 0 ∧ (blocked ∨ leverPush ≠ 0)
  let passed := opposed = 0 ∨ (opposed ^^^ lever) = 0 ∨ ((opposed ^^^ leverPush) = 0 ∧ popcount phalanx ≥ popcount leverPush)
  pieceValue PAWN
  + PAWN_CONTROL_CENTER_BONUS.scale (pc (attacks &&& opponentsCenter side))
  + optSc doubled DOUBLE_PAWN_PENALTY
  + (if (support ||| phalanx) ≠ 0 then
       Sc.ofV (connectedPawnsBonus relRank * (1 + (if phalanx ≠ 0 then 1 else 0) - (if opposed ≠ 0 then 1 else 0))) + Sc.ofV (10 * pc support)
     else if neighbours = 0 then ISOLATED_PAWN_PENALTY
     else if backward then BACKWARD_PAWN_PENALTY
     else ⟨0, 0⟩)
  + optSc passed (PASSED_PAWN_BONUS.scale (passedPawnRankWeight relRank))

/-- `score_pawns_for_side<side>` -/
def scorePawnsForSide (b : BBs) (side : Nat) : Sc :=
  (bitsOf (b.ck side PAWN)).foldl (fun acc sq => acc + pawnTerm b side sq) (⟨0, 0⟩ : Sc)

/-- what the pawn cache stores: white pawn score minus black pawn score (depends on the pawn bitboards only) -/
def pawnScore (b : BBs) : Sc := scorePawnsForSide b 0 - scorePawnsForSide b 1

def MAX_PIECE_WEIGHTS : Int := 24
def gamePhaseWeight (board : List Nat) : Int :=
  let c (pc : Nat) : Int := (countOf board pc : Nat)
  min (c 2 + c 3 + 2 * c 4 + 4 * c 5 + c 8 + c 9 + 2 * c 10 + 4 * c 11) MAX_PIECE_WEIGHTS

def combine (s : Sc) (w : Int) : Int := Int.tdiv (s.mg * w + s.eg * (MAX_PIECE_WEIGHTS - w)) MAX_PIECE_WEIGHTS

-- endgames (endgame.cpp) ---------------------------------------------------------------------------------
/- the anonymous-namespace tables of endgame.cpp, read from the source text on every run (Gen/EvalConsts.lean) -/
def pushToEdge : List Int := Gen.PUSH_TO_EDGE_BONUS
def pushToColorCorner : List Int := Gen.PUSH_TO_COLOR_CORNER_BONUS
def pushClose : List Int := Gen.PUSH_CLOSE
def pte (s : Nat) : Int := pushToEdge.getD s 0
def pcl (d : Nat) : Int := pushClose.getD d 0

def mostAdvancedPawn (pawns : BB) (side : Nat) : Nat := if side = 0 then msb pawns else lsb pawns

def mkPcv (l : List Nat) : Nat :=
  match l with
  | [wp, wn, wb, wr, wq, bp, bn, bb, br, bq] =>
      (wp <<< 4) ||| (wn <<< 8) ||| (wb <<< 12) ||| (wr <<< 16) ||| (wq <<< 20) ||| (bp <<< 28) ||| (bn <<< 32) ||| (bb <<< 36) ||| (br <<< 40) ||| (bq <<< 44)
  | _ => 0

/-- the material signature of an exact-material endgame for `strong` -/
def sandbox (strong : Nat) (w b : List Nat) : Nat := if strong = 0 then mkPcv w else mkPcv b

inductive EG | KPK | KPsK | KRKB | KRKN | KNNK | KNNKP | KQKR | KNBK | KRNKR | KRBKR | KBPsK | KBPsKB | KRKP | KQKP | KQKRPs | KmmKm | KXK
  deriving DecidableEq, Repr

def egOrder : List EG := [.KPK, .KPsK, .KRKB, .KRKN, .KNNK, .KNNKP, .KQKR, .KNBK, .KRNKR, .KRBKR, .KBPsK, .KBPsKB, .KRKP, .KQKP, .KQKRPs, .KmmKm, .KXK]

def egApplies (e : EG) (b : BBs) (board : List Nat) (strong : Nat) : Bool :=
  let weak := 1 - strong
  let n (c k : Nat) : Nat := countOf board (mkPiece c k)
  let pv := pcv board
  match e with
  | .KPK => pv = sandbox strong [1,0,0,0,0,0,0,0,0,0] [0,0,0,0,0,1,0,0,0,0]
  | .KPsK => noNonpawns board strong = 0 ∧ n strong PAWN ≥ 2 ∧ b.color weak = b.ck weak KING
  | .KRKB => pv = sandbox strong [0,0,0,1,0,0,0,1,0,0] [0,0,1,0,0,0,0,0,1,0]
  | .KRKN => pv = sandbox strong [0,0,0,1,0,0,1,0,0,0] [0,1,0,0,0,0,0,0,1,0]
  | .KNNK => pv = sandbox strong [0,2,0,0,0,0,0,0,0,0] [0,0,0,0,0,0,2,0,0,0]
  | .KNNKP => pv = sandbox strong [0,2,0,0,0,1,0,0,0,0] [1,0,0,0,0,0,2,0,0,0]
  | .KQKR => pv = sandbox strong [0,0,0,0,1,0,0,0,1,0] [0,0,0,1,0,0,0,0,0,1]
  | .KNBK => pv = sandbox strong [0,1,1,0,0,0,0,0,0,0] [0,0,0,0,0,0,1,1,0,0]
  | .KRNKR => pv = sandbox strong [0,1,0,1,0,0,0,0,1,0] [0,0,0,1,0,0,1,0,1,0]
  | .KRBKR => pv = sandbox strong [0,0,1,1,0,0,0,0,1,0] [0,0,0,1,0,0,0,1,1,0]
  | .KBPsK => n strong BISHOP = 1 ∧ noNonpawns board strong = 1 ∧ n strong PAWN > 0 ∧ b.color weak = b.ck weak KING
  | .KBPsKB => n strong BISHOP = 1 ∧ n weak BISHOP = 1 ∧ n strong PAWN ≥ 1 ∧ n weak PAWN = 0 ∧ noNonpawns board strong = 1 ∧ noNonpawns board weak = 1
  | .KRKP => pv = sandbox strong [0,0,0,1,0,1,0,0,0,0] [1,0,0,0,0,0,0,0,1,0]
  | .KQKP => pv = sandbox strong [0,0,0,0,1,1,0,0,0,0] [1,0,0,0,0,0,0,0,0,1]
  | .KQKRPs => n strong QUEEN = 1 ∧ n weak ROOK = 1 ∧ n strong PAWN = 0 ∧ n weak PAWN ≥ 1 ∧ noNonpawns board strong = 1 ∧ noNonpawns board weak = 1
  | .KmmKm => n strong KNIGHT + n strong BISHOP = 2 ∧ n weak KNIGHT + n weak BISHOP = 1 ∧ n strong PAWN = 0 ∧ n weak PAWN = 0 ∧
              noNonpawns board strong = 2 ∧ noNonpawns board weak = 1
  | .KXK => popcount (b.color weak) = 1

def pvEg (k : Nat) : Int := (pieceValue k).eg

/-- `Endgame<…>::strongSideScore` -/
def egStrongScore (e : EG) (b : BBs) (board : List Nat) (stm strong : Nat) : Int :=
  let weak := 1 - strong
  let sk := kingSq board strong
  let wk := kingSq board weak
  let n (c k : Nat) : Int := (countOf board (mkPiece c k) : Nat)
  let sq1 (c k : Nat) : Nat := lsb (b.ck c k)          -- piece_position(piece, 0) when there is exactly one
  let cap (v : Int) : Int := min v (VALUE_MATE - 1)
  match e with
  | .KPK =>
      let (side, nsk, nsp, nwk) := kpkNormalize strong stm sk (sq1 strong PAWN) wk
      if !kpkCheck side nsk nsp nwk then VALUE_POSITIVE_DRAW + (rankOf nsp : Nat) else VALUE_KNOWN_WIN + (rankOf nsp : Nat)
  | .KPsK =>
      let pawns := b.ck strong PAWN
      let qsq := normSq (mkSquare 7 (fileOf (lsb pawns))) strong
      if (pawns = (pawns &&& fileA) ∨ pawns = (pawns &&& fileH)) ∧ distance wk qsq ≤ 1 then VALUE_POSITIVE_DRAW
      else VALUE_KNOWN_WIN + pvEg PAWN * n strong PAWN + (rankOf (normSq (mostAdvancedPawn pawns strong) strong) : Nat)
  | .KNBK =>
      let bsq := sq1 strong BISHOP
      let ksq := if (rankOf bsq + fileOf bsq) % 2 = 1 then flipV wk else wk
      cap (VALUE_KNOWN_WIN + pushToColorCorner.getD ksq 0)
  | .KQKR => cap (VALUE_KNOWN_WIN + (pvEg QUEEN - pvEg ROOK + pte wk + pcl (distance sk wk)))
  | .KXK =>
      let v := pvEg PAWN * n strong PAWN + pvEg KNIGHT * n strong KNIGHT + pvEg BISHOP * n strong BISHOP +
               pvEg ROOK * n strong ROOK + pvEg QUEEN * n strong QUEEN + pte wk + pcl (distance sk wk)
      cap (v + VALUE_KNOWN_WIN)
  | .KRNKR => VALUE_POSITIVE_DRAW + pte wk
  | .KRBKR => VALUE_POSITIVE_DRAW + pte wk
  | .KBPsK =>
      let pawns := b.ck strong PAWN
      let qsq := normSq (mkSquare 7 (fileOf (lsb pawns))) strong
      let bsq := sq1 strong BISHOP
      if (pawns = (pawns &&& fileA) ∨ pawns = (pawns &&& fileH)) ∧ sqColor qsq ≠ sqColor bsq ∧ distance wk qsq ≤ 1 then VALUE_POSITIVE_DRAW
      else VALUE_KNOWN_WIN + pvEg PAWN * n strong PAWN + pvEg BISHOP + (rankOf (normSq (mostAdvancedPawn pawns strong) strong) : Nat)
  | .KQKP =>
      let nsk := normSq sk strong; let nwk := normSq wk strong
      let psq := normSq (sq1 weak PAWN) strong
      let qsq := mkSquare 0 (fileOf psq)
      if rankOf psq = 1 ∧ (b.ck weak PAWN &&& (fileBB 0 ||| fileBB 2 ||| fileBB 5 ||| fileBB 7)) ≠ 0 ∧ distance nwk qsq ≤ 1
      then VALUE_POSITIVE_DRAW + pcl (distance nsk psq)
      else VALUE_KNOWN_WIN + pcl (distance nsk psq)
  | .KRKP =>
      let nsk := normSq sk strong; let nwk := normSq wk strong
      let psq := normSq (sq1 weak PAWN) strong
      let qsq := mkSquare 0 (fileOf psq)
      let fd : Int := ((fileOf nsk : Nat) : Int) - ((fileOf psq : Nat) : Int)
      if rankOf nsk < rankOf psq ∧ fd.natAbs ≤ 1 then VALUE_KNOWN_WIN + pcl (distance nsk psq)
      else if rankOf psq < 4 ∧ distance nwk psq ≤ 1 ∧ distance nsk psq > 2 then VALUE_POSITIVE_DRAW + (rankOf psq : Nat)
      else pvEg ROOK - pvEg PAWN - pcl (distance psq qsq)
  | .KNNK => 0
  | .KNNKP =>
      let nsk := normSq sk strong; let nwk := normSq wk strong
      let psq := normSq (sq1 weak PAWN) strong
      let kn := bitsOf (b.ck strong KNIGHT)
      let k1 := normSq (kn.getD 0 0) strong; let k2 := normSq (kn.getD 1 0) strong
      pvEg PAWN + 5 * pcl (distance nsk nwk) + 5 * pcl (distance k1 nwk) + 5 * pcl (distance k2 nwk) + pte nwk + 30 * (rankOf psq : Nat)
  | .KBPsKB =>
      let pawns := b.ck strong PAWN
      let fp := normSq (mostAdvancedPawn pawns strong) strong
      let nwk := normSq wk strong
      let sb := normSq (sq1 strong BISHOP) strong
      let wb := normSq (sq1 weak BISHOP) strong
      let np : Int := (popcount pawns : Nat)
      let drawV : Int := VALUE_POSITIVE_DRAW + 10 * np + 2 * (rankOf fp : Nat)
      let dflt : Int := np * pvEg PAWN + 10 * (rankOf fp : Nat)
      if allOnSameFile pawns then
        if fileOf nwk = fileOf fp ∧ rankOf nwk > rankOf fp ∧ sqColor nwk ≠ sqColor sb then drawV else dflt
      else if sqColor sb ≠ sqColor nwk then
        let file1 := fileOf fp
        let files := (List.range 8).filter (fun f => (pawns &&& fileBB f) ≠ 0)
        if files.length = 2 then
          let file2 := (files.filter (· ≠ file1)).headD file1
          let fp2 := normSq (mostAdvancedPawn (pawns &&& fileBB file2) strong) strong
          let fdiff : Int := ((file1 : Nat) : Int) - ((file2 : Nat) : Int)
          if fdiff.natAbs = 1 ∧ !moreThanOne (pawns &&& fileBB file1) ∧ rankOf fp > rankOf fp2 ∧ sqColor fp = sqColor sb then
            let block1 := mkSquare (rankOf fp + 1) file1
            let block2 := mkSquare (rankOf fp) file2
            -- (after the C13 fix: the rays are walked from the bishop's real square on the real board and tested on the real squares)
            if nwk = block1 ∧ (wb = block2 ∨ (bishopAttack (sq1 weak BISHOP) b.all &&& sqBB (normSq block2 strong)) ≠ 0) then drawV
            else if nwk = block2 ∧ (wb = block1 ∨ (bishopAttack (sq1 weak BISHOP) b.all &&& sqBB (normSq block1 strong)) ≠ 0) then drawV
            else dflt
          else dflt
        else dflt
      else dflt
  | .KRKB => VALUE_POSITIVE_DRAW + pte (normSq wk strong)
  | .KRKN =>
      let nwk := normSq wk strong
      VALUE_POSITIVE_DRAW + pte nwk + 10 * (distance nwk (normSq (sq1 weak KNIGHT) strong) : Nat)
  | .KQKRPs =>
      let pawns := b.ck weak PAWN
      let rsq := sq1 weak ROOK
      if (pawnAttacks weak pawns &&& sqBB rsq) ≠ 0 ∧ (kingMask wk &&& pawns) ≠ 0 then
        VALUE_POSITIVE_DRAW + 10 * (rankOf (normSq (mostAdvancedPawn pawns weak) strong) : Nat)
      else pvEg QUEEN - pvEg ROOK - ((popcount pawns : Nat) : Int) * pvEg PAWN
  | .KmmKm =>
      if !(n strong BISHOP = 2 ∧ n weak KNIGHT = 1) then VALUE_POSITIVE_DRAW
      else
        let bs := bitsOf (b.ck strong BISHOP)
        if sqColor (bs.getD 0 0) ≠ sqColor (bs.getD 1 0) then 2 * pvEg BISHOP - pvEg KNIGHT else VALUE_POSITIVE_DRAW

/-- `endgame::score`: first applicable (type, strong side) in registration order, else VALUE_NONE -/
def endgameScore (b : BBs) (board : List Nat) (stm : Nat) : Int :=
  let cands := egOrder.flatMap (fun e => [(e, 0), (e, 1)])
  match cands.find? (fun (e, strong) => egApplies e b board strong) with
  | some (e, strong) => let v := egStrongScore e b board stm strong; if stm = strong then v else -v
  | none => VALUE_NONE

/-- the evaluation as a pure function of the position, parameterised by the pawn score it uses -/
def evalWith (p : Position) (pawns : Sc) : Int :=
  let b := BBs.of p
  let w := setupSide b p.board 0
  let bl := setupSide b p.board 1
  let pieces := scorePiecesForSide b p.board p.castling 0 w bl - scorePiecesForSide b p.board p.castling 1 bl w
  let v := combine (pawns + pieces) (gamePhaseWeight p.board)
  if p.side = 0 then v else -v

/-- `PositionScorer::score` on a scorer whose cache is transparent (fresh evaluator) -/
def evalPure (p : Position) : Int :=
  let b := BBs.of p
  let e := endgameScore b p.board p.side
  if e ≠ VALUE_NONE then e else evalWith p (pawnScore b)

-- the pawn cache (hashmap.h, score.cpp:449-464) ---------------------------------------------------------------
structure CacheEntry where
  key : Nat := 0
  value : Sc := {}
  deriving DecidableEq, Repr, Inhabited

/-- HashMap<uint64_t, Score, 512*512>: only the touched slots are stored; untouched slots are all-zero entries -/
structure PawnCache where
  slots : List (Nat × CacheEntry) := []
  deriving Repr, Inhabited

def PAWN_CACHE_SIZE : Nat := 262144
def PawnCache.get (c : PawnCache) (slot : Nat) : CacheEntry := ((c.slots.find? (·.1 = slot)).map (·.2)).getD {}
def PawnCache.set (c : PawnCache) (slot : Nat) (e : CacheEntry) : PawnCache := ⟨(slot, e) :: c.slots.filter (·.1 ≠ slot)⟩
/-- `clear()` after the C14 fix: every entry is reset -/
def PawnCache.clear (_ : PawnCache) : PawnCache := ⟨[]⟩

/-- `PositionScorer::score` with its cache: returns the value and the new cache -/
def evalCached (c : PawnCache) (p : Position) : Int × PawnCache :=
  let b := BBs.of p
  let e := endgameScore b p.board p.side
  if e ≠ VALUE_NONE then (e, c)
  else
    let key := p.hash.pawnK
    let slot := key % PAWN_CACHE_SIZE
    let ent := c.get slot
    if ent.key = key then (evalWith p ent.value, c)
    else
      let s := pawnScore b
      (evalWith p s, c.set slot ⟨key, s⟩)

end Chess
