/-
  Model/Handshake.lean — the go/stop handshake between the UCI reader thread and the detached search thread
  (engine/uci.cpp:258-312, engine/search.cpp:173-196 and the polling in search()/quiescence_search()/iter_search()),
  as a two-thread transition system with atomic steps.

  UCI thread:    go      : construct Search (flag := false), spawn the thread
                 stop    : flag := true                                   (Search::stop)
                 isready : print readyok
  search thread: pc 0 → 1 : init_search()          — after the C06 fix go() does NOT reset the flag here
                 pc 1 → 2 : start the clock, enter iter_search
                 pc 2     : one node visit: poll the flag; seen → unwind (no node is expanded any more; each open
                            frame still performs its remaining do/undo + immediately-returning visits, at most
                            `unwindBound` steps); otherwise one more unit of work, or the search ends by itself
                 pc 3     : unwinding
                 pc 4     : bestmove printed, thread done
  `Gen.STOP_FLAG_ATOMIC` (from decltype(Search::stop_search) of the build) says whether flag accesses are atomic.
-/
import ChessVerif.Gen.Consts
namespace Chess.Handshake

inductive Act
  | stop
  | isready
  | search      -- the search thread takes one step
  deriving DecidableEq, Repr

structure HS where
  pc : Nat := 0
  flag : Bool := false
  unwind : Nat := 0
  work : Nat            -- node visits the search would still make on its own (any number: `go infinite` = unbounded)
  best : Nat := 0       -- bestmove lines printed
  ready : Nat := 0      -- readyok lines printed
  deriving DecidableEq, Repr

/-- frames × moves: how many steps the unwinding can take at most -/
def unwindBound : Nat := 2 * Gen.MAX_DEPTH * Gen.MAX_MOVES

def step (s : HS) : Act → HS
  | .stop => { s with flag := true }
  | .isready => { s with ready := s.ready + 1 }
  | .search =>
    match s.pc with
    | 0 => { s with pc := 1 }
    | 1 => { s with pc := 2 }
    | 2 => if s.flag then { s with pc := 3, unwind := unwindBound }
           else if s.work = 0 then { s with pc := 4, best := s.best + 1 }
           else { s with work := s.work - 1 }
    | 3 => if s.unwind = 0 then { s with pc := 4, best := s.best + 1 } else { s with unwind := s.unwind - 1 }
    | _ => s

def run (s : HS) (acts : List Act) : HS := acts.foldl step s

/-- search-thread steps still needed to print bestmove once the flag is set -/
def dist (s : HS) : Nat :=
  match s.pc with
  | 0 => unwindBound + 4
  | 1 => unwindBound + 3
  | 2 => unwindBound + 2
  | 3 => s.unwind + 1
  | _ => 0

def searchSteps (acts : List Act) : Nat := (acts.filter (· = .search)).length

/-- memory accesses of one step to the shared flag: (thread, isWrite, isAtomic) -/
def flagAccess (a : Act) (s : HS) : Option (Nat × Bool × Bool) :=
  match a with
  | .stop => some (0, true, Gen.STOP_FLAG_ATOMIC)
  | .isready => none
  | .search => if s.pc = 2 then some (1, false, Gen.STOP_FLAG_ATOMIC) else none

/-- two accesses race iff they come from different threads, one is a write, and one of them is not atomic -/
def races (x y : Nat × Bool × Bool) : Bool := x.1 ≠ y.1 && (x.2.1 || y.2.1) && !(x.2.2 && y.2.2)

end Chess.Handshake
