/-
  Model/Bitbase.lean — mirrors the lookup side of engine/bitbase.cpp (getIndex, check, normalize) and the KPK
  evaluator's use of it (engine/endgame.cpp:197-213).  The table itself is `Gen.bitbase`: the bits the current
  build produced (re-extracted on every run), so statements about `kpkSaysWin` are about what the engine answers.
-/
import ChessVerif.Model.Basic
import ChessVerif.Gen.Bitbase
namespace Chess

/-- `bitbase::getIndex` -/
def kpkIndex (side wKing wPawn bKing : Nat) : Nat :=
  wKing ||| (bKing <<< 6) ||| (side <<< 12) ||| (fileOf wPawn <<< 13) ||| ((rankOf wPawn - 1) <<< 15)

/-- `bitbase::check`: bit `idx` of the table -/
def kpkCheck (side wKing wPawn bKing : Nat) : Bool := Gen.bitbase.testBit (kpkIndex side wKing wPawn bKing)

/-- `bitbase::normalize`: mirror to files a-d, and to White as the strong side (flipping the side to move) -/
def kpkNormalize (strongSide side sK sP wK : Nat) : Nat × Nat × Nat × Nat :=
  let (sK, sP, wK) := if fileOf sP > 3 then (flipH sK, flipH sP, flipH wK) else (sK, sP, wK)
  if strongSide = 1 then (1 - side, flipV sK, flipV sP, flipV wK) else (side, sK, sP, wK)

/-- does the engine classify the KPK position as won for the pawn's side?  `stm` = colour to move (absolute) -/
def kpkSaysWin (strongSide stm strongKing strongPawn weakKing : Nat) : Bool :=
  let (side, sK, sP, wK) := kpkNormalize strongSide stm strongKing strongPawn weakKing
  kpkCheck side sK sP wK

end Chess
