/-
  Model/Polyglot.lean — mirrors PolyglotBook::hash (engine/polyglot.cpp:373-401) and the book reader /
  selection code (polyglot.cpp:327-371, 408-454).  The random tables are the values the built code uses
  (Gen/Polyglot.lean), indexed as the code indexes them: `POLYGLOT_PIECE[piece][square]`.
-/
import ChessVerif.Model.Position
import ChessVerif.Gen.Polyglot
namespace Chess

def polyPieceTab (pc sq : Nat) : Nat := (Gen.polyPiece.getD (pc - 1) []).getD sq 0

/-- `PolyglotBook::hash` -/
def polyKey (p : Position) : Nat :=
  let k := (p.board.foldl (fun (acc : Nat × Nat) pc =>
      (if pc = 0 then acc.1 else acc.1 ^^^ polyPieceTab pc acc.2, acc.2 + 1)) (0, 0)).1
  let k := if p.castling &&& W_OO ≠ 0 then k ^^^ Gen.polyCastling.getD 0 0 else k
  let k := if p.castling &&& W_OOO ≠ 0 then k ^^^ Gen.polyCastling.getD 1 0 else k
  let k := if p.castling &&& B_OO ≠ 0 then k ^^^ Gen.polyCastling.getD 2 0 else k
  let k := if p.castling &&& B_OOO ≠ 0 then k ^^^ Gen.polyCastling.getD 3 0 else k
  let k :=
    if p.ep ≠ 64 then
      let attackers := pawnAttacks (1 - p.side) (sqBB p.ep)
      if (attackers &&& bbOfPiece p.board (mkPiece p.side PAWN)) ≠ 0 then k ^^^ Gen.polyEnpassant.getD (fileOf p.ep) 0 else k
    else k
  if p.side = 0 then k ^^^ Gen.polyTurn else k

-- book file -------------------------------------------------------------------------------
structure BookEntry where
  key : Nat
  move : Nat      -- packed engine move (create_promotion(from, to, promo))
  weight : Nat
  deriving DecidableEq, Repr, Inhabited

def be (bs : List Nat) (i n : Nat) : Nat := (List.range n).foldl (fun acc j => acc * 256 + bs.getD (i + j) 0) 0

/-- decode one 16-byte record as the constructor does (polyglot.cpp:340-364) -/
def decodeEntry (bs : List Nat) : BookEntry :=
  let key := be bs 0 8
  let code := be bs 8 2
  let fromRank := (code >>> 9) &&& 7
  let fromFile := (code >>> 6) &&& 7
  let toRank := (code >>> 3) &&& 7
  let toFile := code &&& 7
  let pc := (code >>> 12) &&& 7
  let promo := if pc ≠ 0 then PAWN + pc else 0
  { key := key, move := mkPromotion (mkSquare fromRank fromFile) (mkSquare toRank toFile) promo, weight := be bs 10 2 }

/-- the reader loop after the C19 fix: `while (stream.read(entry, 16)) insert` — complete records only -/
def loadBook : List Nat → List BookEntry
  | b0 :: b1 :: b2 :: b3 :: b4 :: b5 :: b6 :: b7 :: b8 :: b9 :: b10 :: b11 :: b12 :: b13 :: b14 :: b15 :: rest =>
      decodeEntry [b0, b1, b2, b3, b4, b5, b6, b7, b8, b9, b10, b11, b12, b13, b14, b15] :: loadBook rest
  | _ => []

def entriesFor (book : List BookEntry) (key : Nat) : List BookEntry := book.filter (·.key = key)

/-- `get_random_move`'s walk for a residue `sample` in [0, total): first index whose cumulative weight exceeds it -/
def pickAux : List BookEntry → Nat → Nat → Nat → Nat
  | [], _, _, i => i
  | e :: rest, w, sample, i => if w + e.weight ≤ sample then pickAux rest (w + e.weight) sample (i + 1) else i

def pick (es : List BookEntry) (sample : Nat) : Nat := pickAux es 0 sample 0

/-- `std::max_element` with `<` on weights: the FIRST maximal element -/
def bestAux : List BookEntry → BookEntry → BookEntry
  | [], b => b
  | e :: rest, b => if b.weight < e.weight then bestAux rest e else bestAux rest b

def best (es : List BookEntry) : Option BookEntry :=
  match es with
  | [] => none
  | e :: rest => some (bestAux rest e)

/-- `decode_move` (polyglot.cpp:439-454) -/
def decodeBookMove (p : Position) (m : Nat) : Nat :=
  let f := moveFrom m; let t := moveTo m
  if f = 4 ∧ (t = 7 ∨ t = 6) ∧ p.at f = 6 then mkCastling KING_CASTLING
  else if f = 4 ∧ (t = 0 ∨ t = 2) ∧ p.at f = 6 then mkCastling QUEEN_CASTLING
  else if f = 60 ∧ (t = 63 ∨ t = 62) ∧ p.at f = 12 then mkCastling KING_CASTLING
  else if f = 60 ∧ (t = 56 ∨ t = 58) ∧ p.at f = 12 then mkCastling QUEEN_CASTLING
  else m

end Chess
