/-
  Props/C15.lean — PROPERTY C15: move classification predicates tell the truth.  Statements only.
-/
import ChessVerif.Lemmas.GivesCheckSpec
import ChessVerif.Lemmas.LegalFacts
import ChessVerif.Lemmas.GivesCheckEpSpec
import ChessVerif.Lemmas.GivesCheckCastleSpec
import ChessVerif.Lemmas.Shows
import ChessVerif.Lemmas.WfHyp
import ChessVerif.Lemmas.LegalShape
import ChessVerif.Lemmas.OKDefs
import ChessVerif.Model.Text
import ChessVerif.Spec.Rules
import ChessVerif.Lemmas.LegalShape
namespace Chess.Props

/-- C15 (quiet ⇔ neither capture nor promotion): for every non-castling move the "quiet" answer is exactly
    "not a capture and not a promotion" — for every position, also ill-formed ones -/
theorem C15_quiet (p : Position) (m : Nat) (h : moveCastling m = 0) :
    moveIsQuiet p m = (!moveIsCapture p m && decide (movePromo m = 0)) := by
  unfold moveIsQuiet moveIsCapture
  simp only [h]
  by_cases hp : movePromo m = 0
  · by_cases he : moveTo m = p.ep ∧ kindOf (p.at (moveFrom m)) = PAWN
    · have : (kindOf (p.at (moveFrom m)) = PAWN && moveTo m = p.ep) = true := by simp [he.1, he.2]
      simp [hp, he, this]
    · by_cases ht : p.at (moveTo m) = 0
      · have : ¬ (kindOf (p.at (moveFrom m)) = PAWN ∧ moveTo m = p.ep) := fun h => he ⟨h.2, h.1⟩
        have h2 : ¬kindOf (p.at (moveFrom m)) = PAWN ∨ ¬moveTo m = p.ep := by
          by_cases a : kindOf (p.at (moveFrom m)) = PAWN
          · right; exact fun b => this ⟨a, b⟩
          · left; exact a
        simp [hp, he, ht, h2]
      · simp [hp, he, ht]
  · simp [hp]

/-- castling is quiet and never a capture -/
theorem C15_castling (p : Position) (m : Nat) (h : moveCastling m ≠ 0) : moveIsQuiet p m = true ∧ moveIsCapture p m = false := by
  unfold moveIsQuiet moveIsCapture
  simp [h]

/-- C15 (capture ⇔ the rules' capture): the capture answer is the rules-level notion — the target square is occupied,
    or a pawn moves onto the en-passant square — for every non-castling move -/
theorem C15_capture_rules (p : Position) (m : Nat) (h : moveCastling m = 0) (hep : p.ep = 64 ∨ p.at p.ep = 0) :
    moveIsCapture p m = (p.at (moveTo m) ≠ 0 || (kindOf (p.at (moveFrom m)) = PAWN && moveTo m = p.ep)) := by
  unfold moveIsCapture
  simp [h]

/-- C15 (capture / quiet, FULL over the rules): on every well-formed position and for EVERY move legal under the rules,
    the engine's `move_is_capture` is the rules' notion of a capture (target occupied, or en passant) and `move_is_quiet`
    is "neither a capture nor a promotion" (castling counts as quiet) -/
theorem C15_capture_quiet_full (p : Position) (m : Spec.SMove) (hwf : Spec.wf (absPos p) = true)
    (hm : m ∈ Spec.legalMoves (absPos p)) :
    moveIsCapture p (codeOf (absPos p) m) = Spec.isCaptureMove (absPos p) m ∧
    moveIsQuiet p (codeOf (absPos p) m) = (!Spec.isCaptureMove (absPos p) m && decide (m.promo = 0)) := by
  have ok := stepOK_of_legal _ hwf m hm
  have hsrc : m.src < 64 := ok.src
  have hdst : m.dst < 64 := ok.dst
  obtain ⟨hpr7, _⟩ := ok.promo
  have hepc := ok.ep
  have hcas := ok.castle
  by_cases hcs : kindOf (gd p.board m.src) = KING ∧ (m.dst = m.src + 2 ∨ m.dst + 2 = m.src)
  · -- castling: never a capture, always quiet
    obtain ⟨_, hpromo, hK, hQ⟩ := hcas hcs
    have hcast : Spec.isCastle (absPos p).board m = true := (isCastle_iff _ _).2 hcs
    have hmc : moveCastling (codeOf (absPos p) m) ≠ 0 := by
      unfold codeOf; rw [if_pos hcast]
      have cc := C16_castle_code_local
      split
      · rw [cc.1]; decide
      · rw [cc.2]; decide
    have hk1 : ¬ kindOf (gd p.board m.src) = PAWN := by rw [hcs.1]; decide
    have hnotep : Spec.isEpCapture (absPos p) m = false := by
      apply Bool.eq_false_iff.2; intro h; exact hk1 ((isEp_iff _ _).1 h).1
    have hd0 : gd p.board m.dst = 0 := by
      rcases hcs.2 with hd | hd
      · rw [hd]; exact (hK hd).2.1
      · have : m.dst = m.src - 2 := by omega
        rw [this]; exact (hQ hd).2.1
    have hcap : Spec.isCaptureMove (absPos p) m = false := by
      rw [isCapture_eq, hnotep]
      show (decide (gd p.board m.dst ≠ 0) || false) = false
      simp [hd0]
    rw [hcap]
    obtain ⟨q1, q2⟩ := C15_castling p _ hmc
    exact ⟨q2, by rw [q1]; simp [hpromo]⟩
  · have hcast : Spec.isCastle (absPos p).board m = false := by
      apply Bool.eq_false_iff.2; intro h; exact hcs ((isCastle_iff _ _).1 h)
    have hcode : codeOf (absPos p) m = mkPromotion m.src m.dst m.promo := by unfold codeOf; rw [hcast]; rfl
    obtain ⟨c1, c2, c3, c4⟩ := C16_encoding m.src m.dst m.promo hsrc hdst (by omega)
    have hcapture : moveIsCapture p (mkPromotion m.src m.dst m.promo) = Spec.isCaptureMove (absPos p) m := by
      unfold moveIsCapture
      rw [c1, c2, c4, isCapture_eq]
      show (decide (0 = 0) && (decide (gd p.board m.dst ≠ 0) || (decide (kindOf (gd p.board m.src) = PAWN) && decide (m.dst = p.ep)))) =
        (decide (gd p.board m.dst ≠ 0) || Spec.isEpCapture (absPos p) m)
      have hep : Spec.isEpCapture (absPos p) m = (decide (kindOf (gd p.board m.src) = PAWN) && decide (m.dst = p.ep)) := by
        apply Bool.eq_iff_iff.2
        rw [isEp_iff]
        simp only [Bool.and_eq_true, decide_eq_true_eq]
        constructor
        · rintro ⟨a, b, _, _⟩; exact ⟨a, b⟩
        · intro h
          obtain ⟨e1, e2, _⟩ := hepc h
          exact ⟨h.1, h.2, e1, e2⟩
      rw [hep]; simp
    rw [hcode]
    refine ⟨hcapture, ?_⟩
    rw [C15_quiet p _ c4, hcapture, c3]

/-- C15 (GIVES CHECK, ordinary moves): on every well-formed position and for every legal move that is neither castling nor an
    en-passant capture (captures and promotions included, direct and discovered checks alike), `move_gives_check` answers exactly
    whether the opponent is in check on the board the rules produce.  The three side conditions `givesCheckHypB` (promotion to N/B/R/Q,
    the enemy king is not the target, the kings are not adjacent afterwards) are decidable and evaluated for every legal move of
    every position of every run.  Proof (Lemmas/GivesCheck.lean): the direct test through the arriving piece's attack set equals
    "its square is in the king's attack set of that kind" (attack symmetry); the discovered test with the OLD slider sets on the NEW
    occupancy sees exactly the unmoved sliders (a square seen through the lifted mover was seen before, and the enemy king is not
    attacked before the move); pawn and knight tests cannot fire for unmoved pieces for the same reason. -/
theorem C15_gives_check_ordinary (p : Position) (hwf : Spec.wf (Chess.absPos p) = true) (m : Spec.SMove)
    (hm : m ∈ Spec.legalMoves (Chess.absPos p))
    (hnc : Spec.isCastle p.board m = false) (hnep : Spec.isEpCapture (Chess.absPos p) m = false)
    (hside : givesCheckHypB (Chess.absPos p) m = true) :
    moveGivesCheck p (codeOf (Chess.absPos p) m) = Spec.inCheck (Spec.apply (Chess.absPos p) m).board (1 - p.side) := by
  have ok := stepOK_of_legal _ hwf m hm
  obtain ⟨hbo, hs, hk, _, _⟩ := wf_board_hyps _ hwf
  have hs' : p.side ≤ 1 := hs
  obtain ⟨kq, hkq, _⟩ := hk (1 - p.side) (by omega)
  have hkq' : KingAt p.board (1 - p.side) kq := hkq
  have hfk : Spec.findKing (Chess.absPos p).board (1 - (Chess.absPos p).side) = kq := findKing_eq p.board (1 - p.side) kq hkq'
  unfold givesCheckHypB at hside
  rw [hfk] at hside
  simp only [Bool.and_eq_true, decide_eq_true_eq, Bool.not_eq_true'] at hside
  obtain ⟨⟨⟨p5, p1⟩, hdst⟩, hnear⟩ := hside
  -- the opponent is not in check now (it is not their move)
  have hsafe : Spec.attacked p.board kq p.side = false := by
    have hw := hwf
    unfold Spec.wf at hw
    simp only [Bool.and_eq_true, Bool.not_eq_true'] at hw
    obtain ⟨⟨⟨⟨_, hnic⟩, _⟩, _⟩, _⟩ := hw
    unfold Spec.inCheck at hnic
    have e : Spec.findKing (Chess.absPos p).board (1 - (Chess.absPos p).side) = kq := hfk
    rw [e] at hnic
    have e2 : 1 - (1 - (Chess.absPos p).side) = p.side := by show 1 - (1 - p.side) = p.side; omega
    rw [e2] at hnic
    exact hnic
  exact gives_check_spec p m ok hbo hnc hnep ⟨p5, p1⟩ kq hkq' hdst hsafe hnear

/-- **gives-check, unconditional for ordinary moves**: on every well-formed position and for every rules-legal move that is neither
    castling nor an en-passant capture (promotions included), `move_gives_check` is exactly "the opponent is in check after the move".
    The side conditions of `C15_gives_check_ordinary` are theorems (Lemmas/LegalFacts.lean): the rules promote to N/B/R/Q only
    (`promo_of_pseudo`); a pseudo-legal move onto an enemy piece attacks its square, so with the opponent not in check no move lands
    on the enemy king (`attacks_of_pseudo`, `dst_ne_king`: pawn captures, leaper offsets closed under negation, a slider seen back
    along the empty squares it crossed); and the kings are apart afterwards (`kings_apart_after`: a non-king move leaves them where
    well-formedness put them, a king move is legal only onto a square the other king does not attack, and adjacency is symmetric). -/
theorem C15_gives_check (p : Position) (hwf : Spec.wf (Chess.absPos p) = true) (m : Spec.SMove)
    (hm : m ∈ Spec.legalMoves (Chess.absPos p))
    (hnc : Spec.isCastle p.board m = false) (hnep : Spec.isEpCapture (Chess.absPos p) m = false) :
    moveGivesCheck p (codeOf (Chess.absPos p) m) = Spec.inCheck (Spec.apply (Chess.absPos p) m).board (1 - p.side) := by
  apply C15_gives_check_ordinary p hwf m hm hnc hnep
  have hps : m ∈ Spec.pseudoMoves (Chess.absPos p) := by unfold Spec.legalMoves at hm; exact (List.mem_filter.1 hm).1
  obtain ⟨_, hs, hk, _, _⟩ := wf_board_hyps _ hwf
  have hs' : p.side ≤ 1 := hs
  obtain ⟨kq, hkq, _⟩ := hk (1 - p.side) (by omega)
  have hkq' : KingAt (Chess.absPos p).board (1 - (Chess.absPos p).side) kq := hkq
  have hfk : Spec.findKing (Chess.absPos p).board (1 - (Chess.absPos p).side) = kq := findKing_eq p.board (1 - p.side) kq hkq
  have hsafe : Spec.attacked (Chess.absPos p).board kq (Chess.absPos p).side = false := by
    have hw := hwf
    unfold Spec.wf at hw
    simp only [Bool.and_eq_true, Bool.not_eq_true'] at hw
    obtain ⟨⟨⟨⟨_, hnic⟩, _⟩, _⟩, _⟩ := hw
    unfold Spec.inCheck at hnic
    rw [hfk] at hnic
    have e2 : 1 - (1 - (Chess.absPos p).side) = (Chess.absPos p).side := by show 1 - (1 - p.side) = p.side; omega
    rw [e2] at hnic
    exact hnic
  have hdst := dst_ne_king _ hwf m hps kq hkq' hsafe
  have hpromo := promo_of_pseudo _ m hps
  have hnear := kings_apart_after _ hwf m hm hnc hnep kq hkq' hdst
  unfold givesCheckHypB
  rw [hfk, hnear]
  simp only [Bool.and_eq_true, decide_eq_true_eq, Bool.not_false, and_true]
  exact ⟨⟨hpromo.1, hpromo.2⟩, hdst⟩

/-- the hypotheses of `C15_gives_check` are satisfiable with a move that gives check and one that does not -/
def c15Board : List Nat :=   -- white Ke1 Ra1 Pb7, black Kh8 Na8: b7xa8=Q gives check along the eighth rank, b7-b8=N does not
  [4, 0, 0, 0, 6, 0, 0, 0] ++ List.replicate 40 0 ++ [0, 1, 0, 0, 0, 0, 0, 0] ++ [8, 0, 0, 0, 0, 0, 0, 12]
def c15Pos : Position := { side := 0, halfmove := 0, ply := 1, board := c15Board, castling := 0, ep := 64, hash := {}, history := [] }
set_option maxRecDepth 100000 in
example : Spec.wf (Chess.absPos c15Pos) = true ∧ (⟨49, 56, 5⟩ : Spec.SMove) ∈ Spec.legalMoves (Chess.absPos c15Pos) ∧
    (⟨49, 57, 2⟩ : Spec.SMove) ∈ Spec.legalMoves (Chess.absPos c15Pos) ∧
    moveGivesCheck c15Pos (codeOf (Chess.absPos c15Pos) ⟨49, 56, 5⟩) = true ∧
    moveGivesCheck c15Pos (codeOf (Chess.absPos c15Pos) ⟨49, 57, 2⟩) = false := by decide +kernel

/-- **gives-check for every legal move except castling**: ordinary moves, promotions and en-passant captures.  For an en-passant
    capture (Lemmas/GivesCheckEp.lean, GivesCheckEpSpec.lean) three squares change; the engine's extra discovered-check test on the
    occupancy without the captured pawn is the slider test on the real occupancy after the move, and the ordinary test on the
    occupancy that still contains the captured pawn is contained in it because removing a blocker only lengthens rays
    (`bishopAttack_anti`, `rookAttack_anti`, through C11). -/
theorem C15_gives_check_noncastle (p : Position) (hwf : Spec.wf (Chess.absPos p) = true) (m : Spec.SMove)
    (hm : m ∈ Spec.legalMoves (Chess.absPos p)) (hnc : Spec.isCastle p.board m = false) :
    moveGivesCheck p (codeOf (Chess.absPos p) m) = Spec.inCheck (Spec.apply (Chess.absPos p) m).board (1 - p.side) := by
  by_cases hnep : Spec.isEpCapture (Chess.absPos p) m = false
  · exact C15_gives_check p hwf m hm hnc hnep
  · have hep : Spec.isEpCapture (Chess.absPos p) m = true := by simpa using hnep
    have ok := stepOK_of_legal _ hwf m hm
    obtain ⟨hbo, hs, hk, _, _⟩ := wf_board_hyps _ hwf
    have hs' : p.side ≤ 1 := hs
    obtain ⟨kq, hkq, hnear0⟩ := hk (1 - p.side) (by omega)
    have hkq' : KingAt p.board (1 - p.side) kq := hkq
    have hopp : 1 - (1 - p.side) = p.side := by omega
    have hnear0' : kingNear p.board kq p.side = false := by
      have : kingNear (Chess.absPos p).board kq (1 - (1 - p.side)) = false := hnear0
      rw [hopp] at this; exact this
    have hfk : Spec.findKing (Chess.absPos p).board (1 - (Chess.absPos p).side) = kq := findKing_eq p.board (1 - p.side) kq hkq
    have hsafe : Spec.attacked p.board kq p.side = false := by
      have hw := hwf
      unfold Spec.wf at hw
      simp only [Bool.and_eq_true, Bool.not_eq_true'] at hw
      obtain ⟨⟨⟨⟨_, hnic⟩, _⟩, _⟩, _⟩ := hw
      unfold Spec.inCheck at hnic
      rw [hfk] at hnic
      have e2 : 1 - (1 - (Chess.absPos p).side) = p.side := by show 1 - (1 - p.side) = p.side; omega
      rw [e2] at hnic
      exact hnic
    exact gives_check_ep_spec p m ok hbo hep kq hkq' hsafe hnear0'

/-- non-vacuity for the en-passant case: white Kh4, Ra5; black Kh5?? no — a discovered check through the captured pawn:
    white Ke1, Ra5, Pe5; black Kh5, Pd5 (just played d7-d5): e5xd6 e.p. clears the fifth rank twice over and the rook checks -/
def c15EpBoard : List Nat :=
  [0, 0, 0, 0, 6, 0, 0, 0] ++ List.replicate 24 0 ++ [4, 0, 0, 7, 1, 0, 0, 12] ++ List.replicate 24 0
def c15EpPos : Position := { side := 0, halfmove := 0, ply := 1, board := c15EpBoard, castling := 0, ep := 43, hash := {}, history := [] }
set_option maxRecDepth 100000 in
example : Spec.wf (Chess.absPos c15EpPos) = true ∧ (⟨36, 43, 0⟩ : Spec.SMove) ∈ Spec.legalMoves (Chess.absPos c15EpPos) ∧
    Spec.isEpCapture (Chess.absPos c15EpPos) ⟨36, 43, 0⟩ = true ∧
    moveGivesCheck c15EpPos (codeOf (Chess.absPos c15EpPos) ⟨36, 43, 0⟩) = true := by decide +kernel

/-- **C15, gives-check, full**: on every well-formed position and for EVERY rules-legal move — ordinary moves, promotions, en-passant
    captures and castling — `move_gives_check` is exactly "the opponent is in check in the position the rules produce".
    Castling (Lemmas/GivesCheckCastle*.lean) is analysed as two steps of the same side through `gives_check_core`, the king's and then
    the rook's; neither discovers a check (`no_discovery`), because a ray that passes through the king's home square runs along the
    back rank and ends on one of the two arrival squares, and nothing lies behind a corner — a finite table over (enemy king square,
    direction, square) evaluated in the kernel (`castleGeo_WK/WQ/BK/BQ`); so the answer is "the rook on its arrival square sees the
    king", on the occupancy with all four squares toggled, which is what the engine computes. -/
theorem C15_gives_check_full (p : Position) (hwf : Spec.wf (Chess.absPos p) = true) (m : Spec.SMove)
    (hm : m ∈ Spec.legalMoves (Chess.absPos p)) :
    moveGivesCheck p (codeOf (Chess.absPos p) m) = Spec.inCheck (Spec.apply (Chess.absPos p) m).board (1 - p.side) := by
  by_cases hnc : Spec.isCastle p.board m = false
  · exact C15_gives_check_noncastle p hwf m hm hnc
  · exact gives_check_castle_spec p hwf m hm (by simpa using hnc)

/-- non-vacuity for castling: white Ke1 Rh1, black Kf8: O-O puts the rook on f1 and gives check along the f-file -/
def c15CastleBoard : List Nat :=
  [0, 0, 0, 0, 6, 0, 0, 4] ++ List.replicate 48 0 ++ [0, 0, 0, 0, 0, 12, 0, 0]
def c15CastlePos : Position := { side := 0, halfmove := 0, ply := 1, board := c15CastleBoard, castling := 1, ep := 64, hash := {}, history := [] }
set_option maxRecDepth 100000 in
example : Spec.wf (Chess.absPos c15CastlePos) = true ∧ (⟨4, 6, 0⟩ : Spec.SMove) ∈ Spec.legalMoves (Chess.absPos c15CastlePos) ∧
    Spec.isCastle c15CastlePos.board ⟨4, 6, 0⟩ = true ∧
    moveGivesCheck c15CastlePos (codeOf (Chess.absPos c15CastlePos) ⟨4, 6, 0⟩) = true := by decide +kernel

/-- **C15 on every position of every legal game from the initial position and every legal move**: capture, quiet and gives-check
    tell the truth -/
theorem C15_reachable (p : Position) (ms : List Spec.SMove) (h : Shows p ms) (m : Spec.SMove) (hm : m ∈ Spec.legalMoves (Chess.absPos p)) :
    moveIsCapture p (codeOf (Chess.absPos p) m) = Spec.isCaptureMove (Chess.absPos p) m ∧
    moveIsQuiet p (codeOf (Chess.absPos p) m) = (!Spec.isCaptureMove (Chess.absPos p) m && decide (m.promo = 0)) ∧
    moveGivesCheck p (codeOf (Chess.absPos p) m) = Spec.inCheck (Spec.apply (Chess.absPos p) m).board (1 - p.side) :=
  have hwf := wf_of_shows p ms h
  ⟨(C15_capture_quiet_full p m hwf hm).1, (C15_capture_quiet_full p m hwf hm).2, C15_gives_check_full p hwf m hm⟩

end Chess.Props
