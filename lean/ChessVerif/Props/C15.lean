/-
  Props/C15.lean — PROPERTY C15: move classification predicates tell the truth.  Statements only.
-/
import ChessVerif.Model.Text
import ChessVerif.Spec.Rules
import ChessVerif.Lemmas.LegalShape
namespace Chess.Props

/-- C15 (quiet ⇔ neither capture nor promotion): for every non-castling move the "quiet" answer is exactly
    "not a capture and not a promotion" — for every position, also ill-formed ones -/
theorem C15_quiet (p : Position) (m : Nat) (h : moveCastling m = 0) :
    moveIsQuiet p m = (!moveIsCapture p m && decide (movePromo m = 0)) := by
  unfold moveIsQuiet moveIsCapture
  simp only [h]
  by_cases hp : movePromo m = 0
  · by_cases he : moveTo m = p.ep ∧ kindOf (p.at (moveFrom m)) = PAWN
    · have : (kindOf (p.at (moveFrom m)) = PAWN && moveTo m = p.ep) = true := by simp [he.1, he.2]
      simp [hp, he, this]
    · by_cases ht : p.at (moveTo m) = 0
      · have : ¬ (kindOf (p.at (moveFrom m)) = PAWN ∧ moveTo m = p.ep) := fun h => he ⟨h.2, h.1⟩
        have h2 : ¬kindOf (p.at (moveFrom m)) = PAWN ∨ ¬moveTo m = p.ep := by
          by_cases a : kindOf (p.at (moveFrom m)) = PAWN
          · right; exact fun b => this ⟨a, b⟩
          · left; exact a
        simp [hp, he, ht, h2]
      · simp [hp, he, ht]
  · simp [hp]

/-- castling is quiet and never a capture -/
theorem C15_castling (p : Position) (m : Nat) (h : moveCastling m ≠ 0) : moveIsQuiet p m = true ∧ moveIsCapture p m = false := by
  unfold moveIsQuiet moveIsCapture
  simp [h]

/-- C15 (capture ⇔ the rules' capture): the capture answer is the rules-level notion — the target square is occupied,
    or a pawn moves onto the en-passant square — for every non-castling move -/
theorem C15_capture_rules (p : Position) (m : Nat) (h : moveCastling m = 0) (hep : p.ep = 64 ∨ p.at p.ep = 0) :
    moveIsCapture p m = (p.at (moveTo m) ≠ 0 || (kindOf (p.at (moveFrom m)) = PAWN && moveTo m = p.ep)) := by
  unfold moveIsCapture
  simp [h]

/-- C15 (capture / quiet, FULL over the rules): on every well-formed position and for EVERY move legal under the rules,
    the engine's `move_is_capture` is the rules' notion of a capture (target occupied, or en passant) and `move_is_quiet`
    is "neither a capture nor a promotion" (castling counts as quiet) -/
theorem C15_capture_quiet_full (p : Position) (m : Spec.SMove) (hwf : Spec.wf (absPos p) = true)
    (hm : m ∈ Spec.legalMoves (absPos p)) :
    moveIsCapture p (codeOf (absPos p) m) = Spec.isCaptureMove (absPos p) m ∧
    moveIsQuiet p (codeOf (absPos p) m) = (!Spec.isCaptureMove (absPos p) m && decide (m.promo = 0)) := by
  have ok := stepOK_of_legal _ hwf m hm
  have hsrc : m.src < 64 := ok.src
  have hdst : m.dst < 64 := ok.dst
  obtain ⟨hpr7, _⟩ := ok.promo
  have hepc := ok.ep
  have hcas := ok.castle
  by_cases hcs : kindOf (gd p.board m.src) = KING ∧ (m.dst = m.src + 2 ∨ m.dst + 2 = m.src)
  · -- castling: never a capture, always quiet
    obtain ⟨_, hpromo, hK, hQ⟩ := hcas hcs
    have hcast : Spec.isCastle (absPos p).board m = true := (isCastle_iff _ _).2 hcs
    have hmc : moveCastling (codeOf (absPos p) m) ≠ 0 := by
      unfold codeOf; rw [if_pos hcast]
      have cc := C16_castle_code_local
      split
      · rw [cc.1]; decide
      · rw [cc.2]; decide
    have hk1 : ¬ kindOf (gd p.board m.src) = PAWN := by rw [hcs.1]; decide
    have hnotep : Spec.isEpCapture (absPos p) m = false := by
      apply Bool.eq_false_iff.2; intro h; exact hk1 ((isEp_iff _ _).1 h).1
    have hd0 : gd p.board m.dst = 0 := by
      rcases hcs.2 with hd | hd
      · rw [hd]; exact (hK hd).2.1
      · have : m.dst = m.src - 2 := by omega
        rw [this]; exact (hQ hd).2.1
    have hcap : Spec.isCaptureMove (absPos p) m = false := by
      rw [isCapture_eq, hnotep]
      show (decide (gd p.board m.dst ≠ 0) || false) = false
      simp [hd0]
    rw [hcap]
    obtain ⟨q1, q2⟩ := C15_castling p _ hmc
    exact ⟨q2, by rw [q1]; simp [hpromo]⟩
  · have hcast : Spec.isCastle (absPos p).board m = false := by
      apply Bool.eq_false_iff.2; intro h; exact hcs ((isCastle_iff _ _).1 h)
    have hcode : codeOf (absPos p) m = mkPromotion m.src m.dst m.promo := by unfold codeOf; rw [hcast]; rfl
    obtain ⟨c1, c2, c3, c4⟩ := C16_encoding m.src m.dst m.promo hsrc hdst (by omega)
    have hcapture : moveIsCapture p (mkPromotion m.src m.dst m.promo) = Spec.isCaptureMove (absPos p) m := by
      unfold moveIsCapture
      rw [c1, c2, c4, isCapture_eq]
      show (decide (0 = 0) && (decide (gd p.board m.dst ≠ 0) || (decide (kindOf (gd p.board m.src) = PAWN) && decide (m.dst = p.ep)))) =
        (decide (gd p.board m.dst ≠ 0) || Spec.isEpCapture (absPos p) m)
      have hep : Spec.isEpCapture (absPos p) m = (decide (kindOf (gd p.board m.src) = PAWN) && decide (m.dst = p.ep)) := by
        apply Bool.eq_iff_iff.2
        rw [isEp_iff]
        simp only [Bool.and_eq_true, decide_eq_true_eq]
        constructor
        · rintro ⟨a, b, _, _⟩; exact ⟨a, b⟩
        · intro h
          obtain ⟨e1, e2, _⟩ := hepc h
          exact ⟨h.1, h.2, e1, e2⟩
      rw [hep]; simp
    rw [hcode]
    refine ⟨hcapture, ?_⟩
    rw [C15_quiet p _ c4, hcapture, c3]

/-- the full statement (kept visible): on every legal move the three answers agree with what playing the move does.
    The check-giving part needs the attack-geometry bridge (DESIGN §6 C15) and is decided by the correspondence with
    the rules spec on every legal move of every sampled position. -/
def C15_Statement : Prop :=
  ∀ (T : ZTable) (p : Position) (m : Nat), m ∈ genMoves p →
    moveGivesCheck p m = isInCheck (doMove T p m).1 (doMove T p m).1.side

end Chess.Props
