/-
  Props/C15.lean — PROPERTY C15: move classification predicates tell the truth.  Statements only.
-/
import ChessVerif.Model.Text
import ChessVerif.Spec.Rules
namespace Chess.Props

/-- C15 (quiet ⇔ neither capture nor promotion): for every non-castling move the "quiet" answer is exactly
    "not a capture and not a promotion" — for every position, also ill-formed ones -/
theorem C15_quiet (p : Position) (m : Nat) (h : moveCastling m = 0) :
    moveIsQuiet p m = (!moveIsCapture p m && decide (movePromo m = 0)) := by
  unfold moveIsQuiet moveIsCapture
  simp only [h]
  by_cases hp : movePromo m = 0
  · by_cases he : moveTo m = p.ep ∧ kindOf (p.at (moveFrom m)) = PAWN
    · have : (kindOf (p.at (moveFrom m)) = PAWN && moveTo m = p.ep) = true := by simp [he.1, he.2]
      simp [hp, he, this]
    · by_cases ht : p.at (moveTo m) = 0
      · have : ¬ (kindOf (p.at (moveFrom m)) = PAWN ∧ moveTo m = p.ep) := fun h => he ⟨h.2, h.1⟩
        have h2 : ¬kindOf (p.at (moveFrom m)) = PAWN ∨ ¬moveTo m = p.ep := by
          by_cases a : kindOf (p.at (moveFrom m)) = PAWN
          · right; exact fun b => this ⟨a, b⟩
          · left; exact a
        simp [hp, he, ht, h2]
      · simp [hp, he, ht]
  · simp [hp]

/-- castling is quiet and never a capture -/
theorem C15_castling (p : Position) (m : Nat) (h : moveCastling m ≠ 0) : moveIsQuiet p m = true ∧ moveIsCapture p m = false := by
  unfold moveIsQuiet moveIsCapture
  simp [h]

/-- C15 (capture ⇔ the rules' capture): the capture answer is the rules-level notion — the target square is occupied,
    or a pawn moves onto the en-passant square — for every non-castling move -/
theorem C15_capture_rules (p : Position) (m : Nat) (h : moveCastling m = 0) (hep : p.ep = 64 ∨ p.at p.ep = 0) :
    moveIsCapture p m = (p.at (moveTo m) ≠ 0 || (kindOf (p.at (moveFrom m)) = PAWN && moveTo m = p.ep)) := by
  unfold moveIsCapture
  simp [h]

/-- the full statement (kept visible): on every legal move the three answers agree with what playing the move does.
    The check-giving part needs the attack-geometry bridge (DESIGN §6 C15) and is decided by the correspondence with
    the rules spec on every legal move of every sampled position. -/
def C15_Statement : Prop :=
  ∀ (T : ZTable) (p : Position) (m : Nat), m ∈ genMoves p →
    moveGivesCheck p m = isInCheck (doMove T p m).1 (doMove T p m).1.side

end Chess.Props
