/-
  Props/C20.lean — PROPERTY C20: time allocation never exceeds the clock.  Statements only.
  The floating-point facts used are HYPOTHESES (`FloatFacts`), not axioms: IEEE-754 round-to-nearest
  multiplication by a non-negative constant and truncation are monotone, a ratio in (0,1] cannot enlarge,
  and trunc(0.7·x) ≤ 7x/10.  They are sampled on the real doubles by the correspondence check.
-/
import ChessVerif.Model.Time
namespace Chess.Props

structure FloatFacts (F : FloatOps) : Prop where
  scale_mono : ∀ m ply a b, a ≤ b → F.scale m ply a ≤ F.scale m ply b
  scale_nonneg : ∀ m ply a, 0 ≤ a → 0 ≤ F.scale m ply a
  cap_mono : ∀ a b, a ≤ b → F.cap a ≤ F.cap b
  cap_nonneg : ∀ a, 0 ≤ a → 0 ≤ F.cap a
  cap_le : ∀ a, 0 ≤ a → 10 * F.cap a ≤ 7 * a

private theorem foldl_min_nonneg (F : FloatOps) (hF : FloatFacts F) (left inc : Int) (ply : Nat) (hl : 0 ≤ left) (hi : 0 ≤ inc)
    (ms : List Nat) (hms : ∀ m ∈ ms, 1 ≤ m) (acc : Int) (ha : 0 ≤ acc) :
    0 ≤ ms.foldl (fun time m => min time (F.scale m ply (left + inc * ((m : Int) - 1)))) acc := by
  induction ms generalizing acc with
  | nil => simpa
  | cons m ms ih =>
    simp only [List.foldl]
    apply ih (fun x hx => hms x (List.mem_cons_of_mem _ hx))
    have h1 : 1 ≤ m := hms m (by simp)
    have h2 : (0 : Int) ≤ inc * ((m : Int) - 1) := Int.mul_nonneg hi (by omega)
    have : 0 ≤ F.scale m ply (left + inc * ((m : Int) - 1)) := hF.scale_nonneg _ _ _ (by omega)
    omega

private theorem foldl_min_mono (F : FloatOps) (hF : FloatFacts F) (left left' inc : Int) (ply : Nat) (h : left ≤ left')
    (ms : List Nat) (acc acc' : Int) (ha : acc ≤ acc') :
    ms.foldl (fun time m => min time (F.scale m ply (left + inc * ((m : Int) - 1)))) acc ≤
    ms.foldl (fun time m => min time (F.scale m ply (left' + inc * ((m : Int) - 1)))) acc' := by
  induction ms generalizing acc acc' with
  | nil => simpa
  | cons m ms ih =>
    simp only [List.foldl]
    apply ih
    have := hF.scale_mono m ply (left + inc * ((m : Int) - 1)) (left' + inc * ((m : Int) - 1)) (by omega)
    omega

/-- C20 (bounds): for a non-negative clock and increment the allotment is non-negative and at most 70% of the clock -/
theorem C20_bounds (F : FloatOps) (hF : FloatFacts F) (left inc : Int) (movestogo ply : Nat) (hl : 0 ≤ left) (hi : 0 ≤ inc) :
    0 ≤ calcTime F left inc movestogo ply ∧ 10 * calcTime F left inc movestogo ply ≤ 7 * left := by
  have hn : 0 ≤ calcLoop F left inc ply (if movestogo = 0 then MAX_MOVES_TO_GO else movestogo) :=
    foldl_min_nonneg F hF left inc ply hl hi _ (fun m hm => by simp [List.mem_range'] at hm; omega) left hl
  have hc := hF.cap_nonneg left hl
  have hle := hF.cap_le left hl
  unfold calcTime
  constructor <;> omega

/-- C20 (monotone): with everything else fixed, more remaining time never yields a smaller allotment -/
theorem C20_monotone (F : FloatOps) (hF : FloatFacts F) (left left' inc : Int) (movestogo ply : Nat) (h : left ≤ left') :
    calcTime F left inc movestogo ply ≤ calcTime F left' inc movestogo ply := by
  have hm : calcLoop F left inc ply (if movestogo = 0 then MAX_MOVES_TO_GO else movestogo) ≤
      calcLoop F left' inc ply (if movestogo = 0 then MAX_MOVES_TO_GO else movestogo) :=
    foldl_min_mono F hF left left' inc ply h _ left left' h
  have hc := hF.cap_mono left left' h
  unfold calcTime
  omega

/-- non-vacuity: exact rational arithmetic (ratio 1/m, cap = ⌊7x/10⌋) satisfies the hypotheses -/
def ratOps : FloatOps := { scale := fun m _ a => a / ((m : Int) + 1), cap := fun a => 7 * a / 10 }

example : FloatFacts ratOps where
  scale_mono := by intro m ply a b h; exact Int.ediv_le_ediv (by omega) h
  scale_nonneg := by intro m ply a h; exact Int.ediv_nonneg h (by omega)
  cap_mono := by intro a b h; show 7 * a / 10 ≤ 7 * b / 10; omega
  cap_nonneg := by intro a h; show 0 ≤ 7 * a / 10; omega
  cap_le := by intro a h; show 10 * (7 * a / 10) ≤ 7 * a; omega

end Chess.Props
