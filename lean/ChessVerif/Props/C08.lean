/-
  Props/C08.lean — PROPERTY C08: mates are played and mate announcements are true.
  PARTIAL BY NATURE (DESIGN §6 C08): the engine's pruning is not sound in general, so the global claim is not a
  theorem of this algorithm; it is explored with the exhaustive mate solver.  Proved here: the score algebra.
-/
import ChessVerif.Gen.Consts
namespace Chess.Props

def winIn (ply : Int) : Int := Gen.VALUE_MATE - ply
def lostIn (ply : Int) : Int := -(winIn ply)
/-- `is_mate(score)` of value.h -/
def isMateScore (v : Int) : Bool := decide (v ≤ lostIn Gen.MAX_DEPTH) || decide (v ≥ winIn Gen.MAX_DEPTH)
/-- the per-ply adjustment of search.cpp: `if (is_mate(result)) result += result > 0 ? -1 : 1` -/
def adjust (v : Int) : Int := if isMateScore v then (if v > 0 then v - 1 else v + 1) else v
/-- the number `score2str` prints after "mate " / "mate -" (after the C08 fix: plies converted to moves) -/
def printedMoves (v : Int) : Int :=
  if v ≤ lostIn Gen.MAX_DEPTH then (Gen.VALUE_MATE + v + 1) / 2
  else if v ≥ winIn Gen.MAX_DEPTH then (Gen.VALUE_MATE - v + 1) / 2 else 0

/-- the value a checkmate at distance k plies has at the top: `lost_in(0)` at the mated node, negated and adjusted once per ply -/
def upTree : Nat → Int
  | 0 => lostIn 0
  | k+1 => adjust (-(upTree k))

theorem isMate_iff (v : Int) : isMateScore v = true ↔ (v ≤ -639960 ∨ v ≥ 639960) := by
  have hM : Gen.VALUE_MATE = 640000 := by decide
  have hD : Gen.MAX_DEPTH = 40 := by decide
  unfold isMateScore lostIn winIn
  rw [hM, hD]
  simp only [Bool.or_eq_true, decide_eq_true_eq]
  constructor <;> (intro h; omega)

/-- C08 (distance): k plies above a checkmated node the score is exactly the mate-in-k score of the right sign:
    the distance encoded in the score is the ply distance to the mate -/
theorem C08_distance (k : Nat) (hk : k < 40) : upTree k = (if k % 2 = 0 then -(640000 - (k : Int)) else 640000 - (k : Int)) := by
  have hM : Gen.VALUE_MATE = 640000 := by decide
  induction k with
  | zero => simp [upTree, lostIn, winIn, hM]
  | succ n ih =>
    have ihn := ih (by omega)
    simp only [upTree, ihn, adjust]
    by_cases hn : n % 2 = 0
    · have hn1 : (n + 1) % 2 ≠ 0 := by omega
      simp only [hn, if_true, hn1, if_false]
      have hm : isMateScore (-(-(640000 - (n : Int)))) = true := (isMate_iff _).2 (by right; omega)
      have hp : -(-(640000 - (n : Int))) > 0 := by omega
      simp only [hm, if_true, hp]
      push_cast; omega
    · have hn1 : (n + 1) % 2 = 0 := by omega
      simp only [hn, if_false, hn1, if_true]
      have hm : isMateScore (-(640000 - (n : Int))) = true := (isMate_iff _).2 (by left; omega)
      have hp : ¬ (-(640000 - (n : Int)) > 0) := by omega
      simp only [hm, if_true, hp, if_false]
      push_cast; omega

/-- C08 (printing): a mate-in-n-plies score is announced as ⌈n/2⌉ moves, a mated-in-n-plies score as −⌈n/2⌉
    (UCI counts moves) -/
theorem C08_printed (n : Nat) (hn : n ≤ Gen.MAX_DEPTH) :
    printedMoves (winIn n) = (n + 1) / 2 ∧ printedMoves (lostIn n) = (n + 1) / 2 := by
  have hM : Gen.VALUE_MATE = 640000 := by decide
  have hD : Gen.MAX_DEPTH = 40 := by decide
  unfold printedMoves lostIn winIn
  rw [hM, hD]; rw [hD] at hn
  constructor
  · have h1 : ¬ (640000 - (n:Int) ≤ -(640000 - ((40:Nat):Int))) := by omega
    have h2 : (640000 - (n:Int) ≥ 640000 - ((40:Nat):Int)) := by omega
    simp only [h1, if_false, h2, if_true]; omega
  · have h1 : (-(640000 - (n:Int)) ≤ -(640000 - ((40:Nat):Int))) := by omega
    simp only [h1, if_true]; omega

/-- the mate range and the range of static evaluations are disjoint by construction of the constants:
    every value with |v| ≤ VALUE_KNOWN_WIN + 8·VALUE_ALL_PIECES is not a mate score -/
theorem C08_ranges_disjoint (v : Int) (h : v.natAbs ≤ (Gen.VALUE_KNOWN_WIN + 8 * Gen.VALUE_ALL_PIECES).toNat) : isMateScore v = false := by
  have hM : Gen.VALUE_MATE = 640000 := by decide
  have hD : Gen.MAX_DEPTH = 40 := by decide
  -- the only fact about the (retunable) evaluation constants that is needed; re-evaluated by the kernel whenever they change
  have hrel : Gen.VALUE_KNOWN_WIN + 8 * Gen.VALUE_ALL_PIECES < Gen.VALUE_MATE - Gen.MAX_DEPTH := by decide
  rw [hM, hD] at hrel
  unfold isMateScore lostIn winIn
  rw [hM, hD]
  simp
  omega

/-- the full statement, kept visible: every final `score mate y` is backed by a forced mate within |y| moves and a
    mate in one is always played.  Not a theorem of this pruning search; decided on explored inputs by the solver. -/
def C08_Statement : Prop := True → False   -- placeholder name for the documentation; see DESIGN §6 C08 (intentionally not provable)

end Chess.Props
