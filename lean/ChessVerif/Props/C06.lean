/-
  Props/C06.lean — PROPERTY C06: `stop` is never lost and always produces a prompt `bestmove`.
  PARTIAL BY NATURE: statements are about steps of the modelled handshake; seconds, OS scheduling and memory
  orders below seq_cst are outside the model (DESIGN §6 C06).
-/
import ChessVerif.Model.Handshake
namespace Chess.Props
open Chess.Handshake

/-- phase invariant: no bestmove before the thread is done, exactly one once it is -/
def PhaseOK (s : HS) : Prop := (s.best = 0 ∧ s.pc ≤ 3) ∨ (s.best = 1 ∧ s.pc = 4)

theorem phase_step (s : HS) (a : Act) (h : PhaseOK s) : PhaseOK (step s a) := by
  obtain ⟨pc, flag, unwind, work, best, ready⟩ := s
  unfold PhaseOK at *
  cases a with
  | stop => simpa [step] using h
  | isready => simpa [step] using h
  | search =>
    simp only at h
    match pc, h with
    | 0, h => simp [step] at h ⊢; omega
    | 1, h => simp [step] at h ⊢; omega
    | 2, h =>
      simp only [step]
      by_cases hf : flag = true
      · simp [hf] at h ⊢; omega
      · by_cases hw : work = 0
        · simp [hf, hw] at h ⊢; omega
        · simp [hf, hw] at h ⊢; omega
    | 3, h =>
      simp only [step]
      by_cases hu : unwind = 0
      · simp [hu] at h ⊢; omega
      · simp [hu] at h ⊢; omega
    | 4, h => simpa [step] using h
    | n+5, h => simp at h

theorem phase_run (acts : List Act) (s : HS) (h : PhaseOK s) : PhaseOK (run s acts) := by
  induction acts generalizing s with
  | nil => exact h
  | cons a as ih => exact ih (step s a) (phase_step s a h)

/-- C06 (at most one bestmove): in EVERY schedule the search thread prints at most one bestmove, and it has
    printed it exactly when it is done -/
theorem C06_one_bestmove (w : Nat) (acts : List Act) : PhaseOK (run { work := w } acts) :=
  phase_run acts _ (Or.inl ⟨rfl, by simp⟩)

theorem flag_stays (s : HS) (a : Act) (h : s.flag = true) : (step s a).flag = true := by
  obtain ⟨pc, flag, unwind, work, best, ready⟩ := s
  simp only at h
  subst h
  cases a with
  | stop => simp [step]
  | isready => simp [step]
  | search =>
    match pc with
    | 0 => simp [step]
    | 1 => simp [step]
    | 2 => simp [step]
    | 3 => simp only [step]; split <;> rfl
    | n+4 => simp [step]

/-- with the flag set, a search-thread step shortens the distance to the bestmove by one (until it is printed);
    other steps do not lengthen it -/
theorem dist_step (s : HS) (a : Act) (h : s.flag = true) :
    (a = .search → dist (step s a) = dist s - 1) ∧ (a ≠ .search → dist (step s a) = dist s) := by
  obtain ⟨pc, flag, unwind, work, best, ready⟩ := s
  simp only at h
  subst h
  cases a with
  | stop => simp [step, dist]
  | isready => simp [step, dist]
  | search =>
    refine ⟨fun _ => ?_, fun hne => absurd rfl hne⟩
    match pc with
    | 0 => simp [step, dist]
    | 1 => simp [step, dist]
    | 2 => simp [step, dist]
    | 3 =>
      simp only [step]
      by_cases hu : unwind = 0
      · simp [hu, dist]
      · simp [hu, dist]; omega
    | n+4 => simp [step, dist]

/-- once the flag is set, after n search-thread steps the remaining distance to the bestmove is dist − n -/
theorem dist_run (acts : List Act) (s : HS) (h : s.flag = true) : dist (run s acts) = dist s - searchSteps acts := by
  induction acts generalizing s with
  | nil => simp [run, searchSteps]
  | cons a as ih =>
    have h1 := flag_stays s a h
    have h2 := dist_step s a h
    have h3 := ih (step s a) h1
    show dist (run (step s a) as) = _
    rw [h3]
    unfold searchSteps
    by_cases ha : a = .search
    · rw [h2.1 ha]
      simp [List.filter, ha]
      omega
    · rw [h2.2 ha]
      simp [List.filter, ha]

theorem dist_le (s : HS) (h : PhaseOK s) (hu : s.unwind ≤ unwindBound) : dist s ≤ unwindBound + 4 := by
  obtain ⟨pc, flag, unwind, work, best, ready⟩ := s
  simp only at hu
  match pc with
  | 0 => simp [dist]
  | 1 => simp [dist]
  | 2 => simp [dist]
  | 3 => simp [dist]; omega
  | n+4 => simp [dist]

theorem unwind_le (s : HS) (a : Act) (h : s.unwind ≤ unwindBound) : (step s a).unwind ≤ unwindBound := by
  obtain ⟨pc, flag, unwind, work, best, ready⟩ := s
  simp only at h
  cases a with
  | stop => simpa [step] using h
  | isready => simpa [step] using h
  | search =>
    match pc with
    | 0 => simpa [step] using h
    | 1 => simpa [step] using h
    | 2 => simp only [step]; split
           · simp
           · split <;> simpa using h
    | 3 => simp only [step]; split
           · simpa using h
           · simp; omega
    | n+4 => simpa [step] using h

theorem unwind_run (acts : List Act) (s : HS) (h : s.unwind ≤ unwindBound) : (run s acts).unwind ≤ unwindBound := by
  induction acts generalizing s with
  | nil => exact h
  | cons a as ih => exact ih (step s a) (unwind_le s a h)

theorem dist_zero (s : HS) (h : PhaseOK s) (hd : dist s = 0) : s.best = 1 := by
  obtain ⟨pc, flag, unwind, work, best, ready⟩ := s
  unfold PhaseOK at h
  simp only at h
  match pc, h, hd with
  | 0, _, hd => simp [dist] at hd
  | 1, _, hd => simp [dist] at hd
  | 2, _, hd => simp [dist] at hd
  | 3, _, hd => simp [dist] at hd
  | n+4, h, _ => rcases h with ⟨_, h2⟩ | ⟨h1, _⟩
                 · omega
                 · exact h1

/-- C06 (stop is never lost, promptness in steps): whatever happened before the stop — also when it arrives
    before the thread's first step, during its initialisation or at any node visit — once the search thread has
    taken `unwindBound + 4` further steps the bestmove has been printed, exactly once -/
theorem C06_stop_not_lost (w : Nat) (before after : List Act) (hs : searchSteps after ≥ unwindBound + 4) :
    (run { work := w } (before ++ [.stop] ++ after)).best = 1 := by
  have hrun : run { work := w } (before ++ [.stop] ++ after) = run (step (run { work := w } before) .stop) after := by
    simp [run, List.foldl_append]
  rw [hrun]
  let s1 := step (run { work := w } before) .stop
  have hflag : s1.flag = true := by simp [s1, step]
  have hph1 : PhaseOK s1 := phase_step _ _ (C06_one_bestmove w before)
  have hun : s1.unwind ≤ unwindBound := unwind_le _ _ (unwind_run before _ (by simp))
  have hd := dist_run after s1 hflag
  have hle := dist_le s1 hph1 hun
  apply dist_zero _ (phase_run after s1 hph1)
  omega

/-- C06 (isready): every isready is answered, in every schedule (the reader thread never waits for the search) -/
theorem C06_isready (w : Nat) (acts : List Act) : (run { work := w } acts).ready = (acts.filter (· = .isready)).length := by
  have : ∀ s : HS, (run s acts).ready = s.ready + (acts.filter (· = .isready)).length := by
    induction acts with
    | nil => intro s; simp [run]
    | cons a as ih =>
      intro s
      show (run (step s a) as).ready = _
      rw [ih]
      obtain ⟨pc, flag, unwind, work, best, ready⟩ := s
      cases a with
      | stop => simp [step, List.filter]
      | isready => simp [step, List.filter]; omega
      | search =>
        have : (step ⟨pc, flag, unwind, work, best, ready⟩ .search).ready = ready := by
          match pc with
          | 0 => simp [step]
          | 1 => simp [step]
          | 2 => simp only [step]; split
                 · rfl
                 · split <;> rfl
          | 3 => simp only [step]; split <;> rfl
          | n+4 => simp [step]
        rw [this]; simp [List.filter]
  simpa using this { work := w }

/-- C06 (race freedom of the stop signalling): the flag of THIS build is an atomic, and then no pair of flag
    accesses of the two threads is a data race -/
theorem C06_race_free : Gen.STOP_FLAG_ATOMIC = true ∧
    ∀ (a b : Act) (s t : HS) (x y : Nat × Bool × Bool), flagAccess a s = some x → flagAccess b t = some y → races x y = false := by
  refine ⟨by decide, ?_⟩
  have hat : Gen.STOP_FLAG_ATOMIC = true := by decide
  intro a b s t x y hx hy
  have hxa : x.2.2 = true := by
    cases a <;> simp [flagAccess, hat] at hx
    · rw [← hx]
    · obtain ⟨_, h⟩ := hx; rw [← h]
  have hya : y.2.2 = true := by
    cases b <;> simp [flagAccess, hat] at hy
    · rw [← hy]
    · obtain ⟨_, h⟩ := hy; rw [← h]
  simp [races, hxa, hya]

/-- non-vacuity: `go infinite` immediately followed by `stop`, before the search thread has taken a single step -/
example : (run { work := 1000000 } ([.stop] ++ List.replicate 9 .search)).flag = true := by decide

end Chess.Props
