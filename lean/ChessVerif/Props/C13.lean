/-
  Props/C13.lean — PROPERTY C13: static evaluation is colour-symmetric.  Statements only.
  The evaluator model is Model/Eval.lean.  Proved here: the mirror laws of the primitives on which every term's
  symmetry rests, and the symmetry of the final combination step.  The full statement is kept as C13_Statement and is
  decided on the implementation by evaluating every sampled position and its mirror (tools/vprops.py check_C13).
-/
import ChessVerif.Model.Eval
namespace Chess.Props

/-- mirror of a position: ranks flipped, colours, castling rights, en-passant square and side to move swapped -/
def mirrorPiece (pc : Nat) : Nat := if pc = 0 then 0 else if pc < 7 then pc + 6 else pc - 6
def mirrorBoard (b : List Nat) : List Nat := (List.range 64).map (fun s => mirrorPiece (b.getD (flipV s) 0))
def mirrorRights (c : Nat) : Nat := ((c &&& 3) <<< 2) ||| ((c >>> 2) &&& 3)

def C13_Statement : Prop :=
  ∀ (T : ZTable) (p : Position), enoughMaterial p = true →
    evalPure p = evalPure { p with board := mirrorBoard p.board, side := 1 - p.side, castling := mirrorRights p.castling,
                                   ep := if p.ep = 64 then 64 else flipV p.ep,
                                   hash := HashKey.init T (mirrorBoard p.board) (1 - p.side) (mirrorRights p.castling) (if p.ep = 64 then 64 else flipV p.ep) }

def geomOK : Bool :=
  (List.range 64).all fun a =>
    flipV (flipV a) == a && fileOf (flipV a) == fileOf a && rankOf (flipV a) == 7 - rankOf a &&
    pte (flipV a) == pte a && sqColor (flipV a) != sqColor a &&
    (List.range 64).all fun b => distance (flipV a) (flipV b) == distance a b

theorem geomOK_true : geomOK = true := by decide +kernel

/-- C13 (geometry): the vertical flip is an involution preserving files, reversing ranks, preserving king
    distance and the push-to-edge table, and swapping square colours — on all squares / pairs -/
theorem C13_geometry (a b : Nat) (ha : a < 64) (hb : b < 64) :
    flipV (flipV a) = a ∧ fileOf (flipV a) = fileOf a ∧ rankOf (flipV a) = 7 - rankOf a ∧ pte (flipV a) = pte a ∧
    sqColor (flipV a) ≠ sqColor a ∧ distance (flipV a) (flipV b) = distance a b := by
  have h := geomOK_true
  simp only [geomOK, List.all_eq_true, List.mem_range, Bool.and_eq_true, beq_iff_eq, bne_iff_ne] at h
  obtain ⟨⟨⟨⟨⟨h1, h2⟩, h3⟩, h4⟩, h5⟩, h6⟩ := h a ha
  exact ⟨h1, h2, h3, h4, h5, h6 b hb⟩

/-- C13 (normalisation): for a square of the mirrored position seen from the mirrored side, `normalize` gives the
    same square as for the original seen from the original side -/
theorem C13_normSq_mirror (s side : Nat) (hs : s < 64) (hside : side ≤ 1) : normSq (flipV s) (1 - side) = normSq s side := by
  have hg := (C13_geometry s s hs hs).1
  have : side = 0 ∨ side = 1 := by omega
  rcases this with rfl | rfl
  · simp [normSq, hg]
  · simp [normSq]

/-- C13 (final combination): tapering truncates toward zero, so negating both phase scores negates the result —
    which is what makes "White's view = −Black's view" survive the integer division -/
theorem C13_combine_neg (s : Sc) (w : Int) : combine ⟨-s.mg, -s.eg⟩ w = - combine s w := by
  unfold combine
  have : -s.mg * w + -s.eg * (MAX_PIECE_WEIGHTS - w) = -(s.mg * w + s.eg * (MAX_PIECE_WEIGHTS - w)) := by
    rw [Int.neg_mul, Int.neg_mul, Int.neg_add]
  rw [this, Int.neg_tdiv]

/-- C13 (phase): the game-phase weight counts both colours' pieces with the same weights, so it is mirror-invariant
    for any recolouring that swaps the piece codes k ↔ k+6 -/
theorem C13_phase_symm (c : Nat → Int) :
    (c 2 + c 3 + 2 * c 4 + 4 * c 5 + c 8 + c 9 + 2 * c 10 + 4 * c 11) =
    (c 8 + c 9 + 2 * c 10 + 4 * c 11 + c 2 + c 3 + 2 * c 4 + 4 * c 5) := by omega

end Chess.Props
