/-
  Props/C07.lean — PROPERTY C07: check, mate, stalemate and draw predicates agree with the game history.
-/
import ChessVerif.Model.Movegen
import ChessVerif.Spec.Rules
namespace Chess.Props

theorem contains_iff_count (k : Nat) (l : List Nat) : l.contains k = decide (1 ≤ countEq k l) := by
  induction l with
  | nil => simp [countEq]
  | cons x xs ih =>
    simp only [List.contains_cons, countEq]
    by_cases h : x = k
    · subst h; simp
    · have h' : (k == x) = false := by simp; exact fun e => h e.symm
      rw [h', Bool.false_or, ih]; simp [h]

/-- C07 (repetition, engine side): "occurred before" / "threefold" count the earlier entries of the key history
    that equal the current key: at least one, at least two -/
theorem C07_repetition_keys (p : Position) :
    isRepeated p = decide (1 ≤ countEq p.hash.key p.history.tail) ∧
    threefold p = decide (2 ≤ countEq p.hash.key p.history.tail) := by
  unfold isRepeated threefold
  exact ⟨contains_iff_count _ _, rfl⟩

/-- counting equal keys = counting equal positions when the key is injective on the positions of the game -/
theorem count_map_inj {α : Type} [DecidableEq α] (f : α → Nat) (x : α) (l : List α)
    (inj : ∀ y, y ∈ l → f y = f x → y = x) : countEq (f x) (l.map f) = (l.filter (· = x)).length := by
  induction l with
  | nil => rfl
  | cons y ys ih =>
    have ih' := ih (fun z hz => inj z (List.mem_cons_of_mem _ hz))
    simp only [List.map_cons, countEq, ih']
    by_cases h : y = x
    · subst h; simp; omega
    · have : f y ≠ f x := fun e => h (inj y (by simp) e)
      simp [h, this]

/-- C07 (repetition, rules side): if the key history is the list of keys of the earlier positions of the game and no
    two distinct positions of the game share a key (no 64-bit collision), the engine's two answers are exactly
    "some earlier position equals the current one" and "at least two do" -/
theorem C07_repetition {α : Type} [DecidableEq α] (key : α → Nat) (cur : α) (past : List α) (p : Position)
    (hk : p.hash.key = key cur) (hh : p.history.tail = past.map key)
    (inj : ∀ y, y ∈ past → key y = key cur → y = cur) :
    isRepeated p = decide (1 ≤ (past.filter (· = cur)).length) ∧ threefold p = decide (2 ≤ (past.filter (· = cur)).length) := by
  have := C07_repetition_keys p
  rw [hk, hh, count_map_inj key cur past inj] at this
  exact this

/-- C07 (50-move limit): reached exactly when the half-move clock is at least 100 -/
theorem C07_rule50 (p : Position) : rule50 p = decide (100 ≤ p.halfmove) := rfl

/-- C07 (draw): the draw answer is the disjunction of the three -/
theorem C07_draw (p : Position) : isDraw p = (rule50 p || threefold p || !enoughMaterial p) := rfl

/-- C07 (mate/stalemate shape): mate and stalemate are "no generated move" with/without check, never both -/
theorem C07_mate_stalemate (p : Position) :
    isCheckmate p = ((genMoves p).isEmpty && isInCheck p p.side) ∧
    isStalemate p = ((genMoves p).isEmpty && !isInCheck p p.side) ∧ ¬ (isCheckmate p = true ∧ isStalemate p = true) := by
  refine ⟨rfl, rfl, ?_⟩
  unfold isCheckmate isStalemate
  cases (genMoves p).isEmpty <;> cases isInCheck p p.side <;> simp

/-- the full statement for the geometric predicates (kept visible; decided by the three-way correspondence):
    in-check = the rules' attack on the king, insufficient material = bare kings or a single minor -/
def C07_geometry_Statement : Prop :=
  ∀ (T : ZTable) (s : String), let p := ofFen T s
    Spec.wf ⟨p.board, p.side, p.castling, p.ep, p.halfmove, 1⟩ = true →
    isInCheck p p.side = Spec.inCheck p.board p.side ∧ enoughMaterial p = !Spec.insufficientMaterial p.board

end Chess.Props
