/-
  Props/C07.lean — PROPERTY C07: check, mate, stalemate and draw predicates agree with the game history.
-/
import ChessVerif.Model.Movegen
import ChessVerif.Spec.Rules
import ChessVerif.Lemmas.Attack
import ChessVerif.Lemmas.Refine
import ChessVerif.Lemmas.Material
import ChessVerif.Lemmas.WfHyp
import ChessVerif.Lemmas.WfStep
namespace Chess.Props

theorem contains_iff_count (k : Nat) (l : List Nat) : l.contains k = decide (1 ≤ countEq k l) := by
  induction l with
  | nil => simp [countEq]
  | cons x xs ih =>
    simp only [List.contains_cons, countEq]
    by_cases h : x = k
    · subst h; simp
    · have h' : (k == x) = false := by simp; exact fun e => h e.symm
      rw [h', Bool.false_or, ih]; simp [h]

/-- C07 (repetition, engine side): "occurred before" / "threefold" count the earlier entries of the key history
    that equal the current key: at least one, at least two -/
theorem C07_repetition_keys (p : Position) :
    isRepeated p = decide (1 ≤ countEq p.hash.key p.history.tail) ∧
    threefold p = decide (2 ≤ countEq p.hash.key p.history.tail) := by
  unfold isRepeated threefold
  exact ⟨contains_iff_count _ _, rfl⟩

/-- counting equal keys = counting equal positions when the key is injective on the positions of the game -/
theorem count_map_inj {α : Type} [DecidableEq α] (f : α → Nat) (x : α) (l : List α)
    (inj : ∀ y, y ∈ l → f y = f x → y = x) : countEq (f x) (l.map f) = (l.filter (· = x)).length := by
  induction l with
  | nil => rfl
  | cons y ys ih =>
    have ih' := ih (fun z hz => inj z (List.mem_cons_of_mem _ hz))
    simp only [List.map_cons, countEq, ih']
    by_cases h : y = x
    · subst h; simp; omega
    · have : f y ≠ f x := fun e => h (inj y (by simp) e)
      simp [h, this]

/-- C07 (repetition, rules side): if the key history is the list of keys of the earlier positions of the game and no
    two distinct positions of the game share a key (no 64-bit collision), the engine's two answers are exactly
    "some earlier position equals the current one" and "at least two do" -/
theorem C07_repetition {α : Type} [DecidableEq α] (key : α → Nat) (cur : α) (past : List α) (p : Position)
    (hk : p.hash.key = key cur) (hh : p.history.tail = past.map key)
    (inj : ∀ y, y ∈ past → key y = key cur → y = cur) :
    isRepeated p = decide (1 ≤ (past.filter (· = cur)).length) ∧ threefold p = decide (2 ≤ (past.filter (· = cur)).length) := by
  have := C07_repetition_keys p
  rw [hk, hh, count_map_inj key cur past inj] at this
  exact this

/-- C07 (50-move limit): reached exactly when the half-move clock is at least 100 -/
theorem C07_rule50 (p : Position) : rule50 p = decide (100 ≤ p.halfmove) := rfl

/-- C07 (draw): the draw answer is the disjunction of the three -/
theorem C07_draw (p : Position) : isDraw p = (rule50 p || threefold p || !enoughMaterial p) := rfl

/-- C07 (mate/stalemate shape): mate and stalemate are "no generated move" with/without check, never both -/
theorem C07_mate_stalemate (p : Position) :
    isCheckmate p = ((genMoves p).isEmpty && isInCheck p p.side) ∧
    isStalemate p = ((genMoves p).isEmpty && !isInCheck p p.side) ∧ ¬ (isCheckmate p = true ∧ isStalemate p = true) := by
  refine ⟨rfl, rfl, ?_⟩
  unfold isCheckmate isStalemate
  cases (genMoves p).isEmpty <;> cases isInCheck p p.side <;> simp

/-- **C07 (mate/stalemate, exact)**: on every well-formed position the engine's checkmate and stalemate answers are the rules': no
    legal move, with/without check.  From the exactness of the generator (`exact_all`, C01) and the check test (C07_check). -/
theorem C07_mate_stalemate_exact (p : Position) (hwf : Spec.wf (Chess.absPos p) = true) :
    isCheckmate p = Spec.isMate (Chess.absPos p) ∧ isStalemate p = Spec.isStalemate (Chess.absPos p) := by
  obtain ⟨hbo, hside, hkk, _, _⟩ := wf_board_hyps _ hwf
  obtain ⟨k, hk, hnear⟩ := hkk p.side hside
  have hchk : isInCheck p p.side = Spec.inCheck p.board p.side := isInCheck_eq p p.side k hside hbo hk hnear
  have hempty : (genMoves p).isEmpty = (Spec.legalMoves (Chess.absPos p)).isEmpty := by
    cases hg : genMoves p with
    | nil =>
      cases hl : Spec.legalMoves (Chess.absPos p) with
      | nil => rfl
      | cons m ms =>
        exfalso
        have := (exact_all p hwf (codeOf (Chess.absPos p) m)).2 ⟨m, by rw [hl]; exact List.mem_cons_self, rfl⟩
        rw [hg] at this; cases this
    | cons c cs =>
      cases hl : Spec.legalMoves (Chess.absPos p) with
      | nil =>
        exfalso
        obtain ⟨m, hm, _⟩ := (exact_all p hwf c).1 (by rw [hg]; exact List.mem_cons_self)
        rw [hl] at hm; cases hm
      | cons m ms => rfl
  unfold isCheckmate isStalemate Spec.isMate Spec.isStalemate
  rw [hempty, hchk]
  exact ⟨rfl, rfl⟩

/-- C07 on every position of every legal game from the initial position: check, checkmate and stalemate are the rules' -/
theorem C07_reachable (ms : List Spec.SMove) (h : LegalGame startSPos ms) (p : Position)
    (hp : Chess.absPos p = ms.foldl Spec.apply startSPos) :
    isCheckmate p = Spec.isMate (Chess.absPos p) ∧ isStalemate p = Spec.isStalemate (Chess.absPos p) :=
  C07_mate_stalemate_exact p (by rw [hp]; exact wf_reachable ms h)

/-- C07 (check): on every board with piece codes 0..12, exactly one king of the side in question, and no enemy king on
    a neighbouring square, the engine's bitboard test `is_in_check` (pawn and knight masks, magic-table slider lookups)
    is the rules' definition: the king's square is attacked by a pawn capture, a knight jump or along a ray up to the
    first piece.  Uses C11 (magic lookups = ray walks, for all occupancies). -/
theorem C07_check (p : Position) (side k : Nat) (hs : side ≤ 1) (ok : BoardOK p.board) (hk : KingAt p.board side k)
    (hnear : kingNear p.board k (1 - side) = false) : isInCheck p side = Spec.inCheck p.board side :=
  isInCheck_eq p side k hs ok hk hnear

/-- C07 (attacks, any square): the same for an arbitrary square — what castling-path and king-move safety rest on -/
theorem C07_attacked (p : Position) (sq side : Nat) (hs : side ≤ 1) (hk : sq < 64) (ok : BoardOK p.board) :
    (attackedBB p sq side || kingNear p.board sq (1 - side)) = Spec.attacked p.board sq (1 - side) :=
  attacked_eq p sq side hs hk ok

/-- C07/C01 (king safety after a move): after any rules-shaped move, "the mover's king is in check" computed by the
    engine on the position do_move produced equals the rules' verdict on the position the rules prescribe —
    i.e. the legality filter of the rules can be evaluated on the engine's side (C02 + C07_check) -/
theorem C07_check_after_move (T : ZTable) (p : Position) (m : Spec.SMove) (ok : StepOK (absPos p) m) (hp : PlyOK p)
    (hh : p.halfmove < 65535) (k : Nat)
    (hb : BoardOK (doMove T p (codeOf (absPos p) m)).1.board)
    (hk : KingAt (doMove T p (codeOf (absPos p) m)).1.board p.side k)
    (hnear : kingNear (doMove T p (codeOf (absPos p) m)).1.board k (1 - p.side) = false) :
    isInCheck (doMove T p (codeOf (absPos p) m)).1 p.side = Spec.inCheck (Spec.apply (absPos p) m).board p.side := by
  have h := refine_step T p m ok hp hh
  have hbd : (doMove T p (codeOf (absPos p) m)).1.board = (Spec.apply (absPos p) m).board := by
    have := congrArg Spec.SPos.board h.1
    exact this
  rw [isInCheck_eq _ p.side k ok.side hb hk hnear, hbd]

/-- C07 (material): the engine's test — a packed vector of piece counts compared with five constants — answers "not
    enough mating material" exactly for bare kings or a single minor piece, whenever no piece kind occurs 16 or more times
    (each count has a nibble; 16 pawns of one colour would alias a knight — impossible on a legal board) -/
theorem C07_material (p : Position) (hb : ∀ x, x ∈ p.board → x ≤ 12)
    (hc : countOf p.board 1 < 16 ∧ countOf p.board 2 < 16 ∧ countOf p.board 3 < 16 ∧ countOf p.board 4 < 16 ∧ countOf p.board 5 < 16 ∧
          countOf p.board 7 < 16 ∧ countOf p.board 8 < 16 ∧ countOf p.board 9 < 16 ∧ countOf p.board 10 < 16 ∧ countOf p.board 11 < 16) :
    enoughMaterial p = !Spec.insufficientMaterial p.board := by
  unfold enoughMaterial
  rw [material_eq p.board hb hc]

/-- C07 (geometric predicates, FULL): on every well-formed position (the rules-level predicate `Spec.wf` on the six FEN
    fields — the quantifier of the property) and for either side, the engine's `is_in_check` equals the rules' "king
    attacked", and its material test equals "bare kings or a single minor piece".  No run-time hypothesis is left:
    board shape, king uniqueness, non-adjacent kings and count bounds are derived from `Spec.wf` (Lemmas/WfHyp.lean). -/
theorem C07_geometry (p : Position) (fm : Nat) (hwf : Spec.wf ⟨p.board, p.side, p.castling, p.ep, p.halfmove, fm⟩ = true)
    (side : Nat) (hs : side ≤ 1) :
    isInCheck p side = Spec.inCheck p.board side ∧ enoughMaterial p = !Spec.insufficientMaterial p.board := by
  obtain ⟨hbo, _, hk, hcodes, hcnt⟩ := wf_board_hyps _ hwf
  obtain ⟨k, hka, hkn⟩ := hk side hs
  exact ⟨isInCheck_eq p side k hs hbo hka hkn, C07_material p hcodes hcnt⟩

end Chess.Props
