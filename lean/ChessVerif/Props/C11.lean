/-
  Props/C11.lean — PROPERTY C11: attack tables are exact for every square and occupancy.
  Statements only (helper lemmas live in Lemmas/, the 128 per-square kernel checks in Props/C11gen/).
-/
import ChessVerif.Props.C11gen.All
import ChessVerif.Lemmas.PawnUnion
namespace Chess.Props

/-- C11 (sliders): for every square and EVERY occupancy (all 2^64, not only subsets of the mask) the magic
    lookup the engine performs equals walking each ray until the first blocker, inclusive. -/
theorem C11_slider (kind sq : Nat) (hs : sq < 64) (occ : BB) :
    sliderAttack kind sq occ = Spec.rayWalk kind sq occ := by
  unfold sliderAttack Spec.rayWalk queenAttack Spec.queenWalk
  have hr := rook_of_ok sq hs (C11gen.rookOK_all sq hs)
  have hb := bishop_of_ok sq hs (C11gen.bishopOK_all sq hs)
  split
  · exact hb occ
  · split
    · exact hr occ
    · rw [hb occ, hr occ]

def leapersOK : Bool :=
  (List.range 64).all (fun sq => knightMask sq == Spec.knightSet sq && kingMask sq == Spec.kingSet sq)

theorem leapersOK_true : leapersOK = true := by decide +kernel

/-- C11 (leapers): knight and king attack masks equal their coordinate definitions on all 64 squares -/
theorem C11_leapers (sq : Nat) (hs : sq < 64) :
    knightMask sq = Spec.knightSet sq ∧ kingMask sq = Spec.kingSet sq := by
  have h := leapersOK_true
  simp only [leapersOK, List.all_eq_true, List.mem_range, Bool.and_eq_true, beq_iff_eq] at h
  exact h sq hs

def pawnSingleOK : Bool :=
  (List.range 64).all (fun sq => pawnAttacks 0 (sqBB sq) == Spec.pawnAttackSet 0 (sqBB sq) &&
                                  pawnAttacks 1 (sqBB sq) == Spec.pawnAttackSet 1 (sqBB sq))

theorem pawnSingleOK_true : pawnSingleOK = true := by decide +kernel

/-- C11 (pawns), proved part: for a pawn on any single square and either colour. The full statement is
    `C11_pawn_Statement` (arbitrary sets of pawns); both sides distribute over union of pawn sets. -/
def C11_pawn_Statement : Prop := ∀ (c : Nat) (bb : BB), c ≤ 1 → bb < two64 → pawnAttacks c bb = Spec.pawnAttackSet c bb

theorem C11_pawn_partial (c sq : Nat) (hc : c ≤ 1) (hs : sq < 64) :
    pawnAttacks c (sqBB sq) = Spec.pawnAttackSet c (sqBB sq) := by
  have h := pawnSingleOK_true
  simp only [pawnSingleOK, List.all_eq_true, List.mem_range, Bool.and_eq_true, beq_iff_eq] at h
  have := h sq hs
  match c, hc with
  | 0, _ => exact this.1
  | 1, _ => exact this.2

def pawnLeaperOK : Bool :=
  (List.range 64).all (fun sq => pawnAttacks 0 (sqBB sq) == Spec.leaperSet [(-1, 1), (1, 1)] sq &&
                                  pawnAttacks 1 (sqBB sq) == Spec.leaperSet [(-1, -1), (1, -1)] sq)

theorem pawnLeaperOK_true : pawnLeaperOK = true := by decide +kernel

/-- C11 (pawns, full): for ANY set of pawns (every 64-bit board) and either colour, the shift-based attack set the engine
    computes equals the union over the pawns of their two forward-diagonal squares on the board -/
theorem C11_pawn (c : Nat) (bb : BB) (hc : c ≤ 1) (hb : bb < two64) : pawnAttacks c bb = Spec.pawnAttackSet c bb := by
  have h := pawnLeaperOK_true
  simp only [pawnLeaperOK, List.all_eq_true, List.mem_range, Bool.and_eq_true, beq_iff_eq] at h
  have step : pawnAttacks c bb = orOver bb (fun s => pawnAttacks c (sqBB s)) (List.range 64) 0 := by
    have := orOver_hom bb c (List.range 64) 0
    rw [bb_as_union bb hb, pawnAttacks_zero] at this
    exact this
  rw [step]
  unfold Spec.pawnAttackSet
  apply orOver_congr
  intro s hs
  have hs' : s < 64 := by simpa using hs
  match c, hc with
  | 0, _ => exact (h s hs').1
  | 1, _ => exact (h s hs').2

def linesRowOK (a : Nat) : Bool :=
  (List.range 64).all (fun b => lines a b == Spec.betweenIncl a b && fullLines a b == Spec.fullLine a b)

def linesOK : Bool := (List.range 64).all linesRowOK

theorem linesOK_true : linesOK = true := by decide +kernel

/-- C11 (lines): LINES and FULL_LINES equal their geometric definitions for all 64×64 pairs -/
theorem C11_lines (a b : Nat) (ha : a < 64) (hb : b < 64) :
    lines a b = Spec.betweenIncl a b ∧ fullLines a b = Spec.fullLine a b := by
  have h := linesOK_true
  simp only [linesOK, linesRowOK, List.all_eq_true, List.mem_range, Bool.and_eq_true, beq_iff_eq] at h
  exact h a ha b hb

/-- non-vacuity: a concrete non-trivial instance (rook d4 with blockers on d6 and f4) -/
example : sliderAttack ROOK 27 (sqBB 43 ||| sqBB 29) = Spec.rayWalk ROOK 27 (sqBB 43 ||| sqBB 29) :=
  C11_slider ROOK 27 (by decide) _

end Chess.Props
