/-
  Props/C11Mirror.lean — a corollary of C11 used towards C13: because the magic lookups equal the ray walks for EVERY occupancy, they
  commute with the colour mirror (vertical flip of square and occupancy).  Statement only; proof in Lemmas/MirrorSlider.lean.
-/
import ChessVerif.Lemmas.MirrorSlider
namespace Chess.Props

/-- C11 ⇒ mirror law of the slider attacks: for every square and every pair of occupancies that are flips of each other, the bishop,
    rook and queen attack sets from the flipped square over the flipped occupancy are the flips of the attack sets -/
theorem C11_slider_mirror (sq : Nat) (hs : sq < 64) (occ occ' : BB) (h : MirrorBB occ occ') :
    MirrorBB (bishopAttack sq occ) (bishopAttack (flipV sq) occ') ∧ MirrorBB (rookAttack sq occ) (rookAttack (flipV sq) occ') ∧
    MirrorBB (queenAttack sq occ) (queenAttack (flipV sq) occ') :=
  sliderAttack_mirror sq hs occ occ' h

/-- non-vacuity: an occupancy and its flip -/
example : MirrorBB 0x0000000000001001 0x0110000000000000 := mirB_sound (by decide +kernel)

end Chess.Props
