/-
  Props/C11Mirror.lean — a corollary of C11 used towards C13: because the magic lookups equal the ray walks for EVERY occupancy, they
  commute with the colour mirror (vertical flip of square and occupancy).  Statement only; proof in Lemmas/MirrorSlider.lean.
-/
import ChessVerif.Lemmas.MirrorSlider
import ChessVerif.Lemmas.MirrorEval
namespace Chess.Props

/-- C11 ⇒ mirror law of the slider attacks: for every square and every pair of occupancies that are flips of each other, the bishop,
    rook and queen attack sets from the flipped square over the flipped occupancy are the flips of the attack sets -/
theorem C11_slider_mirror (sq : Nat) (hs : sq < 64) (occ occ' : BB) (h : MirrorBB occ occ') :
    MirrorBB (bishopAttack sq occ) (bishopAttack (flipV sq) occ') ∧ MirrorBB (rookAttack sq occ) (rookAttack (flipV sq) occ') ∧
    MirrorBB (queenAttack sq occ) (queenAttack (flipV sq) occ') :=
  sliderAttack_mirror sq hs occ occ' h

/-- non-vacuity: an occupancy and its flip -/
example : MirrorBB 0x0000000000001001 0x0110000000000000 := mirB_sound (by decide +kernel)

/-- … and with it the attack map of a whole side: `attacked_squares` (movegen.cpp; the squares attacked by the opponent of `c`: pawn
    attack sets, knight and king masks, bishop/rook/queen lookups over the occupancy) of the colour-mirrored position and the other
    colour is the flip of `attacked_squares` of the position — for every board with codes in range and one king of the attacking
    colour (Lemmas/MirrorEval.lean; unions over a permutation of the squares, `MirrorBB.union_eq`) -/
theorem C11_attacked_squares_mirror (p q : Position) (m : MirrorPos p q) (c : Nat) (hc : c ≤ 1) (ko : Nat) (hko : KingAt p.board (1 - c) ko) :
    MirrorBB (attackedSquares (BBs.of p) p.board c) (attackedSquares (BBs.of q) q.board (1 - c)) :=
  attackedSquares_mirror m c hc ko hko

end Chess.Props
