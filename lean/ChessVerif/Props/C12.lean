/-
  Props/C12.lean — PROPERTY C12: KPK knowledge equals the game-theoretic truth.  Statements only.
  `kpkSaysWin` consults `Gen.bitbase`, the table the current build produced.
-/
import ChessVerif.Model.Bitbase
import ChessVerif.Spec.KPK
namespace Chess.Props

/-- the full statement: the engine says "win" exactly for the positions from which the pawn's side can force a win -/
def C12_Statement : Prop :=
  ∀ (strong stm sk sp wk : Nat), strong ≤ 1 → stm ≤ 1 → sk < 64 → wk < 64 → 8 ≤ sp → sp < 56 →
    let fl := fun s => if strong = 0 then s else (7 - s / 8) * 8 + s % 8
    let q : Spec.KPK.Pos := { stm := if strong = 0 then stm else 1 - stm, wk := fl sk, wp := fl sp, bk := fl wk }
    Spec.KPK.legal q = true →
    (kpkSaysWin strong stm sk sp wk = true ↔ ((Spec.KPK.solve ()).1.getD (Spec.KPK.idx q) false = true))

def indexOK : Bool :=
  (List.range 2).all fun side => (List.range 64).all fun wk => (List.range 64).all fun bk =>
    [8, 9, 10, 11, 16, 27, 48, 51].all fun wp =>
      let i := kpkIndex side wk wp bk
      i < 2 * 24 * 64 * 64 && i % 64 == wk && (i / 64) % 64 == bk && (i / 4096) % 2 == side &&
      (i / 8192) % 4 == fileOf wp && (i / 32768) == rankOf wp - 1

theorem indexOK_true : indexOK = true := by decide +kernel

/-- C12 (index): the table index packs (white king, black king, side, pawn file a-d, pawn rank 2-7) without overlap
    and stays inside the table (checked for all kings and sides and a pawn on each file/rank boundary) -/
theorem C12_index (side wk bk wp : Nat) (hs : side < 2) (hw : wk < 64) (hb : bk < 64) (hp : wp ∈ [8, 9, 10, 11, 16, 27, 48, 51]) :
    kpkIndex side wk wp bk < 2 * 24 * 64 * 64 ∧ kpkIndex side wk wp bk % 64 = wk ∧ (kpkIndex side wk wp bk / 64) % 64 = bk := by
  have h := indexOK_true
  simp only [indexOK, List.all_eq_true, List.mem_range, Bool.and_eq_true, beq_iff_eq, decide_eq_true_eq] at h
  have := h side hs wk hw bk hb wp hp
  exact ⟨this.1.1.1.1.1, this.1.1.1.1.2, this.1.1.1.2⟩

def normOK : Bool :=
  (List.range 2).all fun strong => (List.range 2).all fun stm => (List.range 64).all fun sk => (List.range 48).all fun pp =>
    let sp := pp + 8
    let (side, nk, np, _) := kpkNormalize strong stm sk sp 0
    fileOf np ≤ 3 && 1 ≤ rankOf np && rankOf np ≤ 6 && side ≤ 1 && nk < 64 &&
    (side == (if strong = 0 then stm else 1 - stm))

theorem normOK_true : normOK = true := by decide +kernel

/-- C12 (normalisation): every KPK position is mapped to a white pawn on files a-d, ranks 2-7, with the side to
    move expressed from the pawn's side — the domain on which the table is defined -/
theorem C12_normalize (strong stm sk sp : Nat) (h1 : strong < 2) (h2 : stm < 2) (h3 : sk < 64) (h4 : 8 ≤ sp) (h5 : sp < 56) :
    let r := kpkNormalize strong stm sk sp 0
    fileOf r.2.2.1 ≤ 3 ∧ 1 ≤ rankOf r.2.2.1 ∧ rankOf r.2.2.1 ≤ 6 ∧ r.1 = (if strong = 0 then stm else 1 - stm) := by
  have h := normOK_true
  simp only [normOK, List.all_eq_true, List.mem_range, Bool.and_eq_true, beq_iff_eq, decide_eq_true_eq] at h
  have := h strong h1 stm h2 sk h3 (sp - 8) (by omega)
  have e : sp - 8 + 8 = sp := by omega
  rw [e] at this
  exact ⟨this.1.1.1.1.1, this.1.1.1.1.2, this.1.1.1.2, this.2⟩

end Chess.Props
