/-
  Props/C12.lean — PROPERTY C12: KPK knowledge equals the game-theoretic truth.  Statements only.
  `kpkSaysWin` consults `Gen.bitbase`, the table the current build produced.
-/
import ChessVerif.Model.Bitbase
import ChessVerif.Spec.KPK
import ChessVerif.Props.C12gen.All
namespace Chess.Props

/-- the full statement: the engine says "win" exactly for the positions from which the pawn's side can force a win -/
def C12_Statement : Prop :=
  ∀ (strong stm sk sp wk : Nat), strong ≤ 1 → stm ≤ 1 → sk < 64 → wk < 64 → 8 ≤ sp → sp < 56 →
    let fl := fun s => if strong = 0 then s else (7 - s / 8) * 8 + s % 8
    let q : Spec.KPK.Pos := { stm := if strong = 0 then stm else 1 - stm, wk := fl sk, wp := fl sp, bk := fl wk }
    Spec.KPK.legal q = true →
    (kpkSaysWin strong stm sk sp wk = true ↔ ((Spec.KPK.solve ()).1.getD (Spec.KPK.idx q) false = true))

def indexOK : Bool :=
  (List.range 2).all fun side => (List.range 64).all fun wk => (List.range 64).all fun bk =>
    [8, 9, 10, 11, 16, 27, 48, 51].all fun wp =>
      let i := kpkIndex side wk wp bk
      i < 2 * 24 * 64 * 64 && i % 64 == wk && (i / 64) % 64 == bk && (i / 4096) % 2 == side &&
      (i / 8192) % 4 == fileOf wp && (i / 32768) == rankOf wp - 1

theorem indexOK_true : indexOK = true := by decide +kernel

/-- C12 (index): the table index packs (white king, black king, side, pawn file a-d, pawn rank 2-7) without overlap
    and stays inside the table (checked for all kings and sides and a pawn on each file/rank boundary) -/
theorem C12_index (side wk bk wp : Nat) (hs : side < 2) (hw : wk < 64) (hb : bk < 64) (hp : wp ∈ [8, 9, 10, 11, 16, 27, 48, 51]) :
    kpkIndex side wk wp bk < 2 * 24 * 64 * 64 ∧ kpkIndex side wk wp bk % 64 = wk ∧ (kpkIndex side wk wp bk / 64) % 64 = bk := by
  have h := indexOK_true
  simp only [indexOK, List.all_eq_true, List.mem_range, Bool.and_eq_true, beq_iff_eq, decide_eq_true_eq] at h
  have := h side hs wk hw bk hb wp hp
  exact ⟨this.1.1.1.1.1, this.1.1.1.1.2, this.1.1.1.2⟩

def normOK : Bool :=
  (List.range 2).all fun strong => (List.range 2).all fun stm => (List.range 64).all fun sk => (List.range 48).all fun pp =>
    let sp := pp + 8
    let (side, nk, np, _) := kpkNormalize strong stm sk sp 0
    fileOf np ≤ 3 && 1 ≤ rankOf np && rankOf np ≤ 6 && side ≤ 1 && nk < 64 &&
    (side == (if strong = 0 then stm else 1 - stm))

theorem normOK_true : normOK = true := by decide +kernel

/-- C12 (normalisation): every KPK position is mapped to a white pawn on files a-d, ranks 2-7, with the side to
    move expressed from the pawn's side — the domain on which the table is defined -/
theorem C12_normalize (strong stm sk sp : Nat) (h1 : strong < 2) (h2 : stm < 2) (h3 : sk < 64) (h4 : 8 ≤ sp) (h5 : sp < 56) :
    let r := kpkNormalize strong stm sk sp 0
    fileOf r.2.2.1 ≤ 3 ∧ 1 ≤ rankOf r.2.2.1 ∧ rankOf r.2.2.1 ≤ 6 ∧ r.1 = (if strong = 0 then stm else 1 - stm) := by
  have h := normOK_true
  simp only [normOK, List.all_eq_true, List.mem_range, Bool.and_eq_true, beq_iff_eq, decide_eq_true_eq] at h
  have := h strong h1 stm h2 sk h3 (sp - 8) (by omega)
  have e : sp - 8 + 8 = sp := by omega
  rw [e] at this
  exact ⟨this.1.1.1.1.1, this.1.1.1.1.2, this.1.1.1.2, this.2⟩

open Spec.KPK in
/-- the local certificate conditions hold at EVERY position (96 kernel-evaluated chunks of 4096 king placements; positions
    outside the board are not legal) -/
theorem C12_certificate : ∀ q : Spec.KPK.Pos, Spec.KPK.certOK Spec.KPK.tableT Spec.KPK.rankR q = true := by
  intro q
  by_cases hl : legalP q = true
  · have hl' := hl
    unfold legalP legal at hl'
    simp only [Bool.and_eq_true, decide_eq_true_eq] at hl'
    obtain ⟨⟨⟨⟨⟨⟨_, hr1⟩, hr2⟩, _⟩, hs⟩, hwk⟩, hbk⟩ := hl'
    have h1 : 8 ≤ q.wp := by unfold Spec.KPK.rankOf at hr1; omega
    have h2 : q.wp < 56 := by unfold Spec.KPK.rankOf at hr2; omega
    have hc := chunkOK_all q.stm q.wp hs h1 h2
    unfold chunkOK at hc
    simp only [List.all_eq_true, List.mem_range] at hc
    have := hc q.wk hwk q.bk hbk
    rw [← certN_eq] at this
    exact this
  · unfold certOK
    have : legalP q = false := by simpa using hl
    rw [this]; rfl

open Spec.KPK in
/-- C12 (FULL, white pawn): for every legal KPK position — all 8 pawn files, both sides to move — the engine's answer
    (normalize → index → bit of the table the current build produced) is "win" EXACTLY when the pawn's side can force a
    win under the rules (least fixpoint `Wins`: safe promotion / a move to a won position; the defender is mated, or
    cannot take the pawn and every move loses).  Kernel-checked certificate: no sampling, no compiled code. -/
theorem C12_kpk (q : Spec.KPK.Pos) (hl : Spec.KPK.legalP q = true) :
    kpkSaysWin 0 q.stm q.wk q.wp q.bk = true ↔ Spec.KPK.Wins q :=
  cert_correct tableT rankR C12_certificate q hl

def flipOK : Bool :=
  (List.range 64).all fun s => flipH (flipV s) == flipV (flipH s) && fileOf (flipV s) == fileOf s && flipV s < 64 && flipH s < 64

theorem flipOK_true : flipOK = true := by decide +kernel

/-- C12 (black pawn): the engine answers a black-pawn position by the colour-mirrored white-pawn position with the
    side to move swapped — so `C12_kpk` covers both colours -/
theorem C12_mirror (stm sk sp wk : Nat) (h1 : sk < 64) (h2 : sp < 64) (h3 : wk < 64) :
    kpkSaysWin 1 stm sk sp wk = kpkSaysWin 0 (1 - stm) (flipV sk) (flipV sp) (flipV wk) := by
  have h := flipOK_true
  simp only [flipOK, List.all_eq_true, List.mem_range, Bool.and_eq_true, beq_iff_eq, decide_eq_true_eq] at h
  obtain ⟨⟨⟨a1, a2⟩, _⟩, _⟩ := h sk h1
  obtain ⟨⟨⟨b1, b2⟩, _⟩, _⟩ := h sp h2
  obtain ⟨⟨⟨c1, c2⟩, _⟩, _⟩ := h wk h3
  unfold kpkSaysWin kpkNormalize
  rw [b2]
  by_cases hf : fileOf sp > 3
  · simp only [hf, if_true, a1, b1, c1]
    simp
  · simp only [hf, if_false]
    simp

end Chess.Props
