/-
  Props/C17.lean — PROPERTY C17: SAN output is unambiguous and parses back to the same move.  Statements only.
-/
import ChessVerif.Model.Text
import ChessVerif.Lemmas.SanShapes
import ChessVerif.Lemmas.SanRound
import ChessVerif.Lemmas.GenShapeWf
import ChessVerif.Lemmas.EpExact
import ChessVerif.Lemmas.Shows
namespace Chess.Props

/-- C17 (matcher): on every text shape the printer can produce for a piece move — any of N B R Q K, with or without
    a disambiguating file and/or rank, with or without 'x', any target square, any of "", "+", "#" — the regular
    expression recovers exactly the fields that were printed (exhaustive over all 155,520 shapes) -/
theorem C17_matcher_piece (c : Char) (hc : c ∈ ['N', 'B', 'R', 'Q', 'K']) (df dr : Option Nat) (hdf : df ∈ optRange 8) (hdr : dr ∈ optRange 8)
    (cap : Bool) (t : Nat) (ht : t < 64) (sfx : List Char) (hs : sfx ∈ sanSuffixes) :
    sanMatch (sanText (some c) df dr cap t none sfx) = sanExpected (some c) df dr t none := by
  have hall : pieceShapeOK c = true := by
    simp only [List.mem_cons, List.mem_nil_iff, or_false] at hc
    rcases hc with rfl | rfl | rfl | rfl | rfl
    · exact shapesN
    · exact shapesB
    · exact shapesR
    · exact shapesQ
    · exact shapesK
  simp only [pieceShapeOK, List.all_eq_true, beq_iff_eq] at hall
  exact hall df hdf dr hdr cap (by cases cap <;> simp) t (List.mem_range.2 ht) sfx hs

/-- … and for every pawn move shape: optional capture file, 'x', any target, optional "=N/B/R/Q", suffix (28,800 shapes) -/
theorem C17_matcher_pawn (df : Option Nat) (hdf : df ∈ optRange 8) (cap : Bool) (t : Nat) (ht : t < 64)
    (pr : Option Char) (hp : pr ∈ promoLetters) (sfx : List Char) (hs : sfx ∈ sanSuffixes) :
    sanMatch (sanText none df none cap t pr sfx) = sanExpected none df none t pr := by
  have hall := shapesPawn
  simp only [pawnShapeOK, List.all_eq_true, beq_iff_eq] at hall
  exact hall df hdf cap (by cases cap <;> simp) t (List.mem_range.2 ht) pr hp sfx hs

theorem parseSan_castleK (p : Position) (str : String) (h1 : stripSuffix str = "O-O")
    (h : (genMoves p).contains kingCastlingMove = true) : parseSan p str = some kingCastlingMove := by
  have hm : kingCastlingMove ∈ genMoves p := by simpa using h
  unfold parseSan
  simp only [h1]
  simp [hm]

theorem parseSan_castleQ (p : Position) (str : String) (h1 : stripSuffix str = "O-O-O")
    (h : (genMoves p).contains queenCastlingMove = true) : parseSan p str = some queenCastlingMove := by
  unfold parseSan
  simp only [h1]
  have hm : queenCastlingMove ∈ genMoves p := by simpa using h
  have : ¬ ("O-O-O" = "0-0" ∨ "O-O-O" = "O-O") := by decide
  simp [hm, this]

/-- C17 (castling): the castling texts, with or without a check/mate suffix, parse to the castling move whenever it is
    legal (after the C17 fix: the suffix is stripped before the comparison) -/
theorem C17_castling (p : Position) (sfx : String) (hs : sfx ∈ ["", "+", "#"]) :
    ((genMoves p).contains kingCastlingMove = true → parseSan p ("O-O" ++ sfx) = some kingCastlingMove) ∧
    ((genMoves p).contains queenCastlingMove = true → parseSan p ("O-O-O" ++ sfx) = some queenCastlingMove) := by
  have e1 : ∀ s, s ∈ ["", "+", "#"] → stripSuffix ("O-O" ++ s) = "O-O" ∧ stripSuffix ("O-O-O" ++ s) = "O-O-O" := by decide
  exact ⟨fun h => parseSan_castleK p _ (e1 sfx hs).1 h, fun h => parseSan_castleQ p _ (e1 sfx hs).2 h⟩

/-- C17 (ROUND TRIP, every move): in every position whose generated list has the shape `genShapeB` (no duplicates,
    castling moves are the two castling codes, every other move moves an existing piece and promotes — to N, B, R or Q —
    exactly when a pawn reaches an end rank; decidable, evaluated at every position of every run, and a consequence of C01),
    the text `san` prints for a generated move — piece letter, the file/rank disambiguation the printer chose,
    capture mark, target, promotion, and the check/mate suffix — is parsed by `parse_san` back to exactly that move.
    The disambiguation argument is the substance: whatever other generated moves share the piece kind and target,
    the printed file, or file and rank, leaves exactly one candidate. -/
theorem C17_roundtrip (p : Position) (hs : genShapeB p = true) (m : Nat) (hm : m ∈ genMoves p) :
    parseSan p (san p m) = some m := by
  have hsfx : ∃ sfx : String, sfx ∈ ["", "+", "#"] ∧ san p m = sanWithoutCheck p m ++ sfx := by
    unfold san
    simp only []
    split
    · exact ⟨"#", by simp, rfl⟩
    · split
      · exact ⟨"+", by simp, rfl⟩
      · exact ⟨"", by simp, by simp⟩
  obtain ⟨sfx, hmem, hsan⟩ := hsfx
  rw [hsan]
  by_cases hc : moveCastling m = 0
  · apply parseSan_plain p hs m hm hc _ sfx.toList
    · simp only [List.mem_cons, List.mem_nil_iff, or_false] at hmem
      rcases hmem with rfl | rfl | rfl <;> decide
    · rw [String.toList_append]
  · have hcontains : ∀ x, x ∈ genMoves p → (genMoves p).contains x = true := fun x hx => by simpa using hx
    rcases genShape_castle p hs m hm hc with rfl | rfl
    · have e : sanWithoutCheck p kingCastlingMove = "O-O" := by
        unfold sanWithoutCheck
        rw [if_pos (by decide)]
      rw [e]
      exact (C17_castling p sfx hmem).1 (hcontains _ hm)
    · have e : sanWithoutCheck p queenCastlingMove = "O-O-O" := by
        unfold sanWithoutCheck
        rw [if_neg (by decide), if_pos (by decide)]
      rw [e]
      exact (C17_castling p sfx hmem).2 (hcontains _ hm)

/-- the hypothesis is satisfiable and the theorem applies to a real position: the initial position (20 moves) -/
def c17StartBoard : List Nat :=
  [4, 2, 3, 5, 6, 3, 2, 4, 1, 1, 1, 1, 1, 1, 1, 1] ++ List.replicate 32 0 ++ [7, 7, 7, 7, 7, 7, 7, 7, 10, 8, 9, 11, 12, 9, 8, 10]
def c17Start : Position := { side := 0, halfmove := 0, ply := 1, board := c17StartBoard, castling := 15, ep := 64, hash := {}, history := [] }
set_option maxRecDepth 100000 in
example : genShapeB c17Start = true ∧ (genMoves c17Start).length = 20 := by decide +kernel

/-- **C17, unconditional on well-formed positions**: the shape hypothesis of `C17_roundtrip` is a theorem there
    (`genShapeB_of_wf`, Lemmas/GenShape*.lean), so for every well-formed position and every generated move the SAN text parses back
    to exactly that move. -/
theorem C17_roundtrip_wf (p : Position) (hwf : Spec.wf (Chess.absPos p) = true) (m : Nat) (hm : m ∈ genMoves p) :
    parseSan p (san p m) = some m :=
  C17_roundtrip p (genShapeB_of_wf p hwf) m hm

/-- **C17, "and no other legal move"**: on a well-formed position two generated moves with the same SAN text are the same move —
    the printed text is unambiguous -/
theorem C17_unambiguous (p : Position) (hwf : Spec.wf (Chess.absPos p) = true) (m1 m2 : Nat)
    (h1 : m1 ∈ genMoves p) (h2 : m2 ∈ genMoves p) (h : san p m1 = san p m2) : m1 = m2 := by
  have a := C17_roundtrip_wf p hwf m1 h1
  have b := C17_roundtrip_wf p hwf m2 h2
  rw [h, b] at a
  exact (Option.some.inj a).symm

/-- **C17 over the rules' own quantifier** ("every legal move in every legal position"): for every move that is legal under the
    rules of chess (Spec/Rules.lean) in a well-formed position, the SAN text of its code parses back to exactly that code, and the text
    of no other legal move is the same (through `exact_all`, C01: the legal moves are exactly the generated ones) -/
theorem C17_legal_rules (p : Position) (hwf : Spec.wf (Chess.absPos p) = true) (m : Spec.SMove)
    (hm : m ∈ Spec.legalMoves (Chess.absPos p)) :
    parseSan p (san p (codeOf (Chess.absPos p) m)) = some (codeOf (Chess.absPos p) m) ∧
    ∀ m', m' ∈ Spec.legalMoves (Chess.absPos p) →
      san p (codeOf (Chess.absPos p) m') = san p (codeOf (Chess.absPos p) m) → codeOf (Chess.absPos p) m' = codeOf (Chess.absPos p) m := by
  have g : ∀ x, x ∈ Spec.legalMoves (Chess.absPos p) → codeOf (Chess.absPos p) x ∈ genMoves p :=
    fun x hx => (exact_all p hwf _).2 ⟨x, hx, rfl⟩
  exact ⟨C17_roundtrip_wf p hwf _ (g m hm), fun m' hm' h => C17_unambiguous p hwf _ _ (g m' hm') (g m hm) h⟩

/-- **C17 on every position of every legal game from the initial position**: every legal move's SAN text parses back to it and to
    no other legal move -/
theorem C17_reachable (p : Position) (ms : List Spec.SMove) (h : Shows p ms) (m : Spec.SMove) (hm : m ∈ Spec.legalMoves (Chess.absPos p)) :
    parseSan p (san p (codeOf (Chess.absPos p) m)) = some (codeOf (Chess.absPos p) m) ∧
    ∀ m', m' ∈ Spec.legalMoves (Chess.absPos p) →
      san p (codeOf (Chess.absPos p) m') = san p (codeOf (Chess.absPos p) m) → codeOf (Chess.absPos p) m' = codeOf (Chess.absPos p) m :=
  C17_legal_rules p (wf_of_shows p ms h) m hm

end Chess.Props
