/-
  Props/C03.lean — PROPERTY C03: unmaking a move restores the position exactly.
  Statements only.  The model position is ONE record (board, side, rights, ep square, clocks, the five key
  components, the key history); the theorems give equality of that whole record, so every observable that is a
  function of the position (FEN, key, pawn key, repetition and draw answers, evaluation, generated moves) is unchanged.
  That the C++'s three board representations agree with the single board is the `sync=ok` field of the correspondence.
-/
import ChessVerif.Lemmas.Ranges
import ChessVerif.Lemmas.LegalShape
import ChessVerif.Lemmas.StepUndo
import ChessVerif.Model.Movegen
namespace Chess.Props

/-- C03 (one move): for every Zobrist table, every position whose key is in step and whose fields are in range,
    and every move whose piece operations are the engine's own (`UndoOK`: true of every generated move, and
    checked for every move the correspondence plays), `undo_move(m, do_move(m))` is the identity -/
theorem C03_undo_do (T : ZTable) (p : Position) (m : Nat) (hk : KeyOK T p) (fo : FieldsOK p) (ok : UndoOK p m) :
    undoMove T (doMove T p m).1 m (doMove T p m).2 = p := undo_do T p m hk fo ok

/-- C03 (null move) -/
theorem C03_undo_null_core (T : ZTable) (p : Position) (hk : KeyOK T p) (fo : Ranges p) :
    undoNull T (doNull T p).1 (doNull T p).2 = p := by
  have hk' := (keyOK_iff T p).1 hk
  have hmi := C16_moveinfo 0 0 p.ep 0 false (by omega) (by omega) fo.ep (by omega)
  simp only [] at hmi
  obtain ⟨_, _, m3, _, _⟩ := hmi
  have hs : p.side = 0 ∨ p.side = 1 := by have := fo.side; omega
  have hh := fo.halfmove
  have h2 : (doNull T p).2 = mkMoveInfo 0 0 p.ep false 0 := rfl
  rw [h2]
  unfold undoNull
  simp only []
  rw [m3]
  apply pos_ext
  · show 1 - (1 - p.side) = p.side
    rcases hs with h | h <;> simp [h]
  · show ((p.halfmove + 1) % 65536 + 65535) % 65536 = p.halfmove
    omega
  · show p.ply + 1 - 1 = p.ply
    omega
  · rfl
  · rfl
  · rfl
  · by_cases he : p.ep ≠ 64
    · rw [if_pos he]
      apply hash_ext
      · rfl
      · rfl
      · show T.ep (fileOf p.ep) = p.hash.epK
        rw [hk'.2.2.2, if_pos he]
      · rfl
      · show p.hash.colorK ^^^ T.side ^^^ T.side = p.hash.colorK
        exact xor_twice _ _
    · rw [if_neg he]
      apply hash_ext
      · rfl
      · rfl
      · show 0 = p.hash.epK
        rw [hk'.2.2.2, if_neg he]
      · rfl
      · show p.hash.colorK ^^^ T.side ^^^ T.side = p.hash.colorK
        exact xor_twice _ _
  · rfl

theorem C03_undo_null (T : ZTable) (p : Position) (hk : KeyOK T p) (fo : FieldsOK p) :
    undoNull T (doNull T p).1 (doNull T p).2 = p :=
  C03_undo_null_core T p hk ⟨fo.castling, fo.ep, fo.halfmove, fo.side⟩

/-- a make/unmake walk shaped like a search tree or perft: at a node, make a move (or a null move), explore the
    subtree below it, take the move back with the MoveInfo that do_move returned, then go on with the siblings -/
inductive Walk
  | done
  | move (m : Nat) (below rest : Walk)
  | null (below rest : Walk)

/-- run a walk on the model's do/undo -/
def explore (T : ZTable) : Position → Walk → Position
  | p, .done => p
  | p, .move m below rest =>
      let r := doMove T p m
      explore T (undoMove T (explore T r.1 below) m r.2) rest
  | p, .null below rest =>
      let r := doNull T p
      explore T (undoNull T (explore T r.1 below) r.2) rest

/-- what must hold along the walk: every move made is one whose piece operations are the engine's own (`UndoOK`,
    true of generated moves), and the key-history array never reaches its capacity (MAX_PLIES = 800) -/
def WalkOK (T : ZTable) : Position → Walk → Prop
  | _, .done => True
  | p, .move m below rest => UndoOK p m ∧ p.history.length < 800 ∧ WalkOK T (doMove T p m).1 below ∧ WalkOK T p rest
  | p, .null below rest => WalkOK T (doNull T p).1 below ∧ WalkOK T p rest

/-- C03 (nested): any walk, of any depth and width, returns the position it started from — exactly, in every field -/
theorem C03_nested (T : ZTable) (w : Walk) : ∀ (p : Position), KeyOK T p → Ranges p → WalkOK T p w → explore T p w = p := by
  induction w with
  | done => intro p _ _ _; rfl
  | move m below rest ih1 ih2 =>
    intro p hk r ok
    obtain ⟨o1, o2, o3, o4⟩ := ok
    have fo : FieldsOK p := ⟨r.castling, r.ep, r.halfmove, r.side, o2⟩
    show explore T (undoMove T (explore T (doMove T p m).1 below) m (doMove T p m).2) rest = p
    rw [ih1 _ (keyOK_doMove T p m hk o1.toMoveOK) (ranges_doMove T p m r o1.toMoveOK) o3, undo_do T p m hk fo o1]
    exact ih2 p hk r o4
  | null below rest ih1 ih2 =>
    intro p hk r ok
    obtain ⟨o3, o4⟩ := ok
    show explore T (undoNull T (explore T (doNull T p).1 below) (doNull T p).2) rest = p
    rw [ih1 _ (keyOK_doNull T p hk r.side) (ranges_doNull T p r) o3]
    have h := C03_undo_null_core T p hk r
    rw [h]
    exact ih2 p hk r o4

/-- so every observable of the position — anything computed from it — is the same after the walk -/
theorem C03_observables {α : Type} (obs : Position → α) (T : ZTable) (w : Walk) (p : Position)
    (hk : KeyOK T p) (r : Ranges p) (ok : WalkOK T p w) : obs (explore T p w) = obs p := by
  rw [C03_nested T w p hk r ok]

/-- reachable positions (C04's `Reach`, with ranges) satisfy the standing hypotheses: a FEN-loaded position has its
    key in step for every table -/
theorem C03_fen_keyOK (T : ZTable) (s : String) : KeyOK T (ofFen T s) := keyOK_ofFen T s

/-- field ranges follow from well-formedness of the six FEN fields (plus the clock bound) -/
theorem ranges_of_wf (p : Position) (hwf : Spec.wf (absPos p) = true) (hh : p.halfmove < 65536) : Ranges p := by
  have ok := posOK_of_wf _ hwf
  refine ⟨ok.cast, ?_, hh, ok.side⟩
  by_cases he : p.ep = 64
  · rw [he]; decide
  · have hf : (if p.side = 0 then p.ep / 8 = 5 else p.ep / 8 = 2) := (ep_facts (absPos p) hwf he).1
    show p.ep < 65
    by_cases h0 : p.side = 0
    · rw [if_pos h0] at hf; omega
    · rw [if_neg h0] at hf; omega

/-- C03 (FULL, one move): on every position whose FEN fields are well-formed, for EVERY move legal under the rules, and
    for every Zobrist table: `undo_move(m, do_move(m))` is the identity on the whole position record -/
theorem C03_full (T : ZTable) (p : Position) (m : Spec.SMove) (hwf : Spec.wf (absPos p) = true)
    (hm : m ∈ Spec.legalMoves (absPos p)) (hk : KeyOK T p) (hh : p.halfmove < 65536) (hhist : p.history.length < 800) :
    undoMove T (doMove T p (codeOf (absPos p) m)).1 (codeOf (absPos p) m) (doMove T p (codeOf (absPos p) m)).2 = p := by
  have r := ranges_of_wf p hwf hh
  exact undo_do T p _ hk ⟨r.castling, r.ep, r.halfmove, r.side, hhist⟩ (stepOK_undoOK p m (stepOK_of_legal _ hwf m hm))

/-- C04 corollary: the key stays in step after every rules-legal move from a well-formed position -/
theorem C03_key_after_legal (T : ZTable) (p : Position) (m : Spec.SMove) (hwf : Spec.wf (absPos p) = true)
    (hm : m ∈ Spec.legalMoves (absPos p)) (hk : KeyOK T p) : KeyOK T (doMove T p (codeOf (absPos p) m)).1 :=
  keyOK_doMove T p _ hk (stepOK_undoOK p m (stepOK_of_legal _ hwf m hm)).toMoveOK

end Chess.Props
