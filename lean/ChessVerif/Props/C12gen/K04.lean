-- GENERATED layout (tools: see DESIGN §12.4 C12): kernel evaluation of the KPK certificate on 6 (side to move, pawn square) chunks
import ChessVerif.Lemmas.KPKCheck
namespace Chess.Spec.KPK.C12gen
theorem chunk_0_52 : chunkOK 0 52 = true := by decide +kernel
theorem chunk_0_20 : chunkOK 0 20 = true := by decide +kernel
theorem chunk_0_36 : chunkOK 0 36 = true := by decide +kernel
theorem chunk_1_12 : chunkOK 1 12 = true := by decide +kernel
theorem chunk_1_28 : chunkOK 1 28 = true := by decide +kernel
theorem chunk_1_44 : chunkOK 1 44 = true := by decide +kernel
end Chess.Spec.KPK.C12gen
