-- GENERATED layout (tools: see DESIGN §12.4 C12): kernel evaluation of the KPK certificate on 6 (side to move, pawn square) chunks
import ChessVerif.Lemmas.KPKCheck
namespace Chess.Spec.KPK.C12gen
theorem chunk_0_11 : chunkOK 0 11 = true := by decide +kernel
theorem chunk_0_27 : chunkOK 0 27 = true := by decide +kernel
theorem chunk_0_43 : chunkOK 0 43 = true := by decide +kernel
theorem chunk_1_19 : chunkOK 1 19 = true := by decide +kernel
theorem chunk_1_35 : chunkOK 1 35 = true := by decide +kernel
theorem chunk_1_51 : chunkOK 1 51 = true := by decide +kernel
end Chess.Spec.KPK.C12gen
