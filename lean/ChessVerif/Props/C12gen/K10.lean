-- GENERATED layout (tools: see DESIGN §12.4 C12): kernel evaluation of the KPK certificate on 6 (side to move, pawn square) chunks
import ChessVerif.Lemmas.KPKCheck
namespace Chess.Spec.KPK.C12gen
theorem chunk_0_10 : chunkOK 0 10 = true := by decide +kernel
theorem chunk_0_26 : chunkOK 0 26 = true := by decide +kernel
theorem chunk_0_42 : chunkOK 0 42 = true := by decide +kernel
theorem chunk_1_18 : chunkOK 1 18 = true := by decide +kernel
theorem chunk_1_34 : chunkOK 1 34 = true := by decide +kernel
theorem chunk_1_50 : chunkOK 1 50 = true := by decide +kernel
end Chess.Spec.KPK.C12gen
