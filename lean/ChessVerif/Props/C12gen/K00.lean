-- GENERATED layout (tools: see DESIGN §12.4 C12): kernel evaluation of the KPK certificate on 6 (side to move, pawn square) chunks
import ChessVerif.Lemmas.KPKCheck
namespace Chess.Spec.KPK.C12gen
theorem chunk_0_48 : chunkOK 0 48 = true := by decide +kernel
theorem chunk_0_16 : chunkOK 0 16 = true := by decide +kernel
theorem chunk_0_32 : chunkOK 0 32 = true := by decide +kernel
theorem chunk_1_8 : chunkOK 1 8 = true := by decide +kernel
theorem chunk_1_24 : chunkOK 1 24 = true := by decide +kernel
theorem chunk_1_40 : chunkOK 1 40 = true := by decide +kernel
end Chess.Spec.KPK.C12gen
