-- GENERATED layout (tools: see DESIGN §12.4 C12): kernel evaluation of the KPK certificate on 6 (side to move, pawn square) chunks
import ChessVerif.Lemmas.KPKCheck
namespace Chess.Spec.KPK.C12gen
theorem chunk_0_53 : chunkOK 0 53 = true := by decide +kernel
theorem chunk_0_21 : chunkOK 0 21 = true := by decide +kernel
theorem chunk_0_37 : chunkOK 0 37 = true := by decide +kernel
theorem chunk_1_13 : chunkOK 1 13 = true := by decide +kernel
theorem chunk_1_29 : chunkOK 1 29 = true := by decide +kernel
theorem chunk_1_45 : chunkOK 1 45 = true := by decide +kernel
end Chess.Spec.KPK.C12gen
