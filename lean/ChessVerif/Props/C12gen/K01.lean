-- GENERATED layout (tools: see DESIGN §12.4 C12): kernel evaluation of the KPK certificate on 6 (side to move, pawn square) chunks
import ChessVerif.Lemmas.KPKCheck
namespace Chess.Spec.KPK.C12gen
theorem chunk_0_49 : chunkOK 0 49 = true := by decide +kernel
theorem chunk_0_17 : chunkOK 0 17 = true := by decide +kernel
theorem chunk_0_33 : chunkOK 0 33 = true := by decide +kernel
theorem chunk_1_9 : chunkOK 1 9 = true := by decide +kernel
theorem chunk_1_25 : chunkOK 1 25 = true := by decide +kernel
theorem chunk_1_41 : chunkOK 1 41 = true := by decide +kernel
end Chess.Spec.KPK.C12gen
