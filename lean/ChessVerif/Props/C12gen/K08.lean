-- GENERATED layout (tools: see DESIGN §12.4 C12): kernel evaluation of the KPK certificate on 6 (side to move, pawn square) chunks
import ChessVerif.Lemmas.KPKCheck
namespace Chess.Spec.KPK.C12gen
theorem chunk_0_8 : chunkOK 0 8 = true := by decide +kernel
theorem chunk_0_24 : chunkOK 0 24 = true := by decide +kernel
theorem chunk_0_40 : chunkOK 0 40 = true := by decide +kernel
theorem chunk_1_16 : chunkOK 1 16 = true := by decide +kernel
theorem chunk_1_32 : chunkOK 1 32 = true := by decide +kernel
theorem chunk_1_48 : chunkOK 1 48 = true := by decide +kernel
end Chess.Spec.KPK.C12gen
