-- GENERATED layout (tools: see DESIGN §12.4 C12): kernel evaluation of the KPK certificate on 6 (side to move, pawn square) chunks
import ChessVerif.Lemmas.KPKCheck
namespace Chess.Spec.KPK.C12gen
theorem chunk_0_14 : chunkOK 0 14 = true := by decide +kernel
theorem chunk_0_30 : chunkOK 0 30 = true := by decide +kernel
theorem chunk_0_46 : chunkOK 0 46 = true := by decide +kernel
theorem chunk_1_22 : chunkOK 1 22 = true := by decide +kernel
theorem chunk_1_38 : chunkOK 1 38 = true := by decide +kernel
theorem chunk_1_54 : chunkOK 1 54 = true := by decide +kernel
end Chess.Spec.KPK.C12gen
