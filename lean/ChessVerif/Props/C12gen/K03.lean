-- GENERATED layout (tools: see DESIGN §12.4 C12): kernel evaluation of the KPK certificate on 6 (side to move, pawn square) chunks
import ChessVerif.Lemmas.KPKCheck
namespace Chess.Spec.KPK.C12gen
theorem chunk_0_51 : chunkOK 0 51 = true := by decide +kernel
theorem chunk_0_19 : chunkOK 0 19 = true := by decide +kernel
theorem chunk_0_35 : chunkOK 0 35 = true := by decide +kernel
theorem chunk_1_11 : chunkOK 1 11 = true := by decide +kernel
theorem chunk_1_27 : chunkOK 1 27 = true := by decide +kernel
theorem chunk_1_43 : chunkOK 1 43 = true := by decide +kernel
end Chess.Spec.KPK.C12gen
