-- GENERATED layout (tools: see DESIGN §12.4 C12): kernel evaluation of the KPK certificate on 6 (side to move, pawn square) chunks
import ChessVerif.Lemmas.KPKCheck
namespace Chess.Spec.KPK.C12gen
theorem chunk_0_13 : chunkOK 0 13 = true := by decide +kernel
theorem chunk_0_29 : chunkOK 0 29 = true := by decide +kernel
theorem chunk_0_45 : chunkOK 0 45 = true := by decide +kernel
theorem chunk_1_21 : chunkOK 1 21 = true := by decide +kernel
theorem chunk_1_37 : chunkOK 1 37 = true := by decide +kernel
theorem chunk_1_53 : chunkOK 1 53 = true := by decide +kernel
end Chess.Spec.KPK.C12gen
