-- GENERATED layout (tools: see DESIGN §12.4 C12): kernel evaluation of the KPK certificate on 6 (side to move, pawn square) chunks
import ChessVerif.Lemmas.KPKCheck
namespace Chess.Spec.KPK.C12gen
theorem chunk_0_54 : chunkOK 0 54 = true := by decide +kernel
theorem chunk_0_22 : chunkOK 0 22 = true := by decide +kernel
theorem chunk_0_38 : chunkOK 0 38 = true := by decide +kernel
theorem chunk_1_14 : chunkOK 1 14 = true := by decide +kernel
theorem chunk_1_30 : chunkOK 1 30 = true := by decide +kernel
theorem chunk_1_46 : chunkOK 1 46 = true := by decide +kernel
end Chess.Spec.KPK.C12gen
