-- GENERATED layout (tools: see DESIGN §12.4 C12): kernel evaluation of the KPK certificate on 6 (side to move, pawn square) chunks
import ChessVerif.Lemmas.KPKCheck
namespace Chess.Spec.KPK.C12gen
theorem chunk_0_15 : chunkOK 0 15 = true := by decide +kernel
theorem chunk_0_31 : chunkOK 0 31 = true := by decide +kernel
theorem chunk_0_47 : chunkOK 0 47 = true := by decide +kernel
theorem chunk_1_23 : chunkOK 1 23 = true := by decide +kernel
theorem chunk_1_39 : chunkOK 1 39 = true := by decide +kernel
theorem chunk_1_55 : chunkOK 1 55 = true := by decide +kernel
end Chess.Spec.KPK.C12gen
