-- GENERATED layout (tools: see DESIGN §12.4 C12): kernel evaluation of the KPK certificate on 6 (side to move, pawn square) chunks
import ChessVerif.Lemmas.KPKCheck
namespace Chess.Spec.KPK.C12gen
theorem chunk_0_50 : chunkOK 0 50 = true := by decide +kernel
theorem chunk_0_18 : chunkOK 0 18 = true := by decide +kernel
theorem chunk_0_34 : chunkOK 0 34 = true := by decide +kernel
theorem chunk_1_10 : chunkOK 1 10 = true := by decide +kernel
theorem chunk_1_26 : chunkOK 1 26 = true := by decide +kernel
theorem chunk_1_42 : chunkOK 1 42 = true := by decide +kernel
end Chess.Spec.KPK.C12gen
