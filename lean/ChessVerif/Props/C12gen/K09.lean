-- GENERATED layout (tools: see DESIGN §12.4 C12): kernel evaluation of the KPK certificate on 6 (side to move, pawn square) chunks
import ChessVerif.Lemmas.KPKCheck
namespace Chess.Spec.KPK.C12gen
theorem chunk_0_9 : chunkOK 0 9 = true := by decide +kernel
theorem chunk_0_25 : chunkOK 0 25 = true := by decide +kernel
theorem chunk_0_41 : chunkOK 0 41 = true := by decide +kernel
theorem chunk_1_17 : chunkOK 1 17 = true := by decide +kernel
theorem chunk_1_33 : chunkOK 1 33 = true := by decide +kernel
theorem chunk_1_49 : chunkOK 1 49 = true := by decide +kernel
end Chess.Spec.KPK.C12gen
