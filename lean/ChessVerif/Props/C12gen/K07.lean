-- GENERATED layout (tools: see DESIGN §12.4 C12): kernel evaluation of the KPK certificate on 6 (side to move, pawn square) chunks
import ChessVerif.Lemmas.KPKCheck
namespace Chess.Spec.KPK.C12gen
theorem chunk_0_55 : chunkOK 0 55 = true := by decide +kernel
theorem chunk_0_23 : chunkOK 0 23 = true := by decide +kernel
theorem chunk_0_39 : chunkOK 0 39 = true := by decide +kernel
theorem chunk_1_15 : chunkOK 1 15 = true := by decide +kernel
theorem chunk_1_31 : chunkOK 1 31 = true := by decide +kernel
theorem chunk_1_47 : chunkOK 1 47 = true := by decide +kernel
end Chess.Spec.KPK.C12gen
