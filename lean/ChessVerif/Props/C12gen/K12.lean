-- GENERATED layout (tools: see DESIGN §12.4 C12): kernel evaluation of the KPK certificate on 6 (side to move, pawn square) chunks
import ChessVerif.Lemmas.KPKCheck
namespace Chess.Spec.KPK.C12gen
theorem chunk_0_12 : chunkOK 0 12 = true := by decide +kernel
theorem chunk_0_28 : chunkOK 0 28 = true := by decide +kernel
theorem chunk_0_44 : chunkOK 0 44 = true := by decide +kernel
theorem chunk_1_20 : chunkOK 1 20 = true := by decide +kernel
theorem chunk_1_36 : chunkOK 1 36 = true := by decide +kernel
theorem chunk_1_52 : chunkOK 1 52 = true := by decide +kernel
end Chess.Spec.KPK.C12gen
