-- collects the 96 kernel-checked chunks
import ChessVerif.Props.C12gen.K00
import ChessVerif.Props.C12gen.K01
import ChessVerif.Props.C12gen.K02
import ChessVerif.Props.C12gen.K03
import ChessVerif.Props.C12gen.K04
import ChessVerif.Props.C12gen.K05
import ChessVerif.Props.C12gen.K06
import ChessVerif.Props.C12gen.K07
import ChessVerif.Props.C12gen.K08
import ChessVerif.Props.C12gen.K09
import ChessVerif.Props.C12gen.K10
import ChessVerif.Props.C12gen.K11
import ChessVerif.Props.C12gen.K12
import ChessVerif.Props.C12gen.K13
import ChessVerif.Props.C12gen.K14
import ChessVerif.Props.C12gen.K15
namespace Chess.Spec.KPK

def allChunks : List (Nat × Nat) := [(0, 8), (0, 9), (0, 10), (0, 11), (0, 12), (0, 13), (0, 14), (0, 15), (0, 16), (0, 17), (0, 18), (0, 19), (0, 20), (0, 21), (0, 22), (0, 23), (0, 24), (0, 25), (0, 26), (0, 27), (0, 28), (0, 29), (0, 30), (0, 31), (0, 32), (0, 33), (0, 34), (0, 35), (0, 36), (0, 37), (0, 38), (0, 39), (0, 40), (0, 41), (0, 42), (0, 43), (0, 44), (0, 45), (0, 46), (0, 47), (0, 48), (0, 49), (0, 50), (0, 51), (0, 52), (0, 53), (0, 54), (0, 55), (1, 8), (1, 9), (1, 10), (1, 11), (1, 12), (1, 13), (1, 14), (1, 15), (1, 16), (1, 17), (1, 18), (1, 19), (1, 20), (1, 21), (1, 22), (1, 23), (1, 24), (1, 25), (1, 26), (1, 27), (1, 28), (1, 29), (1, 30), (1, 31), (1, 32), (1, 33), (1, 34), (1, 35), (1, 36), (1, 37), (1, 38), (1, 39), (1, 40), (1, 41), (1, 42), (1, 43), (1, 44), (1, 45), (1, 46), (1, 47), (1, 48), (1, 49), (1, 50), (1, 51), (1, 52), (1, 53), (1, 54), (1, 55)]

theorem chunkOK_all (stm wp : Nat) (hs : stm ≤ 1) (h1 : 8 ≤ wp) (h2 : wp < 56) : chunkOK stm wp = true := by
  have hstm : stm = 0 ∨ stm = 1 := by omega
  have hwp : wp = 8 ∨ wp = 9 ∨ wp = 10 ∨ wp = 11 ∨ wp = 12 ∨ wp = 13 ∨ wp = 14 ∨ wp = 15 ∨ wp = 16 ∨ wp = 17 ∨ wp = 18 ∨ wp = 19 ∨ wp = 20 ∨ wp = 21 ∨ wp = 22 ∨ wp = 23 ∨ wp = 24 ∨ wp = 25 ∨ wp = 26 ∨ wp = 27 ∨ wp = 28 ∨ wp = 29 ∨ wp = 30 ∨ wp = 31 ∨ wp = 32 ∨ wp = 33 ∨ wp = 34 ∨ wp = 35 ∨ wp = 36 ∨ wp = 37 ∨ wp = 38 ∨ wp = 39 ∨ wp = 40 ∨ wp = 41 ∨ wp = 42 ∨ wp = 43 ∨ wp = 44 ∨ wp = 45 ∨ wp = 46 ∨ wp = 47 ∨ wp = 48 ∨ wp = 49 ∨ wp = 50 ∨ wp = 51 ∨ wp = 52 ∨ wp = 53 ∨ wp = 54 ∨ wp = 55 := by omega
  rcases hstm with rfl | rfl <;> rcases hwp with rfl | rfl | rfl | rfl | rfl | rfl | rfl | rfl | rfl | rfl | rfl | rfl | rfl | rfl | rfl | rfl | rfl | rfl | rfl | rfl | rfl | rfl | rfl | rfl | rfl | rfl | rfl | rfl | rfl | rfl | rfl | rfl | rfl | rfl | rfl | rfl | rfl | rfl | rfl | rfl | rfl | rfl | rfl | rfl | rfl | rfl | rfl | rfl
  · exact C12gen.chunk_0_8
  · exact C12gen.chunk_0_9
  · exact C12gen.chunk_0_10
  · exact C12gen.chunk_0_11
  · exact C12gen.chunk_0_12
  · exact C12gen.chunk_0_13
  · exact C12gen.chunk_0_14
  · exact C12gen.chunk_0_15
  · exact C12gen.chunk_0_16
  · exact C12gen.chunk_0_17
  · exact C12gen.chunk_0_18
  · exact C12gen.chunk_0_19
  · exact C12gen.chunk_0_20
  · exact C12gen.chunk_0_21
  · exact C12gen.chunk_0_22
  · exact C12gen.chunk_0_23
  · exact C12gen.chunk_0_24
  · exact C12gen.chunk_0_25
  · exact C12gen.chunk_0_26
  · exact C12gen.chunk_0_27
  · exact C12gen.chunk_0_28
  · exact C12gen.chunk_0_29
  · exact C12gen.chunk_0_30
  · exact C12gen.chunk_0_31
  · exact C12gen.chunk_0_32
  · exact C12gen.chunk_0_33
  · exact C12gen.chunk_0_34
  · exact C12gen.chunk_0_35
  · exact C12gen.chunk_0_36
  · exact C12gen.chunk_0_37
  · exact C12gen.chunk_0_38
  · exact C12gen.chunk_0_39
  · exact C12gen.chunk_0_40
  · exact C12gen.chunk_0_41
  · exact C12gen.chunk_0_42
  · exact C12gen.chunk_0_43
  · exact C12gen.chunk_0_44
  · exact C12gen.chunk_0_45
  · exact C12gen.chunk_0_46
  · exact C12gen.chunk_0_47
  · exact C12gen.chunk_0_48
  · exact C12gen.chunk_0_49
  · exact C12gen.chunk_0_50
  · exact C12gen.chunk_0_51
  · exact C12gen.chunk_0_52
  · exact C12gen.chunk_0_53
  · exact C12gen.chunk_0_54
  · exact C12gen.chunk_0_55
  · exact C12gen.chunk_1_8
  · exact C12gen.chunk_1_9
  · exact C12gen.chunk_1_10
  · exact C12gen.chunk_1_11
  · exact C12gen.chunk_1_12
  · exact C12gen.chunk_1_13
  · exact C12gen.chunk_1_14
  · exact C12gen.chunk_1_15
  · exact C12gen.chunk_1_16
  · exact C12gen.chunk_1_17
  · exact C12gen.chunk_1_18
  · exact C12gen.chunk_1_19
  · exact C12gen.chunk_1_20
  · exact C12gen.chunk_1_21
  · exact C12gen.chunk_1_22
  · exact C12gen.chunk_1_23
  · exact C12gen.chunk_1_24
  · exact C12gen.chunk_1_25
  · exact C12gen.chunk_1_26
  · exact C12gen.chunk_1_27
  · exact C12gen.chunk_1_28
  · exact C12gen.chunk_1_29
  · exact C12gen.chunk_1_30
  · exact C12gen.chunk_1_31
  · exact C12gen.chunk_1_32
  · exact C12gen.chunk_1_33
  · exact C12gen.chunk_1_34
  · exact C12gen.chunk_1_35
  · exact C12gen.chunk_1_36
  · exact C12gen.chunk_1_37
  · exact C12gen.chunk_1_38
  · exact C12gen.chunk_1_39
  · exact C12gen.chunk_1_40
  · exact C12gen.chunk_1_41
  · exact C12gen.chunk_1_42
  · exact C12gen.chunk_1_43
  · exact C12gen.chunk_1_44
  · exact C12gen.chunk_1_45
  · exact C12gen.chunk_1_46
  · exact C12gen.chunk_1_47
  · exact C12gen.chunk_1_48
  · exact C12gen.chunk_1_49
  · exact C12gen.chunk_1_50
  · exact C12gen.chunk_1_51
  · exact C12gen.chunk_1_52
  · exact C12gen.chunk_1_53
  · exact C12gen.chunk_1_54
  · exact C12gen.chunk_1_55

end Chess.Spec.KPK
