/-
  Props/C01.lean — PROPERTY C01: legal move generation is exact.  Statements only.
  Full statement: C01_Statement.  Proved (partial, named so): the geometric building blocks the generator relies on —
  king and knight steps (via C11), the castling path constants of the build, the pin count, the shape of every
  emitted king move.  The exactness of the whole set is decided by the three-way correspondence against the
  rules spec (tools/vprops.py check_C01) on generated games, the pin × en-passant × check lab and perft.
-/
import ChessVerif.Model.Movegen
import ChessVerif.Spec.Rules
import ChessVerif.Props.C11
import ChessVerif.Lemmas.KingMoves
import ChessVerif.Lemmas.CastleSafe
import ChessVerif.Lemmas.GenShapeWf
import ChessVerif.Lemmas.SpecNodup
namespace Chess.Props

/-- the rules-level move a packed engine move denotes in position p -/
def decodeMove (p : Position) (m : Nat) : Spec.SMove :=
  if moveCastling m = KING_CASTLING then ⟨if p.side = 0 then 4 else 60, if p.side = 0 then 6 else 62, 0⟩
  else if moveCastling m = QUEEN_CASTLING then ⟨if p.side = 0 then 4 else 60, if p.side = 0 then 2 else 58, 0⟩
  else ⟨moveFrom m, moveTo m, movePromo m⟩

def absPos (p : Position) : Spec.SPos := ⟨p.board, p.side, p.castling, p.ep, p.halfmove, (Int.tdiv (p.ply - 1) 2 + 1).toNat⟩

/-- the full statement: no illegal move, no missing move, no duplicate, on every well-formed position -/
def C01_Statement : Prop :=
  ∀ (T : ZTable) (s : String), let p := ofFen T s
    Spec.wf (absPos p) = true →
    (genMoves p).Nodup ∧ (∀ m, m ∈ genMoves p → Spec.legal (absPos p) (decodeMove p m) = true) ∧
    (∀ sm, Spec.legal (absPos p) sm = true → ∃ m, m ∈ genMoves p ∧ decodeMove p m = sm)

/-- C01 (king and knight geometry, partial): the masks the generator uses for king and knight moves are exactly the
    one-step / knight-jump squares on the board (from C11) -/
theorem C01_leaper_geometry_partial (sq : Nat) (hs : sq < 64) :
    kingMask sq = Spec.kingSet sq ∧ knightMask sq = Spec.knightSet sq :=
  ⟨(C11_leapers sq hs).2, (C11_leapers sq hs).1⟩

/-- C01 (slider geometry, partial): the bishop/rook/queen targets the generator considers are the ray walks (C11) -/
theorem C01_slider_geometry_partial (kind sq : Nat) (hs : sq < 64) (occ : BB) :
    sliderAttack kind sq occ = Spec.rayWalk kind sq occ := C11_slider kind sq hs occ

/-- C01 (castling constants, partial): the path masks of the BUILD are f1g1 / c1d1 / f8g8 / c8d8 and the extra
    queen-side blockers are b1 / b8 — the squares the rules require to be empty (and, for the path, unattacked) -/
theorem C01_castling_paths_partial :
    castlingPath W_OO = (sqBB 5 ||| sqBB 6) ∧ castlingPath W_OOO = (sqBB 2 ||| sqBB 3) ∧
    castlingPath B_OO = (sqBB 61 ||| sqBB 62) ∧ castlingPath B_OOO = (sqBB 58 ||| sqBB 59) ∧
    queenCastlingBlock 0 = sqBB 1 ∧ queenCastlingBlock 1 = sqBB 57 := by decide

/-- C01 (king moves, partial): every king move the generator emits goes from the king square to a square of the king
    mask that is neither attacked (with the king x-rayed out) nor occupied by an own piece -/
theorem C01_king_moves_partial (k : Nat) (notAllowed : BB) (m : Nat) (h : m ∈ genKingMoves k notAllowed) :
    ∃ t, t < 64 ∧ m = mkMove k t ∧ (kingMask k).testBit t = true ∧ (bnot notAllowed).testBit t = true := by
  unfold genKingMoves at h
  simp only [List.mem_map] at h
  obtain ⟨t, ht, rfl⟩ := h
  have := (mem_bitsOf _ t).1 ht
  rw [Nat.testBit_and] at this
  simp only [Bool.and_eq_true] at this
  exact ⟨t, this.1, rfl, this.2.1, this.2.2⟩

/-- at most eight pins, one per ray from the king -/
theorem C01_pins_partial (b : BBs) (board : List Nat) (side : Nat) : (genPins b board side).length ≤ 8 := by
  unfold genPins
  exact Nat.le_trans (List.length_filterMap_le _ _) (by simp)

/-- C01 (forbidden squares): on a well-formed position the generator's "forbidden squares" set — built as the union of every
    enemy piece's attack set with the own king x-rayed out of the sliders' way — contains a square exactly when the rules
    call that square attacked on the board from which the own king has been lifted (uses C11 and the symmetry of attacks) -/
theorem C01_forbidden_squares (p : Position) (hwf : Spec.wf (Chess.absPos p) = true) (t : Nat) (ht : t < 64) :
    ∃ k, KingAt p.board p.side k ∧
      (forbiddenSquares (BBs.of p) p.board p.side).testBit t = Spec.attacked (p.board.set k 0) t (1 - p.side) := by
  obtain ⟨hbo, hside, hk, _, _⟩ := wf_board_hyps _ hwf
  obtain ⟨k, hka, _⟩ := hk p.side hside
  obtain ⟨kq, hkq, _⟩ := hk (1 - p.side) (by omega)
  exact ⟨k, hka, forbidden_eq_attacked p p.side t k kq hside ht hbo hka hkq⟩

/-- C01 (king moves, EXACT): on every well-formed position, for every target square, the generator emits the king move
    k→t exactly when that move is legal under the rules and is not a castling move — no missing move, no illegal move.
    (Exactness of the other piece kinds, pins and check evasions is the open part of C01.) -/
theorem C01_king_moves_exact (p : Position) (hwf : Spec.wf (Chess.absPos p) = true) :
    ∃ k, KingAt p.board p.side k ∧ ∀ t, t < 64 →
      ((mkMove k t ∈ genKingMoves k (forbiddenSquares (BBs.of p) p.board p.side ||| (BBs.of p).color p.side)) ↔
        ((⟨k, t, 0⟩ : Spec.SMove) ∈ Spec.legalMoves (Chess.absPos p) ∧ t ≠ k + 2 ∧ t + 2 ≠ k)) := by
  obtain ⟨_, hside, hk, _, _⟩ := wf_board_hyps _ hwf
  obtain ⟨k, hka, _⟩ := hk p.side hside
  obtain ⟨kq, hkq, _⟩ := hk (1 - p.side) (by omega)
  exact ⟨k, hka, fun t ht => king_moves_exact p hwf k kq t ht hka hkq⟩

/-- C01 (the in-check test): on every well-formed position the generator's "checkers set is non-empty" test is
    the rules' "the side to move is in check" -/
theorem C01_in_check_test (p : Position) (hwf : Spec.wf (Chess.absPos p) = true) :
    (checkersBB (BBs.of p) p.board p.side ≠ 0) ↔ Spec.inCheck p.board p.side = true := by
  obtain ⟨hbo, hside, hk, _, _⟩ := wf_board_hyps _ hwf
  obtain ⟨k, hka, hnear⟩ := hk p.side hside
  rw [checkers_ne_zero_iff, isInCheck_eq p p.side k hside hbo hka hnear]

/-- C01 (forbidden squares when not in check): then the generator's forbidden set is exactly "attacked by the opponent"
    on the real board (lifting a king that is not attacked uncovers nothing) -/
theorem C01_forbidden_nocheck (p : Position) (hwf : Spec.wf (Chess.absPos p) = true) (hnc : Spec.inCheck p.board p.side = false)
    (t : Nat) (ht : t < 64) :
    (forbiddenSquares (BBs.of p) p.board p.side).testBit t = Spec.attacked p.board t (1 - p.side) :=
  forbidden_nocheck p hwf hnc t ht

/-- C01 (CASTLING IS EXACT): on a well-formed position whose side to move is not in check, each of the generator's four
    castling tests — right still held, (forbidden ∪ occupied) ∩ path = ∅, and for the queen side the b-file square empty —
    holds exactly when the rules list that castling move (Spec.castleMoves: king and rook at home, squares between them
    empty, king not in check and not passing over or landing on an attacked square); and every castling move the rules
    list is a legal move (it survives the "own king not attacked afterwards" filter).  When the side to move is in check
    the generator emits no castling move and the rules list none. -/
theorem C01_castling_exact (p : Position) (hwf : Spec.wf (Chess.absPos p) = true) (hnc : Spec.inCheck p.board p.side = false) :
    let taken := forbiddenSquares (BBs.of p) p.board p.side ||| (BBs.of p).all
    (p.side = 0 →
      ((p.castling &&& W_OO ≠ 0 ∧ (taken &&& castlingPath W_OO) = 0) ↔ (⟨4, 6, 0⟩ : Spec.SMove) ∈ Spec.castleMoves (Chess.absPos p)) ∧
      ((p.castling &&& W_OOO ≠ 0 ∧ (taken &&& castlingPath W_OOO) = 0 ∧ (queenCastlingBlock 0 &&& (BBs.of p).all) = 0) ↔
        (⟨4, 2, 0⟩ : Spec.SMove) ∈ Spec.castleMoves (Chess.absPos p))) ∧
    (p.side = 1 →
      ((p.castling &&& B_OO ≠ 0 ∧ (taken &&& castlingPath B_OO) = 0) ↔ (⟨60, 62, 0⟩ : Spec.SMove) ∈ Spec.castleMoves (Chess.absPos p)) ∧
      ((p.castling &&& B_OOO ≠ 0 ∧ (taken &&& castlingPath B_OOO) = 0 ∧ (queenCastlingBlock 1 &&& (BBs.of p).all) = 0) ↔
        (⟨60, 58, 0⟩ : Spec.SMove) ∈ Spec.castleMoves (Chess.absPos p))) ∧
    (∀ m, m ∈ Spec.castleMoves (Chess.absPos p) → m ∈ Spec.legalMoves (Chess.absPos p)) := by
  intro taken
  exact ⟨fun hs => ⟨castle_cond_WK p hwf hnc hs, castle_cond_WQ p hwf hnc hs⟩,
         fun hs => ⟨castle_cond_BK p hwf hnc hs, castle_cond_BQ p hwf hnc hs⟩,
         fun m hm => castleMoves_legal _ hwf m hm⟩

/-- … and the generator does emit the castling code when its test holds (the castling tests sit in the not-in-check branch) -/
theorem C01_castling_emitted (p : Position) (h0 : checkersBB (BBs.of p) p.board p.side = 0) :
    let taken := forbiddenSquares (BBs.of p) p.board p.side ||| (BBs.of p).all
    (p.side = 0 → p.castling &&& W_OO ≠ 0 ∧ (taken &&& castlingPath W_OO) = 0 → mkCastling KING_CASTLING ∈ genMoves p) ∧
    (p.side = 0 → p.castling &&& W_OOO ≠ 0 ∧ (taken &&& castlingPath W_OOO) = 0 ∧ (queenCastlingBlock 0 &&& (BBs.of p).all) = 0 →
      mkCastling QUEEN_CASTLING ∈ genMoves p) ∧
    (p.side ≠ 0 → p.castling &&& B_OO ≠ 0 ∧ (taken &&& castlingPath B_OO) = 0 → mkCastling KING_CASTLING ∈ genMoves p) ∧
    (p.side ≠ 0 → p.castling &&& B_OOO ≠ 0 ∧ (taken &&& castlingPath B_OOO) = 0 ∧ (queenCastlingBlock 1 &&& (BBs.of p).all) = 0 →
      mkCastling QUEEN_CASTLING ∈ genMoves p) := by
  intro taken
  have hcond : ¬ (checkersBB (BBs.of p) p.board p.side ≠ 0 ∧ moreThanOne (checkersBB (BBs.of p) p.board p.side) = true) := by
    rw [h0]; simp
  have hne : ¬ (checkersBB (BBs.of p) p.board p.side ≠ 0) := by rw [h0]; simp
  refine ⟨?_, ?_, ?_, ?_⟩
  · intro hs hc
    unfold genMoves
    simp only []
    rw [if_neg hcond, if_neg hne]
    apply List.mem_append_left
    apply List.mem_append_right
    rw [if_pos hs, if_pos hc]
    exact List.mem_singleton.2 rfl
  · intro hs hc
    unfold genMoves
    simp only []
    rw [if_neg hcond, if_neg hne]
    apply List.mem_append_right
    rw [if_pos hs, if_pos hc]
    exact List.mem_singleton.2 rfl
  · intro hs hc
    unfold genMoves
    simp only []
    rw [if_neg hcond, if_neg hne]
    apply List.mem_append_left
    apply List.mem_append_right
    rw [if_neg hs, if_pos hc]
    exact List.mem_singleton.2 rfl
  · intro hs hc
    unfold genMoves
    simp only []
    rw [if_neg hcond, if_neg hne]
    apply List.mem_append_right
    rw [if_neg hs, if_pos hc]
    exact List.mem_singleton.2 rfl

/-- **no move appears twice** (the third clause of C01), for every well-formed position: the generated list is duplicate-free.
    Proof (Lemmas/GenBasics.lean, GenPawn.lean, GenPins.lean, GenShape.lean): `bitsOf` is strictly increasing; every group of the
    generator is described by the kind of the piece on the origin square and whether that square is pinned, the seven pawn groups
    by offset and promotion (`PawnMv`, `pawnIdxOf`), the en-passant captures by their empty target (never in the capture mask),
    pins on different rays name different squares (finite bit-scan tables over king square × ray × subset of the ray, evaluated in the
    kernel), castling codes differ from every 15-bit code. -/
theorem C01_no_duplicates (p : Position) (hwf : Spec.wf (Chess.absPos p) = true) : (genMoves p).Nodup :=
  genMoves_nodup p hwf

/-- every generated move is one of the two castling codes or the 15-bit code of (from, to, promotion) with an own piece on `from`
    and a promotion piece N/B/R/Q exactly when a pawn arrives on an end rank -/
theorem C01_move_shape (p : Position) (hwf : Spec.wf (Chess.absPos p) = true) : genShapeB p = true :=
  genShapeB_of_wf p hwf

/-- **the pin scan is sound**: in a well-formed position whose side to move is not in check, every pseudo-legal ordinary move (not
    castling, not en passant, not a king move) of a piece that `generate_pins` does not name is legal — moving it cannot expose the king.
    (Lemmas/PinScan.lean: the lsb/msb scans return the first two occupied squares of the ray, kernel tables over king square × ray ×
    subset; Lemmas/Unpinned.lean: a slider that sees the king after the move sits behind the origin with nothing else in between, which is
    what the scan finds; Lemmas/UnpinnedSpec.lean: the rules-level statement.) -/
theorem C01_unpinned_legal (p : Position) (hwf : Spec.wf (Chess.absPos p) = true) (hnic : Spec.inCheck p.board p.side = false)
    (m : Spec.SMove) (hm : m ∈ Spec.pseudoMoves (Chess.absPos p))
    (hnc : Spec.isCastle p.board m = false) (hnep : Spec.isEpCapture (Chess.absPos p) m = false)
    (hnk : kindOf (p.board.getD m.src 0) ≠ KING)
    (hunp : ∀ pin, pin ∈ genPins (BBs.of p) p.board p.side → pinSquare pin ≠ m.src) :
    m ∈ Spec.legalMoves (Chess.absPos p) :=
  unpinned_legal p hwf hnic m hm hnc hnep hnk hunp

/-- **C01, EXACT whenever no en-passant square is set**: on every well-formed position in which no en-passant square is set — in
    check (single or double) or not, with pinned pieces or not — the generated list contains exactly the codes of the rules' legal moves:
    no illegal move, no legal move missing (and, by `C01_no_duplicates`, none twice).
    Out of check (Lemmas/ExactNoCheck.lean): the seven set-wise pawn groups against the rules' per-pawn list in both directions
    (PawnExact*.lean), knights through the leaper sets of C11, bishops/rooks/queens through `Spec.slide` = the bitboard ray walk
    (SliderExact.lean), king steps and castling (earlier theorems), pinned pieces along their pin line only (Pinned*.lean, PinGeo*.lean).
    Double check (DoubleCheck.lean): only king moves on both sides.  Single check (SingleCheck*.lean, ExactSingleCheck.lean): the
    capture mask is the checker's square, the push mask `LINES[k][c]` without its end points is the set of empty squares strictly
    between the king and a sliding checker (kernel table `betweenOK`), an unpinned piece arriving there leaves the king safe, any other
    ordinary move leaves the checker in place, and a pinned piece has no legal move at all.
    Open: positions with an en-passant square (the capture itself and its rank test) — decided by the differential. -/
theorem C01_exact_noep (p : Position) (hwf : Spec.wf (Chess.absPos p) = true) (hep : p.ep = 64) (code : Nat) :
    code ∈ genMoves p ↔ ∃ m, m ∈ Spec.legalMoves (Chess.absPos p) ∧ codeOf (Chess.absPos p) m = code :=
  exact_noep p hwf hep code

/-- **C01, EXACT ON EVERY WELL-FORMED POSITION**: the generated list contains exactly the codes of the rules' legal moves — en-passant
    square or not, in check or not, pinned pieces or not.  `C01_exact_noep` covers the positions without an en-passant square; with
    one, clearing it keeps the position well-formed and removes exactly the en-passant captures from the rules' legal moves and from the
    generated list (Lemmas/NoEpGen.lean, NoEpSpec.lean, ExactUpToEp.lean), and an en-passant capture is generated iff it is legal
    (Lemmas/EpLegal.lean: legality = the own king not attacked on the bitboards with the capturer moved and the captured pawn removed;
    EpAttack/EpLines.lean: a slider sees the king over that occupancy in exactly four situations; EpRetro.lean: "the double push was
    itself legal" (part of `Spec.wf`) excludes the line that only the pushed pawn shields and the interposition on the en-passant
    square; EpGeoTab/EpGeo.lean: kernel tables `lineOK`, `adjOK` for the geometry of capturer, target, captured pawn and origin;
    EpSafe.lean: attacked ⇔ another checker remains ∨ the capturer leaves its pin line ∨ capturer and captured pawn alone shielded the
    king on its rank; EpGenBasic.lean: what `generate_enpassant` emits; EpExact.lean: the rank test = that rank exposure, the mask
    test = "the only checker is the pushed pawn", the pinned-pawn branch = capture along the pin diagonal out of check). -/
theorem C01_exact (p : Position) (hwf : Spec.wf (Chess.absPos p) = true) (code : Nat) :
    code ∈ genMoves p ↔ ∃ m, m ∈ Spec.legalMoves (Chess.absPos p) ∧ codeOf (Chess.absPos p) m = code :=
  exact_all p hwf code

theorem legal_iff_mem (s : Spec.SPos) (m : Spec.SMove) : Spec.legal s m = true ↔ m ∈ Spec.legalMoves s := by
  unfold Spec.legal Spec.legalMoves
  rw [List.mem_filter, Bool.and_eq_true, List.contains_iff_mem]

/-- the engine's code of a legal move decodes to that move -/
theorem decode_codeOf (p : Position) (hwf : Spec.wf (Chess.absPos p) = true) (m : Spec.SMove) (hm : m ∈ Spec.legalMoves (Chess.absPos p)) :
    decodeMove p (codeOf (Chess.absPos p) m) = m := by
  have hps : m ∈ Spec.pseudoMoves (Chess.absPos p) := by unfold Spec.legalMoves at hm; exact (List.mem_filter.1 hm).1
  have sok := stepOK_of_pseudo _ hwf m hps
  unfold codeOf decodeMove
  by_cases hc : Spec.isCastle (Chess.absPos p).board m = true
  · rw [if_pos hc]
    unfold Spec.isCastle at hc
    simp only [Bool.and_eq_true, Bool.or_eq_true, decide_eq_true_eq] at hc
    obtain ⟨hsrc, hpr, _, _⟩ := sok.castle ⟨hc.1, hc.2⟩
    have hsrc' : m.src = if p.side = 0 then 4 else 60 := hsrc
    by_cases hd : m.dst = m.src + 2
    · rw [if_pos hd]
      have e1 : moveCastling (mkCastling KING_CASTLING) = KING_CASTLING := by decide
      rw [if_pos e1]
      cases m with
      | mk a b c =>
        simp only at hsrc' hpr hd ⊢
        subst hpr
        by_cases h0 : p.side = 0
        · rw [if_pos h0] at hsrc' ⊢; simp [if_pos h0]; omega
        · rw [if_neg h0] at hsrc' ⊢; simp [if_neg h0]; omega
    · rw [if_neg hd]
      have e1 : ¬ moveCastling (mkCastling QUEEN_CASTLING) = KING_CASTLING := by decide
      have e2 : moveCastling (mkCastling QUEEN_CASTLING) = QUEEN_CASTLING := by decide
      rw [if_neg e1, if_pos e2]
      have hd2 : m.dst + 2 = m.src := by rcases hc.2 with e | e; exact absurd e hd; exact e
      cases m with
      | mk a b c =>
        simp only at hsrc' hpr hd2 ⊢
        subst hpr
        by_cases h0 : p.side = 0
        · rw [if_pos h0] at hsrc' ⊢; simp [if_pos h0]; omega
        · rw [if_neg h0] at hsrc' ⊢; simp [if_neg h0]; omega
  · rw [if_neg hc]
    obtain ⟨e1, e2, e3, e4⟩ := C16_encoding m.src m.dst m.promo sok.src sok.dst (by have := sok.promo.1; omega)
    rw [e4, if_neg (by decide), if_neg (by decide), e1, e2, e3]

/-- **C01, the full statement on every well-formed position**: no move twice, every generated move legal under the rules, every legal
    move generated — in the vocabulary of `C01_Statement` (decoded moves, the rules' `legal` predicate) -/
theorem C01_movegen_exact_pos (p : Position) (hwf : Spec.wf (absPos p) = true) :
    (genMoves p).Nodup ∧ (∀ m, m ∈ genMoves p → Spec.legal (absPos p) (decodeMove p m) = true) ∧
    (∀ sm, Spec.legal (absPos p) sm = true → ∃ m, m ∈ genMoves p ∧ decodeMove p m = sm) := by
  have hwf' : Spec.wf (Chess.absPos p) = true := hwf
  refine ⟨C01_no_duplicates p hwf', ?_, ?_⟩
  · intro c hc
    obtain ⟨m, hm, hcode⟩ := (exact_all p hwf' c).1 hc
    rw [← hcode, decode_codeOf p hwf' m hm]
    exact (legal_iff_mem _ m).2 hm
  · intro sm hsm
    have hm : sm ∈ Spec.legalMoves (Chess.absPos p) := (legal_iff_mem _ sm).1 hsm
    exact ⟨codeOf (Chess.absPos p) sm, (exact_all p hwf' _).2 ⟨sm, hm, rfl⟩, decode_codeOf p hwf' sm hm⟩

/-- **C01**: the full statement -/
theorem C01_movegen_exact : C01_Statement := by
  intro T s p hwf
  exact C01_movegen_exact_pos p hwf

/-- non-vacuity: a well-formed position with an en-passant square (`4k3/8/8/3pP3/8/8/8/4K3 w - d6`): 7 generated codes, one of them
    en-passant-shaped -/
def c01EpBoard : List Nat := (((List.replicate 64 0).set 4 6).set 35 7).set 36 1 |>.set 60 12
def c01Ep : Position := { side := 0, halfmove := 0, ply := 1, board := c01EpBoard, castling := 0, ep := 43, hash := {}, history := [] }
set_option maxRecDepth 100000 in
example : Spec.wf (Chess.absPos c01Ep) = true ∧ c01Ep.ep ≠ 64 ∧ (genMoves c01Ep).length = 7 ∧ mkMove 36 43 ∈ genMoves c01Ep ∧
    Spec.isEpCapture (Chess.absPos c01Ep) ⟨36, 43, 0⟩ = true := by decide +kernel

/-- **C01 on every position of every legal game**: if the model position shows the position reached from the initial position by any
    sequence of moves each legal in its turn, the generated list is exactly the list of legal moves (well-formedness is an invariant
    of legal play, Lemmas/WfStep.lean) -/
theorem C01_reachable (ms : List Spec.SMove) (h : LegalGame startSPos ms) (p : Position)
    (hp : Chess.absPos p = ms.foldl Spec.apply startSPos) (code : Nat) :
    code ∈ genMoves p ↔ ∃ m, m ∈ Spec.legalMoves (Chess.absPos p) ∧ codeOf (Chess.absPos p) m = code :=
  exact_all p (by rw [hp]; exact wf_reachable ms h) code

/-- perft by the rules: the number of lines of d legal moves -/
def perftSpec : Nat → Spec.SPos → Nat
  | 0, _ => 1
  | d + 1, s => ((Spec.legalMoves s).map (fun m => perftSpec d (Spec.apply s m))).sum

/-- perft of the model: recursion over the generated moves through do_move (the engine's `perft`; that its make/unmake loop returns
    to the same position after each branch is C03) -/
def perftModel (T : ZTable) : Nat → Position → Nat
  | 0, _ => 1
  | d + 1, p => ((genMoves p).map (fun c => perftModel T d (doMove T p c).1)).sum

/-- **perft agrees with the rules at every depth**: on every well-formed position the model's perft — generated moves, do_move — counts
    exactly the lines of legal moves the rules allow.  One theorem through C01 (the generated list is a permutation of the codes of the
    legal moves: `exact_all`, `C01_no_duplicates`, `legalMoves_nodup`, `decode_codeOf`), C02 (do_move of a code = the rules' apply) and
    the invariance of well-formedness (`wf_apply`). -/
theorem C01_perft (T : ZTable) (d : Nat) : ∀ (p : Position), PlyOK p → Spec.wf (Chess.absPos p) = true → p.halfmove + d < 65535 →
    perftModel T d p = perftSpec d (Chess.absPos p) := by
  induction d with
  | zero => intro p _ _ _; rfl
  | succ d ih =>
    intro p hp hwf hh
    unfold perftModel perftSpec
    -- the generated list is a permutation of the codes of the legal moves
    have hperm : List.Perm (genMoves p) ((Spec.legalMoves (Chess.absPos p)).map (codeOf (Chess.absPos p))) := by
      rw [List.perm_ext_iff_of_nodup (C01_no_duplicates p hwf)]
      · intro c
        rw [exact_all p hwf c, List.mem_map]
      · apply nodup_map_of_inj _ _ (legalMoves_nodup _)
        intro a ha b hb e
        rw [← decode_codeOf p hwf a ha, ← decode_codeOf p hwf b hb, e]
    have h1 := (hperm.map (fun c => perftModel T d (doMove T p c).1)).sum_nat
    rw [h1, List.map_map]
    congr 1
    apply List.map_congr_left
    intro m hm
    simp only [Function.comp]
    obtain ⟨e, hp'⟩ := refine_step T p m (stepOK_of_legal _ hwf m hm) hp (by omega)
    rw [ih _ hp' (by rw [e]; exact wf_apply _ hwf m hm) ?_, e]
    have : (Chess.absPos (doMove T p (codeOf (Chess.absPos p) m)).1).halfmove = (doMove T p (codeOf (Chess.absPos p) m)).1.halfmove := rfl
    rw [← this, e, apply_half]
    have hx : (Chess.absPos p).halfmove = p.halfmove := rfl
    rw [hx]
    split <;> omega

/-- non-vacuity 1: the initial position (20 legal moves, all generated) -/
def c01StartBoard : List Nat :=
  [4, 2, 3, 5, 6, 3, 2, 4, 1, 1, 1, 1, 1, 1, 1, 1] ++ List.replicate 32 0 ++ [7, 7, 7, 7, 7, 7, 7, 7, 10, 8, 9, 11, 12, 9, 8, 10]
def c01Start : Position := { side := 0, halfmove := 0, ply := 1, board := c01StartBoard, castling := 15, ep := 64, hash := {}, history := [] }
set_option maxRecDepth 100000 in
example : Spec.wf (Chess.absPos c01Start) = true ∧ c01Start.ep = 64 ∧ (genMoves c01Start).length = 20 := by decide +kernel

/-- non-vacuity 2: a single check by a bishop with a pinned knight that could otherwise interpose
    (`4k3/4r3/6R1/8/7b/8/3PN3/4K3 w`): king steps and the rook's interposition only -/
def c01CheckBoard : List Nat :=
  (((((List.replicate 64 0).set 4 6).set 11 1).set 12 2).set 31 9).set 46 4 |>.set 52 10 |>.set 60 12
def c01Check : Position := { side := 0, halfmove := 0, ply := 1, board := c01CheckBoard, castling := 0, ep := 64, hash := {}, history := [] }
set_option maxRecDepth 100000 in
example : Spec.wf (Chess.absPos c01Check) = true ∧ c01Check.ep = 64 ∧ Spec.inCheck c01Check.board c01Check.side = true ∧
    (genPins (BBs.of c01Check) c01Check.board c01Check.side).length = 1 ∧ (genMoves c01Check).length = 3 := by decide +kernel

/-- non-vacuity 3: a double check (`4k3/4r3/8/8/7b/8/3P4/4K3 w`): king moves only -/
def c01DblBoard : List Nat := ((((List.replicate 64 0).set 4 6).set 11 1).set 31 9).set 52 10 |>.set 60 12
def c01Dbl : Position := { side := 0, halfmove := 0, ply := 1, board := c01DblBoard, castling := 0, ep := 64, hash := {}, history := [] }
set_option maxRecDepth 100000 in
example : Spec.wf (Chess.absPos c01Dbl) = true ∧ c01Dbl.ep = 64 ∧
    moreThanOne (checkersBB (BBs.of c01Dbl) c01Dbl.board c01Dbl.side) = true ∧ (genMoves c01Dbl).length = 2 := by decide +kernel

end Chess.Props
