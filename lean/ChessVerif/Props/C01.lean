/-
  Props/C01.lean — PROPERTY C01: legal move generation is exact.  Statements only.
  Full statement: C01_Statement.  Proved (partial, named so): the geometric building blocks the generator relies on —
  king and knight steps (via C11), the castling path constants of the build, the pin count, the shape of every
  emitted king move.  The exactness of the whole set is decided by the three-way correspondence against the
  rules spec (tools/vprops.py check_C01) on generated games, the pin × en-passant × check lab and perft.
-/
import ChessVerif.Model.Movegen
import ChessVerif.Spec.Rules
import ChessVerif.Props.C11
import ChessVerif.Lemmas.KingMoves
import ChessVerif.Lemmas.CastleSafe
import ChessVerif.Lemmas.GenShapeWf
namespace Chess.Props

/-- the rules-level move a packed engine move denotes in position p -/
def decodeMove (p : Position) (m : Nat) : Spec.SMove :=
  if moveCastling m = KING_CASTLING then ⟨if p.side = 0 then 4 else 60, if p.side = 0 then 6 else 62, 0⟩
  else if moveCastling m = QUEEN_CASTLING then ⟨if p.side = 0 then 4 else 60, if p.side = 0 then 2 else 58, 0⟩
  else ⟨moveFrom m, moveTo m, movePromo m⟩

def absPos (p : Position) : Spec.SPos := ⟨p.board, p.side, p.castling, p.ep, p.halfmove, (Int.tdiv (p.ply - 1) 2 + 1).toNat⟩

/-- the full statement: no illegal move, no missing move, no duplicate, on every well-formed position -/
def C01_Statement : Prop :=
  ∀ (T : ZTable) (s : String), let p := ofFen T s
    Spec.wf (absPos p) = true →
    (genMoves p).Nodup ∧ (∀ m, m ∈ genMoves p → Spec.legal (absPos p) (decodeMove p m) = true) ∧
    (∀ sm, Spec.legal (absPos p) sm = true → ∃ m, m ∈ genMoves p ∧ decodeMove p m = sm)

/-- C01 (king and knight geometry, partial): the masks the generator uses for king and knight moves are exactly the
    one-step / knight-jump squares on the board (from C11) -/
theorem C01_leaper_geometry_partial (sq : Nat) (hs : sq < 64) :
    kingMask sq = Spec.kingSet sq ∧ knightMask sq = Spec.knightSet sq :=
  ⟨(C11_leapers sq hs).2, (C11_leapers sq hs).1⟩

/-- C01 (slider geometry, partial): the bishop/rook/queen targets the generator considers are the ray walks (C11) -/
theorem C01_slider_geometry_partial (kind sq : Nat) (hs : sq < 64) (occ : BB) :
    sliderAttack kind sq occ = Spec.rayWalk kind sq occ := C11_slider kind sq hs occ

/-- C01 (castling constants, partial): the path masks of the BUILD are f1g1 / c1d1 / f8g8 / c8d8 and the extra
    queen-side blockers are b1 / b8 — the squares the rules require to be empty (and, for the path, unattacked) -/
theorem C01_castling_paths_partial :
    castlingPath W_OO = (sqBB 5 ||| sqBB 6) ∧ castlingPath W_OOO = (sqBB 2 ||| sqBB 3) ∧
    castlingPath B_OO = (sqBB 61 ||| sqBB 62) ∧ castlingPath B_OOO = (sqBB 58 ||| sqBB 59) ∧
    queenCastlingBlock 0 = sqBB 1 ∧ queenCastlingBlock 1 = sqBB 57 := by decide

/-- C01 (king moves, partial): every king move the generator emits goes from the king square to a square of the king
    mask that is neither attacked (with the king x-rayed out) nor occupied by an own piece -/
theorem C01_king_moves_partial (k : Nat) (notAllowed : BB) (m : Nat) (h : m ∈ genKingMoves k notAllowed) :
    ∃ t, t < 64 ∧ m = mkMove k t ∧ (kingMask k).testBit t = true ∧ (bnot notAllowed).testBit t = true := by
  unfold genKingMoves at h
  simp only [List.mem_map] at h
  obtain ⟨t, ht, rfl⟩ := h
  have := (mem_bitsOf _ t).1 ht
  rw [Nat.testBit_and] at this
  simp only [Bool.and_eq_true] at this
  exact ⟨t, this.1, rfl, this.2.1, this.2.2⟩

/-- at most eight pins, one per ray from the king -/
theorem C01_pins_partial (b : BBs) (board : List Nat) (side : Nat) : (genPins b board side).length ≤ 8 := by
  unfold genPins
  exact Nat.le_trans (List.length_filterMap_le _ _) (by simp)

/-- C01 (forbidden squares): on a well-formed position the generator's "forbidden squares" set — built as the union of every
    enemy piece's attack set with the own king x-rayed out of the sliders' way — contains a square exactly when the rules
    call that square attacked on the board from which the own king has been lifted (uses C11 and the symmetry of attacks) -/
theorem C01_forbidden_squares (p : Position) (hwf : Spec.wf (Chess.absPos p) = true) (t : Nat) (ht : t < 64) :
    ∃ k, KingAt p.board p.side k ∧
      (forbiddenSquares (BBs.of p) p.board p.side).testBit t = Spec.attacked (p.board.set k 0) t (1 - p.side) := by
  obtain ⟨hbo, hside, hk, _, _⟩ := wf_board_hyps _ hwf
  obtain ⟨k, hka, _⟩ := hk p.side hside
  obtain ⟨kq, hkq, _⟩ := hk (1 - p.side) (by omega)
  exact ⟨k, hka, forbidden_eq_attacked p p.side t k kq hside ht hbo hka hkq⟩

/-- C01 (king moves, EXACT): on every well-formed position, for every target square, the generator emits the king move
    k→t exactly when that move is legal under the rules and is not a castling move — no missing move, no illegal move.
    (Exactness of the other piece kinds, pins and check evasions is the open part of C01.) -/
theorem C01_king_moves_exact (p : Position) (hwf : Spec.wf (Chess.absPos p) = true) :
    ∃ k, KingAt p.board p.side k ∧ ∀ t, t < 64 →
      ((mkMove k t ∈ genKingMoves k (forbiddenSquares (BBs.of p) p.board p.side ||| (BBs.of p).color p.side)) ↔
        ((⟨k, t, 0⟩ : Spec.SMove) ∈ Spec.legalMoves (Chess.absPos p) ∧ t ≠ k + 2 ∧ t + 2 ≠ k)) := by
  obtain ⟨_, hside, hk, _, _⟩ := wf_board_hyps _ hwf
  obtain ⟨k, hka, _⟩ := hk p.side hside
  obtain ⟨kq, hkq, _⟩ := hk (1 - p.side) (by omega)
  exact ⟨k, hka, fun t ht => king_moves_exact p hwf k kq t ht hka hkq⟩

/-- C01 (the in-check test): on every well-formed position the generator's "checkers set is non-empty" test is
    the rules' "the side to move is in check" -/
theorem C01_in_check_test (p : Position) (hwf : Spec.wf (Chess.absPos p) = true) :
    (checkersBB (BBs.of p) p.board p.side ≠ 0) ↔ Spec.inCheck p.board p.side = true := by
  obtain ⟨hbo, hside, hk, _, _⟩ := wf_board_hyps _ hwf
  obtain ⟨k, hka, hnear⟩ := hk p.side hside
  rw [checkers_ne_zero_iff, isInCheck_eq p p.side k hside hbo hka hnear]

/-- C01 (forbidden squares when not in check): then the generator's forbidden set is exactly "attacked by the opponent"
    on the real board (lifting a king that is not attacked uncovers nothing) -/
theorem C01_forbidden_nocheck (p : Position) (hwf : Spec.wf (Chess.absPos p) = true) (hnc : Spec.inCheck p.board p.side = false)
    (t : Nat) (ht : t < 64) :
    (forbiddenSquares (BBs.of p) p.board p.side).testBit t = Spec.attacked p.board t (1 - p.side) :=
  forbidden_nocheck p hwf hnc t ht

/-- C01 (CASTLING IS EXACT): on a well-formed position whose side to move is not in check, each of the generator's four
    castling tests — right still held, (forbidden ∪ occupied) ∩ path = ∅, and for the queen side the b-file square empty —
    holds exactly when the rules list that castling move (Spec.castleMoves: king and rook at home, squares between them
    empty, king not in check and not passing over or landing on an attacked square); and every castling move the rules
    list is a legal move (it survives the "own king not attacked afterwards" filter).  When the side to move is in check
    the generator emits no castling move and the rules list none. -/
theorem C01_castling_exact (p : Position) (hwf : Spec.wf (Chess.absPos p) = true) (hnc : Spec.inCheck p.board p.side = false) :
    let taken := forbiddenSquares (BBs.of p) p.board p.side ||| (BBs.of p).all
    (p.side = 0 →
      ((p.castling &&& W_OO ≠ 0 ∧ (taken &&& castlingPath W_OO) = 0) ↔ (⟨4, 6, 0⟩ : Spec.SMove) ∈ Spec.castleMoves (Chess.absPos p)) ∧
      ((p.castling &&& W_OOO ≠ 0 ∧ (taken &&& castlingPath W_OOO) = 0 ∧ (queenCastlingBlock 0 &&& (BBs.of p).all) = 0) ↔
        (⟨4, 2, 0⟩ : Spec.SMove) ∈ Spec.castleMoves (Chess.absPos p))) ∧
    (p.side = 1 →
      ((p.castling &&& B_OO ≠ 0 ∧ (taken &&& castlingPath B_OO) = 0) ↔ (⟨60, 62, 0⟩ : Spec.SMove) ∈ Spec.castleMoves (Chess.absPos p)) ∧
      ((p.castling &&& B_OOO ≠ 0 ∧ (taken &&& castlingPath B_OOO) = 0 ∧ (queenCastlingBlock 1 &&& (BBs.of p).all) = 0) ↔
        (⟨60, 58, 0⟩ : Spec.SMove) ∈ Spec.castleMoves (Chess.absPos p))) ∧
    (∀ m, m ∈ Spec.castleMoves (Chess.absPos p) → m ∈ Spec.legalMoves (Chess.absPos p)) := by
  intro taken
  exact ⟨fun hs => ⟨castle_cond_WK p hwf hnc hs, castle_cond_WQ p hwf hnc hs⟩,
         fun hs => ⟨castle_cond_BK p hwf hnc hs, castle_cond_BQ p hwf hnc hs⟩,
         fun m hm => castleMoves_legal _ hwf m hm⟩

/-- … and the generator does emit the castling code when its test holds (the castling tests sit in the not-in-check branch) -/
theorem C01_castling_emitted (p : Position) (h0 : checkersBB (BBs.of p) p.board p.side = 0) :
    let taken := forbiddenSquares (BBs.of p) p.board p.side ||| (BBs.of p).all
    (p.side = 0 → p.castling &&& W_OO ≠ 0 ∧ (taken &&& castlingPath W_OO) = 0 → mkCastling KING_CASTLING ∈ genMoves p) ∧
    (p.side = 0 → p.castling &&& W_OOO ≠ 0 ∧ (taken &&& castlingPath W_OOO) = 0 ∧ (queenCastlingBlock 0 &&& (BBs.of p).all) = 0 →
      mkCastling QUEEN_CASTLING ∈ genMoves p) ∧
    (p.side ≠ 0 → p.castling &&& B_OO ≠ 0 ∧ (taken &&& castlingPath B_OO) = 0 → mkCastling KING_CASTLING ∈ genMoves p) ∧
    (p.side ≠ 0 → p.castling &&& B_OOO ≠ 0 ∧ (taken &&& castlingPath B_OOO) = 0 ∧ (queenCastlingBlock 1 &&& (BBs.of p).all) = 0 →
      mkCastling QUEEN_CASTLING ∈ genMoves p) := by
  intro taken
  have hcond : ¬ (checkersBB (BBs.of p) p.board p.side ≠ 0 ∧ moreThanOne (checkersBB (BBs.of p) p.board p.side) = true) := by
    rw [h0]; simp
  have hne : ¬ (checkersBB (BBs.of p) p.board p.side ≠ 0) := by rw [h0]; simp
  refine ⟨?_, ?_, ?_, ?_⟩
  · intro hs hc
    unfold genMoves
    simp only []
    rw [if_neg hcond, if_neg hne]
    apply List.mem_append_left
    apply List.mem_append_right
    rw [if_pos hs, if_pos hc]
    exact List.mem_singleton.2 rfl
  · intro hs hc
    unfold genMoves
    simp only []
    rw [if_neg hcond, if_neg hne]
    apply List.mem_append_right
    rw [if_pos hs, if_pos hc]
    exact List.mem_singleton.2 rfl
  · intro hs hc
    unfold genMoves
    simp only []
    rw [if_neg hcond, if_neg hne]
    apply List.mem_append_left
    apply List.mem_append_right
    rw [if_neg hs, if_pos hc]
    exact List.mem_singleton.2 rfl
  · intro hs hc
    unfold genMoves
    simp only []
    rw [if_neg hcond, if_neg hne]
    apply List.mem_append_right
    rw [if_neg hs, if_pos hc]
    exact List.mem_singleton.2 rfl

/-- **no move appears twice** (the third clause of C01), for every well-formed position: the generated list is duplicate-free.
    Proof (Lemmas/GenBasics.lean, GenPawn.lean, GenPins.lean, GenShape.lean): `bitsOf` is strictly increasing; every group of the
    generator is described by the kind of the piece on the origin square and whether that square is pinned, the seven pawn groups
    by offset and promotion (`PawnMv`, `pawnIdxOf`), the en-passant captures by their empty target (never in the capture mask),
    pins on different rays name different squares (finite bit-scan tables over king square × ray × subset of the ray, evaluated in the
    kernel), castling codes differ from every 15-bit code. -/
theorem C01_no_duplicates (p : Position) (hwf : Spec.wf (Chess.absPos p) = true) : (genMoves p).Nodup :=
  genMoves_nodup p hwf

/-- every generated move is one of the two castling codes or the 15-bit code of (from, to, promotion) with an own piece on `from`
    and a promotion piece N/B/R/Q exactly when a pawn arrives on an end rank -/
theorem C01_move_shape (p : Position) (hwf : Spec.wf (Chess.absPos p) = true) : genShapeB p = true :=
  genShapeB_of_wf p hwf

end Chess.Props
