/-
  Props/C01.lean — PROPERTY C01: legal move generation is exact.  Statements only.
  Full statement: C01_Statement.  Proved (partial, named so): the geometric building blocks the generator relies on —
  king and knight steps (via C11), the castling path constants of the build, the pin count, the shape of every
  emitted king move.  The exactness of the whole set is decided by the three-way correspondence against the
  rules spec (tools/vprops.py check_C01) on generated games, the pin × en-passant × check lab and perft.
-/
import ChessVerif.Model.Movegen
import ChessVerif.Spec.Rules
import ChessVerif.Props.C11
namespace Chess.Props

/-- the rules-level move a packed engine move denotes in position p -/
def decodeMove (p : Position) (m : Nat) : Spec.SMove :=
  if moveCastling m = KING_CASTLING then ⟨if p.side = 0 then 4 else 60, if p.side = 0 then 6 else 62, 0⟩
  else if moveCastling m = QUEEN_CASTLING then ⟨if p.side = 0 then 4 else 60, if p.side = 0 then 2 else 58, 0⟩
  else ⟨moveFrom m, moveTo m, movePromo m⟩

def absPos (p : Position) : Spec.SPos := ⟨p.board, p.side, p.castling, p.ep, p.halfmove, (Int.tdiv (p.ply - 1) 2 + 1).toNat⟩

/-- the full statement: no illegal move, no missing move, no duplicate, on every well-formed position -/
def C01_Statement : Prop :=
  ∀ (T : ZTable) (s : String), let p := ofFen T s
    Spec.wf (absPos p) = true →
    (genMoves p).Nodup ∧ (∀ m, m ∈ genMoves p → Spec.legal (absPos p) (decodeMove p m) = true) ∧
    (∀ sm, Spec.legal (absPos p) sm = true → ∃ m, m ∈ genMoves p ∧ decodeMove p m = sm)

/-- C01 (king and knight geometry, partial): the masks the generator uses for king and knight moves are exactly the
    one-step / knight-jump squares on the board (from C11) -/
theorem C01_leaper_geometry_partial (sq : Nat) (hs : sq < 64) :
    kingMask sq = Spec.kingSet sq ∧ knightMask sq = Spec.knightSet sq :=
  ⟨(C11_leapers sq hs).2, (C11_leapers sq hs).1⟩

/-- C01 (slider geometry, partial): the bishop/rook/queen targets the generator considers are the ray walks (C11) -/
theorem C01_slider_geometry_partial (kind sq : Nat) (hs : sq < 64) (occ : BB) :
    sliderAttack kind sq occ = Spec.rayWalk kind sq occ := C11_slider kind sq hs occ

/-- C01 (castling constants, partial): the path masks of the BUILD are f1g1 / c1d1 / f8g8 / c8d8 and the extra
    queen-side blockers are b1 / b8 — the squares the rules require to be empty (and, for the path, unattacked) -/
theorem C01_castling_paths_partial :
    castlingPath W_OO = (sqBB 5 ||| sqBB 6) ∧ castlingPath W_OOO = (sqBB 2 ||| sqBB 3) ∧
    castlingPath B_OO = (sqBB 61 ||| sqBB 62) ∧ castlingPath B_OOO = (sqBB 58 ||| sqBB 59) ∧
    queenCastlingBlock 0 = sqBB 1 ∧ queenCastlingBlock 1 = sqBB 57 := by decide

/-- C01 (king moves, partial): every king move the generator emits goes from the king square to a square of the king
    mask that is neither attacked (with the king x-rayed out) nor occupied by an own piece -/
theorem C01_king_moves_partial (k : Nat) (notAllowed : BB) (m : Nat) (h : m ∈ genKingMoves k notAllowed) :
    ∃ t, t < 64 ∧ m = mkMove k t ∧ (kingMask k).testBit t = true ∧ (bnot notAllowed).testBit t = true := by
  unfold genKingMoves at h
  simp only [List.mem_map] at h
  obtain ⟨t, ht, rfl⟩ := h
  have := (mem_bitsOf _ t).1 ht
  rw [Nat.testBit_and] at this
  simp only [Bool.and_eq_true] at this
  exact ⟨t, this.1, rfl, this.2.1, this.2.2⟩

/-- at most eight pins, one per ray from the king -/
theorem C01_pins_partial (b : BBs) (board : List Nat) (side : Nat) : (genPins b board side).length ≤ 8 := by
  unfold genPins
  exact Nat.le_trans (List.length_filterMap_le _ _) (by simp)

end Chess.Props
