/-
  Props/C16.lean — PROPERTY C16: move text, move encoding and FEN round-trip.  Statements only.
-/
import ChessVerif.Model.Text
namespace Chess.Props

-- (a) packed Move encoding ------------------------------------------------------------------------
def encOK : Bool :=
  (List.range 64).all fun f => (List.range 64).all fun t => (List.range 8).all fun k =>
    moveFrom (mkPromotion f t k) == f && moveTo (mkPromotion f t k) == t && movePromo (mkPromotion f t k) == k &&
    moveCastling (mkPromotion f t k) == 0 && (k != 0 || mkMove f t == mkPromotion f t k)

theorem encOK_true : encOK = true := by decide +kernel

/-- every (from, to, promotion) triple decodes to the fields it was built from, and is not a castling code -/
theorem C16_encoding (f t k : Nat) (hf : f < 64) (ht : t < 64) (hk : k < 8) :
    moveFrom (mkPromotion f t k) = f ∧ moveTo (mkPromotion f t k) = t ∧ movePromo (mkPromotion f t k) = k ∧
    moveCastling (mkPromotion f t k) = 0 := by
  have h := encOK_true
  simp only [encOK, List.all_eq_true, List.mem_range, Bool.and_eq_true, beq_iff_eq] at h
  have := h f hf t ht k hk
  exact ⟨this.1.1.1.1, this.1.1.1.2, this.1.1.2, this.1.2⟩

theorem C16_encoding_move (f t : Nat) (hf : f < 64) (ht : t < 64) :
    moveFrom (mkMove f t) = f ∧ moveTo (mkMove f t) = t ∧ movePromo (mkMove f t) = 0 ∧ moveCastling (mkMove f t) = 0 := by
  have h := encOK_true
  simp only [encOK, List.all_eq_true, List.mem_range, Bool.and_eq_true, beq_iff_eq, Bool.or_eq_true, bne_iff_ne] at h
  have h0 := h f hf t ht 0 (by decide)
  have e : mkMove f t = mkPromotion f t 0 := by
    rcases h0.2 with h1 | h1
    · exact absurd rfl h1
    · exact h1
  rw [e]
  exact ⟨h0.1.1.1.1, h0.1.1.1.2, h0.1.1.2, h0.1.2⟩

/-- the two castling codes decode to their castling kind (and a castling code is never NO_MOVE) -/
theorem C16_castle_code :
    moveCastling (mkCastling KING_CASTLING) = KING_CASTLING ∧ moveCastling (mkCastling QUEEN_CASTLING) = QUEEN_CASTLING ∧
    mkCastling KING_CASTLING ≠ noMove ∧ mkCastling QUEEN_CASTLING ≠ noMove ∧ mkCastling KING_CASTLING ≠ mkCastling QUEEN_CASTLING := by
  decide

-- (b) packed MoveInfo ------------------------------------------------------------------------------
private theorem or_eq_add (a b i : Nat) (h : b < 2^i) : a <<< i ||| b = a * 2^i + b := by
  rw [← Nat.shiftLeft_add_eq_or_of_lt h, Nat.shiftLeft_eq]

private theorem mi_value (cap rights ep clock : Nat) (isEp : Bool) (hc : cap < 8) (hr : rights < 16) (he : ep < 64) :
    mkMoveInfo cap rights ep isEp clock =
      clock * 32768 + (if isEp then 1 else 0) * 16384 + 8192 + ep * 128 + rights * 8 + cap := by
  have hne : ep ≠ noSquare := by unfold noSquare; omega
  simp only [mkMoveInfo, hne, ne_eq, not_false_eq_true, if_true]
  have e1 : rights <<< 3 ||| cap = rights * 8 + cap := by rw [or_eq_add _ _ _ (by omega)]
  have e2 : ep <<< 7 ||| (rights * 8 + cap) = ep * 128 + (rights * 8 + cap) := by rw [or_eq_add _ _ _ (by omega)]
  have e3 : 1 <<< 13 ||| (ep * 128 + (rights * 8 + cap)) = 8192 + (ep * 128 + (rights * 8 + cap)) := by
    rw [or_eq_add _ _ _ (by omega)]
  have e4 : (if isEp then 1 else 0) <<< 14 ||| (8192 + (ep * 128 + (rights * 8 + cap))) =
      (if isEp then 1 else 0) * 16384 + (8192 + (ep * 128 + (rights * 8 + cap))) := by
    rw [or_eq_add _ _ _ (by omega)]
  have e5 : clock <<< 15 ||| ((if isEp then 1 else 0) * 16384 + (8192 + (ep * 128 + (rights * 8 + cap)))) =
      clock * 32768 + ((if isEp then 1 else 0) * 16384 + (8192 + (ep * 128 + (rights * 8 + cap)))) := by
    rw [or_eq_add _ _ _ (by cases isEp <;> simp <;> omega)]
  simp only [Nat.or_assoc]
  rw [e1, e2, e3, e4, e5]
  omega

private theorem mi_value_none (cap rights clock : Nat) (isEp : Bool) (hc : cap < 8) (hr : rights < 16) :
    mkMoveInfo cap rights noSquare isEp clock = clock * 32768 + (if isEp then 1 else 0) * 16384 + rights * 8 + cap := by
  simp only [mkMoveInfo, ne_eq, not_true_eq_false, if_false]
  have e1 : rights <<< 3 ||| cap = rights * 8 + cap := by rw [or_eq_add _ _ _ (by omega)]
  have e4 : (if isEp then 1 else 0) <<< 14 ||| (rights * 8 + cap) = (if isEp then 1 else 0) * 16384 + (rights * 8 + cap) := by
    rw [or_eq_add _ _ _ (by omega)]
  have e5 : clock <<< 15 ||| ((if isEp then 1 else 0) * 16384 + (rights * 8 + cap)) =
      clock * 32768 + ((if isEp then 1 else 0) * 16384 + (rights * 8 + cap)) := by
    rw [or_eq_add _ _ _ (by cases isEp <;> simp <;> omega)]
  simp only [Nat.or_assoc]
  rw [e1, e4, e5]
  omega

private theorem and7 (x : Nat) : x &&& 0x7 = x % 8 := Nat.and_two_pow_sub_one_eq_mod x 3
private theorem andF (x : Nat) : x &&& 0xF = x % 16 := Nat.and_two_pow_sub_one_eq_mod x 4
private theorem and3F (x : Nat) : x &&& 0x3F = x % 64 := Nat.and_two_pow_sub_one_eq_mod x 6
private theorem andFF (x : Nat) : x &&& 0xFFFF = x % 65536 := Nat.and_two_pow_sub_one_eq_mod x 16
private theorem and1 (x : Nat) : x &&& 1 = x % 2 := Nat.and_two_pow_sub_one_eq_mod x 1

/-- every MoveInfo unpacks to what was packed: captured kind 0..7, rights 0..15, ep square 0..63 or none (64),
    ep flag, 8-bit clock — for ALL field values in range (by arithmetic, not enumeration) -/
theorem C16_moveinfo (cap rights ep clock : Nat) (isEp : Bool)
    (hc : cap < 8) (hr : rights < 16) (he : ep < 65) (hk : clock < 65536) :
    let mi := mkMoveInfo cap rights ep isEp clock
    miCaptured mi = cap ∧ miLastCastling mi = rights ∧ miLastEp mi = ep ∧ miIsEp mi = isEp ∧ miClock mi = clock := by
  intro mi
  by_cases h64 : ep = 64
  · subst h64
    have hv : mi = clock * 32768 + (if isEp then 1 else 0) * 16384 + rights * 8 + cap := mi_value_none cap rights clock isEp hc hr
    simp only [miCaptured, miLastCastling, miLastEp, miIsEp, miClock, Nat.shiftRight_eq_div_pow, and7, andF, and3F, andFF, and1, hv, noSquare]
    cases isEp <;> simp <;> (repeat' constructor) <;> (first | omega | (split <;> omega))
  · have he' : ep < 64 := by omega
    have hv : mi = clock * 32768 + (if isEp then 1 else 0) * 16384 + 8192 + ep * 128 + rights * 8 + cap := mi_value cap rights ep clock isEp hc hr he'
    simp only [miCaptured, miLastCastling, miLastEp, miIsEp, miClock, Nat.shiftRight_eq_div_pow, and7, andF, and3F, andFF, and1, hv, noSquare]
    cases isEp <;> simp <;> (repeat' constructor) <;> (first | omega | (split <;> omega))

-- (c) UCI text ----------------------------------------------------------------------------------------
def uciTextOK : Bool :=
  (List.range 64).all fun f => (List.range 64).all fun t => [0, 2, 3, 4, 5].all fun k =>
    parseUciSquares (uciPlain f t k) == some (f, t, k)

theorem uciTextOK_true : uciTextOK = true := by decide +kernel

/-- printing any (from, to, promotion) and reading it back gives the same triple -/
theorem C16_uci_text (f t k : Nat) (hf : f < 64) (ht : t < 64) (hk : k ∈ [0, 2, 3, 4, 5]) :
    parseUciSquares (uciPlain f t k) = some (f, t, k) := by
  have h := uciTextOK_true
  simp only [uciTextOK, List.all_eq_true, List.mem_range, beq_iff_eq] at h
  exact h f hf t ht k hk

/-- what distinguishes a generated non-castling move: it is not a king standing on e1/e8 and moving two files -/
def NotCastleLike (p : Position) (f t : Nat) : Prop :=
  ¬ (kindOf (p.at f) = KING ∧ ((f = 4 ∧ (t = 6 ∨ t = 2)) ∨ (f = 60 ∧ (t = 62 ∨ t = 58))))

/-- C16 (uci): parse_uci (uci m) = m for every non-castling move with squares in range whose text is not the
    castling text of a king on its home square … -/
theorem C16_uci_plain (p : Position) (f t k : Nat) (hf : f < 64) (ht : t < 64) (hk : k ∈ [0, 2, 3, 4, 5])
    (hn : NotCastleLike p f t) : parseUci p (uci p (mkPromotion f t k)) = some (mkPromotion f t k) := by
  have hk8 : k < 8 := by simp at hk; omega
  obtain ⟨e1, e2, e3, e4⟩ := C16_encoding f t k hf ht hk8
  have hu : uci p (mkPromotion f t k) = uciPlain f t k := by
    simp [uci, e1, e2, e3, e4]
  rw [hu, parseUci, C16_uci_text f t k hf ht hk]
  simp only [castleFix]
  unfold NotCastleLike at hn
  by_cases hK : kindOf (p.at f) = KING
  · simp only [hK, true_and, not_or, not_and] at hn
    have a1 : ¬ (f = 4 ∧ t = 6) := fun h => (hn.1 h.1).1 h.2
    have a2 : ¬ (f = 4 ∧ t = 2) := fun h => (hn.1 h.1).2 h.2
    have a3 : ¬ (f = 60 ∧ t = 62) := fun h => (hn.2 h.1).1 h.2
    have a4 : ¬ (f = 60 ∧ t = 58) := fun h => (hn.2 h.1).2 h.2
    simp [hK, a1, a2, a3, a4]
  · simp [hK]

/-- … and for the castling codes when the mover's king stands on its home square -/
theorem C16_uci_castle (p : Position) (c : Nat) (hc : c = KING_CASTLING ∨ c = QUEEN_CASTLING) (hs : p.side ≤ 1)
    (hk : kindOf (p.at (if p.side = 0 then 4 else 60)) = KING) :
    parseUci p (uci p (mkCastling c)) = some (mkCastling c) := by
  have hside : p.side = 0 ∨ p.side = 1 := by omega
  rcases hc with rfl | rfl <;> rcases hside with h | h <;> simp [h] at hk <;>
    simp [uci, parseUci, parseUciSquares, castleFix, h, hk, mkCastling, moveCastling, KING_CASTLING, QUEEN_CASTLING, mkSquare] <;> decide

/-- non-vacuity: the start position's e2e4 and a castling move of a castling-ready position -/
example : parseUci (ofFen zeroTable startFen) (uci (ofFen zeroTable startFen) (mkMove 12 28)) = some (mkMove 12 28) := by decide
example : parseUci (ofFen zeroTable "r3k2r/8/8/8/8/8/8/R3K2R w KQkq - 0 1")
    (uci (ofFen zeroTable "r3k2r/8/8/8/8/8/8/R3K2R w KQkq - 0 1") kingCastlingMove) = some kingCastlingMove := by decide

end Chess.Props
