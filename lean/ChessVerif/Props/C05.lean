/-
  Props/C05.lean — PROPERTY C05: every `go` is answered by exactly one legal `bestmove`.  Statements only.
  The theorems are about the trace automaton of Model/SearchTrace.lean; real search runs are tied to it by
  trace acceptance (tools/vprops.py check_C05).  Stops may arrive anywhere and table events carry arbitrary
  payloads in an accepted trace, which is how "every schedule" and "every table content" are quantified.
-/
import ChessVerif.Lemmas.Trace
import ChessVerif.Lemmas.TracePV
import ChessVerif.Lemmas.WfStep
namespace Chess.Props

/-- C05 (bestmove): every accepted trace over a non-empty root move list ends with EXACTLY ONE bestmove, and it
    names one of the root moves (the generated legal moves, or the searchmoves list) — whatever stops and
    table hits occurred, also when no iteration completed. -/
theorem C05_bestmove (root : Position) (R : List Nat) (t : List Ev) (s : AState)
    (h : acceptTrace root R t = .ok s) (hne : R ≠ []) : ∃ m, s.bestMoves = [m] ∧ m ∈ R := by
  unfold acceptTrace at h
  split at h
  · cases h
  · rename_i s1 hrun
    split at h <;> try (cases h)
    split at h <;> try (cases h)
    rename_i hlen
    have inv := run_inv R t (initState root R) s 0 hrun (init_inv root R)
    have hl : s.bestMoves.length = 1 := Decidable.not_not.mp hlen
    match hb : s.bestMoves, hl with
    | [m], _ =>
      refine ⟨m, rfl, ?_⟩
      have hbest := inv.bm m (by rw [hb]; simp)
      rcases inv.best m hbest with h1 | h1
      · exact h1
      · exact absurd h1 hne

/-- the root list of a `go` without searchmoves is the generated move list, so the bestmove is a generated move -/
theorem C05_bestmove_generated (root : Position) (t : List Ev) (s : AState)
    (h : acceptTrace root (genMoves root) t = .ok s) (hne : genMoves root ≠ []) :
    ∃ m, s.bestMoves = [m] ∧ m ∈ genMoves root :=
  C05_bestmove root (genMoves root) t s h hne

/-- C05 (bestmove, in the rules' terms): on a well-formed root position the bestmove of a `go` without searchmoves is the code of a move
    that is legal under the rules (C01: the generated list is exactly the legal moves) -/
theorem C05_bestmove_legal (root : Position) (hwf : Spec.wf (Chess.absPos root) = true) (t : List Ev) (s : AState)
    (h : acceptTrace root (genMoves root) t = .ok s) (hne : genMoves root ≠ []) :
    ∃ m sm, s.bestMoves = [m] ∧ sm ∈ Spec.legalMoves (Chess.absPos root) ∧ codeOf (Chess.absPos root) sm = m := by
  obtain ⟨m, hb, hm⟩ := C05_bestmove root (genMoves root) t s h hne
  obtain ⟨sm, hsm, hc⟩ := (exact_all root hwf m).1 hm
  exact ⟨m, sm, hb, hsm, hc⟩

/-- C05 (principal variations): every pv that an accepted trace reports at the end of an iteration is a line of
    GENERATED moves from the root — each move is generated in the position where it is played — whatever stops, table
    hits (TT_CUT / PV_SET payloads are arbitrary) and re-searches occurred.  Proved by the invariant `PVInv` over the
    automaton (Lemmas/TracePV.lean): a node's pv slot, once cleared by that visit, always holds a legal line from the
    node's position; PV_ADD may only prepend the move under which a deeper node was actually visited. -/
theorem C05_pv_legal (root : Position) (R : List Nat) (t : List Ev) (s : AState)
    (h : acceptTrace root R t = .ok s) : ∀ pv, pv ∈ s.reportedPVs → legalLine root pv = true := by
  unfold acceptTrace at h
  split at h
  · cases h
  · rename_i s1 hrun
    split at h <;> try (cases h)
    split at h <;> try (cases h)
    have inv := run_pv root t (initState root R) s 0 hrun (init_pv root R)
    intro pv hpv
    have := inv.reported pv hpv
    rw [inv.rootc] at this
    exact this

/-- the engine codes of a line of rules-level moves, each taken in the position reached so far -/
def codesOf : Spec.SPos → List Spec.SMove → List Nat
  | _, [] => []
  | s, m :: ms => codeOf s m :: codesOf (Spec.apply s m) ms

/-- a line that is playable in the model (each move generated where it is played) is the code sequence of a legal game continuation
    under the rules — from C01 (generated = legal), C02 (do_move = the rules' apply) and the invariance of well-formedness -/
theorem legalLine_rules (codes : List Nat) : ∀ (p : Position), PlyOK p → Spec.wf (Chess.absPos p) = true →
    p.halfmove + codes.length < 65535 → legalLine p codes = true →
    ∃ sms, LegalGame (Chess.absPos p) sms ∧ codesOf (Chess.absPos p) sms = codes := by
  induction codes with
  | nil => intro p _ _ _ _; exact ⟨[], trivial, rfl⟩
  | cons c cs ih =>
    intro p hp hwf hh h
    unfold legalLine at h
    simp only [Bool.and_eq_true, List.contains_iff_mem] at h
    obtain ⟨hc, hrest⟩ := h
    obtain ⟨sm, hsm, hcode⟩ := (exact_all p hwf c).1 hc
    simp only [List.length_cons] at hh
    have hstep := refine_step T0 p sm (stepOK_of_legal _ hwf sm hsm) hp (by omega)
    obtain ⟨e, hp'⟩ := hstep
    rw [← hcode] at hrest
    have hwf' : Spec.wf (Chess.absPos (doMove T0 p (codeOf (Chess.absPos p) sm)).1) = true := by rw [e]; exact wf_apply _ hwf sm hsm
    have hh' : (doMove T0 p (codeOf (Chess.absPos p) sm)).1.halfmove + cs.length < 65535 := by
      have : (Chess.absPos (doMove T0 p (codeOf (Chess.absPos p) sm)).1).halfmove = (doMove T0 p (codeOf (Chess.absPos p) sm)).1.halfmove := rfl
      rw [← this, e, apply_half]
      have hx : (Chess.absPos p).halfmove = p.halfmove := rfl
      rw [hx]
      split <;> omega
    obtain ⟨sms, hg, hcs⟩ := ih _ hp' hwf' hh' hrest
    rw [e] at hg hcs
    exact ⟨sm :: sms, ⟨hsm, hg⟩, by show codeOf _ sm :: codesOf _ sms = c :: cs; rw [hcode, hcs]⟩

/-- C05 (principal variations, in the rules' terms): on a well-formed root every reported pv is the code sequence of a line of moves
    each legal under the rules in the position reached so far -/
theorem C05_pv_legal_rules (root : Position) (hp : PlyOK root) (hwf : Spec.wf (Chess.absPos root) = true) (R : List Nat) (t : List Ev) (s : AState)
    (h : acceptTrace root R t = .ok s) : ∀ pv, pv ∈ s.reportedPVs → root.halfmove + pv.length < 65535 →
      ∃ sms, LegalGame (Chess.absPos root) sms ∧ codesOf (Chess.absPos root) sms = pv := by
  intro pv hpv hh
  exact legalLine_rules pv root hp hwf hh (C05_pv_legal root R t s h pv hpv)

/-- non-vacuity: the shortest accepted trace — the stop is seen at once, no iteration completes, the fallback
    root move is reported -/
example : (match acceptTrace {} [mkMove 8 16, mkMove 12 28]
    [.bestSet (mkMove 8 16), .bestMove (mkMove 8 16)] with | .ok s => s.bestMoves == [mkMove 8 16] | .error _ => false) = true := by decide

end Chess.Props
