/-
  Props/C02.lean — PROPERTY C02: making a move follows the rules of chess.  Statements only.

  The rules are `Spec.apply` (Spec/Rules.lean, 26 lines: placement incl. castling rook / en-passant victim / promotion,
  rights lost by king moves, rook moves and rook captures on the corner squares, en-passant target after a double
  step, half-move clock reset by pawn moves and captures only, full-move number after Black's move).
  `absPos` reads the six FEN fields off the model position.  The theorems say: one do_move of the model is one
  `Spec.apply`, and so is any replayed sequence.
-/
import ChessVerif.Lemmas.Refine
import ChessVerif.Lemmas.LegalShape
import ChessVerif.Lemmas.WfStep
namespace Chess.Props

/-- C02 (one move): for every rules-level move `m` that has the shape of a legal move in a well-formed position
    (`StepOK`: decidable, evaluated on EVERY legal move of every visited position by the correspondence run), the model's
    do_move of the engine's code for `m` yields exactly the position the rules prescribe — all six FEN fields — for every
    Zobrist table.  Standing assumption: the half-move clock is below 65535 (it is a uint16_t in the engine). -/
theorem C02_step (T : ZTable) (p : Position) (m : Spec.SMove) (ok : StepOK (absPos p) m) (hp : PlyOK p) (hh : p.halfmove < 65535) :
    absPos (doMove T p (codeOf (absPos p) m)).1 = Spec.apply (absPos p) m :=
  (refine_step T p m ok hp hh).1

/-- replaying a list of rules-level moves on the model (what `position … moves …` does after parse_uci) -/
def replayModel (T : ZTable) : Position → List Spec.SMove → Position
  | p, [] => p
  | p, m :: ms => replayModel T (doMove T p (codeOf (absPos p) m)).1 ms

/-- the hypotheses along a replay, stated on the RULES side only -/
def ReplayOK : Spec.SPos → List Spec.SMove → Prop
  | _, [] => True
  | s, m :: ms => StepOK s m ∧ s.halfmove < 65535 ∧ ReplayOK (Spec.apply s m) ms

/-- C02 (sequences of any length) -/
theorem C02_replay (T : ZTable) (ms : List Spec.SMove) : ∀ (p : Position), PlyOK p → ReplayOK (absPos p) ms →
    absPos (replayModel T p ms) = ms.foldl Spec.apply (absPos p) := by
  induction ms with
  | nil => intro p _ _; rfl
  | cons m ms ih =>
    intro p hp h
    obtain ⟨h1, h2, h3⟩ := h
    have hh : p.halfmove < 65535 := h2
    obtain ⟨e, hp'⟩ := refine_step T p m h1 hp hh
    show absPos (replayModel T (doMove T p (codeOf (absPos p) m)).1 ms) = ms.foldl Spec.apply (Spec.apply (absPos p) m)
    rw [← e]
    exact ih _ hp' (by rw [e]; exact h3)

/-- C02 (FULL, one move): for every model position whose six FEN fields form a well-formed position (`Spec.wf`: the
    quantifier of the property) and EVERY move that is legal under the rules there, do_move of the engine's code for that move
    produces exactly the position the rules prescribe — placement, side, castling rights, en-passant square, half-move
    clock, full-move number.  No shape hypothesis is left: `StepOK` is derived from `Spec.wf` and legality
    (Lemmas/LegalShape.lean).  Standing assumptions: ply counter in step with the side (true after every FEN load with
    full-move number ≥ 1, kept by every move) and clock < 65535 (uint16_t). -/
theorem C02_full (T : ZTable) (p : Position) (m : Spec.SMove) (hwf : Spec.wf (absPos p) = true)
    (hm : m ∈ Spec.legalMoves (absPos p)) (hp : PlyOK p) (hh : p.halfmove < 65535) :
    absPos (doMove T p (codeOf (absPos p) m)).1 = Spec.apply (absPos p) m :=
  C02_step T p m (stepOK_of_legal _ hwf m hm) hp hh

/-- the hypotheses along a replay of legal moves, on the RULES side only: each position well-formed, each move legal -/
def ReplayLegal : Spec.SPos → List Spec.SMove → Prop
  | _, [] => True
  | s, m :: ms => Spec.wf s = true ∧ m ∈ Spec.legalMoves s ∧ s.halfmove < 65535 ∧ ReplayLegal (Spec.apply s m) ms

/-- C02 (FULL, sequences): replaying any sequence of legal moves from a well-formed position (what `position … moves …`
    does) leaves the model in exactly the position the rules give after the same sequence -/
theorem C02_replay_legal (T : ZTable) (ms : List Spec.SMove) : ∀ (p : Position), PlyOK p → ReplayLegal (absPos p) ms →
    absPos (replayModel T p ms) = ms.foldl Spec.apply (absPos p) := by
  intro p hp h
  apply C02_replay T ms p hp
  induction ms generalizing p with
  | nil => trivial
  | cons m ms ih =>
    obtain ⟨h1, h2, h3, h4⟩ := h
    have hs := stepOK_of_legal _ h1 m h2
    obtain ⟨e, hp'⟩ := refine_step T p m hs hp h3
    refine ⟨hs, h3, ?_⟩
    rw [← e]
    exact ih _ hp' (by rw [e]; exact h4)

/-- the clauses the property names, read off the rules: castling does not reset the clock -/
theorem C02_castling_clock (T : ZTable) (p : Position) (m : Spec.SMove) (ok : StepOK (absPos p) m) (hp : PlyOK p) (hh : p.halfmove < 65535)
    (hc : kindOf (gd p.board m.src) = KING ∧ (m.dst = m.src + 2 ∨ m.dst + 2 = m.src)) :
    (doMove T p (codeOf (absPos p) m)).1.halfmove = p.halfmove + 1 := by
  have h := congrArg Spec.SPos.halfmove (C02_step T p m ok hp hh)
  have hx : (absPos (doMove T p (codeOf (absPos p) m)).1).halfmove = (doMove T p (codeOf (absPos p) m)).1.halfmove := rfl
  rw [hx] at h
  rw [h, apply_half, isCapture_eq]
  obtain ⟨_, _, hK, hQ⟩ := ok.castle hc
  have hk1 : ¬ kindOf (gd p.board m.src) = 1 := by rw [hc.1]; decide
  have hnotep : Spec.isEpCapture (absPos p) m = false := by
    apply Bool.eq_false_iff.2
    intro h'
    exact hk1 ((isEp_iff _ _).1 h').1
  have hdst : gd p.board m.dst = 0 := by
    rcases hc.2 with hd | hd
    · rw [hd]; exact (hK hd).2.1
    · have : m.dst = m.src - 2 := by omega
      rw [this]; exact (hQ hd).2.1
  rw [hnotep]
  show (if (decide (kindOf (gd p.board m.src) = 1) || (decide (gd p.board m.dst ≠ 0) || false)) = true then 0 else p.halfmove + 1) = _
  simp [hk1, hdst]

/-- C02 (the quantifier is closed under legal play): the position the rules give after a legal move of a well-formed position is
    well-formed again — board shape, piece counts (captures, promotions), the kings apart, the side that has just moved not in check,
    no pawn on an end rank, castling rights only with king and rook at home, and an en-passant square only behind a pawn that has just
    made a double step from an empty origin over an empty square (Lemmas/WfStep.lean) -/
theorem C02_wf_invariant (s : Spec.SPos) (hwf : Spec.wf s = true) (m : Spec.SMove) (hm : m ∈ Spec.legalMoves s) :
    Spec.wf (Spec.apply s m) = true := wf_apply s hwf m hm

theorem replayLegal_of_game (s : Spec.SPos) (hwf : Spec.wf s = true) (ms : List Spec.SMove) (hg : LegalGame s ms)
    (hh : s.halfmove + ms.length < 65535) : ReplayLegal s ms := by
  induction ms generalizing s with
  | nil => trivial
  | cons m ms ih =>
    obtain ⟨h1, h2⟩ := hg
    simp only [List.length_cons] at hh
    refine ⟨hwf, h1, by omega, ih (Spec.apply s m) (wf_apply s hwf m h1) h2 ?_⟩
    rw [apply_half]
    split <;> omega

/-- **C02 (FULL, games)**: replaying ANY legal game — each move legal under the rules in the position reached so far — from a
    well-formed position leaves the model in exactly the position the rules give, and that position is well-formed again (so every
    position theorem applies to it).  The only standing assumptions: ply counter in step with the side, and the half-move clock stays
    below 65535 (it is a uint16_t). -/
theorem C02_game (T : ZTable) (ms : List Spec.SMove) (p : Position) (hp : PlyOK p) (hwf : Spec.wf (absPos p) = true)
    (hg : LegalGame (absPos p) ms) (hh : p.halfmove + ms.length < 65535) :
    absPos (replayModel T p ms) = ms.foldl Spec.apply (absPos p) ∧ Spec.wf (ms.foldl Spec.apply (absPos p)) = true :=
  ⟨C02_replay_legal T ms p hp (replayLegal_of_game (absPos p) hwf ms hg hh), wf_game (absPos p) hwf ms hg⟩

/-- every position of every legal game from the initial position is well-formed -/
theorem C02_reachable_wf (ms : List Spec.SMove) (h : LegalGame startSPos ms) : Spec.wf (ms.foldl Spec.apply startSPos) = true :=
  wf_reachable ms h

/-- non-vacuity: 1.e4 from the start position satisfies the hypotheses (start position written out) -/
def startBoard : List Nat :=
  [4, 2, 3, 5, 6, 3, 2, 4, 1, 1, 1, 1, 1, 1, 1, 1] ++ List.replicate 32 0 ++ [7, 7, 7, 7, 7, 7, 7, 7, 10, 8, 9, 11, 12, 9, 8, 10]
def startModel : Position := { side := 0, halfmove := 0, ply := 1, board := startBoard, castling := 15, ep := 64, hash := {}, history := [] }

example : StepOK (absPos startModel) ⟨12, 28, 0⟩ ∧ PlyOK startModel ∧ startModel.halfmove < 65535 := by
  refine ⟨⟨by decide, by decide, by decide, by decide, by decide, by decide, by decide, by decide, by decide, by decide, by decide, by decide, by decide⟩, by decide, by decide⟩

end Chess.Props
