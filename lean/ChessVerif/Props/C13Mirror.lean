/-
  Props/C13Mirror.lean — PROPERTY C13, what is proved about the model's evaluator under the colour mirror beyond the primitives of
  Props/C13.lean: the material signature, hence the game-phase weight that tapers the evaluation, and the "enough mating material"
  guard (the property's own quantifier) are mirror-invariant on every board.  Statements only; proofs in Lemmas/MirrorCount.lean.
-/
import ChessVerif.Lemmas.MirrorCount
import ChessVerif.Lemmas.MirrorBB
import ChessVerif.Lemmas.MirrorPawn
import ChessVerif.Lemmas.WfStep
import ChessVerif.Lemmas.Forbidden
import ChessVerif.Model.Eval
import ChessVerif.Lemmas.Material
import ChessVerif.Lemmas.WfHyp
import ChessVerif.Lemmas.Attack
import ChessVerif.Lemmas.Bridge
import ChessVerif.Lemmas.Refine
namespace Chess.Props

/-- C13 (material): on the mirrored board the count of a piece code is the count of the recoloured code on the board (the mirrored
    board is a permutation of the recoloured board: `flip_perm`, kernel-checked permutation of the 64 squares) -/
theorem C13_counts_mirror (b : List Nat) (hlen : b.length = 64) (hb : ∀ x, x ∈ b → x ≤ 12) (pc : Nat) (hpc : pc ≤ 12) :
    countOf (mirrorBoard b) (mirrorPiece pc) = countOf b pc := countOf_mirror b hlen hb pc hpc

/-- C13 (phase): the game-phase weight of the mirrored board is the game-phase weight of the board — the two evaluations are tapered
    with the same weight -/
theorem C13_phase_mirror (b : List Nat) (hlen : b.length = 64) (hb : ∀ x, x ∈ b → x ≤ 12) :
    gamePhaseWeight (mirrorBoard b) = gamePhaseWeight b := by
  have h := fun pc hpc => countOf_mirror b hlen hb pc hpc
  have e2 := h 8 (by omega); have e3 := h 9 (by omega); have e4 := h 10 (by omega); have e5 := h 11 (by omega)
  have e8 := h 2 (by omega); have e9 := h 3 (by omega); have e10 := h 4 (by omega); have e11 := h 5 (by omega)
  have m : mirrorPiece 8 = 2 ∧ mirrorPiece 9 = 3 ∧ mirrorPiece 10 = 4 ∧ mirrorPiece 11 = 5 ∧
           mirrorPiece 2 = 8 ∧ mirrorPiece 3 = 9 ∧ mirrorPiece 4 = 10 ∧ mirrorPiece 5 = 11 := by decide
  obtain ⟨m2, m3, m4, m5, m8, m9, m10, m11⟩ := m
  rw [m2] at e2; rw [m3] at e3; rw [m4] at e4; rw [m5] at e5; rw [m8] at e8; rw [m9] at e9; rw [m10] at e10; rw [m11] at e11
  unfold gamePhaseWeight
  simp only [e2, e3, e4, e5, e8, e9, e10, e11]
  congr 1
  omega

theorem notEnough_counts (b : List Nat)
    (hc : countOf b 1 < 16 ∧ countOf b 2 < 16 ∧ countOf b 3 < 16 ∧ countOf b 4 < 16 ∧ countOf b 5 < 16 ∧ countOf b 7 < 16 ∧
          countOf b 8 < 16 ∧ countOf b 9 < 16 ∧ countOf b 10 < 16 ∧ countOf b 11 < 16) :
    notEnoughPCV.contains (pcv b) = true ↔
      (countOf b 1 + countOf b 2 + countOf b 3 + countOf b 4 + countOf b 5 + countOf b 7 + countOf b 8 + countOf b 9 + countOf b 10 + countOf b 11 = 0 ∨
       (countOf b 1 + countOf b 2 + countOf b 3 + countOf b 4 + countOf b 5 + countOf b 7 + countOf b 8 + countOf b 9 + countOf b 10 + countOf b 11 = 1 ∧
        countOf b 2 + countOf b 3 + countOf b 8 + countOf b 9 = 1)) := by
  obtain ⟨h1, h2, h3, h4, h5, h7, h8, h9, h10, h11⟩ := hc
  have hp : pcv b = countOf b 1 * 2 ^ 4 + countOf b 2 * 2 ^ 8 + countOf b 3 * 2 ^ 12 + countOf b 4 * 2 ^ 16 + countOf b 5 * 2 ^ 20 +
      countOf b 7 * 2 ^ 28 + countOf b 8 * 2 ^ 32 + countOf b 9 * 2 ^ 36 + countOf b 10 * 2 ^ 40 + countOf b 11 * 2 ^ 44 :=
    pcv_sum _ _ _ _ _ _ _ _ _ _ h1 h2 h3 h4 h5 h7 h8 h9 h10 h11
  have hmodel : notEnoughPCV.contains (pcv b) = true ↔
      (pcv b = 0 ∨ pcv b = 2 ^ 32 ∨ pcv b = 2 ^ 36 ∨ pcv b = 2 ^ 8 ∨ pcv b = 2 ^ 12) := by
    unfold notEnoughPCV
    simp [Nat.shiftLeft_eq]
  have e4 : (2:Nat) ^ 4 = 16 := rfl
  have e8 : (2:Nat) ^ 8 = 256 := rfl
  have e12 : (2:Nat) ^ 12 = 4096 := rfl
  have e16 : (2:Nat) ^ 16 = 65536 := rfl
  have e20 : (2:Nat) ^ 20 = 1048576 := rfl
  have e28 : (2:Nat) ^ 28 = 268435456 := rfl
  have e32 : (2:Nat) ^ 32 = 4294967296 := rfl
  have e36 : (2:Nat) ^ 36 = 68719476736 := rfl
  have e40 : (2:Nat) ^ 40 = 1099511627776 := rfl
  have e44 : (2:Nat) ^ 44 = 17592186044416 := rfl
  rw [e4, e8, e12, e16, e20, e28, e32, e36, e40, e44] at hp
  rw [hmodel, e32, e36, e8, e12]
  exact pcv_arith _ _ _ _ _ _ _ _ _ _ h1 h2 h3 h4 h5 h7 h8 h9 h10 h11 (pcv b) hp

/-- C13 (the guard): "enough mating material" — the hypothesis under which C13 speaks — holds of the mirrored board iff it holds
    of the board -/
theorem C13_material_mirror (p q : Position) (hq : q.board = mirrorBoard p.board) (hlen : p.board.length = 64)
    (hb : ∀ x, x ∈ p.board → x ≤ 12)
    (hc : countOf p.board 1 < 16 ∧ countOf p.board 2 < 16 ∧ countOf p.board 3 < 16 ∧ countOf p.board 4 < 16 ∧ countOf p.board 5 < 16 ∧
          countOf p.board 7 < 16 ∧ countOf p.board 8 < 16 ∧ countOf p.board 9 < 16 ∧ countOf p.board 10 < 16 ∧ countOf p.board 11 < 16) :
    enoughMaterial q = enoughMaterial p := by
  have h := fun pc hpc => countOf_mirror p.board hlen hb pc hpc
  have m : mirrorPiece 7 = 1 ∧ mirrorPiece 8 = 2 ∧ mirrorPiece 9 = 3 ∧ mirrorPiece 10 = 4 ∧ mirrorPiece 11 = 5 ∧
           mirrorPiece 1 = 7 ∧ mirrorPiece 2 = 8 ∧ mirrorPiece 3 = 9 ∧ mirrorPiece 4 = 10 ∧ mirrorPiece 5 = 11 := by decide
  obtain ⟨m1, m2, m3, m4, m5, m7, m8, m9, m10, m11⟩ := m
  have e1 := h 7 (by omega); have e2 := h 8 (by omega); have e3 := h 9 (by omega); have e4 := h 10 (by omega); have e5 := h 11 (by omega)
  have e7 := h 1 (by omega); have e8 := h 2 (by omega); have e9 := h 3 (by omega); have e10 := h 4 (by omega); have e11 := h 5 (by omega)
  rw [m1] at e1; rw [m2] at e2; rw [m3] at e3; rw [m4] at e4; rw [m5] at e5
  rw [m7] at e7; rw [m8] at e8; rw [m9] at e9; rw [m10] at e10; rw [m11] at e11
  obtain ⟨h1, h2, h3, h4, h5, h7, h8, h9, h10, h11⟩ := hc
  have hcq : countOf q.board 1 < 16 ∧ countOf q.board 2 < 16 ∧ countOf q.board 3 < 16 ∧ countOf q.board 4 < 16 ∧ countOf q.board 5 < 16 ∧
      countOf q.board 7 < 16 ∧ countOf q.board 8 < 16 ∧ countOf q.board 9 < 16 ∧ countOf q.board 10 < 16 ∧ countOf q.board 11 < 16 := by
    rw [hq, e1, e2, e3, e4, e5, e7, e8, e9, e10, e11]
    exact ⟨h7, h8, h9, h10, h11, h1, h2, h3, h4, h5⟩
  unfold enoughMaterial
  congr 1
  apply Bool.eq_iff_iff.2
  rw [notEnough_counts q.board hcq, notEnough_counts p.board ⟨h1, h2, h3, h4, h5, h7, h8, h9, h10, h11⟩, hq,
    e1, e2, e3, e4, e5, e7, e8, e9, e10, e11]
  omega

/-- non-vacuity: a board with unequal material (white knight, black rook and pawn) and its mirror -/
def c13Board : List Nat := ((((List.replicate 64 0).set 4 6).set 60 12).set 18 2).set 45 10 |>.set 52 7
example : c13Board.length = 64 ∧ (∀ x, x ∈ c13Board → x ≤ 12) ∧ countOf c13Board 2 = 1 ∧ countOf (mirrorBoard c13Board) 8 = 1 ∧
    countOf (mirrorBoard c13Board) 4 = 1 ∧ gamePhaseWeight c13Board = 3 := by decide +kernel

/-- C13 (guard and taper on the property's quantifier): for every well-formed position `p` and every position `q` carrying the mirrored
    board, `q` has enough mating material iff `p` has, and both evaluations are tapered with the same game-phase weight -/
theorem C13_guard_phase_wf (p q : Position) (hwf : Spec.wf (Chess.absPos p) = true) (hq : q.board = mirrorBoard p.board) :
    enoughMaterial q = enoughMaterial p ∧ gamePhaseWeight q.board = gamePhaseWeight p.board := by
  obtain ⟨hbo, _, _, hcodes, hcnt⟩ := wf_board_hyps _ hwf
  have hlen : p.board.length = 64 := hbo.len
  exact ⟨C13_material_mirror p q hq hlen hcodes hcnt, by rw [hq]; exact C13_phase_mirror p.board hlen hcodes⟩

/-- the mirrored board, square by square -/
theorem mirrorBoard_at (b : List Nat) (s : Nat) (hs : s < 64) : (mirrorBoard b).getD s 0 = mirrorPiece (b.getD (flipV s) 0) := by
  unfold mirrorBoard
  rw [List.getD_eq_getElem?_getD, List.getElem?_map, List.getElem?_range hs]
  rfl

theorem mirrorBoard_length (b : List Nat) : (mirrorBoard b).length = 64 := by simp [mirrorBoard]

def mirrorKingOK : Bool := [0, 1].all fun c => mirrorPiece (mkPiece c KING) == mkPiece (1 - c) KING
theorem mirrorKingOK_true : mirrorKingOK = true := by decide

/-- C13 (kings): the king of colour `c` stands on `k` iff on the mirrored board the king of the other colour stands on the flipped
    square; hence `kingSq` commutes with the mirror and the distance between the kings — what every mating-net term reads — is kept -/
theorem C13_king_mirror (b : List Nat) (hlen : b.length = 64) (hb : ∀ x, x ∈ b → x ≤ 12) (c k : Nat) (hc : c ≤ 1) (h : KingAt b c k) :
    KingAt (mirrorBoard b) (1 - c) (flipV k) ∧ kingSq (mirrorBoard b) (1 - c) = flipV (kingSq b c) := by
  have hk : mirrorPiece (mkPiece c KING) = mkPiece (1 - c) KING := by
    have : c = 0 ∨ c = 1 := by omega
    rcases this with rfl | rfl <;> decide
  have hff : ∀ a, a < 64 → flipV (flipV a) = a ∧ flipV a < 64 := by
    intro a ha
    refine ⟨(C13_geometry a a ha ha).1, ?_⟩
    unfold flipV mkSquare rankOf fileOf; omega
  have hcodes : ∀ s, b.getD s 0 ≤ 12 := by
    intro s
    by_cases hs : s < b.length
    · rw [List.getD_eq_getElem?_getD, List.getElem?_eq_getElem hs]; exact hb _ (List.getElem_mem hs)
    · rw [List.getD_eq_getElem?_getD, List.getElem?_eq_none (by omega)]; simp
  have hka : KingAt (mirrorBoard b) (1 - c) (flipV k) := by
    refine ⟨(hff k h.lt).2, ?_, ?_⟩
    · rw [mirrorBoard_at b _ (hff k h.lt).2, (hff k h.lt).1, h.here, hk]
    · intro s hs hsk
      rw [mirrorBoard_at b s hs, ← hk] at hsk
      have := (mirrorPiece_inj _ _ (hcodes _) (by have := hcodes k; rw [h.here] at this; exact this)).1 hsk
      have e := h.only (flipV s) (hff s hs).2 this
      rw [← e, (hff s hs).1]
  exact ⟨hka, by rw [kingSq_eq _ _ _ (mirrorBoard_length b) hka, kingSq_eq b c k hlen h]⟩

/-- … so the king distance, which the endgame evaluators and the king-proximity terms read, is the same on the mirrored board -/
theorem C13_king_distance_mirror (b : List Nat) (hlen : b.length = 64) (hb : ∀ x, x ∈ b → x ≤ 12) (kw kb : Nat)
    (hw : KingAt b 0 kw) (hbk : KingAt b 1 kb) :
    distance (kingSq (mirrorBoard b) 0) (kingSq (mirrorBoard b) 1) = distance (kingSq b 1) (kingSq b 0) ∧
    pte (kingSq (mirrorBoard b) 0) = pte (kingSq b 1) ∧ pte (kingSq (mirrorBoard b) 1) = pte (kingSq b 0) := by
  have a := (C13_king_mirror b hlen hb 1 kb (by omega) hbk).2
  have c := (C13_king_mirror b hlen hb 0 kw (by omega) hw).2
  have e0 : (1 - 1 : Nat) = 0 := rfl
  have e1 : (1 - 0 : Nat) = 1 := rfl
  rw [e0] at a; rw [e1] at c
  have h1 : kingSq b 1 < 64 := by rw [kingSq_eq b 1 kb hlen hbk]; exact hbk.lt
  have h0 : kingSq b 0 < 64 := by rw [kingSq_eq b 0 kw hlen hw]; exact hw.lt
  rw [a, c]
  exact ⟨(C13_geometry _ _ h1 h0).2.2.2.2.2, (C13_geometry _ _ h1 h1).2.2.2.1, (C13_geometry _ _ h0 h0).2.2.2.1⟩

/-- C13 (bitboards): on the mirrored board the bitboard of a recoloured piece is the vertical flip of the piece's bitboard — bit `s`
    of the one is bit `flipV s` of the other.  Every per-colour bitboard the evaluator reads is one of these. -/
theorem C13_bitboards_mirror (b : List Nat) (hlen : b.length = 64) (hb : ∀ x, x ∈ b → x ≤ 12) (pc : Nat) (hpc : pc ≤ 12) (s : Nat) (hs : s < 64) :
    (bbOfPiece (mirrorBoard b) (mirrorPiece pc)).testBit s = (bbOfPiece b pc).testBit (flipV s) := by
  have hf : flipV s < 64 := by unfold flipV mkSquare rankOf fileOf; omega
  have hcodes : b.getD (flipV s) 0 ≤ 12 := by
    rw [List.getD_eq_getElem?_getD, List.getElem?_eq_getElem (by omega)]; exact hb _ (List.getElem_mem _)
  rw [bbOfPiece_testBit, bbOfPiece_testBit, mirrorBoard_length, hlen, mirrorBoard_at b s hs]
  simp only [hs, hf, decide_true, Bool.true_and]
  exact decide_eq_decide.2 (mirrorPiece_inj _ _ hcodes hpc)

/-- the bitboard of a recoloured piece on the mirrored board is the flip of the piece's bitboard (`MirrorBB` form of
    `C13_bitboards_mirror`) -/
theorem pieceBB_mirror (b : List Nat) (hlen : b.length = 64) (hb : ∀ x, x ∈ b → x ≤ 12) (pc : Nat) (hpc : pc ≤ 12) :
    MirrorBB (bbOfPiece b pc) (bbOfPiece (mirrorBoard b) (mirrorPiece pc)) :=
  fun s hs => C13_bitboards_mirror b hlen hb pc hpc s hs

def kingMaskMirrorOK : Bool :=
  (List.range 64).all fun k => (List.range 64).all fun s => (kingMask (flipV k)).testBit s == (kingMask k).testBit (flipV s)
theorem kingMaskMirrorOK_true : kingMaskMirrorOK = true := by decide +kernel
theorem kingMask_mirror (k : Nat) (hk : k < 64) : MirrorBB (kingMask k) (kingMask (flipV k)) := by
  intro s hs
  have h := kingMaskMirrorOK_true
  simp only [kingMaskMirrorOK, List.all_eq_true, List.mem_range, beq_iff_eq] at h
  exact h k hk s hs

/-- C13 (a whole evaluator term, pawn attack sets): the squares attacked by the pawns of colour `c` on the board and the squares
    attacked by the pawns of the other colour on the mirrored board are flips of each other (`Setup.attPawn` of `setupSide`), through
    `shift_mirror`: NE ↔ SE and NW ↔ SW with the same file masks -/
theorem C13_pawn_attacks_mirror (b : List Nat) (hlen : b.length = 64) (hb : ∀ x, x ∈ b → x ≤ 12) (c : Nat) (hc : c ≤ 1) :
    MirrorBB (pawnAttacks c (bbOfPiece b (mkPiece c PAWN))) (pawnAttacks (1 - c) (bbOfPiece (mirrorBoard b) (mkPiece (1 - c) PAWN))) := by
  have hm : mirrorPiece (mkPiece c PAWN) = mkPiece (1 - c) PAWN := by
    have : c = 0 ∨ c = 1 := by omega
    rcases this with rfl | rfl <;> decide
  have hpc : mkPiece c PAWN ≤ 12 := by
    have : c = 0 ∨ c = 1 := by omega
    rcases this with rfl | rfl <;> decide
  have h := pieceBB_mirror b hlen hb (mkPiece c PAWN) hpc
  rw [hm] at h
  exact h.pawnAttacks (bbOfPiece_lt b _ hlen) (bbOfPiece_lt _ _ (mirrorBoard_length b)) c hc

/-- C13 (a whole evaluator term, the king shelter): `scoreKingShelter` — the bonus per own pawn next to the king square — of colour
    `c` with the king on `k` equals that of the other colour on the mirrored board with the king on the flipped square -/
theorem C13_king_shelter_mirror (p q : Position) (hq : q.board = mirrorBoard p.board) (hlen : p.board.length = 64)
    (hb : ∀ x, x ∈ p.board → x ≤ 12) (c : Nat) (hc : c ≤ 1) (k : Nat) (hk : k < 64) :
    scoreKingShelter (BBs.of q) (1 - c) (flipV k) = scoreKingShelter (BBs.of p) c k := by
  have hm : mirrorPiece (mkPiece c PAWN) = mkPiece (1 - c) PAWN := by
    have : c = 0 ∨ c = 1 := by omega
    rcases this with rfl | rfl <;> decide
  have hpc : mkPiece c PAWN ≤ 12 := by
    have : c = 0 ∨ c = 1 := by omega
    rcases this with rfl | rfl <;> decide
  have h := pieceBB_mirror p.board hlen hb (mkPiece c PAWN) hpc
  rw [hm] at h
  unfold scoreKingShelter
  rw [ck_eq q (1 - c) PAWN (by omega) (by decide), ck_eq p c PAWN hc (by decide), hq]
  have := ((kingMask_mirror k hk).and h).popcount
  unfold pc
  rw [this]

def rightsMirrorOK : Bool := (List.range 16).all fun r =>
  (decide (mirrorRights r &&& B_OO ≠ 0) == decide (r &&& W_OO ≠ 0)) && (decide (mirrorRights r &&& B_OOO ≠ 0) == decide (r &&& W_OOO ≠ 0)) &&
  (decide (mirrorRights r &&& W_OO ≠ 0) == decide (r &&& B_OO ≠ 0)) && (decide (mirrorRights r &&& W_OOO ≠ 0) == decide (r &&& B_OOO ≠ 0))
theorem rightsMirrorOK_true : rightsMirrorOK = true := by decide +kernel

/-- C13 (a whole function of score.cpp): `score_king_safety` — the best pawn shelter among the king's square and the squares it may
    still castle to, minus the king–pawn distances — of colour `c` equals that of the other colour on the mirrored position
    (mirrored board, castling rights swapped) -/
theorem C13_king_safety_mirror (p q : Position) (hq : q.board = mirrorBoard p.board) (hlen : p.board.length = 64)
    (hb : ∀ x, x ∈ p.board → x ≤ 12) (hr : p.castling < 16) (c k : Nat) (hc : c ≤ 1) (hk : KingAt p.board c k) :
    scoreKingSafety (BBs.of q) q.board (mirrorRights p.castling) (1 - c) = scoreKingSafety (BBs.of p) p.board p.castling c := by
  have hR := rightsMirrorOK_true
  simp only [rightsMirrorOK, List.all_eq_true, List.mem_range, Bool.and_eq_true, beq_iff_eq, decide_eq_decide] at hR
  obtain ⟨⟨⟨r1, r2⟩, r3⟩, r4⟩ := hR p.castling hr
  have hks : kingSq q.board (1 - c) = flipV (kingSq p.board c) := by rw [hq]; exact (C13_king_mirror p.board hlen hb c k hc hk).2
  have hk64 : kingSq p.board c < 64 := by rw [kingSq_eq p.board c k hlen hk]; exact hk.lt
  have hsh : ∀ t, t < 64 → scoreKingShelter (BBs.of q) (1 - c) (flipV t) = scoreKingShelter (BBs.of p) c t :=
    fun t ht => C13_king_shelter_mirror p q hq hlen hb c hc t ht
  have hm : mirrorPiece (mkPiece c PAWN) = mkPiece (1 - c) PAWN := by
    have : c = 0 ∨ c = 1 := by omega
    rcases this with rfl | rfl <;> decide
  have hpc : mkPiece c PAWN ≤ 12 := by
    have : c = 0 ∨ c = 1 := by omega
    rcases this with rfl | rfl <;> decide
  have hpawns := pieceBB_mirror p.board hlen hb (mkPiece c PAWN) hpc
  rw [hm] at hpawns
  have hsum : ∀ init : Sc,
      (bitsOf ((BBs.of q).ck (1 - c) PAWN)).foldl (fun acc s => acc + KING_PAWN_PROXIMITY_PENALTY.scale (distance (flipV (kingSq p.board c)) s)) init =
      (bitsOf ((BBs.of p).ck c PAWN)).foldl (fun acc s => acc + KING_PAWN_PROXIMITY_PENALTY.scale (distance (kingSq p.board c) s)) init := by
    intro init
    rw [ck_eq q (1 - c) PAWN (by omega) (by decide), ck_eq p c PAWN hc (by decide), hq]
    exact hpawns.sum_eq _ _ (fun s hs => by rw [(C13_geometry (kingSq p.board c) s hk64 ((mem_bitsOf _ s).1 hs).1).2.2.2.2.2]) init
  have hc' : c = 0 ∨ c = 1 := by omega
  unfold scoreKingSafety
  simp only [hks]
  rw [hsum]
  congr 1
  rcases hc' with rfl | rfl
  · -- white on the board, black on the mirror
    have e6 : relSquare 1 6 = flipV (relSquare 0 6) := by decide
    have e2 : relSquare 1 2 = flipV (relSquare 0 2) := by decide
    have e1 : relSquare 1 1 = flipV (relSquare 0 1) := by decide
    simp only [show (1 - 0 : Nat) = 1 from rfl, if_neg (show ¬ (1 : Nat) = 0 by decide), ↓reduceIte, e6, e2, e1]
    rw [hsh _ hk64, hsh _ (by decide), hsh _ (by decide), hsh _ (by decide)]
    simp only [r1, r2]
  · have e6 : relSquare 0 6 = flipV (relSquare 1 6) := by decide
    have e2 : relSquare 0 2 = flipV (relSquare 1 2) := by decide
    have e1 : relSquare 0 1 = flipV (relSquare 1 1) := by decide
    simp only [show (1 - 1 : Nat) = 0 from rfl, if_neg (show ¬ (1 : Nat) = 0 by decide), ↓reduceIte, e6, e2, e1]
    have h0 := hsh
    simp only [show (1 - 1 : Nat) = 0 from rfl] at h0
    rw [h0 _ hk64, h0 _ (by decide), h0 _ (by decide), h0 _ (by decide)]
    simp only [r3, r4]

/-- **C13, the pawn evaluation (the part `PositionScorer` caches under the pawn key) is colour-symmetric**: for every well-formed
    position `p` and every position `q` carrying the mirrored board, `score_pawns_for_side` of either colour on `q` is that of the other
    colour on `p`, so the cached pawn score (white minus black) changes sign.  Lemmas/MirrorPawn.lean: one pawn's term reads ten
    features — population counts and zero tests of the two pawn bitboards against constant masks (neighbour files, ranks, attack
    squares, their forward shift, the passed-pawn and backward-pawn zones, the square ahead and behind, the centre) — and the masks of
    (colour, square) and (other colour, flipped square) are flips of each other for all 2 × 48 pairs (`pawnConstOK`, kernel-evaluated);
    the sum over the pawns is a sum over a permutation (`MirrorBB.sum_eq`). -/
theorem C13_pawn_score_mirror (p q : Position) (hwf : Spec.wf (Chess.absPos p) = true) (hq : q.board = mirrorBoard p.board) :
    scorePawnsForSide (BBs.of q) 0 = scorePawnsForSide (BBs.of p) 1 ∧ scorePawnsForSide (BBs.of q) 1 = scorePawnsForSide (BBs.of p) 0 ∧
    (pawnScore (BBs.of q)).mg = -(pawnScore (BBs.of p)).mg ∧ (pawnScore (BBs.of q)).eg = -(pawnScore (BBs.of p)).eg := by
  obtain ⟨hbo, _, _, hcodes, _⟩ := wf_board_hyps _ hwf
  have hlen : p.board.length = 64 := hbo.len
  have hedge0 : Spec.noPawnsOnEdge p.board = true := by
    have h := hwf
    unfold Spec.wf at h
    simp only [Bool.and_eq_true] at h
    exact h.1.1.2
  have hedge := (noPawnsOnEdge_iff p.board).1 hedge0
  have key : ∀ c, c ≤ 1 → scorePawnsForSide (BBs.of q) (1 - c) = scorePawnsForSide (BBs.of p) c := by
    intro c hc
    have hc1 : 1 - c ≤ 1 := by omega
    have e : 1 - (1 - c) = c := by omega
    have hm : ∀ d, d ≤ 1 → mirrorPiece (mkPiece d PAWN) = mkPiece (1 - d) PAWN ∧ mkPiece d PAWN ≤ 12 ∧ kindOf (mkPiece d PAWN) = 1 := by
      intro d hd
      have : d = 0 ∨ d = 1 := by omega
      rcases this with rfl | rfl <;> decide
    have two : (2 : Nat) ^ 64 = two64 := by decide
    have hO := pieceBB_mirror p.board hlen hcodes (mkPiece c PAWN) (hm c hc).2.1
    rw [(hm c hc).1] at hO
    have hT := pieceBB_mirror p.board hlen hcodes (mkPiece (1 - c) PAWN) (hm _ hc1).2.1
    rw [(hm _ hc1).1, e] at hT
    apply scorePawns_mirror (BBs.of p) (BBs.of q) c hc
    · rw [ck_eq p c PAWN hc (by decide), ck_eq q (1 - c) PAWN hc1 (by decide), hq]; exact hO
    · rw [ck_eq p (1 - c) PAWN hc1 (by decide), ck_eq q c PAWN hc (by decide), hq]; exact hT
    · rw [ck_eq p c PAWN hc (by decide), two]; exact bbOfPiece_lt _ _ hlen
    · rw [ck_eq q (1 - c) PAWN hc1 (by decide), two, hq]; exact bbOfPiece_lt _ _ (mirrorBoard_length _)
    · rw [ck_eq p (1 - c) PAWN hc1 (by decide), two]; exact bbOfPiece_lt _ _ hlen
    · rw [ck_eq q c PAWN hc (by decide), two, hq]; exact bbOfPiece_lt _ _ (mirrorBoard_length _)
    · intro s hs
      rw [ck_eq p c PAWN hc (by decide)] at hs
      obtain ⟨hs64, hbit⟩ := (mem_bitsOf _ s).1 hs
      rw [bbOfPiece_testBit] at hbit
      simp only [Bool.and_eq_true, decide_eq_true_eq] at hbit
      have hk : kindOf (gd p.board s) = 1 := by
        show kindOf (p.board.getD s 0) = 1
        rw [hbit.2]; exact (hm c hc).2.2
      constructor
      · apply Classical.byContradiction; intro hlt
        exact hedge s (Or.inl (by omega)) hk
      · apply Classical.byContradiction; intro hge
        exact hedge s (Or.inr ⟨by omega, hs64⟩) hk
  have k0 := key 1 (by omega)
  have k1 := key 0 (by omega)
  simp only [show (1 - 1 : Nat) = 0 from rfl, show (1 - 0 : Nat) = 1 from rfl] at k0 k1
  refine ⟨k0, k1, ?_, ?_⟩
  · unfold pawnScore; rw [k0, k1]
    show (scorePawnsForSide (BBs.of p) 1).mg - (scorePawnsForSide (BBs.of p) 0).mg = -((scorePawnsForSide (BBs.of p) 0).mg - (scorePawnsForSide (BBs.of p) 1).mg)
    omega
  · unfold pawnScore; rw [k0, k1]
    show (scorePawnsForSide (BBs.of p) 1).eg - (scorePawnsForSide (BBs.of p) 0).eg = -((scorePawnsForSide (BBs.of p) 0).eg - (scorePawnsForSide (BBs.of p) 1).eg)
    omega

end Chess.Props
