import ChessVerif.Props.C11gen.R00
import ChessVerif.Props.C11gen.R01
import ChessVerif.Props.C11gen.R02
import ChessVerif.Props.C11gen.R03
import ChessVerif.Props.C11gen.R04
import ChessVerif.Props.C11gen.R05
import ChessVerif.Props.C11gen.R06
import ChessVerif.Props.C11gen.R07
import ChessVerif.Props.C11gen.R08
import ChessVerif.Props.C11gen.R09
import ChessVerif.Props.C11gen.R10
import ChessVerif.Props.C11gen.R11
import ChessVerif.Props.C11gen.R12
import ChessVerif.Props.C11gen.R13
import ChessVerif.Props.C11gen.R14
import ChessVerif.Props.C11gen.R15
import ChessVerif.Props.C11gen.R16
import ChessVerif.Props.C11gen.R17
import ChessVerif.Props.C11gen.R18
import ChessVerif.Props.C11gen.R19
import ChessVerif.Props.C11gen.R20
import ChessVerif.Props.C11gen.R21
import ChessVerif.Props.C11gen.R22
import ChessVerif.Props.C11gen.R23
import ChessVerif.Props.C11gen.R24
import ChessVerif.Props.C11gen.R25
import ChessVerif.Props.C11gen.R26
import ChessVerif.Props.C11gen.R27
import ChessVerif.Props.C11gen.R28
import ChessVerif.Props.C11gen.R29
import ChessVerif.Props.C11gen.R30
import ChessVerif.Props.C11gen.R31
import ChessVerif.Props.C11gen.R32
import ChessVerif.Props.C11gen.R33
import ChessVerif.Props.C11gen.R34
import ChessVerif.Props.C11gen.R35
import ChessVerif.Props.C11gen.R36
import ChessVerif.Props.C11gen.R37
import ChessVerif.Props.C11gen.R38
import ChessVerif.Props.C11gen.R39
import ChessVerif.Props.C11gen.R40
import ChessVerif.Props.C11gen.R41
import ChessVerif.Props.C11gen.R42
import ChessVerif.Props.C11gen.R43
import ChessVerif.Props.C11gen.R44
import ChessVerif.Props.C11gen.R45
import ChessVerif.Props.C11gen.R46
import ChessVerif.Props.C11gen.R47
import ChessVerif.Props.C11gen.R48
import ChessVerif.Props.C11gen.R49
import ChessVerif.Props.C11gen.R50
import ChessVerif.Props.C11gen.R51
import ChessVerif.Props.C11gen.R52
import ChessVerif.Props.C11gen.R53
import ChessVerif.Props.C11gen.R54
import ChessVerif.Props.C11gen.R55
import ChessVerif.Props.C11gen.R56
import ChessVerif.Props.C11gen.R57
import ChessVerif.Props.C11gen.R58
import ChessVerif.Props.C11gen.R59
import ChessVerif.Props.C11gen.R60
import ChessVerif.Props.C11gen.R61
import ChessVerif.Props.C11gen.R62
import ChessVerif.Props.C11gen.R63
import ChessVerif.Props.C11gen.B00
import ChessVerif.Props.C11gen.B01
import ChessVerif.Props.C11gen.B02
import ChessVerif.Props.C11gen.B03
import ChessVerif.Props.C11gen.B04
import ChessVerif.Props.C11gen.B05
import ChessVerif.Props.C11gen.B06
import ChessVerif.Props.C11gen.B07
import ChessVerif.Props.C11gen.B08
import ChessVerif.Props.C11gen.B09
import ChessVerif.Props.C11gen.B10
import ChessVerif.Props.C11gen.B11
import ChessVerif.Props.C11gen.B12
import ChessVerif.Props.C11gen.B13
import ChessVerif.Props.C11gen.B14
import ChessVerif.Props.C11gen.B15
import ChessVerif.Props.C11gen.B16
import ChessVerif.Props.C11gen.B17
import ChessVerif.Props.C11gen.B18
import ChessVerif.Props.C11gen.B19
import ChessVerif.Props.C11gen.B20
import ChessVerif.Props.C11gen.B21
import ChessVerif.Props.C11gen.B22
import ChessVerif.Props.C11gen.B23
import ChessVerif.Props.C11gen.B24
import ChessVerif.Props.C11gen.B25
import ChessVerif.Props.C11gen.B26
import ChessVerif.Props.C11gen.B27
import ChessVerif.Props.C11gen.B28
import ChessVerif.Props.C11gen.B29
import ChessVerif.Props.C11gen.B30
import ChessVerif.Props.C11gen.B31
import ChessVerif.Props.C11gen.B32
import ChessVerif.Props.C11gen.B33
import ChessVerif.Props.C11gen.B34
import ChessVerif.Props.C11gen.B35
import ChessVerif.Props.C11gen.B36
import ChessVerif.Props.C11gen.B37
import ChessVerif.Props.C11gen.B38
import ChessVerif.Props.C11gen.B39
import ChessVerif.Props.C11gen.B40
import ChessVerif.Props.C11gen.B41
import ChessVerif.Props.C11gen.B42
import ChessVerif.Props.C11gen.B43
import ChessVerif.Props.C11gen.B44
import ChessVerif.Props.C11gen.B45
import ChessVerif.Props.C11gen.B46
import ChessVerif.Props.C11gen.B47
import ChessVerif.Props.C11gen.B48
import ChessVerif.Props.C11gen.B49
import ChessVerif.Props.C11gen.B50
import ChessVerif.Props.C11gen.B51
import ChessVerif.Props.C11gen.B52
import ChessVerif.Props.C11gen.B53
import ChessVerif.Props.C11gen.B54
import ChessVerif.Props.C11gen.B55
import ChessVerif.Props.C11gen.B56
import ChessVerif.Props.C11gen.B57
import ChessVerif.Props.C11gen.B58
import ChessVerif.Props.C11gen.B59
import ChessVerif.Props.C11gen.B60
import ChessVerif.Props.C11gen.B61
import ChessVerif.Props.C11gen.B62
import ChessVerif.Props.C11gen.B63
namespace Chess.C11gen

theorem rookOK_all (sq : Nat) (h : sq < 64) : rookSquareOK sq = true := by
  match sq, h with
  | 0, _ => exact rookOK_0
  | 1, _ => exact rookOK_1
  | 2, _ => exact rookOK_2
  | 3, _ => exact rookOK_3
  | 4, _ => exact rookOK_4
  | 5, _ => exact rookOK_5
  | 6, _ => exact rookOK_6
  | 7, _ => exact rookOK_7
  | 8, _ => exact rookOK_8
  | 9, _ => exact rookOK_9
  | 10, _ => exact rookOK_10
  | 11, _ => exact rookOK_11
  | 12, _ => exact rookOK_12
  | 13, _ => exact rookOK_13
  | 14, _ => exact rookOK_14
  | 15, _ => exact rookOK_15
  | 16, _ => exact rookOK_16
  | 17, _ => exact rookOK_17
  | 18, _ => exact rookOK_18
  | 19, _ => exact rookOK_19
  | 20, _ => exact rookOK_20
  | 21, _ => exact rookOK_21
  | 22, _ => exact rookOK_22
  | 23, _ => exact rookOK_23
  | 24, _ => exact rookOK_24
  | 25, _ => exact rookOK_25
  | 26, _ => exact rookOK_26
  | 27, _ => exact rookOK_27
  | 28, _ => exact rookOK_28
  | 29, _ => exact rookOK_29
  | 30, _ => exact rookOK_30
  | 31, _ => exact rookOK_31
  | 32, _ => exact rookOK_32
  | 33, _ => exact rookOK_33
  | 34, _ => exact rookOK_34
  | 35, _ => exact rookOK_35
  | 36, _ => exact rookOK_36
  | 37, _ => exact rookOK_37
  | 38, _ => exact rookOK_38
  | 39, _ => exact rookOK_39
  | 40, _ => exact rookOK_40
  | 41, _ => exact rookOK_41
  | 42, _ => exact rookOK_42
  | 43, _ => exact rookOK_43
  | 44, _ => exact rookOK_44
  | 45, _ => exact rookOK_45
  | 46, _ => exact rookOK_46
  | 47, _ => exact rookOK_47
  | 48, _ => exact rookOK_48
  | 49, _ => exact rookOK_49
  | 50, _ => exact rookOK_50
  | 51, _ => exact rookOK_51
  | 52, _ => exact rookOK_52
  | 53, _ => exact rookOK_53
  | 54, _ => exact rookOK_54
  | 55, _ => exact rookOK_55
  | 56, _ => exact rookOK_56
  | 57, _ => exact rookOK_57
  | 58, _ => exact rookOK_58
  | 59, _ => exact rookOK_59
  | 60, _ => exact rookOK_60
  | 61, _ => exact rookOK_61
  | 62, _ => exact rookOK_62
  | 63, _ => exact rookOK_63
  | n+64, h => exact absurd h (by omega)

theorem bishopOK_all (sq : Nat) (h : sq < 64) : bishopSquareOK sq = true := by
  match sq, h with
  | 0, _ => exact bishopOK_0
  | 1, _ => exact bishopOK_1
  | 2, _ => exact bishopOK_2
  | 3, _ => exact bishopOK_3
  | 4, _ => exact bishopOK_4
  | 5, _ => exact bishopOK_5
  | 6, _ => exact bishopOK_6
  | 7, _ => exact bishopOK_7
  | 8, _ => exact bishopOK_8
  | 9, _ => exact bishopOK_9
  | 10, _ => exact bishopOK_10
  | 11, _ => exact bishopOK_11
  | 12, _ => exact bishopOK_12
  | 13, _ => exact bishopOK_13
  | 14, _ => exact bishopOK_14
  | 15, _ => exact bishopOK_15
  | 16, _ => exact bishopOK_16
  | 17, _ => exact bishopOK_17
  | 18, _ => exact bishopOK_18
  | 19, _ => exact bishopOK_19
  | 20, _ => exact bishopOK_20
  | 21, _ => exact bishopOK_21
  | 22, _ => exact bishopOK_22
  | 23, _ => exact bishopOK_23
  | 24, _ => exact bishopOK_24
  | 25, _ => exact bishopOK_25
  | 26, _ => exact bishopOK_26
  | 27, _ => exact bishopOK_27
  | 28, _ => exact bishopOK_28
  | 29, _ => exact bishopOK_29
  | 30, _ => exact bishopOK_30
  | 31, _ => exact bishopOK_31
  | 32, _ => exact bishopOK_32
  | 33, _ => exact bishopOK_33
  | 34, _ => exact bishopOK_34
  | 35, _ => exact bishopOK_35
  | 36, _ => exact bishopOK_36
  | 37, _ => exact bishopOK_37
  | 38, _ => exact bishopOK_38
  | 39, _ => exact bishopOK_39
  | 40, _ => exact bishopOK_40
  | 41, _ => exact bishopOK_41
  | 42, _ => exact bishopOK_42
  | 43, _ => exact bishopOK_43
  | 44, _ => exact bishopOK_44
  | 45, _ => exact bishopOK_45
  | 46, _ => exact bishopOK_46
  | 47, _ => exact bishopOK_47
  | 48, _ => exact bishopOK_48
  | 49, _ => exact bishopOK_49
  | 50, _ => exact bishopOK_50
  | 51, _ => exact bishopOK_51
  | 52, _ => exact bishopOK_52
  | 53, _ => exact bishopOK_53
  | 54, _ => exact bishopOK_54
  | 55, _ => exact bishopOK_55
  | 56, _ => exact bishopOK_56
  | 57, _ => exact bishopOK_57
  | 58, _ => exact bishopOK_58
  | 59, _ => exact bishopOK_59
  | 60, _ => exact bishopOK_60
  | 61, _ => exact bishopOK_61
  | 62, _ => exact bishopOK_62
  | 63, _ => exact bishopOK_63
  | n+64, h => exact absurd h (by omega)

end Chess.C11gen
