-- generated once by the C11 scaffolding (one module per square so lake checks them in parallel and caches them)
import ChessVerif.Lemmas.MagicCheck
namespace Chess.C11gen
theorem rookOK_32 : rookSquareOK 32 = true := by decide +kernel
end Chess.C11gen
