-- generated once by the C11 scaffolding (one module per square so lake checks them in parallel and caches them)
import ChessVerif.Lemmas.MagicCheck
namespace Chess.C11gen
theorem bishopOK_7 : bishopSquareOK 7 = true := by decide +kernel
end Chess.C11gen
