/-
  Props/C09.lean — PROPERTY C09: search limits are honoured.  Statements only (trace automaton + the
  constructor's depth computation).
-/
import ChessVerif.Lemmas.Trace
import ChessVerif.Gen.Consts
namespace Chess.Props

/-- C09 (depth sequence): in every accepted trace the iterations started are exactly 1, 2, …, k in order, and
    every iteration reported as finished is one of them -/
theorem C09_depths (root : Position) (R : List Nat) (t : List Ev) (s : AState) (h : acceptTrace root R t = .ok s) :
    s.iterStarted.reverse = List.range' 1 s.iterStarted.length ∧ ∀ d, d ∈ s.iterDone → 1 ≤ d ∧ d ≤ s.iterStarted.length := by
  unfold acceptTrace at h
  split at h
  · cases h
  · rename_i s1 hrun
    split at h <;> try (cases h)
    split at h <;> try (cases h)
    have inv := run_iter t (initState root R) s 0 hrun (init_iter root R)
    have hdesc : ∀ n, (desc n).reverse = List.range' 1 n ∧ ∀ d, d ∈ desc n → 1 ≤ d ∧ d ≤ n := by
      intro n
      induction n with
      | zero => simp [desc]
      | succ n ih =>
        refine ⟨?_, ?_⟩
        · simp only [desc, List.reverse_cons, ih.1]
          rw [List.range'_1_concat]
          simp [Nat.add_comm]
        · intro d hd
          simp only [desc, List.mem_cons] at hd
          rcases hd with rfl | hd
          · omega
          · have := ih.2 d hd; omega
    have hlen : ∀ n, (desc n).length = n := by
      intro n; induction n with
      | zero => rfl
      | succ n ih => simp [desc, ih]
    constructor
    · have h1 := (hdesc s.iterStarted.length).1
      rw [← inv.started] at h1
      exact h1
    · intro d hd
      have := inv.done d hd
      rw [inv.started] at this
      exact (hdesc s.iterStarted.length).2 d this

/-- C09 (searchmoves): with a searchmoves list the bestmove is one of its moves (the root list IS that list) -/
theorem C09_searchmoves (root : Position) (searchmoves : List Nat) (t : List Ev) (s : AState)
    (h : acceptTrace root searchmoves t = .ok s) (hne : searchmoves ≠ []) : ∃ m, s.bestMoves = [m] ∧ m ∈ searchmoves := by
  unfold acceptTrace at h
  split at h
  · cases h
  · rename_i s1 hrun
    split at h <;> try (cases h)
    split at h <;> try (cases h)
    rename_i hlen
    have inv := run_inv searchmoves t (initState root searchmoves) s 0 hrun (init_inv root searchmoves)
    have hl : s.bestMoves.length = 1 := Decidable.not_not.mp hlen
    match hb : s.bestMoves, hl with
    | [m], _ =>
      refine ⟨m, rfl, ?_⟩
      rcases inv.best m (inv.bm m (by rw [hb]; simp)) with h1 | h1
      · exact h1
      · exact absurd h1 hne

/-- the depth the constructor derives from `go depth d` after the C09 fix: min(d, MAX_DEPTH) -/
def searchDepthOf (d : Nat) : Nat := min d Gen.MAX_DEPTH

/-- C09 (depth limit, and the per-iteration array): the iteration loop stops at `searchDepthOf d`, which never
    exceeds d nor the capacity of `previous_moves[MAX_DEPTH + 1]` (index = iteration depth) -/
theorem C09_depth_index (d : Nat) : searchDepthOf d ≤ d ∧ searchDepthOf d < Gen.PREVIOUS_MOVES_CAP := by
  unfold searchDepthOf
  have h1 : Gen.MAX_DEPTH = 40 := by decide
  have h2 : Gen.PREVIOUS_MOVES_CAP = 41 := by decide
  omega

end Chess.Props
