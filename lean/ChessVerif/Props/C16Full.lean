/-
  Props/C16Full.lean — PROPERTY C16, the UCI-text round trip stated over the property's own quantifier (every legal move of every
  well-formed position).  Kept apart from Props/C16.lean because that file is imported by the lemma library this one rests on.
-/
import ChessVerif.Props.C16
import ChessVerif.Lemmas.EpExact
import ChessVerif.Lemmas.LegalFacts
import ChessVerif.Lemmas.FenRound
import ChessVerif.Props.C04
import ChessVerif.Lemmas.Shows
namespace Chess.Props

/-- **C16 (uci round trip) over the property's own quantifier**: on every well-formed position, for EVERY generated move — by C01
    (`exact_all`) that is: for the code of every move legal under the rules — `parse_uci (uci m) = m`.  The two hypotheses of
    `C16_uci_plain` / `C16_uci_castle` are theorems there: a legal move's squares are on the board and its promotion piece is one of
    N/B/R/Q (`stepOK_of_legal`, `promo_of_pseudo`); a legal king move over two files *is* castling and starts from the home square,
    every other legal move is not "castle-like". -/
theorem C16_uci_roundtrip_wf (p : Position) (hwf : Spec.wf (Chess.absPos p) = true) (m : Nat) (hm : m ∈ genMoves p) :
    parseUci p (uci p m) = some m := by
  obtain ⟨sm, hsm, rfl⟩ := (exact_all p hwf m).1 hm
  have ok := stepOK_of_legal _ hwf sm hsm
  have hps : sm ∈ Spec.pseudoMoves (Chess.absPos p) := (List.mem_filter.1 hsm).1
  have hside : p.side ≤ 1 := ok.side
  unfold codeOf
  by_cases hc : Spec.isCastle (Chess.absPos p).board sm = true
  · rw [if_pos hc]
    have hk : kindOf (gd p.board sm.src) = KING ∧ (sm.dst = sm.src + 2 ∨ sm.dst + 2 = sm.src) := by
      simp only [Spec.isCastle, Bool.and_eq_true, decide_eq_true_eq, Bool.or_eq_true] at hc
      exact hc
    obtain ⟨hsrc, _⟩ := ok.castle hk
    have hsrc' : sm.src = (if p.side = 0 then 4 else 60) := hsrc
    have hking : kindOf (p.at (if p.side = 0 then 4 else 60)) = KING := by
      rw [← hsrc']; exact hk.1
    split
    · exact C16_uci_castle p _ (Or.inl rfl) hside hking
    · exact C16_uci_castle p _ (Or.inr rfl) hside hking
  · rw [if_neg hc]
    have hpr := promo_of_pseudo _ sm hps
    refine C16_uci_plain p sm.src sm.dst sm.promo ok.src ok.dst ?_ ?_
    · have : sm.promo = 0 ∨ sm.promo = 2 ∨ sm.promo = 3 ∨ sm.promo = 4 ∨ sm.promo = 5 := by omega
      simpa using this
    · intro ⟨hK, hsq⟩
      apply hc
      have : sm.dst = sm.src + 2 ∨ sm.dst + 2 = sm.src := by omega
      simp only [Spec.isCastle, Bool.and_eq_true, decide_eq_true_eq, Bool.or_eq_true]
      exact ⟨hK, this⟩

/-- the same stated over the rules: the UCI text of every legal move's code reads back as that code -/
theorem C16_uci_legal_rules (p : Position) (hwf : Spec.wf (Chess.absPos p) = true) (m : Spec.SMove)
    (hm : m ∈ Spec.legalMoves (Chess.absPos p)) :
    parseUci p (uci p (codeOf (Chess.absPos p) m)) = some (codeOf (Chess.absPos p) m) :=
  C16_uci_roundtrip_wf p hwf _ ((exact_all p hwf _).2 ⟨m, hm, rfl⟩)

/-- the printed FEN depends on the six fields only -/
theorem fen_congr (q p : Position) (h1 : q.board = p.board) (h2 : q.side = p.side) (h3 : q.castling = p.castling) (h4 : q.ep = p.ep)
    (h5 : q.halfmove = p.halfmove) (h6 : q.ply = p.ply) : fen q = fen p := by
  unfold fen
  rw [h1, h2, h3, h4, h5, h6]

/-- **C16 (FEN round trip) on every well-formed position**: loading the FEN the model prints gives the same placement, side to move,
    castling rights, en-passant square, half-move clock and ply counter, the key components `HashKey::init` computes from those
    fields, and prints the identical FEN.  Lemmas/FenRound.lean: the rank loop of the printer (digit runs, piece letters) against
    the reader's cursor (`rankInv_step`, `fenRank_place`), the eight ranks (`placement_roundtrip`), token splitting (`tokens_six`),
    the rights and en-passant texts (kernel tables over the 16 rights values and the 64 squares), the clocks (`Nat.toNat?_repr`).
    Hypotheses: well-formedness; the ply counter in step with the side to move (`PlyOK`, true after every FEN load and kept by every
    move — it is what makes the full-move number determine the ply); the clock within the 16 bits the engine stores. -/
theorem C16_fen_roundtrip (T : ZTable) (p : Position) (hwf : Spec.wf (Chess.absPos p) = true) (hply : PlyOK p) (hhm : p.halfmove < 65536) :
    (ofFen T (fen p)).board = p.board ∧ (ofFen T (fen p)).side = p.side ∧ (ofFen T (fen p)).castling = p.castling ∧
    (ofFen T (fen p)).ep = p.ep ∧ (ofFen T (fen p)).halfmove = p.halfmove ∧ (ofFen T (fen p)).ply = p.ply ∧
    (ofFen T (fen p)).hash = HashKey.init T p.board p.side p.castling p.ep ∧
    fen (ofFen T (fen p)) = fen p := by
  have ok := posOK_of_wf _ hwf
  have hep : p.ep ≤ 64 := by
    by_cases he : p.ep = 64
    · omega
    · have := (ep_facts _ hwf he).1
      have e : (Chess.absPos p).ep = p.ep := rfl
      rw [e] at this
      split at this <;> omega
  obtain ⟨h1, h2, h3, h4, h5, h6, h7⟩ := fen_fields T p ok.len ok.codes ok.side ok.cast hep hply.1 hhm
  have hside : p.side ≤ 1 := ok.side
  have h6' : (ofFen T (fen p)).ply = p.ply := by
    rw [h6]
    obtain ⟨a, b⟩ := hply
    rw [Int.tdiv_eq_ediv_of_nonneg (by omega)]
    have : p.side = 0 ∨ p.side = 1 := by omega
    rcases this with h | h <;> simp [h] at b ⊢ <;> omega
  exact ⟨h1, h2, h3, h4, h5, h6', h7, fen_congr _ _ h1 h2 h3 h4 h5 h6'⟩

/-- … and for a position reached through the model's own operations (FEN loads, moves, null moves) the key components are the
    position's own (C04: the incremental key is the from-scratch key), so the reloaded position has the identical key -/
theorem C16_fen_roundtrip_key (T : ZTable) (p : Position) (hr : Reach T p) (hwf : Spec.wf (Chess.absPos p) = true) (hply : PlyOK p)
    (hhm : p.halfmove < 65536) : (ofFen T (fen p)).hash = p.hash := by
  rw [(C16_fen_roundtrip T p hwf hply hhm).2.2.2.2.2.2.1, C04_key_inv T p hr, C04_scratch_is_init]

/-- non-vacuity: the hypotheses hold of the initial position and of a position with an en-passant square (kernel evaluation) -/
def c16StartBoard : List Nat :=
  [4, 2, 3, 5, 6, 3, 2, 4, 1, 1, 1, 1, 1, 1, 1, 1] ++ List.replicate 32 0 ++ [7, 7, 7, 7, 7, 7, 7, 7, 10, 8, 9, 11, 12, 9, 8, 10]
def c16Start : Position := { side := 0, halfmove := 0, ply := 1, board := c16StartBoard, castling := 15, ep := 64, hash := {}, history := [] }
def c16EpBoard : List Nat := (((List.replicate 64 0).set 4 6).set 35 7).set 36 1 |>.set 60 12
def c16Ep : Position := { side := 0, halfmove := 0, ply := 13, board := c16EpBoard, castling := 0, ep := 43, hash := {}, history := [] }
example : Spec.wf (Chess.absPos c16Start) = true ∧ PlyOK c16Start ∧ c16Start.halfmove < 65536 := by decide +kernel
example : Spec.wf (Chess.absPos c16Ep) = true ∧ PlyOK c16Ep ∧ c16Ep.halfmove < 65536 ∧ c16Ep.ep ≠ 64 := by decide +kernel

/-- **C16 on every position of every legal game from the initial position**: the UCI text of every legal move reads back as that
    move, and the FEN round trip on the six fields -/
theorem C16_reachable (T : ZTable) (p : Position) (ms : List Spec.SMove) (h : Shows p ms) :
    (∀ m, m ∈ Spec.legalMoves (Chess.absPos p) →
      parseUci p (uci p (codeOf (Chess.absPos p) m)) = some (codeOf (Chess.absPos p) m)) ∧
    (PlyOK p → p.halfmove < 65536 → Chess.absPos (ofFen T (fen p)) = Chess.absPos p ∧ fen (ofFen T (fen p)) = fen p) := by
  have hwf := wf_of_shows p ms h
  refine ⟨fun m hm => C16_uci_legal_rules p hwf m hm, fun hply hhm => ?_⟩
  obtain ⟨h1, h2, h3, h4, h5, h6, _, h8⟩ := C16_fen_roundtrip T p hwf hply hhm
  refine ⟨?_, h8⟩
  unfold Chess.absPos
  rw [h1, h2, h3, h4, h5, h6]

/-- non-vacuity: the initial position shows the empty game -/
example : Shows c16Start [] := ⟨trivial, by decide +kernel⟩

end Chess.Props
