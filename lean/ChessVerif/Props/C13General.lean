/-
  Props/C13General.lean — PROPERTY C13 on the general (non-endgame) branch of the evaluation: proved for every well-formed position.
  Statements only; proofs in Lemmas/Mirror*.lean.
-/
import ChessVerif.Lemmas.MirrorOutposts
import ChessVerif.Lemmas.MirrorEndgame
import ChessVerif.Lemmas.MirrorKPK
import ChessVerif.Lemmas.MirrorDispatch
namespace Chess.Props

/-- **C13 on the general branch**: for every well-formed position `p` and every position `q` that carries its colour mirror (ranks
    flipped with colours swapped, the other side to move, castling rights swapped), the evaluation `PositionScorer::score` computes when
    no specialised endgame applies — pawn score (the cached part), `score_pieces_for_side` for both colours incl. every per-piece term,
    the king terms and the `setup<side>` scratch state (pawn and piece attack sets, outposts, king blockers), tapered by the game phase
    and seen from the side to move — is the same for `q` as for `p`.

    Proof map (Lemmas/): MirrorBB (bit s of Y = bit `flipV s` of X: Boolean operations, population count, zero and "more than one"
    tests, pawn shifts), MirrorCount (the mirrored board is a permutation of the recoloured board), MirrorSlider (magic lookups = ray
    walks (C11) commute with the flip for every occupancy; unions over a permutation of the squares), MirrorPawn (`pawnFeat`, constant
    masks of (colour, square) vs (other colour, flipped square)), MirrorLines (line masks, four kernel-table chunks), MirrorEval
    (`MirrorPos`: occupancy and per-colour sets; `attacked_squares`), MirrorSetup (`setup<side>`: attack sets, king blockers,
    `get_real_possible_moves`), MirrorOutposts (`get_outposts`: on one file the first bit of the flipped set is the flip of the last
    bit of the set — kernel table over 8 files × 256 subsets), MirrorPieces (knight, bishop, rook, queen, king terms), MirrorGeneral
    (`score_pieces_for_side`, `evalWith`; truncating division commutes with the sign change, `C13_combine_neg`). -/
theorem C13_general_branch (p q : Position) (hwf : Spec.wf (Chess.absPos p) = true) (hq : q.board = mirrorBoard p.board)
    (hside : q.side = 1 - p.side) (hcast : q.castling = mirrorRights p.castling) :
    evalWith q (pawnScore (BBs.of q)) = evalWith p (pawnScore (BBs.of p)) := by
  obtain ⟨hbo, _, _, hcodes, _⟩ := wf_board_hyps _ hwf
  have m : MirrorPos p q := ⟨hq, hbo.len, hcodes⟩
  exact evalWith_mirror p q hwf hq hside hcast (fun c hc => outposts_mirror m c hc)

/-- C13 for `PositionScorer::score` itself, wherever neither the position nor its mirror is claimed by one of the 17 specialised
    endgame evaluators.  PARTIAL: the full statement `C13_Statement` (Props/C13.lean) also covers the specialised endgames; that the
    endgame dispatch and each endgame evaluator are colour-symmetric is not proved here and stays decided on the implementation by
    evaluating every sampled position and its mirror (tools/vprops.py check_C13, structured endgame generators). -/
theorem C13_evalPure_partial (p q : Position) (hwf : Spec.wf (Chess.absPos p) = true) (hq : q.board = mirrorBoard p.board)
    (hside : q.side = 1 - p.side) (hcast : q.castling = mirrorRights p.castling)
    (hep : endgameScore (BBs.of p) p.board p.side = VALUE_NONE) (heq : endgameScore (BBs.of q) q.board q.side = VALUE_NONE) :
    evalPure q = evalPure p := by
  unfold evalPure
  simp only []
  rw [if_neg (by rw [heq]; exact fun h => h rfl), if_neg (by rw [hep]; exact fun h => h rfl)]
  exact C13_general_branch p q hwf hq hside hcast

/-- no specialised endgame claims the position (for either strong side) -/
def NoEndgame (p : Position) : Prop := ∀ e s, s ≤ 1 → egApplies e (BBs.of p) p.board s = false

theorem endgameScore_none (p : Position) (h : NoEndgame p) (stm : Nat) : endgameScore (BBs.of p) p.board stm = VALUE_NONE := by
  unfold endgameScore
  have : (egOrder.flatMap (fun e => [(e, 0), (e, 1)])).find? (fun (x : EG × Nat) => egApplies x.1 (BBs.of p) p.board x.2) = none := by
    rw [List.find?_eq_none]
    intro x hx
    obtain ⟨e, _, hx⟩ := List.mem_flatMap.1 hx
    have : x = (e, 0) ∨ x = (e, 1) := by simpa using hx
    rcases this with rfl | rfl
    · rw [h e 0 (by omega)]; exact Bool.noConfusion
    · rw [h e 1 (by omega)]; exact Bool.noConfusion
  simp only []
  rw [this]

/-- the specialised-endgame dispatch is colour-symmetric in *which* endgame it selects: `egApplies e` for strong side s on the position
    ⇔ for the other side on the mirror (all 17 classes: packed material signatures, piece counts, bare-king tests; Lemmas/MirrorEndgame) -/
theorem C13_endgame_dispatch_mirror (p q : Position) (hwf : Spec.wf (Chess.absPos p) = true) (hq : q.board = mirrorBoard p.board)
    (e : EG) (s : Nat) (hs : s ≤ 1) : egApplies e (BBs.of q) q.board (1 - s) = egApplies e (BBs.of p) p.board s := by
  obtain ⟨hbo, _, _, hcodes, hcnt⟩ := wf_board_hyps _ hwf
  exact egApplies_mirror ⟨hq, hbo.len, hcodes⟩ hcnt e s hs

/-- **C13 for `PositionScorer::score` on every well-formed position that no specialised endgame claims** — no hypothesis about the
    mirrored position: it is claimed by no endgame either (`C13_endgame_dispatch_mirror`), so both evaluations are the general branch. -/
theorem C13_no_endgame (p q : Position) (hwf : Spec.wf (Chess.absPos p) = true) (hq : q.board = mirrorBoard p.board)
    (hside : q.side = 1 - p.side) (hcast : q.castling = mirrorRights p.castling) (hne : NoEndgame p) :
    evalPure q = evalPure p := by
  have hneq : NoEndgame q := by
    intro e s hs
    have := C13_endgame_dispatch_mirror p q hwf hq e (1 - s) (by omega)
    have e2 : 1 - (1 - s) = s := by omega
    rw [e2] at this
    rw [this]; exact hne e (1 - s) (by omega)
  exact C13_evalPure_partial p q hwf hq hside hcast (endgameScore_none p hne _) (endgameScore_none q hneq _)

/-- **C13 on the KPK class** (where this tree's first C13 defect was: the pawn's rank normalised twice for Black): for every well-formed
    position that the KPK endgame claims — for either strong side — `PositionScorer::score` of the colour-mirrored position equals
    that of the position.  Lemmas/MirrorKPK.lean: the single pawn's square under the mirror (`lsb_mirror_single`), the bitbase
    normalisation (`kpkNormalize_mirror`: flipping all three squares, the strong side and the side to move gives the same normalised
    tuple), the value, and the dispatch (KPK is the first class; it cannot claim both strong sides). -/
theorem C13_kpk (p q : Position) (hwf : Spec.wf (Chess.absPos p) = true) (hq : q.board = mirrorBoard p.board)
    (hside : q.side = 1 - p.side) (hcast : q.castling = mirrorRights p.castling) (s : Nat) (hs : s ≤ 1)
    (happ : egApplies .KPK (BBs.of p) p.board s = true) : evalPure q = evalPure p := by
  obtain ⟨hbo, hs1, hkings, hcodes, hcnt⟩ := wf_board_hyps _ hwf
  have m : MirrorPos p q := ⟨hq, hbo.len, hcodes⟩
  obtain ⟨ks, hks, _⟩ := hkings s hs
  obtain ⟨kw, hkw, _⟩ := hkings (1 - s) (by omega)
  have he := endgameScore_kpk_mirror m hcnt s p.side hs hs1 ks kw hks hkw happ
  unfold evalPure
  simp only []
  rw [hside, he]
  by_cases hv : endgameScore (BBs.of p) p.board p.side ≠ VALUE_NONE
  · rw [if_pos hv, if_pos hv]
  · rw [if_neg hv, if_neg hv]
    exact C13_general_branch p q hwf hq hside hcast

/-- **C13 on six more endgame classes** (KRNKR, KRBKR, KQKR, KNNK, KRKB, KXK — the evaluators that read only the two kings and the piece
    counts): for every well-formed position whose first claiming class in the dispatch order is one of them, and which that class
    claims for one strong side only, `PositionScorer::score` of the colour-mirrored position equals that of the position.
    Lemmas/MirrorDispatch.lean: `endgameScore_class_mirror` (the dispatch picks the same class with the other strong side on the mirror:
    the classes before it claim nothing on either), `eg_value_simple`.  The hypotheses are decidable facts about the position. -/
theorem C13_simple_endgame (p q : Position) (hwf : Spec.wf (Chess.absPos p) = true) (hq : q.board = mirrorBoard p.board)
    (hside : q.side = 1 - p.side) (hcast : q.castling = mirrorRights p.castling)
    (pre post : List EG) (e : EG) (hord : egOrder = pre ++ e :: post) (he : SimpleEG e) (s : Nat) (hs : s ≤ 1)
    (hpre : ∀ e0, e0 ∈ pre → egApplies e0 (BBs.of p) p.board 0 = false ∧ egApplies e0 (BBs.of p) p.board 1 = false)
    (hyes : egApplies e (BBs.of p) p.board s = true) (hno : egApplies e (BBs.of p) p.board (1 - s) = false) :
    evalPure q = evalPure p := by
  obtain ⟨hbo, hs1, hkings, hcodes, hcnt⟩ := wf_board_hyps _ hwf
  have m : MirrorPos p q := ⟨hq, hbo.len, hcodes⟩
  obtain ⟨ks, hks, _⟩ := hkings s hs
  obtain ⟨kw, hkw, _⟩ := hkings (1 - s) (by omega)
  have hv := eg_value_simple m e he s p.side hs ks kw hks hkw
  have hee := endgameScore_class_mirror m hcnt pre post e hord s p.side hs hs1 hpre hyes hno hv
  unfold evalPure
  simp only []
  rw [hside, hee]
  by_cases hvn : endgameScore (BBs.of p) p.board p.side ≠ VALUE_NONE
  · rw [if_pos hvn, if_pos hvn]
  · rw [if_neg hvn, if_neg hvn]
    exact C13_general_branch p q hwf hq hside hcast

/-- C13 for a position whose first claiming class is `e`, for one strong side only, given that the value of `e` is mirror-symmetric there -/
theorem C13_class_of_value (p q : Position) (hwf : Spec.wf (Chess.absPos p) = true) (hq : q.board = mirrorBoard p.board)
    (hside : q.side = 1 - p.side) (hcast : q.castling = mirrorRights p.castling)
    (pre post : List EG) (e : EG) (hord : egOrder = pre ++ e :: post) (s : Nat) (hs : s ≤ 1)
    (hpre : ∀ e0, e0 ∈ pre → egApplies e0 (BBs.of p) p.board 0 = false ∧ egApplies e0 (BBs.of p) p.board 1 = false)
    (hyes : egApplies e (BBs.of p) p.board s = true) (hno : egApplies e (BBs.of p) p.board (1 - s) = false)
    (hv : egStrongScore e (BBs.of q) q.board (1 - p.side) (1 - s) = egStrongScore e (BBs.of p) p.board p.side s) :
    evalPure q = evalPure p := by
  obtain ⟨hbo, hs1, _, hcodes, hcnt⟩ := wf_board_hyps _ hwf
  have m : MirrorPos p q := ⟨hq, hbo.len, hcodes⟩
  have hee := endgameScore_class_mirror m hcnt pre post e hord s p.side hs hs1 hpre hyes hno hv
  unfold evalPure
  simp only []
  rw [hside, hee]
  by_cases hvn : endgameScore (BBs.of p) p.board p.side ≠ VALUE_NONE
  · rw [if_pos hvn, if_pos hvn]
  · rw [if_neg hvn, if_neg hvn]
    exact C13_general_branch p q hwf hq hside hcast

/-- **C13 on four more endgame classes** (KRKN, KNBK, KQKP, KRKP — the evaluators that read the kings and the square of one piece that
    occurs exactly once): same hypotheses as `C13_simple_endgame`.  That the piece occurs once is read off the material signature
    (`pcv_decode`); its square on the mirror is the flip of its square (`sq1_mirror`); for KNBK the bishop's square colour flips and
    with it the choice between the weak king's square and its flip, for KQKP the rook/bishop-file test is a zero test of the pawn set
    against a flip-invariant mask. -/
theorem C13_single_piece_endgame (p q : Position) (hwf : Spec.wf (Chess.absPos p) = true) (hq : q.board = mirrorBoard p.board)
    (hside : q.side = 1 - p.side) (hcast : q.castling = mirrorRights p.castling)
    (pre post : List EG) (e : EG) (hord : egOrder = pre ++ e :: post) (he : e = .KRKN ∨ e = .KNBK ∨ e = .KQKP ∨ e = .KRKP) (s : Nat) (hs : s ≤ 1)
    (hpre : ∀ e0, e0 ∈ pre → egApplies e0 (BBs.of p) p.board 0 = false ∧ egApplies e0 (BBs.of p) p.board 1 = false)
    (hyes : egApplies e (BBs.of p) p.board s = true) (hno : egApplies e (BBs.of p) p.board (1 - s) = false) :
    evalPure q = evalPure p := by
  obtain ⟨hbo, hs1, hkings, hcodes, hcnt⟩ := wf_board_hyps _ hwf
  have m : MirrorPos p q := ⟨hq, hbo.len, hcodes⟩
  obtain ⟨ks, hks, _⟩ := hkings s hs
  obtain ⟨kw, hkw, _⟩ := hkings (1 - s) (by omega)
  obtain ⟨v1, v2, v3⟩ := eg_value_single m s p.side hs ks kw hks hkw
  apply C13_class_of_value p q hwf hq hside hcast pre post e hord s hs hpre hyes hno
  rcases he with rfl | rfl | rfl | rfl
  · have h : pcv p.board = sandbox s [0,0,0,1,0,0,1,0,0,0] [0,1,0,0,0,0,0,0,1,0] := by simpa [egApplies] using hyes
    exact v1 (pcv_decode p.board hcnt _ _ _ _ _ _ _ _ _ _ (by decide) s hs h).2.2.1
  · have h : pcv p.board = sandbox s [0,1,1,0,0,0,0,0,0,0] [0,0,0,0,0,0,1,1,0,0] := by simpa [egApplies] using hyes
    exact v2 (pcv_decode p.board hcnt _ _ _ _ _ _ _ _ _ _ (by decide) s hs h).1.2.2.1
  · have h : pcv p.board = sandbox s [0,0,0,0,1,1,0,0,0,0] [1,0,0,0,0,0,0,0,0,1] := by simpa [egApplies] using hyes
    exact (v3 (pcv_decode p.board hcnt _ _ _ _ _ _ _ _ _ _ (by decide) s hs h).2.1).1
  · have h : pcv p.board = sandbox s [0,0,0,1,0,1,0,0,0,0] [1,0,0,0,0,0,0,0,1,0] := by simpa [egApplies] using hyes
    exact (v3 (pcv_decode p.board hcnt _ _ _ _ _ _ _ _ _ _ (by decide) s hs h).2.1).2

/-- **C13 on two more endgame classes** (KNNKP and KmmKm — the evaluators that read a *pair* of like pieces, whose order in the bit scan
    may swap under the mirror: the sum over the two knights is commutative, "the two bishops stand on different colours" is symmetric).
    Same hypotheses as `C13_simple_endgame`. -/
theorem C13_pair_endgame (p q : Position) (hwf : Spec.wf (Chess.absPos p) = true) (hq : q.board = mirrorBoard p.board)
    (hside : q.side = 1 - p.side) (hcast : q.castling = mirrorRights p.castling)
    (pre post : List EG) (e : EG) (hord : egOrder = pre ++ e :: post) (he : e = .KNNKP ∨ e = .KmmKm) (s : Nat) (hs : s ≤ 1)
    (hpre : ∀ e0, e0 ∈ pre → egApplies e0 (BBs.of p) p.board 0 = false ∧ egApplies e0 (BBs.of p) p.board 1 = false)
    (hyes : egApplies e (BBs.of p) p.board s = true) (hno : egApplies e (BBs.of p) p.board (1 - s) = false) :
    evalPure q = evalPure p := by
  obtain ⟨hbo, hs1, hkings, hcodes, hcnt⟩ := wf_board_hyps _ hwf
  have m : MirrorPos p q := ⟨hq, hbo.len, hcodes⟩
  obtain ⟨ks, hks, _⟩ := hkings s hs
  obtain ⟨kw, hkw, _⟩ := hkings (1 - s) (by omega)
  apply C13_class_of_value p q hwf hq hside hcast pre post e hord s hs hpre hyes hno
  rcases he with rfl | rfl
  · have h : pcv p.board = sandbox s [0,2,0,0,0,1,0,0,0,0] [1,0,0,0,0,0,2,0,0,0] := by simpa [egApplies] using hyes
    have hd := pcv_decode p.board hcnt _ _ _ _ _ _ _ _ _ _ (by decide) s hs h
    exact eg_value_knnkp m s p.side hs ks kw hks hkw hd.2.1 hd.1.2.1
  · exact eg_value_kmmkm m s p.side hs

/-- non-vacuity: a middlegame-like position (kings, a white knight and pawn, a black rook and pawn) is well-formed and no specialised
    endgame claims it or its mirror -/
def c13gBoard : List Nat := (((((List.replicate 64 0).set 4 6).set 60 12).set 18 2).set 45 10).set 52 7 |>.set 12 1
def c13gPos : Position := { side := 0, halfmove := 0, ply := 1, board := c13gBoard, castling := 0, ep := 64, hash := {}, history := [] }
def c13gMir : Position := { side := 1, halfmove := 0, ply := 2, board := mirrorBoard c13gBoard, castling := 0, ep := 64, hash := {}, history := [] }
set_option maxRecDepth 100000 in
example : Spec.wf (Chess.absPos c13gPos) = true ∧ endgameScore (BBs.of c13gPos) c13gPos.board c13gPos.side = VALUE_NONE ∧
    endgameScore (BBs.of c13gMir) c13gMir.board c13gMir.side = VALUE_NONE := by decide +kernel

/-- a decidable form of `NoEndgame` -/
theorem noEndgame_of_all (p : Position)
    (h : egOrder.all (fun e => !egApplies e (BBs.of p) p.board 0 && !egApplies e (BBs.of p) p.board 1) = true) : NoEndgame p := by
  intro e s hs
  have hm : e ∈ egOrder := by cases e <;> simp [egOrder]
  have := (List.all_eq_true.1 h) e hm
  simp only [Bool.and_eq_true, Bool.not_eq_true'] at this
  have hs' : s = 0 ∨ s = 1 := by omega
  rcases hs' with rfl | rfl
  · exact this.1
  · exact this.2

set_option maxRecDepth 100000 in
example : NoEndgame c13gPos := noEndgame_of_all c13gPos (by decide +kernel)

/-- non-vacuity for `C13_kpk`: 8/5K2/2k1P3/8/8/8/8/8 w (the witness of the repaired defect) is well-formed and claimed by KPK for White -/
def c13kBoard : List Nat := (((List.replicate 64 0).set 53 6).set 42 12).set 44 1
def c13kPos : Position := { side := 0, halfmove := 0, ply := 1, board := c13kBoard, castling := 0, ep := 64, hash := {}, history := [] }
set_option maxRecDepth 100000 in
example : Spec.wf (Chess.absPos c13kPos) = true ∧ egApplies .KPK (BBs.of c13kPos) c13kPos.board 0 = true := by decide +kernel

/-- non-vacuity for `C13_simple_endgame`: K+Q (white) against K+R: the six classes before KQKR claim nothing, KQKR claims White only -/
def c13qBoard : List Nat := ((((List.replicate 64 0).set 4 6).set 60 12).set 27 5).set 45 10
def c13qPos : Position := { side := 0, halfmove := 0, ply := 1, board := c13qBoard, castling := 0, ep := 64, hash := {}, history := [] }
set_option maxRecDepth 100000 in
example : Spec.wf (Chess.absPos c13qPos) = true ∧ egOrder = [EG.KPK, .KPsK, .KRKB, .KRKN, .KNNK, .KNNKP] ++ EG.KQKR :: [.KNBK, .KRNKR, .KRBKR, .KBPsK, .KBPsKB, .KRKP, .KQKP, .KQKRPs, .KmmKm, .KXK] ∧
    ([EG.KPK, .KPsK, .KRKB, .KRKN, .KNNK, .KNNKP].all fun e0 => !egApplies e0 (BBs.of c13qPos) c13qPos.board 0 && !egApplies e0 (BBs.of c13qPos) c13qPos.board 1) = true ∧
    egApplies .KQKR (BBs.of c13qPos) c13qPos.board 0 = true ∧ egApplies .KQKR (BBs.of c13qPos) c13qPos.board 1 = false := by decide +kernel

end Chess.Props
