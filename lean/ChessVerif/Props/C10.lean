/-
  Props/C10.lean — PROPERTY C10: no well-formed session corrupts memory.
  PARTIAL BY NATURE: memory safety is not a theorem about a functional model; proved here are index bounds of the
  modelled fixed-size tables (capacities from Gen, i.e. from the build).
-/
import ChessVerif.Model.Movegen
import ChessVerif.Spec.Rules
import ChessVerif.Gen.Consts
namespace Chess.Props

/-- key history: the write index `_history_counter` stays below MAX_PLIES for games of ANY length (after the C10 fix) -/
theorem C10_history (h : List Nat) (k : Nat) (hl : h.length ≤ Gen.HISTORY_CAP) :
    (pushHistory h k).length ≤ Gen.HISTORY_CAP ∧ (pushHistory h k).length ≥ 1 := by
  have hc : Gen.HISTORY_CAP = 800 := by decide
  unfold pushHistory MAX_PLIES_MODEL
  rw [hc] at hl ⊢
  split
  · simp only [List.length_cons, List.length_take]; omega
  · simp only [List.length_cons]; omega

/-- the model's history capacity is the build's -/
theorem C10_history_cap : MAX_PLIES_MODEL = Gen.HISTORY_CAP := by decide

/-- per-iteration array: iteration depths are clamped to MAX_DEPTH and index an array of MAX_DEPTH+1 slots -/
theorem C10_iteration_index (d : Nat) : min d Gen.MAX_DEPTH < Gen.PREVIOUS_MOVES_CAP := by
  have h1 : Gen.MAX_DEPTH = 40 := by decide
  have h2 : Gen.PREVIOUS_MOVES_CAP = 41 := by decide
  omega

/-- pins: at most one per ray, so at most 8 < MAX_PINS -/
theorem C10_pins (b : BBs) (board : List Nat) (side : Nat) : (genPins b board side).length ≤ 8 ∧ 8 < Gen.MAX_PINS := by
  refine ⟨?_, by decide⟩
  unfold genPins
  exact Nat.le_trans (List.length_filterMap_le _ _) (by simp)

/-- the SAN move buffer holds as many moves as a move list row (after the C17/C10 fix), the search stack and the pv
    arrays have 2·MAX_DEPTH slots, the move-list table 4·MAX_DEPTH rows -/
theorem C10_capacities : Gen.SAN_ARRAY_CAP = Gen.MAX_MOVES ∧ Gen.STACK_INFO_SIZE = 2 * Gen.MAX_DEPTH ∧
    Gen.PV_LIST_SIZE = 2 * Gen.MAX_DEPTH ∧ Gen.MOVE_LIST_ROWS = 4 * Gen.MAX_DEPTH ∧ Gen.SEARCHMOVES_CAP = Gen.MAX_MOVES ∧
    218 < Gen.MAX_MOVES ∧ Gen.PIECE_LIST_CAP = 10 := by decide

/-- piece lists: under the material clause of well-formedness no piece kind exceeds the 10 slots of its list -/
theorem C10_piece_lists (b : List Nat) (h : Spec.materialOK b = true) (c k : Nat) (hc : c ≤ 1) (hk : 1 ≤ k ∧ k ≤ 6) :
    Spec.count b (Spec.mkPc c k) ≤ Gen.PIECE_LIST_CAP := by
  have hcap : Gen.PIECE_LIST_CAP = 10 := by decide
  rw [hcap]
  unfold Spec.materialOK at h
  simp only [List.all_cons, List.all_nil, Bool.and_true, Bool.and_eq_true, decide_eq_true_eq] at h
  have hc' : c = 0 ∨ c = 1 := by omega
  obtain ⟨k1, k6⟩ := hk
  have hk' : k = 1 ∨ k = 2 ∨ k = 3 ∨ k = 4 ∨ k = 5 ∨ k = 6 := by omega
  rcases hc' with rfl | rfl <;> rcases hk' with rfl | rfl | rfl | rfl | rfl | rfl <;> omega

end Chess.Props
