/-
  Props/C14.lean — PROPERTY C14: static evaluation is a pure, bounded function of the position.  Statements only.
-/
import ChessVerif.Model.Eval
import ChessVerif.Lemmas.EvalEndgame
import ChessVerif.Lemmas.Shows
namespace Chess.Props

/-- operations on one long-lived evaluator: evaluate a position, or `clear()` (ucinewgame) -/
inductive EvalOp
  | eval (p : Position)
  | clear

/-- run a sequence of operations on a cache, collecting the values the evaluator returns -/
def runScorer : PawnCache → List EvalOp → List Int
  | _, [] => []
  | c, .eval p :: rest => (evalCached c p).1 :: runScorer (evalCached c p).2 rest
  | c, .clear :: rest => runScorer c.clear rest

/-- what a transparent evaluator returns: the pure value of each evaluated position, in order -/
def pureValues : List EvalOp → List Int
  | [] => []
  | .eval p :: rest => evalPure p :: pureValues rest
  | .clear :: rest => pureValues rest

/-- the pawn key determines the pawn score on the positions of this session (no 64-bit pawn-key collision) and
    it is XOR-consistent with the empty structure: key 0 only for the score of "no pawns" -/
def PawnKeyInj (ops : List EvalOp) : Prop :=
  (∀ p q, EvalOp.eval p ∈ ops → EvalOp.eval q ∈ ops → p.hash.pawnK = q.hash.pawnK → pawnScore (BBs.of p) = pawnScore (BBs.of q)) ∧
  (∀ p, EvalOp.eval p ∈ ops → p.hash.pawnK = 0 → pawnScore (BBs.of p) = {})

/-- cache invariant: a slot either is untouched (all-zero entry) or holds the pawn score of a position of the session -/
def CacheOK (ops : List EvalOp) (c : PawnCache) : Prop :=
  ∀ slot, (c.get slot = {}) ∨ (∃ p, EvalOp.eval p ∈ ops ∧ (c.get slot).key = p.hash.pawnK ∧ (c.get slot).value = pawnScore (BBs.of p))

theorem get_set_same (c : PawnCache) (s : Nat) (e : CacheEntry) : (c.set s e).get s = e := by
  simp [PawnCache.get, PawnCache.set]

theorem find_filter (l : List (Nat × CacheEntry)) (s t : Nat) (h : t ≠ s) :
    (l.filter (fun x => decide (x.1 ≠ s))).find? (fun x => decide (x.1 = t)) = l.find? (fun x => decide (x.1 = t)) := by
  induction l with
  | nil => rfl
  | cons x xs ih =>
    by_cases hx : x.1 = s
    · have hxt : ¬ x.1 = t := fun h' => h (h'.symm.trans hx)
      rw [List.filter_cons_of_neg (by simp [hx]), List.find?_cons_of_neg (by simp [hxt]), ih]
    · rw [List.filter_cons_of_pos (by simp [hx])]
      by_cases ht : x.1 = t
      · rw [List.find?_cons_of_pos (by simp [ht]), List.find?_cons_of_pos (by simp [ht])]
      · rw [List.find?_cons_of_neg (by simp [ht]), List.find?_cons_of_neg (by simp [ht]), ih]

theorem get_set_other (c : PawnCache) (s t : Nat) (e : CacheEntry) (h : t ≠ s) : (c.set s e).get t = c.get t := by
  unfold PawnCache.get PawnCache.set
  have hst : ¬ s = t := fun h' => h h'.symm
  have e1 : ((s, e) :: c.slots.filter (fun x => decide (x.1 ≠ s))).find? (fun x => decide (x.1 = t)) =
      c.slots.find? (fun x => decide (x.1 = t)) := by
    rw [List.find?_cons_of_neg (by simp [hst]), find_filter _ _ _ h]
  rw [e1]

theorem clear_get (c : PawnCache) (s : Nat) : c.clear.get s = {} := by simp [PawnCache.get, PawnCache.clear]

/-- one evaluation on an OK cache returns the pure value and leaves the cache OK -/
theorem eval_step (ops : List EvalOp) (inj : PawnKeyInj ops) (c : PawnCache) (hc : CacheOK ops c) (p : Position)
    (hp : EvalOp.eval p ∈ ops) : (evalCached c p).1 = evalPure p ∧ CacheOK ops (evalCached c p).2 := by
  unfold evalCached evalPure
  by_cases he : endgameScore (BBs.of p) p.board p.side ≠ VALUE_NONE
  · simp [he, hc]
  · simp only [he, if_false]
    by_cases hk : (c.get (p.hash.pawnK % PAWN_CACHE_SIZE)).key = p.hash.pawnK
    · simp only [hk, if_true]
      refine ⟨?_, hc⟩
      rcases hc (p.hash.pawnK % PAWN_CACHE_SIZE) with h0 | ⟨q, hq, hkq, hv⟩
      · -- untouched slot: key 0, value (0,0); then p's pawn key is 0 and its pawn score is (0,0)
        have hk0 : p.hash.pawnK = 0 := by rw [← hk, h0]
        rw [h0, inj.2 p hp hk0]
      · rw [hv, inj.1 q p hq hp (by rw [← hkq, hk])]
    · simp only [hk, if_false]
      refine ⟨trivial, ?_⟩
      intro slot
      by_cases hs : slot = p.hash.pawnK % PAWN_CACHE_SIZE
      · right; subst hs; exact ⟨p, hp, by rw [get_set_same], by rw [get_set_same]⟩
      · rw [get_set_other _ _ _ _ hs]; exact hc slot

theorem runScorer_pure (all : List EvalOp) (inj : PawnKeyInj all) (ops : List EvalOp) (hsub : ∀ o, o ∈ ops → o ∈ all)
    (c : PawnCache) (hc : CacheOK all c) : runScorer c ops = pureValues ops := by
  induction ops generalizing c with
  | nil => rfl
  | cons o rest ih =>
    cases o with
    | eval p =>
      have hp : EvalOp.eval p ∈ all := hsub _ (by simp)
      obtain ⟨h1, h2⟩ := eval_step all inj c hc p hp
      simp only [runScorer, pureValues, h1]
      rw [ih (fun o ho => hsub o (List.mem_cons_of_mem _ ho)) _ h2]
    | clear =>
      simp only [runScorer, pureValues]
      exact ih (fun o ho => hsub o (List.mem_cons_of_mem _ ho)) _ (fun s => Or.inl (clear_get c s))

/-- C14 (transparency): on a fresh evaluator, ANY sequence of evaluations and cache clears returns, for every
    evaluated position, exactly the value a fresh evaluator gives it — whatever was evaluated before. -/
theorem C14_cache_transparent (ops : List EvalOp) (inj : PawnKeyInj ops) :
    runScorer {} ops = pureValues ops :=
  runScorer_pure ops inj ops (fun _ h => h) {} (fun s => Or.inl (by simp [PawnCache.get]))

/-- the two numeric facts about the constants of the current build on which the bound rests (kernel evaluation over
    Gen/EvalConsts.lean and Gen/Consts.lean): the worst-case sum of all evaluation terms, and the worst case of every
    specialised endgame, both stay below the mate range and below VALUE_NONE -/
theorem C14_constants : totalB < VALUE_MATE - Gen.MAX_DEPTH ∧ egB < VALUE_MATE - Gen.MAX_DEPTH ∧ VALUE_MATE - Gen.MAX_DEPTH ≤ VALUE_NONE := by
  decide +kernel

/-- C14 (BOUNDED, every position): on every well-formed position (Spec.wf: the quantifier of the property — at most 8 pawns,
    10 knights/bishops/rooks and 9 queens per side, so "nine queens" is inside) the static evaluation is not VALUE_NONE and
    lies strictly inside the non-mate range: |eval| < VALUE_MATE − MAX_DEPTH.  General branch: every term is a constant of
    value.h times a population count (≤ 64), a king distance (≤ 8) or a bounded table entry, summed over at most 8/10/10/10/9
    pieces per side, then tapered (truncating division keeps the bound).  Endgame branch: each of the 17 specialised
    evaluators, including the `min(v, VALUE_MATE − 1)` clamps, whose argument is shown to stay below the clamp. -/
theorem C14_bounded (p : Position) (hwf : Spec.wf (absPos p) = true) :
    evalPure p ≠ VALUE_NONE ∧ ((evalPure p).natAbs : Int) < VALUE_MATE - Gen.MAX_DEPTH := by
  obtain ⟨c1, c2, c3⟩ := C14_constants
  unfold evalPure
  simp only []
  by_cases he : endgameScore (BBs.of p) p.board p.side ≠ VALUE_NONE
  · rw [if_pos he]
    have := endgame_bound p hwf he
    exact ⟨he, by omega⟩
  · rw [if_neg he]
    have := evalWith_bound p hwf
    constructor
    · intro h; omega
    · omega

/-- the hypothesis is met by real positions: the initial position, and a nine-queens position -/
def c14Start : Position :=
  { side := 0, halfmove := 0, ply := 1, castling := 15, ep := 64, hash := {}, history := [],
    board := [4, 2, 3, 5, 6, 3, 2, 4, 1, 1, 1, 1, 1, 1, 1, 1] ++ List.replicate 32 0 ++ [7, 7, 7, 7, 7, 7, 7, 7, 10, 8, 9, 11, 12, 9, 8, 10] }
def c14Queens : Position :=
  { side := 0, halfmove := 0, ply := 1, castling := 0, ep := 64, hash := {}, history := [],
    board := [0, 0, 0, 0, 0, 0, 0, 6, 5, 5, 5, 0, 0, 0, 0, 0, 5, 5, 5, 0, 0, 0, 0, 0, 5, 5, 5] ++ List.replicate 12 0 ++ [12] ++ List.replicate 24 0 }
example : Spec.wf (absPos c14Start) = true ∧ Spec.wf (absPos c14Queens) = true := by decide +kernel

/-- the clamp of the specialised endgames by itself (kept from the earlier partial result) -/
theorem C14_cap_partial (v : Int) : min v (VALUE_MATE - 1) < VALUE_MATE := by
  have : VALUE_MATE = 640000 := by decide
  omega

/-- **C14 on every position of every legal game from the initial position** (`Spec.wf` is an invariant of legal play, Lemmas/WfStep.lean):
    the evaluation is a real value strictly inside the mate range -/
theorem C14_reachable (p : Position) (ms : List Spec.SMove) (h : Shows p ms) :
    evalPure p ≠ VALUE_NONE ∧ ((evalPure p).natAbs : Int) < VALUE_MATE - Gen.MAX_DEPTH :=
  C14_bounded p (wf_of_shows p ms h)

end Chess.Props
