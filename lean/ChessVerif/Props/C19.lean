/-
  Props/C19.lean — PROPERTY C19: book lookups return exactly what the book file says.  Statements only.
  `loadBook`, `pick`, `best`, `decodeBookMove` are the model of polyglot.cpp (Model/Polyglot.lean).
-/
import ChessVerif.Model.Polyglot
namespace Chess.Props

/-- the complete 16-byte records of a byte string, in file order (the specification of "what the file says") -/
def chunks16 : List Nat → List (List Nat)
  | b0 :: b1 :: b2 :: b3 :: b4 :: b5 :: b6 :: b7 :: b8 :: b9 :: b10 :: b11 :: b12 :: b13 :: b14 :: b15 :: rest =>
      [b0, b1, b2, b3, b4, b5, b6, b7, b8, b9, b10, b11, b12, b13, b14, b15] :: chunks16 rest
  | _ => []

/-- C19 (load): for EVERY byte string the loaded book is exactly the decoded complete records, in order:
    nothing dropped, duplicated or invented, also for empty and truncated files -/
theorem C19_load (bs : List Nat) : loadBook bs = (chunks16 bs).map decodeEntry := by
  induction bs using loadBook.induct with
  | case1 b0 b1 b2 b3 b4 b5 b6 b7 b8 b9 b10 b11 b12 b13 b14 b15 rest ih =>
    simp [loadBook, chunks16, ih]
  | case2 bs h =>
    have h1 : loadBook bs = [] := by
      unfold loadBook
      split
      · exact (h _ _ _ _ _ _ _ _ _ _ _ _ _ _ _ _ _ rfl).elim
      · rfl
    have h2 : chunks16 bs = [] := by
      unfold chunks16
      split
      · exact (h _ _ _ _ _ _ _ _ _ _ _ _ _ _ _ _ _ rfl).elim
      · rfl
    rw [h1, h2]; rfl

theorem chunks16_length (bs : List Nat) : (chunks16 bs).length = bs.length / 16 := by
  induction bs using chunks16.induct with
  | case1 b0 b1 b2 b3 b4 b5 b6 b7 b8 b9 b10 b11 b12 b13 b14 b15 rest ih =>
    simp only [chunks16, List.length_cons, ih]; omega
  | case2 bs h =>
    have h2 : chunks16 bs = [] := by
      unfold chunks16
      split
      · exact (h _ _ _ _ _ _ _ _ _ _ _ _ _ _ _ _ _ rfl).elim
      · rfl
    rw [h2]
    have : bs.length < 16 := by
      match bs, h with
      | [], _ => simp
      | [_], _ => simp
      | [_, _], _ => simp
      | [_, _, _], _ => simp
      | [_, _, _, _], _ => simp
      | [_, _, _, _, _], _ => simp
      | [_, _, _, _, _, _], _ => simp
      | [_, _, _, _, _, _, _], _ => simp
      | [_, _, _, _, _, _, _, _], _ => simp
      | [_, _, _, _, _, _, _, _, _], _ => simp
      | [_, _, _, _, _, _, _, _, _, _], _ => simp
      | [_, _, _, _, _, _, _, _, _, _, _], _ => simp
      | [_, _, _, _, _, _, _, _, _, _, _, _], _ => simp
      | [_, _, _, _, _, _, _, _, _, _, _, _, _], _ => simp
      | [_, _, _, _, _, _, _, _, _, _, _, _, _, _], _ => simp
      | [_, _, _, _, _, _, _, _, _, _, _, _, _, _, _], _ => simp
      | b0 :: b1 :: b2 :: b3 :: b4 :: b5 :: b6 :: b7 :: b8 :: b9 :: b10 :: b11 :: b12 :: b13 :: b14 :: b15 :: rest, h =>
        exact absurd rfl (h b0 b1 b2 b3 b4 b5 b6 b7 b8 b9 b10 b11 b12 b13 b14 b15 rest)
    simp; omega

/-- number of records = ⌊file length / 16⌋ -/
theorem C19_load_count (bs : List Nat) : (loadBook bs).length = bs.length / 16 := by
  rw [C19_load, List.length_map, chunks16_length]

-- best ---------------------------------------------------------------------------------------------
theorem bestAux_spec (es : List BookEntry) (b : BookEntry) :
    (bestAux es b = b ∨ bestAux es b ∈ es) ∧ b.weight ≤ (bestAux es b).weight ∧ ∀ e ∈ es, e.weight ≤ (bestAux es b).weight := by
  induction es generalizing b with
  | nil => simp [bestAux]
  | cons e rest ih =>
    simp only [bestAux]
    split
    · rename_i hlt
      obtain ⟨h1, h2, h3⟩ := ih e
      refine ⟨?_, by omega, ?_⟩
      · rcases h1 with h1 | h1
        · right; rw [h1]; simp
        · right; exact List.mem_cons_of_mem _ h1
      · intro x hx
        rcases List.mem_cons.1 hx with rfl | hx
        · exact h2
        · exact h3 x hx
    · rename_i hnlt
      obtain ⟨h1, h2, h3⟩ := ih b
      refine ⟨?_, h2, ?_⟩
      · rcases h1 with h1 | h1
        · left; exact h1
        · right; exact List.mem_cons_of_mem _ h1
      · intro x hx
        rcases List.mem_cons.1 hx with rfl | hx
        · omega
        · exact h3 x hx

/-- C19 (best): the `best` policy returns one of the recorded moves, of maximal weight -/
theorem C19_best (es : List BookEntry) (b : BookEntry) (h : best es = some b) :
    b ∈ es ∧ ∀ e ∈ es, e.weight ≤ b.weight := by
  match es, h with
  | e :: rest, h =>
    simp only [best, Option.some.injEq] at h
    obtain ⟨h1, h2, h3⟩ := bestAux_spec rest e
    rw [h] at h1 h2 h3
    refine ⟨?_, ?_⟩
    · rcases h1 with h1 | h1
      · rw [h1]; simp
      · exact List.mem_cons_of_mem _ h1
    · intro x hx
      rcases List.mem_cons.1 hx with rfl | hx
      · exact h2
      · exact h3 x hx

-- random ---------------------------------------------------------------------------------------------
def totalWeight (es : List BookEntry) : Nat := (es.map (·.weight)).sum
/-- cumulative weight of the first `i` entries -/
def cum (es : List BookEntry) (i : Nat) : Nat := totalWeight (es.take i)

theorem pickAux_spec (es : List BookEntry) (w sample i0 : Nat) (hw : w ≤ sample) (hs : sample < w + totalWeight es) :
    let i := pickAux es w sample i0
    i0 ≤ i ∧ i - i0 < es.length ∧ w + cum es (i - i0) ≤ sample ∧ sample < w + cum es (i - i0 + 1) := by
  induction es generalizing w i0 with
  | nil => simp [totalWeight] at hs; omega
  | cons e rest ih =>
    simp only [pickAux]
    split
    · rename_i hle
      have hs' : sample < (w + e.weight) + totalWeight rest := by
        simp [totalWeight] at hs ⊢; omega
      obtain ⟨h1, h2, h3, h4⟩ := ih (w + e.weight) (i0 + 1) hle hs'
      have e1 : pickAux rest (w + e.weight) sample (i0 + 1) - i0 = (pickAux rest (w + e.weight) sample (i0 + 1) - (i0 + 1)) + 1 := by omega
      refine ⟨by omega, ?_, ?_, ?_⟩
      · simp only [List.length_cons]; omega
      · rw [e1]; simp only [cum, List.take_succ_cons, totalWeight, List.map_cons, List.sum_cons] at h3 ⊢; omega
      · rw [e1]; simp only [cum, List.take_succ_cons, totalWeight, List.map_cons, List.sum_cons] at h4 ⊢; omega
    · rename_i hnle
      refine ⟨Nat.le_refl _, by simp, ?_, ?_⟩
      · simp [cum, totalWeight]; exact hw
      · simp [cum, totalWeight]; omega

/-- C19 (random): for a residue `r` uniform in [0, total), move `i` is chosen exactly when `r` lies in the i-th
    weight interval [cum i, cum (i+1)) — so each move has probability weight/total … -/
theorem C19_random (es : List BookEntry) (r : Nat) (hr : r < totalWeight es) :
    pick es r < es.length ∧ cum es (pick es r) ≤ r ∧ r < cum es (pick es r + 1) := by
  have := pickAux_spec es 0 r 0 (Nat.zero_le _) (by omega)
  simpa [pick] using this.2

/-- … and a move of weight zero is never chosen -/
theorem cum_succ (es : List BookEntry) (i : Nat) (h : i < es.length) :
    cum es (i + 1) = cum es i + (es.getD i default).weight := by
  induction es generalizing i with
  | nil => simp at h
  | cons e rest ih =>
    cases i with
    | zero => simp [cum, totalWeight]
    | succ j =>
      have hj : j < rest.length := by simpa using h
      have := ih j hj
      simp only [cum, totalWeight, List.take_succ_cons, List.map_cons, List.sum_cons, List.getD_cons_succ] at this ⊢
      omega

theorem C19_random_never_zero (es : List BookEntry) (r : Nat) (hr : r < totalWeight es) :
    0 < (es.getD (pick es r) default).weight := by
  obtain ⟨h1, h2, h3⟩ := C19_random es r hr
  have := cum_succ es (pick es r) h1
  omega

/-- C19 (decode): king-takes-rook (and king-two-squares) book moves from e1/e8 become castling exactly when a
    king of the right colour stands there; everything else is returned as recorded -/
theorem C19_decode (p : Position) (m : Nat) :
    decodeBookMove p m =
      if moveFrom m = 4 ∧ (moveTo m = 7 ∨ moveTo m = 6) ∧ p.at 4 = 6 then kingCastlingMove
      else if moveFrom m = 4 ∧ (moveTo m = 0 ∨ moveTo m = 2) ∧ p.at 4 = 6 then queenCastlingMove
      else if moveFrom m = 60 ∧ (moveTo m = 63 ∨ moveTo m = 62) ∧ p.at 60 = 12 then kingCastlingMove
      else if moveFrom m = 60 ∧ (moveTo m = 56 ∨ moveTo m = 58) ∧ p.at 60 = 12 then queenCastlingMove
      else m := by
  unfold decodeBookMove kingCastlingMove queenCastlingMove
  by_cases h4 : moveFrom m = 4
  · simp [h4]
  · by_cases h60 : moveFrom m = 60
    · simp [h60]
    · simp [h4, h60]

/-- non-vacuity: a two-record file with a trailing partial record, and weights (0, 5) -/
example : (loadBook (List.replicate 16 1 ++ List.replicate 16 2 ++ [9, 9, 9])).length = 2 := by decide
example : pick [⟨1, 10, 0⟩, ⟨1, 11, 5⟩] 0 = 1 := by decide

end Chess.Props
