/-
  Props/C18.lean — PROPERTY C18: opening-book keys follow the Polyglot specification.  Statements only.
  `Spec.random64` is the committed Random64 array (provenance in its header); `Gen.poly*` are the values the
  current build uses, re-extracted on every run — so a changed, swapped or mis-indexed constant breaks `C18_tables`.
-/
import ChessVerif.Model.Polyglot
import ChessVerif.Spec.Keys
import ChessVerif.Lemmas.Key
import ChessVerif.Lemmas.Bridge
namespace Chess.Props

def tablesOK : Bool :=
  ((List.range 12).all fun i => (List.range 64).all fun sq => polyPieceTab (i + 1) sq == Spec.R (Spec.polyPieceIdx (i + 1) sq)) &&
  ((List.range 4).all fun i => Gen.polyCastling.getD i 0 == Spec.R (768 + i)) &&
  ((List.range 8).all fun f => Gen.polyEnpassant.getD f 0 == Spec.R (772 + f)) &&
  Gen.polyTurn == Spec.R 780 && Gen.polyEmptyBlack == 0

theorem tablesOK_true : tablesOK = true := by decide +kernel

/-- C18 (tables): every random the engine XORs is the Polyglot Random64 entry the published format prescribes
    (piece 64·(2·(kind−1)+white) + square, castle 768..771, en passant 772+file, turn 780) -/
theorem C18_tables :
    (∀ pc sq, 1 ≤ pc → pc ≤ 12 → sq < 64 → polyPieceTab pc sq = Spec.R (Spec.polyPieceIdx pc sq)) ∧
    (∀ i, i < 4 → Gen.polyCastling.getD i 0 = Spec.R (768 + i)) ∧
    (∀ f, f < 8 → Gen.polyEnpassant.getD f 0 = Spec.R (772 + f)) ∧ Gen.polyTurn = Spec.R 780 := by
  have h := tablesOK_true
  simp only [tablesOK, Bool.and_eq_true, List.all_eq_true, List.mem_range, beq_iff_eq] at h
  refine ⟨?_, h.1.1.1.2, h.1.1.2, h.1.2⟩
  intro pc sq h1 h2 h3
  have := h.1.1.1.1 (pc - 1) (by omega) sq h3
  have e : pc - 1 + 1 = pc := by omega
  rw [e] at this
  exact this

/-- anchors of the committed array that are known independently of this repository -/
theorem C18_anchors : Spec.R 0 = 0x9D39247E33776D41 ∧ Spec.R 780 = 0xF8D626AAAF278509 ∧ Spec.random64.length = 781 := by decide +kernel

/-- XOR over squares, peeled from the front -/
theorem xorSquares_front (f : Nat → Nat) (n : Nat) : Spec.xorSquares f (n + 1) = f 0 ^^^ Spec.xorSquares (fun s => f (s + 1)) n := by
  induction n with
  | zero => simp [Spec.xorSquares]
  | succ n ih =>
    rw [Spec.xorSquares, ih]
    simp only [Spec.xorSquares]
    ac_rfl

theorem xorFold_eq_squares (f : Nat → Nat → Nat) (l : List Nat) (i : Nat) :
    xorFold f l i = Spec.xorSquares (fun s => f (l.getD s 0) (i + s)) l.length := by
  induction l generalizing i with
  | nil => simp [xorFold, Spec.xorSquares]
  | cons x xs ih =>
    rw [xorFold, List.length_cons, xorSquares_front, ih (i + 1)]
    simp only [List.getD_cons_zero, Nat.add_zero, List.getD_cons_succ]
    congr 2
    funext s
    congr 1
    omega

def fPoly (pc sq : Nat) : Nat := if pc = 0 then 0 else polyPieceTab pc sq

theorem poly_fold (l : List Nat) (acc i : Nat) :
    (l.foldl (fun (a : Nat × Nat) pc => (if pc = 0 then a.1 else a.1 ^^^ polyPieceTab pc a.2, a.2 + 1)) (acc, i)).1 =
      acc ^^^ xorFold fPoly l i := by
  induction l generalizing acc i with
  | nil => simp [xorFold]
  | cons x xs ih =>
    simp only [List.foldl, xorFold]
    rw [ih]
    by_cases hx : x = 0
    · simp [hx, fPoly]
    · simp [hx, fPoly, Nat.xor_assoc]

/-- C18 (piece part, every position): the XOR the engine accumulates over its pieces is the XOR of the published
    piece randoms of all occupied squares — for every 64-square board with piece codes 0..12 -/
theorem C18_pieces (board : List Nat) (hl : board.length = 64) (hp : ∀ s, s < 64 → board.getD s 0 ≤ 12) :
    (board.foldl (fun (a : Nat × Nat) pc => (if pc = 0 then a.1 else a.1 ^^^ polyPieceTab pc a.2, a.2 + 1)) (0, 0)).1 =
      Spec.polyPieces board := by
  rw [poly_fold, Nat.zero_xor, xorFold_eq_squares, hl]
  unfold Spec.polyPieces
  have key : ∀ n, n ≤ 64 → Spec.xorSquares (fun s => fPoly (board.getD s 0) (0 + s)) n =
      Spec.xorSquares (fun s => if Spec.pcAt board s ≠ 0 then Spec.R (Spec.polyPieceIdx (Spec.pcAt board s) s) else 0) n := by
    intro n hn
    induction n with
    | zero => rfl
    | succ n ih =>
      simp only [Spec.xorSquares]
      rw [ih (by omega)]
      congr 1
      unfold fPoly Spec.pcAt
      simp only [Nat.zero_add]
      by_cases h0 : board.getD n 0 = 0
      · rw [if_pos h0, if_neg (by simpa using h0)]
      · rw [if_neg h0, if_pos (by simpa using h0)]
        exact C18_tables.1 _ n (by omega) (hp n (by omega)) (by omega)
  exact key 64 (Nat.le_refl _)

/-- C18 (key, positions without an en-passant square): the engine's book key equals the published definition -/
theorem C18_key_noep (p : Position) (hl : p.board.length = 64) (hp : ∀ s, s < 64 → p.board.getD s 0 ≤ 12) (he : p.ep = 64) :
    polyKey p = Spec.polyKey ⟨p.board, p.side, p.castling, p.ep, p.halfmove, 1⟩ := by
  unfold polyKey Spec.polyKey
  simp only [he]
  rw [C18_pieces p.board hl hp]
  have hc := C18_tables.2.1
  have c0 := hc 0 (by decide); have c1 := hc 1 (by decide); have c2 := hc 2 (by decide); have c3 := hc 3 (by decide)
  simp only [Nat.add_zero] at c0
  rw [c0, c1, c2, c3, C18_tables.2.2.2]
  simp [Spec.polyEpApplies, W_OO, W_OOO, B_OO, B_OOO]

/-- for every ep square on ranks 3..6 and either side: the attack set of the ep square seen from the other side is the
    pair of squares beside the pushed pawn (clipped at the board edge) -/
def epAttackersOK : Bool :=
  (List.range 32).all fun i => (List.range 2).all fun side =>
    let ep := 16 + i
    let pushed := if side = 0 then ep - 8 else ep + 8
    pawnAttacks (1 - side) (sqBB ep) ==
      ((if ep % 8 ≠ 0 then sqBB (pushed - 1) else 0) ||| (if ep % 8 ≠ 7 then sqBB (pushed + 1) else 0))

theorem epAttackersOK_true : epAttackersOK = true := by decide +kernel

theorem epAttackers (ep side : Nat) (h1 : 16 ≤ ep) (h2 : ep < 48) (hs : side ≤ 1) :
    pawnAttacks (1 - side) (sqBB ep) =
      ((if ep % 8 ≠ 0 then sqBB ((if side = 0 then ep - 8 else ep + 8) - 1) else 0) |||
       (if ep % 8 ≠ 7 then sqBB ((if side = 0 then ep - 8 else ep + 8) + 1) else 0)) := by
  have h := epAttackersOK_true
  simp only [epAttackersOK, List.all_eq_true, List.mem_range, beq_iff_eq] at h
  have := h (ep - 16) (by omega) side (by omega)
  have e : 16 + (ep - 16) = ep := by omega
  rw [e] at this
  exact this

/-- the engine's bit-level adjacency test is the coordinate definition of "a pawn of the side to move stands beside the
    pushed pawn" -/
theorem epClause (board : List Nat) (side ep : Nat) (hl : board.length = 64) (hs : side ≤ 1) (h1 : 16 ≤ ep) (h2 : ep < 48) :
    ((pawnAttacks (1 - side) (sqBB ep) &&& bbOfPiece board (mkPiece side PAWN)) ≠ 0) ↔
      Spec.polyEpApplies ⟨board, side, 0, ep, 0, 1⟩ = true := by
  rw [epAttackers ep side h1 h2 hs, or_and_ne_zero]
  generalize hpu : (if side = 0 then ep - 8 else ep + 8) = pushed
  have hp8 : 8 ≤ pushed ∧ pushed < 56 ∧ pushed % 8 = ep % 8 := by
    rw [← hpu]; split <;> omega
  have hpawn : mkPiece side PAWN = Spec.mkPc side 1 := by simp [mkPiece, Spec.mkPc, PAWN]
  -- left neighbour
  have left : ((if ep % 8 ≠ 0 then sqBB (pushed - 1) else 0) &&& bbOfPiece board (mkPiece side PAWN) ≠ 0) ↔
      (ep % 8 ≠ 0 ∧ board.getD (pushed - 1) 0 = mkPiece side PAWN) := by
    by_cases h : ep % 8 ≠ 0
    · rw [if_pos h, sqBB_and_ne_zero, bbOfPiece_testBit]
      simp [hl, h]; omega
    · rw [if_neg h]; simp [h]
  have right : ((if ep % 8 ≠ 7 then sqBB (pushed + 1) else 0) &&& bbOfPiece board (mkPiece side PAWN) ≠ 0) ↔
      (ep % 8 ≠ 7 ∧ board.getD (pushed + 1) 0 = mkPiece side PAWN) := by
    by_cases h : ep % 8 ≠ 7
    · rw [if_pos h, sqBB_and_ne_zero, bbOfPiece_testBit]
      simp [hl, h]; omega
    · rw [if_neg h]; simp [h]
  rw [left, right]
  -- the coordinate side
  unfold Spec.polyEpApplies
  simp only [hpu, Bool.and_eq_true, decide_eq_true_eq, List.any_cons, List.any_nil, Bool.or_false, Bool.or_eq_true]
  have hne : ep ≠ 64 := by omega
  have sqL : ep % 8 ≠ 0 → Spec.sqOf (Spec.fileI pushed - 1) (Spec.rankI pushed) = pushed - 1 := by
    intro h; unfold Spec.sqOf Spec.fileI Spec.rankI; omega
  have sqR : Spec.sqOf (Spec.fileI pushed + 1) (Spec.rankI pushed) = pushed + 1 := by
    unfold Spec.sqOf Spec.fileI Spec.rankI; omega
  have obL : Spec.onBoard (Spec.fileI pushed - 1) (Spec.rankI pushed) = true ↔ ep % 8 ≠ 0 := by
    unfold Spec.onBoard Spec.fileI Spec.rankI
    simp only [Bool.and_eq_true, decide_eq_true_eq]; omega
  have obR : Spec.onBoard (Spec.fileI pushed + 1) (Spec.rankI pushed) = true ↔ ep % 8 ≠ 7 := by
    unfold Spec.onBoard Spec.fileI Spec.rankI
    simp only [Bool.and_eq_true, decide_eq_true_eq]; omega
  rw [obL, obR, sqR, ← hpawn]
  constructor
  · rintro (⟨a, b⟩ | ⟨a, b⟩)
    · exact ⟨hne, Or.inl ⟨a, by rw [sqL a]; exact b⟩⟩
    · exact ⟨hne, Or.inr ⟨a, b⟩⟩
  · rintro ⟨_, (⟨a, b⟩ | ⟨a, b⟩)⟩
    · exact Or.inl ⟨a, by rw [sqL a] at b; exact b⟩
    · exact Or.inr ⟨a, b⟩

/-- C18 (key, full): for every position — with or without an en-passant square — the engine's book key equals the
    published definition: pieces, the four castling rights, the en-passant file exactly when a pawn of the side to move
    stands beside the pushed pawn, and the turn -/
theorem C18_key (p : Position) (hl : p.board.length = 64) (hp : ∀ s, s < 64 → p.board.getD s 0 ≤ 12) (hs : p.side ≤ 1)
    (he : p.ep = 64 ∨ (16 ≤ p.ep ∧ p.ep < 48)) :
    polyKey p = Spec.polyKey ⟨p.board, p.side, p.castling, p.ep, p.halfmove, 1⟩ := by
  rcases he with he | he
  · exact C18_key_noep p hl hp he
  · have hne : p.ep ≠ 64 := by omega
    have hcl := epClause p.board p.side p.ep hl hs he.1 he.2
    have happ : Spec.polyEpApplies ⟨p.board, p.side, p.castling, p.ep, p.halfmove, 1⟩ = Spec.polyEpApplies ⟨p.board, p.side, 0, p.ep, 0, 1⟩ := rfl
    unfold polyKey Spec.polyKey
    simp only []
    rw [C18_pieces p.board hl hp, happ]
    have hc := C18_tables.2.1
    have c0 := hc 0 (by decide); have c1 := hc 1 (by decide); have c2 := hc 2 (by decide); have c3 := hc 3 (by decide)
    simp only [Nat.add_zero] at c0
    have hef := C18_tables.2.2.1 (fileOf p.ep) (by unfold fileOf; omega)
    rw [c0, c1, c2, c3, C18_tables.2.2.2, hef, if_pos hne]
    by_cases hx : (pawnAttacks (1 - p.side) (sqBB p.ep) &&& bbOfPiece p.board (mkPiece p.side PAWN)) ≠ 0
    · rw [if_pos hx, if_pos (hcl.1 hx)]
      simp [W_OO, W_OOO, B_OO, B_OOO, fileOf]
    · have : ¬ Spec.polyEpApplies ⟨p.board, p.side, 0, p.ep, 0, 1⟩ = true := fun h => hx (hcl.2 h)
      rw [if_neg hx, if_neg this]
      simp [W_OO, W_OOO, B_OO, B_OOO]

end Chess.Props
