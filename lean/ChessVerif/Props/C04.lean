/-
  Props/C04.lean — PROPERTY C04: the position key is a function of the position, not of its history.
  Statements only; everything is for an ARBITRARY Zobrist table T (hence for every process).
-/
import ChessVerif.Lemmas.Key
namespace Chess.Props

/-- positions the engine can reach: loaded from a FEN, then any sequence of moves (whose piece operations are the
    engine's own: `MoveOK`, true of every generated move and checked on the implementation side) and null moves -/
inductive Reach (T : ZTable) : Position → Prop
  | fen (s : String) : Reach T (ofFen T s)
  | move (p : Position) (m : Nat) : Reach T p → MoveOK p m → Reach T (doMove T p m).1
  | null (p : Position) : Reach T p → p.side ≤ 1 → Reach T (doNull T p).1

/-- C04 (incremental = from scratch): along every history the incrementally maintained key components equal the
    key computed from scratch from (placement, side to move, castling rights, en-passant square) -/
theorem C04_key_inv (T : ZTable) (p : Position) (h : Reach T p) : p.hash = scratch T p.board p.side p.castling p.ep := by
  induction h with
  | fen s => exact keyOK_ofFen T s
  | move p m _ ok ih => exact keyOK_doMove T p m ih ok
  | null p _ hs ih => exact keyOK_doNull T p ih hs

/-- and the from-scratch key is what `HashKey::init` computes -/
theorem C04_scratch_is_init (T : ZTable) (board : List Nat) (side castling ep : Nat) :
    HashKey.init T board side castling ep = scratch T board side castling ep := init_eq T board side castling ep

/-- C04 (history independence): two reachable positions with the same four components have the same 64-bit key
    (and the same pawn key), whatever move orders, null moves or FENs led to them -/
theorem C04_same_pos_same_key (T : ZTable) (p q : Position) (hp : Reach T p) (hq : Reach T q)
    (hb : p.board = q.board) (hs : p.side = q.side) (hc : p.castling = q.castling) (he : p.ep = q.ep) :
    p.hash.key = q.hash.key ∧ p.hash.pawnK = q.hash.pawnK := by
  have h1 := C04_key_inv T p hp
  have h2 := C04_key_inv T q hq
  rw [h1, h2, hb, hs, hc, he]
  exact ⟨rfl, rfl⟩

/-- pawns-only view of a board -/
def pawnsOf (board : List Nat) : List Nat := board.map (fun pc => if kindOf pc = PAWN then pc else 0)

theorem xorFold_pawns (T : ZTable) (board : List Nat) (i : Nat) :
    xorFold (fPawn T) board i = xorFold (fPawn T) (pawnsOf board) i := by
  induction board generalizing i with
  | nil => rfl
  | cons x xs ih =>
    simp only [pawnsOf, List.map_cons, xorFold]
    rw [show List.map (fun pc => if kindOf pc = PAWN then pc else 0) xs = pawnsOf xs from rfl, ← ih]
    congr 1
    by_cases h : kindOf x = PAWN
    · simp [h]
    · have h0 : kindOf 0 ≠ PAWN := by decide
      simp [fPawn, h, h0]

/-- C04 (pawn key): the pawn key depends on the pawn placement only -/
theorem C04_pawn_key (T : ZTable) (p q : Position) (hp : Reach T p) (hq : Reach T q)
    (h : pawnsOf p.board = pawnsOf q.board) : p.hash.pawnK = q.hash.pawnK := by
  rw [C04_key_inv T p hp, C04_key_inv T q hq]
  show xorFold (fPawn T) p.board 0 = xorFold (fPawn T) q.board 0
  rw [xorFold_pawns T p.board, xorFold_pawns T q.board, h]

/-- the "different positions get different keys up to 64-bit collisions" half, kept visible: the key of a position is
    the XOR of the table cells of its features, so two keys differ unless a non-empty XOR of distinct cells vanishes.
    (Not proved as a theorem; the check verifies on the engine's own tables that cells are non-zero and pairwise
    distinct and that keys are injective on all visited positions.) -/
def C04_diff_Statement : Prop :=
  ∀ (T : ZTable) (p q : Position), Reach T p → Reach T q →
    (p.board, p.side, p.castling, p.ep) ≠ (q.board, q.side, q.castling, q.ep) →
    p.hash.key = q.hash.key → ∃ cells : List Nat, cells ≠ [] ∧ cells.foldl (· ^^^ ·) 0 = 0

/-- non-vacuity: the start position is reachable, and e2-e4 satisfies MoveOK there -/
example (T : ZTable) : Reach T (ofFen T startFen) := Reach.fen startFen

end Chess.Props
