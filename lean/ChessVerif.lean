import ChessVerif.Model.Basic
import ChessVerif.Model.Types
import ChessVerif.Model.Tables
import ChessVerif.Model.Position
import ChessVerif.Model.Movegen
import ChessVerif.Model.Text
import ChessVerif.Spec.Attacks
