#!/bin/bash
# usage: tools/seedverify.sh <seed dir with patch.diff, demo.*, run.txt> <scratch worktree>
# Confirms: clean tree -> demo passes; patched -> builds, unitTests pass, demo fails.  Prints one summary line.
sd=$1; wt=$2
cd $wt && git checkout -q -- . && git clean -fdq -e _build
build() { (cmake -G Ninja -B _build -DFETCHCONTENT_FULLY_DISCONNECTED=ON -DFETCHCONTENT_SOURCE_DIR_GOOGLETEST=/usr/src/googletest >/dev/null 2>&1; cmake --build _build >/dev/null 2>&1); }
rundemo() {
  # run.txt holds the command(s); substitute common placeholders for the tree path
  (cd $sd && bash -c "$(cat $sd/run.txt)" >/tmp/seedverify.$$.log 2>&1); echo $?
}
build || { echo "$sd: CLEAN BUILD FAILED"; exit 1; }
clean_rc=$(rundemo)
git apply $sd/patch.diff || { echo "$sd: APPLY FAILED"; exit 1; }
build; brc=$?
tests=$(cd _build && ./unitTests 2>&1 | grep -E "PASSED|FAILED" | tr '\n' ' ')
patched_rc=$(rundemo)
git checkout -q -- .
echo "$sd: clean_demo_rc=$clean_rc patched_build_rc=$brc tests=[$tests] patched_demo_rc=$patched_rc"
rm -f /tmp/seedverify.$$.log
