#!/usr/bin/env python3
"""vcheck.py <property-id> [--tier quick|thorough] [--replay <file>]

One check per property.  Every run:
  1. rebuilds the C++ harness from the CURRENT /repo working tree (hooks on, ASan+UBSan),
  2. re-extracts Gen/*.lean from that build and re-checks the Lean theorems of the property (lake build),
  3. audits the Lean sources (no sorry/admit/axiom/native_decide/...) and `#print axioms` of the property's theorems,
  4. runs the correspondence: the same generated scenarios through the real code, the Lean model (M) and the
     Lean specification (S), and diffs the observables the property owns,
  5. when 2 or 4 fails, hunts for a concrete failing input (spec vs implementation) and reports
     `VIOLATION property=<id> replay=<path>` (ending `no-failing-input-found` when only the tie/proof broke),
  6. writes evidence/<id>.json.
"""
import argparse, json, os, random, re, subprocess, sys, tempfile, time, traceback
from concurrent.futures import ThreadPoolExecutor

sys.path.insert(0, os.path.dirname(os.path.abspath(__file__)))
import vbuild
from vbuild import VERIF, REPO, CACHE, LEAN, NPROC

REPLAYS = os.path.join(VERIF, 'replays')
EVIDENCE = os.path.join(VERIF, 'evidence')
KNOWN = os.path.join(VERIF, 'known_findings.txt')


# ----------------------------------------------------------------------------- running both sides
def run_cpp(exe, text, args=('run',), timeout=3600, env_extra=None):
    env = dict(os.environ)
    env['ASAN_OPTIONS'] = 'detect_leaks=0:abort_on_error=0:exitcode=77'
    env['UBSAN_OPTIONS'] = 'print_stacktrace=1:halt_on_error=1:exitcode=78'
    if env_extra:
        env.update(env_extra)
    p = subprocess.run([exe] + list(args), input=text, stdout=subprocess.PIPE, stderr=subprocess.PIPE, text=True,
                       timeout=timeout, env=env, errors='replace')
    return p.returncode, p.stdout.splitlines(), p.stderr


def run_lean(drv, text, timeout=3600):
    p = subprocess.run([drv, 'run'], input=text, stdout=subprocess.PIPE, stderr=subprocess.PIPE, text=True, errors='replace', timeout=timeout)
    M, S = [], []
    for l in p.stdout.splitlines():
        if l.startswith('M '):
            M.append(l[2:])
        elif l.startswith('S '):
            S.append(l[2:])
        else:  # comment / blank line echoed once
            M.append(l)
            S.append(l)
    return p.returncode, M, S, p.stderr


def lean_gen(drv, args, timeout=3600):
    p = subprocess.run([drv, 'gen'] + [str(a) for a in args], stdout=subprocess.PIPE, stderr=subprocess.PIPE, text=True, errors='replace', timeout=timeout)
    if p.returncode != 0:
        raise RuntimeError('leandrv gen failed: ' + p.stderr[-2000:])
    return p.stdout


def split_games(text):
    """split a play scenario into chunks that each start with the ztab line and whole games"""
    lines = text.splitlines()
    head = [l for l in lines[:1] if l.startswith('ztab')]
    games, cur = [], []
    for l in lines[len(head):]:
        if l.startswith('pos ') and cur:
            games.append(cur)
            cur = []
        cur.append(l)
    if cur:
        games.append(cur)
    return head, games


def chunked(head, games, n):
    n = max(1, min(n, len(games)))
    chunks = [[] for _ in range(n)]
    for i, g in enumerate(games):
        chunks[i % n].append(g)
    return ['\n'.join(head + [l for g in c for l in g]) + '\n' for c in chunks if c]


# ----------------------------------------------------------------------------- projections
def parse_state(line):
    d = {}
    for kv in line.split('|'):
        if '=' in kv:
            k, v = kv.split('=', 1)
            d[k] = v
    return d


def parse_moves(line):
    """moves n=.. dup=.. uci:code:san:cqk:pp ...  ->  header dict + list of dict"""
    toks = line.split(' ')
    hdr = {'kind': toks[0]}
    rows = []
    for t in toks[1:]:
        if t.startswith('n=') or t.startswith('dup='):
            k, v = t.split('=')
            hdr[k] = v
        elif ':' in t:
            f = (t.split(':') + ['?'] * 5)[:5]     # a malformed row (text forms broken by the tree under test) must show up as a difference
            rows.append({'uci': f[0], 'code': f[1], 'san': f[2], 'cqk': f[3], 'pp': f[4]})
        else:
            rows.append({'uci': t})
    return hdr, rows


FEN6 = lambda f: f  # all six fields


def proj_state(fields):
    def p(line, side):
        if not ('|' in line and line.startswith('fen=')):
            return None
        d = parse_state(line)
        return '|'.join(f'{k}={d.get(k)}' for k in fields)
    return p


def proj_moves(keys, header=True):
    def p(line, side):
        if not (line.startswith('moves ') or line.startswith('gen ')):
            return None
        hdr, rows = parse_moves(line)
        out = []
        if header:
            out.append(f"n={hdr.get('n')} dup={hdr.get('dup')}")
        for r in rows:
            out.append(':'.join(r.get(k, '') for k in keys if not (k == 'san' and False)))
        return ' '.join(out)
    return p


def proj_perft(line, side):
    return line if line.startswith('perft ') else None


def proj_any(*ps):
    def p(line, side):
        for q in ps:
            v = q(line, side)
            if v is not None:
                return v
        return None
    return p


# ----------------------------------------------------------------------------- check context
class Ctx:
    def __init__(self, pid, tier, seed):
        self.pid = pid
        self.tier = tier
        self.seed = seed
        self.t0 = time.time()
        self.violations = []      # dicts: what, replay, concrete(bool)
        self.known_hits = []
        self.notes = []
        self.cov = {'evaluations': 0, 'distinct_nontrivial': 0, 'samples': [], 'rule': ''}
        self.obligations = []     # (theorem, axioms or None)
        self.theorem_failures = []
        self.distinct = set()
        self.branch = {}
        self.exe = None
        self.drv = None
        self.assumptions = []
        self.trusted = []

    def count(self, k, n=1):
        self.branch[k] = self.branch.get(k, 0) + n


def write_replay(ctx, name, text):
    os.makedirs(REPLAYS, exist_ok=True)
    path = os.path.join(REPLAYS, f'{ctx.pid}-{name}-{ctx.seed}.txt')
    open(path, 'w').write(text)
    return path


def load_known():
    known, fixed = [], []
    if os.path.exists(KNOWN):
        for l in open(KNOWN):
            l = l.strip()
            if l.startswith('known:'):
                known.append(l[6:].strip())
            elif l.startswith('fixed:'):
                fixed.append(l[6:].strip())
    return known, fixed


def known_match(pid, ident):
    """a known finding line: property=<id> match=<regex on the violation's identifying text> <description>"""
    known, _ = load_known()
    for k in known:
        m = re.match(r'property=(\S+)\s+match=(\S+)\s*(.*)', k)
        if m and m.group(1) == pid and re.search(m.group(2), ident):
            return m.group(3) or k
    return None


def report_violation(ctx, what, replay_text, concrete, ident=''):
    kf = known_match(ctx.pid, ident or what)
    if kf:
        ctx.known_hits.append(kf)
        return
    name = 'v%d' % (len(ctx.violations) + 1)
    header = f'# property {ctx.pid}: {what}\n# concrete-failing-input: {"yes" if concrete else "no"}\n'
    path = write_replay(ctx, name, header + replay_text)
    ctx.violations.append({'what': what, 'replay': path, 'concrete': concrete})


# ----------------------------------------------------------------------------- build + proofs
def prepare(ctx, theorems):
    """steps 1-3.  theorems: list of (module, [names]).  Returns False if the proof side failed."""
    ctx.exe, _ = vbuild.build_harness('san')
    ctx.caps = vbuild.gen_lean(ctx.exe)
    ok_all = True
    mods = [m for m, _ in theorems]
    ok, out, dt = vbuild.lake_build(mods + ['leandrv'])
    ctx.lake_s = dt
    if not ok:
        ok_all = False
        # which modules failed?
        failed = re.findall(r'^- (\S+)', out, re.M)
        ctx.theorem_failures.append({'modules': failed, 'log': out[-3000:]})
        # the driver may still build (model intact, only a theorem over Gen data broke)
        ok2, out2, _ = vbuild.lake_build(['leandrv'])
        if not ok2:
            raise RuntimeError('lean driver does not build:\n' + out2[-4000:])
    ctx.drv = os.path.join(LEAN, '.lake', 'build', 'bin', 'leandrv')
    hits = vbuild.audit_sources()
    if hits:
        ok_all = False
        ctx.theorem_failures.append({'audit': hits})
    # thorough tier: the property's theorem modules are re-checked by the toolchain's independent checker
    if getattr(ctx, 'tier', 'quick') == 'thorough' and ok:
        for mod in mods:
            okc, outc, dtc = vbuild.leanchecker(mod)
            ctx.count('leanchecker_modules', 1)
            if not okc:
                ok_all = False
                ctx.theorem_failures.append({'modules': [mod], 'log': 'leanchecker: ' + outc[-2000:]})
    for mod, names in theorems:
        if not names:
            continue
        if any(mod in f.get('modules', []) for f in ctx.theorem_failures):
            for n in names:
                ctx.obligations.append((n, None))
            continue
        res, txt = vbuild.print_axioms(mod, names)
        for n in names:
            ax = res.get(n)
            ctx.obligations.append((n, ax))
            if ax is None or any(a not in vbuild.ALLOWED_AXIOMS for a in ax):
                ok_all = False
                ctx.theorem_failures.append({'theorem': n, 'axioms': ax, 'log': txt[-1500:] if ax is None else ''})
    return ok_all


# ----------------------------------------------------------------------------- generic three-way diff
def three_way(ctx, scen_chunks, proj, label, max_report=2, spec_proj=None, nontrivial=None):
    """run each chunk through C++, model, spec; compare the property's projection.
    Within one game (pos ... next pos) only the FIRST differing op counts: later ones are consequences.
    Returns (mdiffs, sdiffs)."""
    spec_proj = spec_proj or proj

    def work(text):
        rc, C, err = run_cpp(ctx.exe, text)
        rl, M, S, lerr = run_lean(ctx.drv, text)
        return text, rc, C, err, rl, M, S, lerr

    mdiffs, sdiffs = [], []
    with ThreadPoolExecutor(max_workers=NPROC) as ex:
        for text, rc, C, err, rl, M, S, lerr in ex.map(work, scen_chunks):
            ops = text.splitlines()
            if rl != 0:
                raise RuntimeError('leandrv failed: ' + lerr[-2000:])
            n = min(len(C), len(M), len(S), len(ops))
            diverged = False
            for i in range(n):
                if ops[i].startswith('pos '):
                    diverged = False
                pc = proj(C[i], 'C')
                if pc is None:
                    continue
                ctx.cov['evaluations'] += 1
                if nontrivial is None or nontrivial(ops[i], C[i]):
                    ctx.distinct.add(hash(pc))
                if diverged:
                    continue
                pm = proj(M[i], 'M')
                ps = spec_proj(S[i], 'S')
                pcs = spec_proj(C[i], 'C')
                if pcs != ps:
                    diverged = True
                    if len(sdiffs) < 50:
                        sdiffs.append((text, i, C[i], M[i], S[i]))
                elif pc != pm:
                    diverged = True
                    if len(mdiffs) < 50:
                        mdiffs.append((text, i, C[i], M[i], S[i]))
            if rc != 0:
                # sanitizer abort or crash: the op after the last printed line is the culprit
                i = len(C)
                first = [l for l in err.strip().splitlines() if 'ERROR' in l or 'runtime error' in l or 'SUMMARY' in l]
                sdiffs.append((text, i, f'CRASH rc={rc}: ' + ((first or err.strip().splitlines() or ['?'])[0][:300]), M[i] if i < len(M) else '', S[i] if i < len(S) else ''))
                ctx.count('cpp_crash')
            if len(ctx.cov['samples']) < 3 and n > 3:
                ctx.cov['samples'].append({'op': ops[min(2, n - 1)], 'cpp': C[min(2, n - 1)][:300]})
    ctx.count('spec_vs_impl_diffs', len(sdiffs))
    ctx.count('model_vs_impl_diffs', len(mdiffs))
    for text, i, c, m, s in sdiffs[:max_report]:
        rep = minimise(ctx, text, i, spec_proj, 'S')
        report_violation(ctx, f'{label}: implementation disagrees with the specification',
                         rep + f'\n# cpp  : {c}\n# spec : {s}\n# model: {m}\n', True, ident=rep + c)
    if not sdiffs:
        for text, i, c, m, s in mdiffs[:max_report]:
            rep = minimise(ctx, text, i, proj, 'M')
            report_violation(ctx, f'{label}: correspondence model<->implementation broken (the specification agrees with the implementation on this input); no-failing-input-found',
                             rep + f'\n# cpp  : {c}\n# model: {m}\n# spec : {s}\n# broken tie: correspondence of the Lean model for "{label}"\n', False, ident=rep + c)
    return mdiffs, sdiffs


def differs(ctx, text, proj, which):
    """does the LAST op of `text` still show a difference between C++ and side `which` (M or S)?"""
    try:
        rc, C, err = run_cpp(ctx.exe, text, timeout=600)
        rl, M, S, _ = run_lean(ctx.drv, text, timeout=600)
    except Exception:
        return False
    ops = text.splitlines()
    i = len(ops) - 1
    if rc != 0 and len(C) <= i:
        return True
    if i >= len(C) or i >= len(M):
        return False
    other = M if which == 'M' else S
    return proj(C[i], 'C') != proj(other[i], which)


def strip_excursions(ops):
    """remove balanced do^n undo^n / null undo groups (they leave the game position unchanged)"""
    out = []
    for op in ops:
        if op == 'undo' and out and (out[-1].startswith('do ') or out[-1] == 'null'):
            out.pop()
        else:
            out.append(op)
    return out


def minimise(ctx, text, idx, proj, which):
    """shrink the failing scenario: (1) the game containing op idx, cut after it; (2) a history-free replay from
    the FEN before the op; (3) the game prefix without excursions; each candidate is kept only if it still fails."""
    ops = text.splitlines()
    idx = min(idx, len(ops) - 1)
    start = 0
    for j in range(idx, -1, -1):
        if ops[j].startswith('pos '):
            start = j
            break
    head = [l for l in ops[:1] if l.startswith('ztab')]
    cut = head + ops[start:idx + 1]
    best = '\n'.join(cut) + '\n'
    try:
        rc, C, err = run_cpp(ctx.exe, '\n'.join(head + ops[start:idx]) + '\n', timeout=600)
        prev = [l for l in C if l.startswith('fen=')]
        if prev and not ops[idx].startswith('undo'):
            fen = parse_state(prev[-1])['fen']
            cand = '\n'.join(head + ['pos ' + fen, ops[idx]]) + '\n'
            if differs(ctx, cand, proj, which):
                return cand
        stripped = head + [ops[start]] + strip_excursions(ops[start + 1:idx]) + [ops[idx]]
        # moves/gen/state probes before the last op are irrelevant
        stripped2 = [o for o in stripped[:-1] if not o.startswith(('moves', 'gen', 'state', 'raw'))] + [stripped[-1]]
        for cand_ops in (stripped2, stripped):
            cand = '\n'.join(cand_ops) + '\n'
            if len(cand_ops) < len(cut) and differs(ctx, cand, proj, which):
                return cand
    except Exception:
        pass
    return best


# ----------------------------------------------------------------------------- evidence
def finish(ctx, level, theorems_expected, explanation, checker_cmd):
    os.makedirs(EVIDENCE, exist_ok=True)
    ctx.cov['distinct_nontrivial'] = len(ctx.distinct)
    discharged = sum(1 for _, ax in ctx.obligations if ax is not None and all(a in vbuild.ALLOWED_AXIOMS for a in ax))
    cov = dict(ctx.cov)
    cov.update({
        'obligations': len(ctx.obligations),
        'discharged': discharged,
        'checker_cmd': checker_cmd,
        'trusted_base': ctx.trusted,
        'theorems': [{'name': n, 'axioms': ax} for n, ax in ctx.obligations],
        'explanation': explanation,
        'branches': ctx.branch,
        'known_findings_hit': ctx.known_hits,
        'theorem_failures': [{k: (v if k != 'log' else v[-600:]) for k, v in f.items()} for f in ctx.theorem_failures],
        'notes': ctx.notes,
    })
    if not cov['samples']:
        cov['samples'] = [{'note': 'no sample captured'}]
    if level == 'proof' and (len(ctx.obligations) == 0 or discharged == 0):
        # nothing proved on this run (no theorem registered yet, or every obligation failed): a correspondence run only
        level = 'translation_validation'
    if level == 'translation_validation':
        cov.setdefault('programs', max(1, cov['evaluations']))
        cov.setdefault('disagreements_checked', len(ctx.violations))
    ev = {
        'property_id': ctx.pid, 'tier': ctx.tier, 'seed': ctx.seed, 'level': level, 'coverage': cov,
        'assumptions': ctx.assumptions, 'wall_s': round(time.time() - ctx.t0, 2), 'violations': len(ctx.violations),
    }
    json.dump(ev, open(os.path.join(EVIDENCE, ctx.pid + '.json'), 'w'), indent=1)
    for k in ctx.known_hits:
        print(f'KNOWN-FINDING: property={ctx.pid} {k}')
    for v in ctx.violations:
        tail = '' if v['concrete'] else ' no-failing-input-found'
        print(f"VIOLATION property={ctx.pid} replay={v['replay']}{tail}")
    print(f"[{ctx.pid}] tier={ctx.tier} seed={ctx.seed} evaluations={cov['evaluations']} distinct={cov['distinct_nontrivial']} "
          f"theorems={discharged}/{len(ctx.obligations)} violations={len(ctx.violations)} wall={ev['wall_s']}s")
    return 1 if ctx.violations else 0


def main():
    ap = argparse.ArgumentParser()
    ap.add_argument('pid')
    ap.add_argument('--tier', default=os.environ.get('VERIF_TIER', 'quick'))
    ap.add_argument('--replay')
    a = ap.parse_args()
    seed = int(os.environ.get('VERIF_SEED', '1'))
    tier = a.tier if a.tier in ('quick', 'thorough') else 'quick'
    import vprops
    ctx = Ctx(a.pid, tier, seed)
    try:
        if a.replay:
            rc = vprops.replay(ctx, a.replay)
        else:
            rc = vprops.CHECKS[a.pid](ctx)
    except vbuild.SanitizerAtInit as e:
        # not an infrastructure problem: the tree under test corrupts memory (or has UB) before the first command is read
        os.makedirs(REPLAYS, exist_ok=True)
        path = os.path.join(REPLAYS, f'{a.pid}-init-{ctx.seed}.txt')
        concrete = a.pid == 'C10'
        with open(path, 'w') as fh:
            fh.write(f'# property {a.pid}: the engine aborts under the sanitizer during initialisation (harness `cppdrv dump`, no input needed)\n'
                     f'# concrete-failing-input: {"yes" if concrete else "no: the model cannot be tied to this build (Gen/*.lean cannot be regenerated)"}\n' + str(e) + '\n')
        print(f'VIOLATION property={a.pid} replay={path}' + ('' if concrete else ' no-failing-input-found'))
        try:
            ctx.cov['rule'] = 'initialisation aborted under the sanitizer; nothing else could be explored'
            ctx.violations = getattr(ctx, 'violations', 0) + 1
            finish(ctx, 'proof', [], 'sanitizer abort during engine initialisation', 'python3 tools/vcheck.py ' + a.pid)
        except Exception:
            pass
        sys.exit(1)
    except vbuild.TieBroken as e:
        # the tree changed in a way the harness cannot follow: the property is no longer shown to hold (no failing input known)
        os.makedirs(REPLAYS, exist_ok=True)
        path = os.path.join(REPLAYS, f'{a.pid}-tie-{ctx.seed}.txt')
        with open(path, 'w') as fh:
            fh.write(f'# property {a.pid}: the correspondence check cannot be run against this tree\n# concrete-failing-input: no\n'
                     f'# broken obligation: correspondence C++ <-> model (the C++ side does not build)\n' + str(e) + '\n')
        print(f'VIOLATION property={a.pid} replay={path} no-failing-input-found')
        try:
            ctx.cov['rule'] = 'the harness does not build against the tree under test; nothing could be explored'
            ctx.violations = [{'what': 'harness does not build against this tree', 'replay': path, 'concrete': False}]
            finish(ctx, 'proof', [], 'correspondence broken: harness does not build', 'python3 tools/vcheck.py ' + a.pid)
        except Exception:
            pass
        sys.exit(1)
    except Exception as e:
        traceback.print_exc()
        # an infrastructure failure is not evidence of anything: fail loudly without a VIOLATION line
        print(f'[{a.pid}] INFRASTRUCTURE ERROR: {e}', file=sys.stderr)
        sys.exit(2)
    sys.exit(rc)


if __name__ == '__main__':
    main()
