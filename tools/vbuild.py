#!/usr/bin/env python3
"""Build plumbing shared by all checks: harness objects from the CURRENT /repo tree (content-hashed cache),
Gen/*.lean re-extraction, lake build, axiom audit."""
import fcntl, hashlib, json, os, re, shutil, subprocess, sys, time

VERIF = os.path.dirname(os.path.dirname(os.path.abspath(__file__)))
REPO = os.environ.get('VERIF_REPO', '/repo')
CACHE = os.path.join(VERIF, '.cache')
LEAN = os.path.join(VERIF, 'lean')
HARNESS = os.path.join(VERIF, 'harness')
GUARD = 'CHESSPP_VERIF'
NPROC = os.cpu_count() or 4

CXX = 'g++'
BASE_FLAGS = ['-std=c++20', '-DNDEBUG', '-DLOG_LEVEL=0', '-D' + GUARD, '-pthread']
SAN_FLAGS = ['-O1', '-g', '-fsanitize=address,undefined', '-fno-sanitize-recover=all', '-fno-omit-frame-pointer']
TSAN_FLAGS = ['-O1', '-g', '-fsanitize=thread']
FAST_FLAGS = ['-O2']


class TieBroken(Exception):
    """the harness (or the engine objects it links) does not build from the tree under test: the correspondence cannot be run"""


class Lock:
    def __init__(self, name):
        os.makedirs(CACHE, exist_ok=True)
        self.path = os.path.join(CACHE, name + '.lock')

    def __enter__(self):
        self.f = open(self.path, 'w')
        fcntl.flock(self.f, fcntl.LOCK_EX)
        return self

    def __exit__(self, *a):
        fcntl.flock(self.f, fcntl.LOCK_UN)
        self.f.close()


def sha(*parts):
    h = hashlib.sha1()
    for p in parts:
        h.update(p if isinstance(p, bytes) else p.encode())
        h.update(b'\0')
    return h.hexdigest()[:16]


def read(path):
    with open(path, 'rb') as f:
        return f.read()


def engine_sources():
    d = os.path.join(REPO, 'engine')
    cpps = sorted(f for f in os.listdir(d) if f.endswith('.cpp') and f != 'main.cpp')
    hdrs = sorted(f for f in os.listdir(d) if f.endswith('.h'))
    return d, cpps, hdrs


def run(cmd, **kw):
    return subprocess.run(cmd, stdout=subprocess.PIPE, stderr=subprocess.STDOUT, text=True, errors='replace', **kw)


def harness_features():
    """internals of the engine that the harness reads directly, probed in the source text: a refactoring that removes one of them
    switches the corresponding part of the harness off (the checks that need it then report their tie as broken) instead of
    breaking the compilation of the whole harness"""
    d = os.path.join(REPO, 'engine')

    def has(fname, pat):
        try:
            return re.search(pat, open(os.path.join(d, fname)).read()) is not None
        except OSError:
            return False
    feats = []
    if has('movegen.h', r'\bMAX_PINS\b') or has('movegen.cpp', r'\bMAX_PINS\b'):
        feats.append('VH_MAX_PINS')
    if has('movegen.h', r'\bMOVE_LIST\b'):
        feats.append('VH_MOVE_LIST')
    if has('search.cpp', r'\bint\s+late_move_reduction\s*\(\s*Depth\b[^)]*,\s*int\b[^)]*\)'):
        feats.append('VH_LMR_FN')
    if has('time_manager.cpp', r'\bdouble\s+importance\s*\(\s*double\s+\w+\s*\)'):
        feats.append('VH_IMPORTANCE_FN')
    if has('polyglot.h', r'\b_hashmap\b'):
        feats.append('VH_BOOK_HASHMAP')
    return feats


def build_harness(flavour='san'):
    """Compile engine/*.cpp (minus main.cpp) from the current working tree + harness/cppdrv.cpp.
    Returns (path_to_binary, log).  Raises RuntimeError with the compiler output on failure."""
    flags = BASE_FLAGS + {'san': SAN_FLAGS, 'tsan': TSAN_FLAGS, 'fast': FAST_FLAGS, 'vg': ['-O1', '-g']}[flavour]
    hflags = ['-D' + f for f in harness_features()]
    d, cpps, hdrs = engine_sources()
    hdr_hash = sha(*[read(os.path.join(d, h)) for h in hdrs], *hdrs)
    inc = os.path.join(CACHE, 'inc')
    os.makedirs(inc, exist_ok=True)
    cfg = os.path.join(inc, 'chessplusplusConfig.h')
    cfg_txt = '#define ENGINE_NAME "chessplusplus"\n#define CHESSPLUSPLUS_VERSION "verif"\n'
    if not os.path.exists(cfg) or open(cfg).read() != cfg_txt:
        open(cfg, 'w').write(cfg_txt)
    objdir = os.path.join(CACHE, 'obj')
    os.makedirs(objdir, exist_ok=True)
    with Lock('build-' + flavour):
        jobs = []
        objs = []
        for c in cpps:
            src = os.path.join(d, c)
            key = sha(read(src), hdr_hash, ' '.join(flags), flavour)
            obj = os.path.join(objdir, f'{c[:-4]}.{flavour}.{key}.o')
            objs.append(obj)
            if not os.path.exists(obj):
                cmd = [CXX] + flags + ['-I', d, '-I', inc, '-c', src, '-o', obj + '.tmp']
                jobs.append((obj, subprocess.Popen(cmd, stdout=subprocess.PIPE, stderr=subprocess.STDOUT, text=True, errors='replace')))
        log = ''
        for obj, p in jobs:
            out, _ = p.communicate()
            log += out
            if p.returncode != 0:
                raise TieBroken('engine source does not compile with the verification flags:\n' + out[-4000:])
            os.replace(obj + '.tmp', obj)
        hsrc = sorted(os.listdir(HARNESS))
        hkey = sha(*[read(os.path.join(HARNESS, f)) for f in hsrc], *[os.path.basename(o) for o in objs], ' '.join(flags + hflags))
        exe = os.path.join(CACHE, f'cppdrv.{flavour}.{hkey}')
        if not os.path.exists(exe):
            cmd = [CXX] + flags + hflags + ['-I', d, '-I', inc, '-I', HARNESS, os.path.join(HARNESS, 'cppdrv.cpp')] + objs + ['-o', exe + '.tmp']
            r = run(cmd)
            log += r.stdout
            if r.returncode != 0:
                raise TieBroken('the harness (harness/cppdrv.cpp) does not compile or link against this tree — an internal it reads has changed:\n' + r.stdout[-6000:])
            os.replace(exe + '.tmp', exe)
        # bound the cache: drop objects/binaries not used for a day when there are many
        prune(objdir, 200)
        prune(CACHE, 12, prefix='cppdrv.')
        return exe, log


def build_engine(flavour='san'):
    """the engine binary itself: engine/main.cpp (its own initialisation order and `Uci` construction) linked with the same
    objects as the harness.  Used for UCI sessions that must not depend on the harness' main()."""
    flags = BASE_FLAGS + {'san': SAN_FLAGS, 'tsan': TSAN_FLAGS, 'fast': FAST_FLAGS, 'vg': ['-O1', '-g']}[flavour]
    build_harness(flavour)          # makes sure the engine objects of the current tree exist
    d, cpps, hdrs = engine_sources()
    hdr_hash = sha(*[read(os.path.join(d, h)) for h in hdrs], *hdrs)
    inc = os.path.join(CACHE, 'inc')
    objdir = os.path.join(CACHE, 'obj')
    with Lock('build-' + flavour):
        objs = []
        for c in cpps:
            key = sha(read(os.path.join(d, c)), hdr_hash, ' '.join(flags), flavour)
            objs.append(os.path.join(objdir, f'{c[:-4]}.{flavour}.{key}.o'))
        msrc = os.path.join(d, 'main.cpp')
        ekey = sha(read(msrc), hdr_hash, *[os.path.basename(o) for o in objs], ' '.join(flags))
        exe = os.path.join(CACHE, f'engine.{flavour}.{ekey}')
        if not os.path.exists(exe):
            r = run([CXX] + flags + ['-I', d, '-I', inc, msrc] + objs + ['-o', exe + '.tmp'])
            if r.returncode != 0:
                raise RuntimeError('engine link failed:\n' + r.stdout[-4000:])
            os.replace(exe + '.tmp', exe)
        prune(CACHE, 6, prefix='engine.')
        return exe


def prune(directory, keep, prefix=''):
    try:
        fs = [os.path.join(directory, f) for f in os.listdir(directory) if f.startswith(prefix) and os.path.isfile(os.path.join(directory, f)) and not f.endswith('.lock')]
        if len(fs) <= keep:
            return
        fs.sort(key=lambda p: os.path.getmtime(p))
        for p in fs[:len(fs) - keep]:
            try:
                os.remove(p)
            except OSError:
                pass
    except OSError:
        pass


def extract_local_caps():
    """Two capacities that are local to function bodies are read from the source text; if the pattern is not
    found the tie is reported broken (None) rather than guessed."""
    caps = {}
    s = open(os.path.join(REPO, 'engine', 'search.cpp')).read()
    m = re.search(r'Move\s+previous_moves\s*\[\s*MAX_DEPTH\s*\+\s*(\d+)\s*\]', s)
    caps['PREVIOUS_MOVES_PLUS'] = int(m.group(1)) if m else None
    p = open(os.path.join(REPO, 'engine', 'position.cpp')).read()
    m = re.search(r'std::array<\s*Move\s*,\s*([A-Za-z_0-9]+)\s*>\s*moves\s*;', p)
    caps['SAN_ARRAY'] = m.group(1) if m else None
    m = re.search(r'SAN_REGEX\s*=\s*std::regex\(\s*"((?:[^"\\]|\\.)*)"\s*\)', p)
    caps['SAN_REGEX'] = m.group(1) if m else None
    return caps


class SanitizerAtInit(Exception):
    """the engine's own initialisation (tables, bitbase, evaluator set-up) aborts under ASan/UBSan"""


def gen_lean(exe):
    """Tie (i): re-extract the data the model uses from the binary built from the current tree."""
    with Lock('gen'):
        r = run([exe, 'dump'])
        if r.returncode != 0 or 'END' not in r.stdout:
            if 'ERROR: AddressSanitizer' in r.stdout or 'runtime error:' in r.stdout or 'LeakSanitizer' in r.stdout:
                raise SanitizerAtInit(r.stdout[-4000:])
            raise RuntimeError('dump failed:\n' + r.stdout[-3000:])
        caps = extract_local_caps()
        dump = r.stdout
        lines = dump.splitlines()
        consts = dict((l.split()[0], l.split()[1:]) for l in lines if l.split())
        extra = []
        if caps['PREVIOUS_MOVES_PLUS'] is not None:
            extra.append('PREVIOUS_MOVES_CAP %d' % (int(consts['MAX_DEPTH'][0]) + caps['PREVIOUS_MOVES_PLUS']))
        if caps['SAN_ARRAY'] is not None:
            v = caps['SAN_ARRAY']
            extra.append('SAN_ARRAY_CAP %s' % (consts[v][0] if v in consts else v))
        extra.append('HISTORY_CAP %s' % consts['MAX_PLIES'][0])
        dump = '\n'.join(lines[:-1] + extra + ['END']) + '\n'
        path = os.path.join(CACHE, 'dump.txt')
        open(path, 'w').write(dump)
        sys.path.insert(0, os.path.join(VERIF, 'tools'))
        import gen_lean as G
        G.main(path, os.path.join(LEAN, 'ChessVerif', 'Gen'))
        return caps


def lake_build(targets, timeout=3600):
    with Lock('lake'):
        t0 = time.time()
        r = run(['lake', 'build'] + list(targets), cwd=LEAN, timeout=timeout)
        return r.returncode == 0, r.stdout, time.time() - t0


def leanchecker(module, timeout=3600):
    """independent re-check of the compiled module (one module per call)"""
    with Lock('lake'):
        t0 = time.time()
        r = run(['lake', 'env', 'leanchecker', module], cwd=LEAN, timeout=timeout)
        return r.returncode == 0, r.stdout, time.time() - t0


def leandrv():
    ok, out, dt = lake_build(['leandrv'])
    if not ok:
        raise RuntimeError('leandrv build failed:\n' + out[-6000:])
    return os.path.join(LEAN, '.lake', 'build', 'bin', 'leandrv')


FORBIDDEN = re.compile(r'\b(sorry|admit|native_decide|implemented_by|unsafe)\b|^\s*axiom\s|maxHeartbeats\s+0|bv_decide')


def strip_comments(src):
    # remove /- ... -/ (nesting-aware) and -- ... comments
    out = []
    i = 0
    depth = 0
    n = len(src)
    while i < n:
        if src.startswith('/-', i):
            depth += 1
            i += 2
        elif depth and src.startswith('-/', i):
            depth -= 1
            i += 2
        elif depth:
            i += 1
        elif src.startswith('--', i):
            while i < n and src[i] != '\n':
                i += 1
        else:
            out.append(src[i])
            i += 1
    return ''.join(out)


def audit_sources():
    """grep the hand-written Lean sources for escape hatches (comments stripped)."""
    hits = []
    for root, _, files in os.walk(os.path.join(LEAN, 'ChessVerif')):
        for f in files:
            if f.endswith('.lean'):
                p = os.path.join(root, f)
                txt = strip_comments(open(p).read())
                for ln, line in enumerate(txt.splitlines(), 1):
                    if FORBIDDEN.search(line):
                        hits.append(f'{os.path.relpath(p, LEAN)}:{ln}:{line.strip()[:100]}')
    for f in ['Driver.lean']:
        p = os.path.join(LEAN, f)
        if os.path.exists(p):
            txt = strip_comments(open(p).read())
            for ln, line in enumerate(txt.splitlines(), 1):
                if re.search(r'\b(sorry|admit|native_decide)\b|^\s*axiom\s', line):
                    hits.append(f'{f}:{ln}:{line.strip()[:100]}')
    return hits


ALLOWED_AXIOMS = {'propext', 'Classical.choice', 'Quot.sound'}


def print_axioms(module, theorems):
    """Run `#print axioms` on each theorem; returns {thm: [axioms]} or raises."""
    src = f'import {module}\n' + ''.join(f'#print axioms {t}\n' for t in theorems)
    tmp = os.path.join(CACHE, f'axioms_{module.replace(".", "_")}_{os.getpid()}.lean')
    open(tmp, 'w').write(src)
    try:
        r = run(['lake', 'env', 'lean', tmp], cwd=LEAN, timeout=1200)
    finally:
        try:
            os.remove(tmp)
        except OSError:
            pass
    res = {}
    txt = r.stdout
    for t in theorems:
        m = re.search(r"'" + re.escape(t) + r"' depends on axioms: \[([^\]]*)\]", txt, re.S)
        if m:
            res[t] = [a.strip() for a in m.group(1).replace('\n', ' ').split(',') if a.strip()]
        elif re.search(r"'" + re.escape(t) + r"' does not depend on any axioms", txt):
            res[t] = []
        else:
            res[t] = None
    return res, txt
