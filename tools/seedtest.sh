#!/bin/bash
# usage: tools/seedtest.sh <patch.diff> <PID> [more PIDs...]  — apply a seeded change to /repo, run the checks, undo,
# and regenerate lean/ChessVerif/Gen from the restored tree (so that a later plain `lake build` sees the clean data).
patch=$(readlink -f "$1"); shift
cd /repo && git apply "$patch" || { echo "APPLY FAILED"; exit 3; }
cd /verif
for pid in "$@"; do
  python3 tools/vcheck.py $pid --tier quick 2>&1 | grep -E "VIOLATION|KNOWN|^\[|ERROR" | head -6
done
cd /repo && git checkout -- . && git status --short | grep -v _build
cd /verif && python3 -c "
import sys; sys.path.insert(0,'tools')
import vbuild
exe,_=vbuild.build_harness('san'); vbuild.gen_lean(exe)" >/dev/null 2>&1
