"""Drive the real two-thread UCI front end (cppdrv uci) through pipes with the search thread parked at a chosen
schedule point (VERIF_PARK), so that `stop`/`isready` arrive at a known point of the search thread's progress."""
import os, subprocess, threading, time


def session(exe, fen, park, go='go infinite', stop_delay=0.0, wait=6.0, extra_env=None, isready_during=True, stop_on_park=False, kill_at_end=False, stop_on_info=0):
    """returns dict: bestmoves (list of (t, line)), readyok_t, stop_t, parked, stderr, lines"""
    env = dict(os.environ)
    env['ASAN_OPTIONS'] = 'detect_leaks=0'
    env['TSAN_OPTIONS'] = 'halt_on_error=0 report_signal_unsafe=0'
    if park:
        env['VERIF_PARK'] = '%d:%d:%d' % park
    if extra_env:
        env.update(extra_env)
    p = subprocess.Popen([exe, 'uci'], stdin=subprocess.PIPE, stdout=subprocess.PIPE, stderr=subprocess.PIPE, text=True, errors='replace', env=env, bufsize=1)
    lines, errs = [], []
    t0 = time.time()

    def rd():
        for l in p.stdout:
            lines.append((time.time() - t0, l.rstrip('\n')))

    def rde():
        for l in p.stderr:
            errs.append((time.time() - t0, l.rstrip('\n')))
    th = threading.Thread(target=rd, daemon=True); th.start()
    the = threading.Thread(target=rde, daemon=True); the.start()

    dead = []

    def send(s):
        try:
            p.stdin.write(s + '\n'); p.stdin.flush()
        except Exception as e:
            dead.append(str(e))
    send('position fen ' + fen)
    if stop_on_info:
        # reactive: the stop is sent the moment the k-th `info … pv` line appears, i.e. while the search thread is between
        # finishing an iteration and deciding about the next one
        send(go)
        lim = time.time() + 8.0
        while time.time() < lim and sum(1 for _, l in lines if l.startswith('info') and ' pv ' in l) < stop_on_info:
            time.sleep(0.0005)
        send('stop')
        stop_t = time.time() - t0
    elif stop_on_park:
        send(go)
        lim = time.time() + 4.0
        while time.time() < lim and not any(l.startswith('PARKED') for _, l in errs):
            time.sleep(0.005)
        time.sleep(0.02)
        send('stop')
        stop_t = time.time() - t0
    elif stop_delay <= 0:
        # go and stop back to back, as in `printf 'go infinite\nstop\n'`
        send(go + '\nstop')
        stop_t = time.time() - t0
    else:
        send(go)
        time.sleep(stop_delay)
        send('stop')
        stop_t = time.time() - t0
    ready_sent = None
    if isready_during:
        send('isready'); ready_sent = time.time() - t0
    deadline = time.time() + wait
    while time.time() < deadline:
        if any(l.startswith('bestmove') for _, l in lines):
            break
        time.sleep(0.01)
    time.sleep(0.15)   # a second bestmove would show up here
    if kill_at_end:
        # no `quit`: process teardown (Uci destroyed while the detached thread may still exist) is not the stop handshake
        time.sleep(0.3)
        p.kill()
    try:
        send('quit')
        p.stdin.close()
    except Exception:
        pass
    try:
        p.wait(timeout=5)
    except subprocess.TimeoutExpired:
        p.kill()
    th.join(timeout=1); the.join(timeout=1)
    best = [(t, l) for t, l in lines if l.startswith('bestmove')]
    ready = [t for t, l in lines if l.startswith('readyok')]
    parked = [t for t, l in errs if l.startswith('PARKED')]
    return {'bestmoves': best, 'readyok_t': ready[0] if ready else None, 'ready_sent': ready_sent, 'stop_t': stop_t,
            'parked_t': parked[0] if parked else None, 'stderr': '\n'.join(l for _, l in errs), 'rc': p.returncode,
            'infos': sum(1 for _, l in lines if l.startswith('info')), 'dead': dead}


def go_again_session(exe, fen, park_ms=500, wait=8.0):
    """`go depth 1`; the search thread is parked right after its `bestmove` line has been written (VERIF_PARK=8:1:ms); the moment the
    bestmove is visible the GUI sends the next `position` and `go depth 1`: that second `go` must be answered too."""
    env = dict(os.environ)
    env['ASAN_OPTIONS'] = 'detect_leaks=0'
    env['VERIF_PARK'] = '8:1:%d' % park_ms
    p = subprocess.Popen([exe, 'uci'], stdin=subprocess.PIPE, stdout=subprocess.PIPE, stderr=subprocess.PIPE, text=True, errors='replace', env=env, bufsize=1)
    lines, errs = [], []
    t0 = time.time()

    def rd():
        for l in p.stdout:
            lines.append((time.time() - t0, l.rstrip('\n')))

    def rde():
        for l in p.stderr:
            errs.append((time.time() - t0, l.rstrip('\n')))
    th = threading.Thread(target=rd, daemon=True); th.start()
    the = threading.Thread(target=rde, daemon=True); the.start()

    def send(s):
        try:
            p.stdin.write(s + '\n'); p.stdin.flush()
        except Exception:
            pass
    send('position fen ' + fen)
    send('go depth 1')
    lim = time.time() + wait
    while time.time() < lim and not any(l.startswith('bestmove') for _, l in lines):
        time.sleep(0.001)
    first = sum(1 for _, l in lines if l.startswith('bestmove'))
    t_first = next((t for t, l in lines if l.startswith('bestmove')), None)
    send('position fen ' + fen)
    send('go depth 1')
    # the second search is the same search: give it the time the first one took on this machine under this load, several times over
    lim = time.time() + max(wait, 6.0 * (t_first or 0.0) + 4.0)
    while time.time() < lim and sum(1 for _, l in lines if l.startswith('bestmove')) < 2:
        time.sleep(0.005)
    time.sleep(0.2)
    send('quit')
    try:
        p.stdin.close()
        p.wait(timeout=5)
    except Exception:
        p.kill()
    th.join(timeout=1); the.join(timeout=1)
    return {'first': first, 't_first': t_first, 'bestmoves': [l for _, l in lines if l.startswith('bestmove')], 'parked': any('afterbest' in l for _, l in errs),
            'stderr': '\n'.join(l for _, l in errs)}
