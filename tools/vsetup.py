#!/usr/bin/env python3
"""MANIFEST.setup_cmd: build everything from files on disk (offline): harness from /repo, Gen/*.lean, the whole Lean
library (all theorems) and the compiled driver."""
import os, sys, time
sys.path.insert(0, os.path.dirname(os.path.abspath(__file__)))
import vbuild
t0 = time.time()
exe, _ = vbuild.build_harness('san')
print('harness', exe, round(time.time() - t0, 1), 's', flush=True)
vbuild.gen_lean(exe)
ok, out, dt = vbuild.lake_build(['ChessVerif', 'leandrv'], timeout=7200)
print(out[-3000:])
print('lake build', 'ok' if ok else 'FAILED', round(dt, 1), 's')
sys.exit(0 if ok else 1)
